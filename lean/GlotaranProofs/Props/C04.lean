/-
C04 — decay matrices are the solution of the compartmental rate equations.
Property theorems about the definitions of `GlotaranModel/C04.lean` (the ones the driver executes),
instantiated at `ℝ` (analytic statements) or at an arbitrary field (algebraic statements).
`NormedSpace.exp (t • toMat n K) *ᵥ j` is `exp(K t) j`.
-/
import GlotaranProofs.Lemmas.C04Multi
import Mathlib.Tactic.IntervalCases
import Mathlib.Tactic.NormNum
import Mathlib.Tactic.LinearCombination
namespace Glotaran.C04

open Matrix

/-! ## the eigen-decomposition path -/

/-- **General path.**  Whatever `eig` / `solve` returned: if the eigen certificate `K V = V diag λ`
and the solve certificate `V g = j` hold (entrywise, as the driver checks them), the concentration
terms built from `rates = −λ` and `A = (V diag g)ᵀ` evaluate to `exp(K t) j`, for every `t` and every
compartment.  No invertibility of `V`, no distinctness of `λ` is needed beyond the certificates. -/
theorem general_solves (n : ℕ) (K V : ℕ → ℕ → ℝ) (lam : List ℝ) (g : ℕ → ℝ) (j : List ℝ)
    (hlen : lam.length = n)
    (hKV : ∀ i < n, ∀ l < n, matMulAt n K V i l = V i l * listFn lam l)
    (hg : ∀ i < n, mulVecAt n V g i = listFn j i)
    (t : ℝ) (c : ℕ) (hc : c < n) :
    evalTerm (concTerm (lam.map fun x => -x) (aGeneralAt V g) t c)
      = (NormedSpace.exp (t • toMat n K) *ᵥ toVec n (listFn j)) ⟨c, hc⟩ := by
  rw [evalTerm_concTerm, List.length_map, hlen,
    matrix_general_solves (toMat n K) (toMat n V) (toVec n (listFn lam)) (toVec n g)
      (toVec n (listFn j)) (toMat_eigen n K V _ hKV) (toMat_solve n V g _ hg) t ⟨c, hc⟩,
    Finset.sum_range]
  apply Finset.sum_congr rfl
  intro l _
  simp [aGeneralAt, toMat, toVec, listFn_map_neg]

/-- a two-compartment chain `s1 →(2) s2 →(1)` started in both compartments, with its exact
eigen-decomposition: the hypotheses of `general_solves` are satisfiable on a non-diagonal system -/
def exK : ℕ → ℕ → ℝ := fun i j => if i = 0 ∧ j = 0 then -2 else if i = 1 ∧ j = 0 then 2 else if i = 1 ∧ j = 1 then -1 else 0
def exV : ℕ → ℕ → ℝ := fun i l => if i = 0 ∧ l = 0 then 1 else if i = 1 ∧ l = 0 then -2 else if i = 1 ∧ l = 1 then 1 else 0

example : (∀ i < 2, ∀ l < 2, matMulAt 2 exK exV i l = exV i l * listFn [-2, -1] l)
    ∧ (∀ i < 2, mulVecAt 2 exV (listFn [1/2, 3/2]) i = listFn [1/2, 1/2] i) := by
  constructor
  · intro i hi l hl
    interval_cases i <;> interval_cases l <;>
      norm_num [matMulAt, exK, exV, listFn, List.range_succ]
  · intro i hi
    interval_cases i <;> norm_num [mulVecAt, exV, listFn, List.range_succ]

/-- `scipy.linalg.eig` normalises eigenvectors arbitrarily: rescaling the columns of `V` (any
factors `s`, even zero ones that `solve` survives) does not change the A-matrix. -/
theorem a_matrix_scale_invariant {F : Type} [Field F] (n : ℕ) (V W : ℕ → ℕ → F) (s g g' j : ℕ → F)
    (hW : ∀ i < n, ∀ k < n, matMulAt n W V i k = if i = k then 1 else 0)
    (hg : ∀ i < n, mulVecAt n V g i = j i)
    (hg' : ∀ i < n, mulVecAt n (fun i l => V i l * s l) g' i = j i)
    (l c : ℕ) (hl : l < n) :
    aGeneralAt (fun i l => V i l * s l) g' l c = aGeneralAt V g l c := by
  have h1 := left_inverse_recovers n W V g hW l hl
  have h2 := left_inverse_recovers n W V (fun k => s k * g' k) hW l hl
  have h3 : ∀ i ∈ Finset.range n, mulVecAt n V (fun k => s k * g' k) i = mulVecAt n V g i := by
    intro i hi
    rw [hg i (Finset.mem_range.mp hi), ← hg' i (Finset.mem_range.mp hi), mulVecAt_eq, mulVecAt_eq]
    apply Finset.sum_congr rfl
    intro k _
    ring
  have h4 : s l * g' l = g l := by
    rw [h1, h2]
    exact Finset.sum_congr rfl (fun i hi => by rw [h3 i hi])
  simp only [aGeneralAt]
  rw [mul_assoc, h4]

example : (∀ i < 2, ∀ k < 2, matMulAt 2 (fun i k => if i = k then (1 : ℚ) else 0)
      (fun i k => if i = k then 1 else 0) i k = if i = k then 1 else 0)
    ∧ (∀ i < 2, mulVecAt 2 (fun i k => if i = k then (1 : ℚ) else 0) (fun _ => 1 / 2) i = 1 / 2)
    ∧ (∀ i < 2, mulVecAt 2 (fun i l => (if i = l then (1 : ℚ) else 0) * 4) (fun _ => 1 / 8) i = 1 / 2) := by
  refine ⟨?_, ?_, ?_⟩
  · intro i hi k hk
    interval_cases i <;> interval_cases k <;> norm_num [matMulAt, List.range_succ]
  · intro i hi
    interval_cases i <;> norm_num [mulVecAt, List.range_succ]
  · intro i hi
    interval_cases i <;> norm_num [mulVecAt, List.range_succ]

/-! ## the full K-matrix is the generator of the rate equations -/

/-- **`KMatrix.full` is the compartmental rate equation.**  Row `i` of `K c` is: every transfer
`from → i` feeds `k · c_from`, every entry leaving `i` (transfer or loss channel) removes `k · c_i`. -/
theorem full_is_rate_equation {F : Type} [Field F] (n : ℕ) (es : List (Entry F)) (c : ℕ → F)
    (hf : ∀ e ∈ es, e.frm < n) (i : ℕ) :
    mulVecAt n (fullAt es) c i
      = (es.map fun e => (if i = e.to ∧ e.to ≠ e.frm then e.val * c e.frm else 0)
          - (if i = e.frm then e.val * c e.frm else 0)).sum := by
  rw [mulVecAt_eq]
  induction es with
  | nil => simp [fullAt_nil]
  | cons e es ih =>
    simp only [fullAt_cons, add_mul, Finset.sum_add_distrib, List.map_cons, List.sum_cons]
    rw [ih (fun e' he' => hf e' (List.mem_cons_of_mem _ he')),
      sum_fullStep_mul n i e c (hf e List.mem_cons_self)]

example : mulVecAt 2 (fullAt [⟨1, 0, (2 : ℚ)⟩, ⟨1, 1, 1⟩]) (fun c => if c = 0 then 3 else 5) 1 = 2 * 3 - 1 * 5 := by
  norm_num [mulVecAt, fullAt, fullStep, List.range_succ]

/-- without loss channel (no diagonal dictionary entry) every column of the full matrix sums to 0 -/
theorem full_colsum_zero_of_no_loss {F : Type} [Field F] (n : ℕ) (es : List (Entry F))
    (h : ∀ e ∈ es, e.to < n ∧ e.frm < n ∧ e.to ≠ e.frm) (j : ℕ) :
    ∑ i ∈ Finset.range n, fullAt es i j = 0 := by
  induction es with
  | nil => simp [fullAt_nil]
  | cons e es ih =>
    simp only [fullAt_cons, Finset.sum_add_distrib]
    obtain ⟨ht, hf, hne⟩ := h e List.mem_cons_self
    rw [ih (fun e' he' => h e' (List.mem_cons_of_mem _ he')), sum_fullStep_col n j e ht hf hne]
    simp

example : ∑ i ∈ Finset.range 2, fullAt [⟨1, 0, (2 : ℚ)⟩, ⟨0, 1, 3⟩] i 0 = 0 := by
  norm_num [fullAt, fullStep, Finset.sum_range_succ]

/-- **Conservation.**  If every column of `K` sums to zero, the total population under `exp(K t)`
is constant — for every `K`, diagonalisable or not. -/
theorem population_conserved (n : ℕ) (K : ℕ → ℕ → ℝ)
    (h : ∀ j < n, ∑ i ∈ Finset.range n, K i j = 0) (v : ℕ → ℝ) (t : ℝ) :
    ∑ c, (NormedSpace.exp (t • toMat n K) *ᵥ toVec n v) c = ∑ c ∈ Finset.range n, v c := by
  rw [matrix_population_conserved (toMat n K) (fun j => by
    have := h j j.2
    rw [Finset.sum_range] at this
    exact this) (toVec n v) t, Finset.sum_range]
  rfl

/-- the closed reversible pair `s1 ⇄ s2` (rates 2, 3) has zero column sums -/
example : ∀ j < 2, ∑ i ∈ Finset.range 2, fullAt [⟨1, 0, (2 : ℝ)⟩, ⟨0, 1, 3⟩] i j = 0 := by
  intro j hj
  interval_cases j <;> norm_num [fullAt, fullStep, Finset.sum_range_succ]

/-- conservation for what the model prints: a dictionary without loss channel and a certified
eigen-decomposition give concentration terms whose sum over the compartments is `Σ j` at every time -/
theorem population_conserved_model (n : ℕ) (es : List (Entry ℝ)) (V : ℕ → ℕ → ℝ) (lam : List ℝ)
    (g : ℕ → ℝ) (j : List ℝ)
    (hes : ∀ e ∈ es, e.to < n ∧ e.frm < n ∧ e.to ≠ e.frm)
    (hlen : lam.length = n)
    (hKV : ∀ i < n, ∀ l < n, matMulAt n (fullAt es) V i l = V i l * listFn lam l)
    (hg : ∀ i < n, mulVecAt n V g i = listFn j i) (t : ℝ) :
    ∑ c ∈ Finset.range n, evalTerm (concTerm (lam.map fun x => -x) (aGeneralAt V g) t c)
      = ∑ c ∈ Finset.range n, listFn j c := by
  rw [← population_conserved n (fullAt es) (fun j _ => full_colsum_zero_of_no_loss n es hes j)
    (listFn j) t, Finset.sum_range]
  apply Finset.sum_congr rfl
  intro c _
  exact general_solves n (fullAt es) V lam g j hlen hKV hg t c c.2

/-- the hypotheses of `population_conserved_model` hold for `s1 ⇄ s2` with its spectrum `{0, −5}` -/
example : (∀ e ∈ [(⟨1, 0, 2⟩ : Entry ℝ), ⟨0, 1, 3⟩], e.to < 2 ∧ e.frm < 2 ∧ e.to ≠ e.frm)
    ∧ (∀ i < 2, ∀ l < 2, matMulAt 2 (fullAt [⟨1, 0, (2 : ℝ)⟩, ⟨0, 1, 3⟩])
        (fun i l => if l = 0 then (if i = 0 then 3 else 2) else (if i = 0 then 1 else -1)) i l
        = (fun i l => if l = 0 then (if i = 0 then (3 : ℝ) else 2) else (if i = 0 then 1 else -1)) i l * listFn [0, -5] l)
    ∧ (∀ i < 2, mulVecAt 2 (fun i l => if l = 0 then (if i = 0 then (3 : ℝ) else 2) else (if i = 0 then 1 else -1))
        (listFn [1/5, 2/5]) i = listFn [1, 0] i) := by
  refine ⟨?_, ?_, ?_⟩
  · intro e he
    simp at he
    rcases he with rfl | rfl <;> simp
  · intro i hi l hl
    interval_cases i <;> interval_cases l <;> norm_num [matMulAt, fullAt, fullStep, listFn, List.range_succ]
  · intro i hi
    interval_cases i <;> norm_num [mulVecAt, listFn, List.range_succ]

/-! ## parallel decays -/

/-- a diagonal K (independent decays `k c`) gives `c_c(t) = j_c · exp(−k_c t)` -/
theorem parallel_solves (n : ℕ) (K : ℕ → ℕ → ℝ) (k : ℕ → ℝ)
    (hK : ∀ i < n, ∀ j < n, K i j = if i = j then - k i else 0) (v : ℕ → ℝ) (t : ℝ) (c : ℕ)
    (hc : c < n) :
    (NormedSpace.exp (t • toMat n K) *ᵥ toVec n v) ⟨c, hc⟩ = v c * Real.exp (- k c * t) := by
  have : toMat n K = diagonal (toVec n fun i => - k i) := by
    ext a b
    simp only [toMat, Matrix.of_apply, hK a a.2 b b.2, diagonal_apply, toVec, Fin.ext_iff]
  rw [this, matrix_exp_diagonal_mulVec]
  rfl

example : (∀ i < 2, ∀ j < 2, (fullAt [⟨0, 0, (2 : ℝ)⟩, ⟨1, 1, 1⟩]) i j
    = if i = j then - (listFn [2, 1] i) else 0) := by
  intro i hi j hj
  interval_cases i <;> interval_cases j <;> norm_num [fullAt, fullStep, listFn]

/-! ## the closed-form (unibranched) path -/

/-- `K` restricted to `n` compartments is a chain: `K[c,c] = −k_c`, `K[c+1,c] = k_c`, nothing else -/
def IsChain (n : ℕ) (K : ℕ → ℕ → ℝ) : Prop :=
  ∀ c < n, ∀ m < n, K c m = if m = c then K c c else if m + 1 = c then - K m m else 0

/-- **Recurrence** of the product formula `a_matrix_sequential` (`r m` is the diagonal of the full
K-matrix): `a[i,j+1]·(r_{j+1} − r_i) = r_j·a[i,j]` for `i ≤ j`. -/
theorem sequential_recurrence {F : Type} [Field F] (r : ℕ → F) (i j : ℕ) (hij : i ≤ j)
    (hne : r (j + 1) ≠ r i) :
    aSeqAt r i (j + 1) * (r (j + 1) - r i) = r j * aSeqAt r i j :=
  aSeq_recurrence r i j hij hne

example : aSeqAt (fun m => if m = 0 then (-2 : ℚ) else -1) 0 1 * ((-1) - (-2)) = (-2) * aSeqAt (fun m => if m = 0 then (-2 : ℚ) else -1) 0 0 := by
  norm_num [aSeqAt, List.range_succ]

/-- **Initial value** (Lagrange identity): the coefficients of compartment `c` sum to `δ_{c0}`,
i.e. `c(0) = e₀`, for pairwise distinct rates. -/
theorem sequential_initial {F : Type} [Field F] (r : ℕ → F) (n c : ℕ) (hc : c < n)
    (hinj : ∀ a < n, ∀ b < n, r a = r b → a = b) :
    ∑ i ∈ Finset.range n, aSeqAt r i c = if c = 0 then 1 else 0 := by
  have hsub : Finset.range (c + 1) ⊆ Finset.range n := Finset.range_subset_range.mpr (by omega)
  rw [← Finset.sum_subset hsub (fun i _ hi => aSeqAt_of_lt r (by
    have := Finset.mem_range.not.mp hi; omega))]
  apply aSeq_colsum
  intro a ha b hb hab
  exact hinj a (by have := Finset.mem_range.mp (Finset.mem_coe.mp ha); omega) b
    (by have := Finset.mem_range.mp (Finset.mem_coe.mp hb); omega) hab

example : ∑ i ∈ Finset.range 2, aSeqAt (fun m => if m = 0 then (-2 : ℚ) else -1) i 1 = 0 := by
  norm_num [aSeqAt, List.range_succ, Finset.sum_range_succ]

/-- the rows of the sequential A-matrix are eigenvectors of the chain: with `V[c,l] = a[l,c]`,
`K V = V diag(r)` -/
theorem sequential_eigen (n : ℕ) (K : ℕ → ℕ → ℝ) (hK : IsChain n K)
    (hinj : ∀ a < n, ∀ b < n, K a a = K b b → a = b) (c : ℕ) (hc : c < n) (l : ℕ) (hl : l < n) :
    matMulAt n K (fun c l => aSeqAt (fun m => K m m) l c) c l
      = aSeqAt (fun m => K m m) l c * K l l := by
  rw [matMulAt_eq]
  have hrow : ∀ m ∈ Finset.range n, K c m * aSeqAt (fun m => K m m) l m
      = (if m = c then K c c * aSeqAt (fun m => K m m) l c else 0)
        + (if m + 1 = c then - K m m * aSeqAt (fun m => K m m) l m else 0) := by
    intro m hm
    rw [hK c hc m (Finset.mem_range.mp hm)]
    by_cases h1 : m = c
    · subst h1; simp
    · by_cases h2 : m + 1 = c <;> simp [h1, h2]
  rw [Finset.sum_congr rfl hrow, Finset.sum_add_distrib, Finset.sum_ite_eq' (Finset.range n) c,
    if_pos (Finset.mem_range.mpr hc)]
  cases c with
  | zero =>
    simp only [Nat.add_eq_zero_iff, one_ne_zero, and_false, if_false, Finset.sum_const_zero, add_zero,
      aSeqAt_zero_col]
    by_cases h0 : l = 0
    · subst h0; simp [mul_comm]
    · simp [h0]
  | succ c' =>
    have hc' : c' < n := by omega
    have : ∀ m, (m + 1 = c' + 1) ↔ m = c' := fun m => by omega
    simp only [this]
    rw [Finset.sum_ite_eq' (Finset.range n) c', if_pos (Finset.mem_range.mpr hc')]
    rcases Nat.lt_trichotomy l (c' + 1) with hlt | heq | hgt
    · have hne : K (c' + 1) (c' + 1) ≠ K l l := fun h => by
        have := hinj (c' + 1) hc l hl h; omega
      have hrec := aSeq_recurrence (fun m => K m m) l c' (by omega) hne
      linear_combination hrec
    · subst heq
      rw [aSeqAt_of_lt (fun m => K m m) (Nat.lt_succ_self c')]
      ring
    · rw [aSeqAt_of_lt (fun m => K m m) hgt, aSeqAt_of_lt (fun m => K m m) (by omega : c' < l)]
      ring

/-- **Closed-form path.**  For a chain `K` with pairwise distinct diagonal and initial vector `e₀`, the
terms built from `rates = −diag K` and the product formula evaluate to `exp(K t) e₀`: the sequential
formula agrees with the general solution. -/
theorem sequential_solves (n : ℕ) (es : List (Entry ℝ)) (hK : IsChain n (fullAt es))
    (hinj : ∀ a < n, ∀ b < n, fullAt es a a = fullAt es b b → a = b)
    (j : List ℝ) (hj : ∀ i, listFn j i = if i = 0 then 1 else 0)
    (t : ℝ) (c : ℕ) (hc : c < n) :
    evalTerm (concTerm (ratesSeq n es) (aSeq es) t c)
      = (NormedSpace.exp (t • toMat n (fullAt es)) *ᵥ toVec n (listFn j)) ⟨c, hc⟩ := by
  have hrates : ratesSeq n es
      = ((List.range n).map fun l => fullAt es l l).map fun x => -x := by
    simp [ratesSeq, List.map_map, Function.comp_def]
  have hA : aSeq es
      = aGeneralAt (fun c l => aSeqAt (fun m => fullAt es m m) l c) (fun _ => 1) := by
    funext l c; simp [aSeq, aGeneralAt]
  rw [hrates, hA]
  apply general_solves n (fullAt es) _ ((List.range n).map fun l => fullAt es l l) (fun _ => 1) j
    (by simp)
  · intro i hi l hl
    rw [sequential_eigen n (fullAt es) hK hinj i hi l hl]
    simp [listFn, hl]
  · intro i hi
    rw [mulVecAt_eq]
    simp only [mul_one]
    rw [sequential_initial (fun m => fullAt es m m) n i hi hinj, hj]

/-- the chain `s1 →(2) s2 →(1)` satisfies the hypotheses of `sequential_solves` -/
example : IsChain 2 (fullAt [⟨1, 0, (2 : ℝ)⟩, ⟨1, 1, 1⟩])
    ∧ (∀ a < 2, ∀ b < 2, fullAt [⟨1, 0, (2 : ℝ)⟩, ⟨1, 1, 1⟩] a a = fullAt [⟨1, 0, (2 : ℝ)⟩, ⟨1, 1, 1⟩] b b → a = b) := by
  constructor
  · intro c hc m hm
    interval_cases c <;> interval_cases m <;> norm_num [fullAt, fullStep]
  · intro a ha b hb
    interval_cases a <;> interval_cases b <;> norm_num [fullAt, fullStep]

/-! ## the applicability test and the dispatch -/

/-- **`is_sequential` is sound** (after fix D4): for a dictionary (unique keys, indices in range) the
test accepts only chains — `K[c,c] = −k_c ≠ 0`, `K[c+1,c] = k_c`, nothing else — started in `e₀`,
which is exactly what the closed form assumes.  Before the fix `j = (½,½)` and the reversible pair
`s1 ⇄ s2` were accepted (regression examples below). -/
theorem isSequential_sound (n : ℕ) (es : List (Entry ℝ)) (j : List ℝ) (hk : KeysNodup es)
    (hr : ∀ e ∈ es, e.to < n) (h : isSequential n (reducedAt es) j = true) :
    IsChain n (fullAt es) ∧ (∀ c < n, fullAt es c c ≠ 0)
      ∧ (∀ i, listFn j i = if i = 0 then 1 else 0) :=
  isSequential_chain n es j hk hr h

/-- accepted: the chain `s1 →(2) s2 →(1)` started in `s1` -/
example : isSequential 2 (reducedAt [⟨1, 0, (2 : ℚ)⟩, ⟨1, 1, 1⟩]) [1, 0] = true := by decide +kernel
/-- D4 witness 1 (rejected now): the same chain with `j = (½, ½)` -/
example : isSequential 2 (reducedAt [⟨1, 0, (2 : ℚ)⟩, ⟨1, 1, 1⟩]) [1/2, 1/2] = false := by decide +kernel
/-- D4 witness 2 (rejected now): the reversible pair `s1 ⇄ s2` -/
example : isSequential 2 (reducedAt [⟨1, 0, (2 : ℚ)⟩, ⟨0, 1, 1⟩]) [1, 0] = false := by decide +kernel
/-- population started in the second compartment, and a chain without final decay -/
example : isSequential 2 (reducedAt [⟨1, 0, (2 : ℚ)⟩, ⟨1, 1, 1⟩]) [0, 1] = false := by decide +kernel
example : isSequential 2 (reducedAt [⟨1, 0, (2 : ℚ)⟩]) [1, 0] = false := by decide +kernel

/-- what the theorems assume about the two LAPACK calls for a given `K` and `j`:
`eig` returns `n` eigenvalues with `K V = V diag λ`, `solve` returns `g` with `V g = j` -/
def ExtCertified (ext : Ext ℝ) (n : ℕ) (K : ℕ → ℕ → ℝ) (j : List ℝ) : Prop :=
  (ext.eig K).1.length = n
  ∧ (∀ i < n, ∀ l < n, matMulAt n K (ext.eig K).2 i l = (ext.eig K).2 i l * listFn (ext.eig K).1 l)
  ∧ (∀ i < n, mulVecAt n (ext.eig K).2 (ext.solve (ext.eig K).2 j) i = listFn j i)

/-- **`KMatrix.rates` / `KMatrix.a_matrix` solve the rate equations** on whichever path the
applicability test selects: for a dictionary with unique keys, pairwise distinct diagonal where the
closed form is used, and certified LAPACK results where the eigen-decomposition is used, every
concentration term evaluates to the corresponding component of `exp(K t) j`. -/
theorem a_matrix_solves (ext : Ext ℝ) (n : ℕ) (es : List (Entry ℝ)) (j : List ℝ)
    (hk : KeysNodup es) (hr : ∀ e ∈ es, e.to < n)
    (hdist : isSequential n (reducedAt es) j = true →
      ∀ a < n, ∀ b < n, fullAt es a a = fullAt es b b → a = b)
    (hext : isSequential n (reducedAt es) j = false → ExtCertified ext n (fullAt es) j)
    (t : ℝ) (c : ℕ) (hc : c < n) :
    evalTerm (concTerm (rates ext n es j) (aMatrix ext n es j) t c)
      = (NormedSpace.exp (t • toMat n (fullAt es)) *ᵥ toVec n (listFn j)) ⟨c, hc⟩ := by
  by_cases hs : isSequential n (reducedAt es) j = true
  · obtain ⟨hchain, _, hj⟩ := isSequential_sound n es j hk hr hs
    simp only [rates, aMatrix, hs, if_true]
    exact sequential_solves n es hchain (hdist hs) j hj t c hc
  · have hs' : isSequential n (reducedAt es) j = false := by simpa using hs
    obtain ⟨hlen, hKV, hg⟩ := hext hs'
    simp only [rates, aMatrix, hs', Bool.false_eq_true, if_false, aGeneral]
    exact general_solves n (fullAt es) _ _ _ j hlen hKV hg t c hc

/-- the hypotheses of `a_matrix_solves` on the closed-form branch are satisfiable -/
example : KeysNodup [⟨1, 0, (2 : ℝ)⟩, ⟨1, 1, 1⟩] ∧ (∀ e ∈ [(⟨1, 0, 2⟩ : Entry ℝ), ⟨1, 1, 1⟩], e.to < 2) := by
  constructor
  · simp [KeysNodup, keyOf]
  · intro e he
    simp at he
    rcases he with rfl | rfl <;> simp

/-! ## decay-associated spectra, lifetimes, normalisation -/

/-- **DAS = SAS × Aᵀ reproduces the data model**: summing the decay-associated spectra against
`exp(−rate_l t)` equals summing the species-associated spectra against the concentrations,
`Σ_l DAS[g,l]·e^{−rate_l t} = Σ_c SAS[g,c]·c_c(t)`, for every global index and time. -/
theorem das_reconstructs (nc : ℕ) (rs : List ℝ) (A sas : ℕ → ℕ → ℝ) (g : ℕ) (t : ℝ) :
    ∑ l ∈ Finset.range rs.length, dasAt nc sas A g l * Real.exp ((- listFn rs l) * t)
      = ∑ c ∈ Finset.range nc, sas g c * evalTerm (concTerm rs A t c) := by
  simp only [dasAt, sum_map_range, evalTerm_concTerm, Finset.sum_mul, Finset.mul_sum]
  rw [Finset.sum_comm]
  apply Finset.sum_congr rfl
  intro c _
  apply Finset.sum_congr rfl
  intro l _
  ring

example : dasAt 2 (fun _ c => if c = 0 then (3 : ℚ) else 5) (fun l c => if l = c then 1 else 2) 0 1 = 3 * 2 + 5 * 1 := by
  decide +kernel

/-- `lifetime = 1 / rate` wherever the rate is non-zero -/
theorem lifetimes_spec {F : Type} [Field F] [DecidableEq F] (rs : List F) (l : ℕ) (hl : l < rs.length)
    (h : rs[l] ≠ 0) : (lifetimes rs)[l]? = some (some (1 / rs[l])) := by
  simp [lifetimes, hl, h]

example : lifetimes [(2 : ℚ), 0] = [some (1 / 2), none] := by decide +kernel

/-- **Normalisation.**  Whenever `InitialConcentration.normalized` succeeds and some compartment takes
part in the normalisation, the normalised populations of the participating compartments sum to 1
(the compartments in `exclude_from_normalize` keep their value, next theorem). -/
theorem normalized_sum_one {F : Type} [Field F] [DecidableEq F] (ic : InitConc F) (v : List F)
    (h : normalized ic = .ok v)
    (hany : (ic.comps.map fun c => !ic.excl.contains c).any id = true) :
    inclSum v (ic.comps.map fun c => !ic.excl.contains c) = 1 := by
  unfold normalized at h
  simp only at h
  split_ifs at h with h1 h2
  have hlen : (ic.comps.map fun c => !ic.excl.contains c).length = ic.params.length := by
    simpa using h1
  have hs : inclSum ic.params (ic.comps.map fun c => !ic.excl.contains c) ≠ 0 := by
    intro h0
    exact h2 ⟨h0, hany⟩
  have hv := (Except.ok.injEq _ _ ▸ h : _ = v)
  have hsnd : (ic.params.zip (ic.comps.map fun c => !ic.excl.contains c)).map Prod.snd
      = ic.comps.map fun c => !ic.excl.contains c := List.map_snd_zip (by omega)
  have key := inclSum_normalised (ic.params.zip (ic.comps.map fun c => !ic.excl.contains c))
    (inclSum ic.params (ic.comps.map fun c => !ic.excl.contains c))
  rw [hsnd] at key
  have hfs : inclSum ((ic.params.zip (ic.comps.map fun c => !ic.excl.contains c)).map Prod.fst)
      (ic.comps.map fun c => !ic.excl.contains c)
      = inclSum ic.params (ic.comps.map fun c => !ic.excl.contains c) := by
    rw [List.map_fst_zip (by omega)]
  rw [hfs, div_self hs] at key
  rw [← hv]
  exact key

/-- excluded compartments keep their (unnormalised) population -/
theorem normalized_excluded_unchanged {F : Type} [Field F] [DecidableEq F] (ic : InitConc F)
    (v : List F) (h : normalized ic = .ok v) (k : ℕ) (hk : k < ic.comps.length)
    (hex : ic.excl.contains ic.comps[k] = true) : v[k]? = ic.params[k]? := by
  unfold normalized at h
  simp only at h
  split_ifs at h with h1 h2
  have hlen : ic.comps.length = ic.params.length := by simpa using h1
  have hv := (Except.ok.injEq _ _ ▸ h : _ = v)
  rw [← hv]
  have hkp : k < ic.params.length := hlen ▸ hk
  rw [getElem?_map_zip _ _ _ k hkp (by simpa using hk), List.getElem?_eq_getElem hkp]
  have hmem : ic.comps[k] ∈ ic.excl := by simpa using hex
  simp
  intro hn
  exact absurd hmem hn

example : normalized (⟨["s1", "s2", "s3"], [(1 : ℚ), 3, 5], ["s3"]⟩ : InitConc ℚ) = .ok [1/4, 3/4, 5] := by
  decide +kernel

/-! ## the parallel and the sequential megacomplex -/

/-- what `DecayParallelMegacomplex` hands to `calculate_matrix` (distinct labels, one rate each) -/
def parResolved {F : Type} [Field F] (comps : List String) (rs : List F) : Parts F :=
  ⟨comps, parJ comps.length true, parJ comps.length false,
    (List.range comps.length).map (fun i => ((comps.getD i "", comps.getD i ""), rs.getD i 0)),
    colEntries comps.length id (fun i => rs.getD i 0)⟩

/-- what `DecaySequentialMegacomplex` hands to `calculate_matrix` -/
def seqResolved {F : Type} [Field F] (comps : List String) (rs : List F) : Parts F :=
  ⟨comps, 1 :: List.replicate (comps.length - 1) 0, 1 :: List.replicate (comps.length - 1) 0,
    (List.range comps.length).map
      (fun i => ((comps.getD (min (i + 1) (comps.length - 1)) "", comps.getD i ""), rs.getD i 0)),
    colEntries comps.length (fun i => min (i + 1) (comps.length - 1)) (fun i => rs.getD i 0)⟩

/-- **Parallel megacomplex.**  Its K-matrix is `diag(−rate)` in compartment order and every compartment
starts with `1/n`. -/
theorem par_megacomplex_diag {F : Type} [Field F] (comps : List String) (rs : List F)
    (hn : comps.Nodup) (hl : rs.length = comps.length) :
    parParts comps rs = .ok (parResolved comps rs)
    ∧ (∀ a < comps.length, ∀ b < comps.length,
        fullAt (parResolved comps rs).es a b = if a = b then - rs.getD a 0 else 0)
    ∧ (∀ c < comps.length, listFn (parResolved comps rs).j c = 1 / (comps.length : F)) := by
  refine ⟨parParts_eq comps rs hn hl, ?_, ?_⟩
  · intro a ha b hb
    by_cases hab : a = b
    · subst hab
      rw [if_pos rfl]
      exact fullAt_colEntries_diag comps.length id _ (fun i hi => hi) a ha
    · rw [if_neg hab]
      show fullAt (colEntries comps.length id fun i => rs.getD i 0) a b = 0
      rw [fullAt_offdiag _ (keysNodup_colEntries _ _ _) a b hab, reducedAt_colEntries]
      simp [hab]
  · intro c hc
    simp [parResolved, parJ, listFn, hc]

example : ["a", "b"].Nodup ∧ [(2 : ℚ), 1].length = ["a", "b"].length := by decide
example : (match parParts ["a", "b"] [(2 : ℚ), 1] with
    | .ok p => (table 2 (fullAt p.es), p.j)
    | .error _ => ([], [])) = ([[-2, 0], [0, -1]], [1/2, 1/2]) := by decide +kernel

/-- **Sequential megacomplex.**  For distinct labels and non-zero rates its dictionary passes the
applicability test, i.e. it is the chain `c₀ →(r₀) c₁ → … → c_{n−1} →(r_{n−1})` started in `c₀`. -/
theorem seq_megacomplex_is_chain {F : Type} [Field F] [DecidableEq F] (comps : List String)
    (rs : List F) (hn : comps.Nodup) (hl : rs.length = comps.length) (hpos : 0 < comps.length)
    (hnz : ∀ i < comps.length, rs.getD i 0 ≠ 0) :
    seqParts comps rs = .ok (seqResolved comps rs)
    ∧ isSequential comps.length (reducedAt (seqResolved comps rs).es) (seqResolved comps rs).j = true
    ∧ KeysNodup (seqResolved comps rs).es
    ∧ (∀ e ∈ (seqResolved comps rs).es, e.to < comps.length)
    ∧ (∀ i < comps.length, fullAt (seqResolved comps rs).es i i = - rs.getD i 0) := by
  refine ⟨seqParts_eq comps rs hn hl hpos, ?_, keysNodup_colEntries _ _ _, ?_, ?_⟩
  · exact isSequential_colEntries comps.length _ hnz _ (by
      show isE0 (1 :: List.replicate (comps.length - 1) (0 : F)) = true
      simp [isE0])
  · intro e he
    simp only [seqResolved, colEntries, List.mem_map, List.mem_range] at he
    obtain ⟨i, hi, rfl⟩ := he
    show min (i + 1) (comps.length - 1) < comps.length
    omega
  · intro i hi
    exact fullAt_colEntries_diag comps.length _ _ (fun k hk => by omega) i hi

example : ["a", "b", "c"].Nodup ∧ (∀ i < 3, [(4 : ℚ), 2, 1].getD i 0 ≠ 0) := by decide +kernel
example : (match seqParts ["a", "b", "c"] [(4 : ℚ), 2, 1] with
    | .ok p => (table 3 (fullAt p.es), p.j, isSequential 3 (reducedAt p.es) p.j)
    | .error _ => ([], [], false))
    = ([[-4, 0, 0], [4, -2, 0], [0, 2, -1]], [1, 0, 0], true) := by decide +kernel

/-- the sequential megacomplex's `calculate_matrix` terms are `exp(K t) e₀` for its chain `K`
(pairwise distinct non-zero rates); the LAPACK parameter is not used on this path -/
theorem seq_megacomplex_solves (ext : Ext ℝ) (comps : List String) (rs : List ℝ) (hn : comps.Nodup)
    (hl : rs.length = comps.length) (hpos : 0 < comps.length)
    (hnz : ∀ i < comps.length, rs.getD i 0 ≠ 0)
    (hdist : ∀ a < comps.length, ∀ b < comps.length, rs.getD a 0 = rs.getD b 0 → a = b)
    (t : ℝ) (c : ℕ) (hc : c < comps.length) :
    evalTerm (concTerm ((seqResolved comps rs).ratesOf ext) ((seqResolved comps rs).aMatrixOf ext .seq) t c)
      = (NormedSpace.exp (t • toMat comps.length (fullAt (seqResolved comps rs).es))
          *ᵥ toVec comps.length (listFn (seqResolved comps rs).j)) ⟨c, hc⟩ := by
  obtain ⟨_, hseq, hk, hr, hdiag⟩ := seq_megacomplex_is_chain comps rs hn hl hpos hnz
  obtain ⟨hchain, _, hj⟩ := isSequential_sound comps.length _ _ hk hr hseq
  have hrates : (seqResolved comps rs).ratesOf ext = ratesSeq comps.length (seqResolved comps rs).es := by
    show rates ext comps.length (seqResolved comps rs).es (seqResolved comps rs).j = _
    simp only [rates, hseq, if_true]
  rw [hrates]
  exact sequential_solves comps.length _ hchain (by
    intro a ha b hb hab
    rw [hdiag a ha, hdiag b hb, neg_inj] at hab
    exact hdist a ha b hb hab) _ hj t c hc

/-- `ExtCertified` is satisfiable for the parallel megacomplex `a: 2, b: 1` (identity eigenvectors) -/
example : ExtCertified ⟨fun _ => ([-2, -1], fun i l => if i = l then 1 else 0), fun _ _ _ => 1 / 2⟩ 2
    (fullAt (parResolved ["a", "b"] [(2 : ℝ), 1]).es) (parResolved ["a", "b"] [(2 : ℝ), 1]).j := by
  refine ⟨rfl, ?_, ?_⟩
  · intro i hi l hl
    interval_cases i <;> interval_cases l <;>
      norm_num [matMulAt, parResolved, colEntries, fullAt, fullStep, listFn, List.range_succ]
  · intro i hi
    interval_cases i <;> norm_num [mulVecAt, parResolved, parJ, listFn, List.range_succ]

/-- the parallel megacomplex's `calculate_matrix` terms: with certified LAPACK results compartment
`c` follows `(1/n)·exp(−rate_c t)`, which is `exp(K t) j` for its diagonal `K` (`parallel_solves`).
For one compartment the rates come from the diagonal (the applicability test accepts) and the
A-matrix from `eig`; the statement covers that mix too. -/
theorem par_megacomplex_solves (ext : Ext ℝ) (comps : List String) (rs : List ℝ) (hn : comps.Nodup)
    (hl : rs.length = comps.length)
    (hext : ExtCertified ext comps.length (fullAt (parResolved comps rs).es) (parResolved comps rs).j)
    (t : ℝ) (c : ℕ) (hc : c < comps.length) :
    evalTerm (concTerm ((parResolved comps rs).ratesOf ext) ((parResolved comps rs).aMatrixOf ext .par) t c)
      = 1 / (comps.length : ℝ) * Real.exp (- rs.getD c 0 * t) := by
  obtain ⟨_, hK, hj⟩ := par_megacomplex_diag comps rs hn hl
  obtain ⟨hlen, hKV, hg⟩ := hext
  have hpar := parallel_solves comps.length (fullAt (parResolved comps rs).es) (fun i => rs.getD i 0)
    hK (listFn (parResolved comps rs).j) t c hc
  rw [hj c hc] at hpar
  by_cases hs : isSequential comps.length (reducedAt (parResolved comps rs).es) (parResolved comps rs).j = true
  · -- only possible for a single compartment
    have hE := ((isSequential_iff _ _ _).mp hs).1
    have hn1 : comps.length = 1 := by
      have hjl : (parResolved comps rs).j = List.replicate comps.length (1 / (comps.length : ℝ)) := by
        simp [parResolved, parJ]
      rw [hjl] at hE
      rcases Nat.lt_or_ge comps.length 2 with h2 | h2
      · omega
      · obtain ⟨m, hm⟩ : ∃ m, comps.length = m + 2 := ⟨comps.length - 2, by omega⟩
        rw [hm] at hE
        simp only [List.replicate_succ, isE0, Bool.and_eq_true, decide_eq_true_eq, List.all_cons] at hE
        have h1 := hE.1
        have h0 := hE.2.1
        rw [h1] at h0
        exact absurd h0 one_ne_zero
    have hc0 : c = 0 := by omega
    subst hc0
    have hrates : (parResolved comps rs).ratesOf ext = [- fullAt (parResolved comps rs).es 0 0] := by
      show rates ext comps.length (parResolved comps rs).es (parResolved comps rs).j = _
      simp only [rates, hs, if_true]
      simp only [ratesSeq, hn1, List.range_one, List.map_cons, List.map_nil]
    have hA : (parResolved comps rs).aMatrixOf ext .par 0 0 = 1 / (comps.length : ℝ) := by
      have := hg 0 hc
      rw [mulVecAt_eq, hn1, Finset.sum_range_one, hj 0 hc, hn1] at this
      show aGeneral ext (parResolved comps rs).es (parResolved comps rs).j 0 0 = _
      simp only [aGeneral, aGeneralAt, hn1]
      exact this
    rw [hrates, evalTerm_concTerm]
    simp only [List.length_cons, List.length_nil, zero_add, Finset.sum_range_one, listFn,
      List.getD_cons_zero, neg_neg]
    rw [hA, hK 0 hc 0 hc, if_pos rfl]
  · have hs' : isSequential comps.length (reducedAt (parResolved comps rs).es) (parResolved comps rs).j = false := by
      simpa using hs
    have hrates : (parResolved comps rs).ratesOf ext
        = (ext.eig (fullAt (parResolved comps rs).es)).1.map fun x => -x := by
      show rates ext comps.length (parResolved comps rs).es (parResolved comps rs).j = _
      simp only [rates, hs', Bool.false_eq_true, if_false]
    rw [hrates, ← hpar]
    exact general_solves comps.length _ _ _ _ _ hlen hKV hg t c hc

/-! ## what the driver executes: rationals and Boolean certificates -/

/-- **Soundness of the driver's exact eigen path.**  The driver computes over `ℚ` and accepts an
eigen-decomposition only if `eigenCert` and `solveCert` evaluate to `true`; then the printed terms,
read as real numbers, are `exp(K t) j` for the rational `K`, `j`, `t` it was given. -/
theorem driver_general_path_sound (n : ℕ) (K V : ℕ → ℕ → ℚ) (lam : List ℚ) (g : ℕ → ℚ) (j : List ℚ)
    (hlen : lam.length = n) (h1 : eigenCert n K V (listFn lam) = true)
    (h2 : solveCert n V g (listFn j) = true) (t : ℚ) (c : ℕ) (hc : c < n) :
    evalTermQ (concTerm (lam.map fun x => -x) (aGeneralAt V g) t c)
      = (NormedSpace.exp ((t : ℝ) • toMat n (castFn2 K)) *ᵥ toVec n (castFn (listFn j))) ⟨c, hc⟩ := by
  have hl : (lam.map fun x => -x).map (Rat.cast : ℚ → ℝ)
      = (lam.map (Rat.cast : ℚ → ℝ)).map fun x => -x := by
    simp [List.map_map, Function.comp_def]
  have hj : toVec n (castFn (listFn j)) = toVec n (listFn (j.map (Rat.cast : ℚ → ℝ))) := by
    funext i
    simp [toVec, castFn, listFn_cast]
  rw [evalTermQ, concTerm_cast, hl, aGeneralAt_cast, hj]
  apply general_solves n (castFn2 K) (castFn2 V) (lam.map (Rat.cast : ℚ → ℝ)) (castFn g)
    (j.map (Rat.cast : ℚ → ℝ)) (by simpa using hlen)
  · intro i hi l hl'
    rw [matMulAt_cast, (eigenCert_iff n K V _).mp h1 i hi l hl', listFn_cast]
    simp [castFn2]
  · intro i hi
    rw [mulVecAt_cast, (solveCert_iff n V g _).mp h2 i hi, listFn_cast]

/-- the certificates hold for the chain `s1 →(2) s2 →(1)`, `j = (½, ½)` (computed, not assumed) -/
example : eigenCert 2 (fullAt [⟨1, 0, (2 : ℚ)⟩, ⟨1, 1, 1⟩])
      (fun i l => if i = 0 ∧ l = 0 then 1 else if i = 1 ∧ l = 0 then -2 else if i = 1 ∧ l = 1 then 1 else 0)
      (listFn [-2, -1]) = true
    ∧ solveCert 2 (fun i l => if i = 0 ∧ l = 0 then (1 : ℚ) else if i = 1 ∧ l = 0 then -2 else if i = 1 ∧ l = 1 then 1 else 0)
      (listFn [1/2, 3/2]) (listFn [1/2, 1/2]) = true := by
  constructor <;> decide +kernel

/-! ## bookkeeping: combined K-matrices, compartment order -/

/-- **`KMatrix.combine`**: in `a.combine(b)` an entry of `b` overrides the entry of `a` with the same
`(to, from)` key, all other entries of `a` are kept; keys stay unique. -/
theorem combine_overrides {α : Type} (a b : KDict α) (k : Key) (hb : (b.map Prod.fst).Nodup) :
    dictGet (combine a b) k = match dictGet b k with
      | some v => some v
      | none => dictGet a k :=
  dictGet_foldl_dictSet b a k hb

theorem combine_keys_unique {α : Type} (a b : KDict α) (ha : (a.map Prod.fst).Nodup) :
    ((combine a b).map Prod.fst).Nodup :=
  nodup_keys_foldl_dictSet b a ha

example : dictGet (combine [(("s2", "s1"), (3 : ℚ)), (("s1", "s1"), 1/4)] [(("s2", "s2"), 1/2), (("s2", "s1"), 1)])
    ("s2", "s1") = some 1 := by decide +kernel

/-- **Compartment order.**  The compartments of a decay megacomplex are those of the initial
concentration that occur in the combined K-matrix, in the order of the initial concentration
(whatever the order of the dictionary entries), without repetition if the declaration has none. -/
theorem compartments_follow_initial_concentration {α : Type} (ic : InitConc α) (k : KDict α) :
    (decayCompartments ic k).Sublist ic.comps
    ∧ (∀ c, c ∈ decayCompartments ic k ↔ c ∈ ic.comps ∧ ∃ e ∈ k, c = e.1.1 ∨ c = e.1.2)
    ∧ (ic.comps.Nodup → (decayCompartments ic k).Nodup) := by
  refine ⟨List.filter_sublist, ?_, fun h => h.filter _⟩
  intro c
  simp only [decayCompartments, List.mem_filter, List.contains_iff_mem, involved, involved_foldl,
    List.not_mem_nil, false_or]

/-- `involved_compartments` lists every label of the dictionary exactly once -/
theorem involved_spec {α : Type} (m : KDict α) :
    (involved m).Nodup ∧ ∀ c, c ∈ involved m ↔ ∃ e ∈ m, c = e.1.1 ∨ c = e.1.2 := by
  refine ⟨involved_nodup_foldl m [] List.nodup_nil, fun c => ?_⟩
  simp [involved, involved_foldl]

example : decayCompartments (⟨["u", "s2", "s1"], [(1 : ℚ), 1, 2], []⟩ : InitConc ℚ)
    [(("s2", "s1"), 3), (("s2", "s2"), 1)] = ["s2", "s1"] := by decide +kernel

/-! ## the decay megacomplex, end to end -/

theorem combineAll_keys_unique {α : Type} (ks : List (KDict α)) (k : KDict α)
    (h : combineAll ks = .ok k) (hfirst : ∀ d ∈ ks.head?, (d.map Prod.fst).Nodup) :
    (k.map Prod.fst).Nodup := by
  cases ks with
  | nil => simp [combineAll] at h
  | cons d ds =>
    simp only [combineAll, Except.ok.injEq] at h
    subst h
    have hd : (d.map Prod.fst).Nodup := hfirst d (by simp)
    clear hfirst
    induction ds generalizing d with
    | nil => exact hd
    | cons d' ds ih => exact ih (combine d d') (combine_keys_unique d d' hd)

/-- **Decay megacomplex.**  Whatever `decayParts` assembles from an initial concentration and a list of
K-matrices (dictionaries; compartments declared once) — combined dictionary, compartments in
declaration order, normalised `j`, resolved entries — the terms of `calculate_matrix` evaluate to
`exp(K t) j` with `K = full(combined dictionary)`, on the closed-form path (distinct diagonal) as well
as on the eigen path (certified LAPACK results). -/
theorem decay_megacomplex_solves (ext : Ext ℝ) (ic : InitConc ℝ) (ks : List (KDict ℝ)) (p : Parts ℝ)
    (hp : decayParts ic ks = .ok p)
    (hfirst : ∀ d ∈ ks.head?, (d.map Prod.fst).Nodup)
    (hdist : isSequential p.n (reducedAt p.es) p.j = true →
      ∀ a < p.n, ∀ b < p.n, fullAt p.es a a = fullAt p.es b b → a = b)
    (hext : isSequential p.n (reducedAt p.es) p.j = false → ExtCertified ext p.n (fullAt p.es) p.j)
    (t : ℝ) (c : ℕ) (hc : c < p.n) :
    evalTerm (concTerm (p.ratesOf ext) (p.aMatrixOf ext .decay) t c)
      = (NormedSpace.exp (t • toMat p.n (fullAt p.es)) *ᵥ toVec p.n (listFn p.j)) ⟨c, hc⟩ := by
  unfold decayParts at hp
  simp only [bind, Except.bind] at hp
  split at hp
  · exact absurd hp (by simp)
  · rename_i k hk
    split at hp
    · exact absurd hp (by simp)
    · rename_i j hj
      split at hp
      · exact absurd hp (by simp)
      · rename_i es hes
        split at hp
        · exact absurd hp (by simp)
        · rename_i jraw hjraw
          simp only [pure, Except.pure, Except.ok.injEq] at hp
          subst hp
          obtain ⟨hkn, hrange⟩ := resolve_keysNodup _ k es hes (combineAll_keys_unique ks k hk hfirst)
          exact a_matrix_solves ext _ es j hkn (fun e he => (hrange e he).1) hdist hext t c hc

/-- `decayParts` succeeds on a two-matrix scheme with an unused compartment (non-vacuity) -/
example : (match decayParts (⟨["u", "s1", "s2"], [(1 : ℚ), 2, 1], []⟩ : InitConc ℚ)
      [[(("s2", "s1"), 3), (("s2", "s2"), 1)], [(("s2", "s1"), 2)]] with
    | .ok p => (p.comps, p.j, table 2 (fullAt p.es))
    | .error _ => ([], [], [])) = (["s1", "s2"], [1/2, 1/4], [[-2, 0], [2, -1]]) := by decide +kernel

/-- **Conservation for the decay megacomplex.**  If the combined K-matrix has no loss channel (no
`(c, c)` entry), the total population of what `decayParts` assembles is constant under `exp(K t)`. -/
theorem decay_megacomplex_conserves (ic : InitConc ℝ) (ks : List (KDict ℝ)) (p : Parts ℝ)
    (hp : decayParts ic ks = .ok p) (hfirst : ∀ d ∈ ks.head?, (d.map Prod.fst).Nodup)
    (hnoloss : ∀ e ∈ p.dict, e.1.1 ≠ e.1.2) (t : ℝ) :
    ∑ c, (NormedSpace.exp (t • toMat p.n (fullAt p.es)) *ᵥ toVec p.n (listFn p.j)) c
      = ∑ c ∈ Finset.range p.n, listFn p.j c := by
  apply population_conserved
  intro j _
  apply full_colsum_zero_of_no_loss
  unfold decayParts at hp
  simp only [bind, Except.bind] at hp
  split at hp
  · exact absurd hp (by simp)
  · rename_i k hk
    split at hp
    · exact absurd hp (by simp)
    · split at hp
      · exact absurd hp (by simp)
      · rename_i es hes
        split at hp
        · exact absurd hp (by simp)
        · simp only [pure, Except.pure, Except.ok.injEq] at hp
          subst hp
          obtain ⟨_, hrange⟩ := resolve_keysNodup _ k es hes (combineAll_keys_unique ks k hk hfirst)
          intro e he
          exact ⟨(hrange e he).1, (hrange e he).2, resolve_offdiag _ k es hes hnoloss e he⟩

/-- `decayParts` on the closed reversible pair: no `(c, c)` entry, so `decay_megacomplex_conserves` applies -/
example : (match decayParts (⟨["s1", "s2"], [(1 : ℚ), 3], []⟩ : InitConc ℚ) [[(("s2", "s1"), 2), (("s1", "s2"), 3)]] with
    | .ok p => (p.dict.all (fun e => e.1.1 != e.1.2), p.j, table 2 (fullAt p.es))
    | .error _ => (false, [], [])) = (true, [1/4, 3/4], [[-2, 3], [2, -3]]) := by decide +kernel

/-! ## the sequential megacomplex with zero rates: closed-form A-matrix, rates in eigenvalue order

`DecaySequentialMegacomplex.get_a_matrix` always uses the closed form, but `calculate_matrix` /
`retrieve_decay_associated_data` take the rates from `KMatrix.rates`, which uses the closed form only if
`is_sequential` accepts — and that needs every rate to be non-zero.  With a zero rate (e.g. a last
compartment that does not decay) the rates are `−eig(K)` *in LAPACK's order* while the rows of the
A-matrix are in chain order.  The statement "for every certified eigen-decomposition the terms are
`exp(K t) e₀`" (true for the decay and the parallel megacomplex: `decay_megacomplex_solves`,
`par_megacomplex_solves`) is therefore **false** for the sequential megacomplex:
`seq_megacomplex_solves_partial` (under the order hypothesis) + `seq_megacomplex_solves_counterexample`.
On the real code LAPACK returns the eigenvalues of the triangular `Kᵀ` in diagonal order, so the order
hypothesis holds there; the harness observes it on every sequential case. -/

/-- **Sequential megacomplex, any rates** (zero ones included): its `K` is the chain
`c₀ →(r₀) c₁ → … → c_{n−1} →(r_{n−1})` with diagonal `−r`, started in `c₀`. -/
theorem seq_megacomplex_chain_any_rates (comps : List String) (rs : List ℝ) (hn : comps.Nodup)
    (hl : rs.length = comps.length) (hpos : 0 < comps.length) :
    seqParts comps rs = .ok (seqResolved comps rs)
    ∧ IsChain comps.length (fullAt (seqResolved comps rs).es)
    ∧ (∀ i < comps.length, fullAt (seqResolved comps rs).es i i = - rs.getD i 0)
    ∧ (∀ i, listFn (seqResolved comps rs).j i = if i = 0 then 1 else 0) := by
  have hdiag : ∀ i < comps.length, fullAt (seqResolved comps rs).es i i = - rs.getD i 0 := fun i hi =>
    fullAt_colEntries_diag comps.length _ _ (fun k hk => by omega) i hi
  refine ⟨seqParts_eq comps rs hn hl hpos, ?_, hdiag, ?_⟩
  · intro c hc m hm
    by_cases h1 : m = c
    · rw [if_pos h1, h1]
    · rw [if_neg h1, hdiag m hm, neg_neg]
      show fullAt (colEntries comps.length (fun i => min (i + 1) (comps.length - 1)) fun i => rs.getD i 0) c m = _
      rw [fullAt_offdiag _ (keysNodup_colEntries _ _ _) c m (Ne.symm h1), reducedAt_colEntries]
      by_cases h2 : m + 1 = c
      · rw [if_pos h2, if_pos ⟨hm, by omega⟩]
      · rw [if_neg h2, if_neg]
        intro h
        omega
  · intro i
    exact isE0_listFn _ (by simp [seqResolved, isE0]) i

/-- a chain whose middle compartment does not decay: still a chain, but not "sequential" for the code -/
example : (match seqParts ["a", "b", "c"] [(2 : ℚ), 0, 1] with
    | .ok p => (table 3 (fullAt p.es), p.j, isSequential 3 (reducedAt p.es) p.j)
    | .error _ => ([], [], true))
    = ([[-2, 0, 0], [2, 0, 0], [0, 0, -1]], [1, 0, 0], false) := by decide +kernel

/-- **which path the rates take**: `KMatrix.rates` uses the closed form (`−diag K`) for the sequential
megacomplex iff no rate is zero; otherwise the rates are `−eig(K)` in the order `eig` returns them -/
theorem seq_closed_form_rates_iff {F : Type} [Field F] [DecidableEq F] (comps : List String) (rs : List F) :
    isSequential comps.length (reducedAt (seqResolved comps rs).es) (seqResolved comps rs).j = true
      ↔ ∀ i < comps.length, rs.getD i 0 ≠ 0 := by
  constructor
  · intro h i hi
    have := ((isSequential_iff _ _ _).mp h).2 i hi
    have h2 := this.2
    change reducedAt (colEntries comps.length (fun i => min (i + 1) (comps.length - 1)) fun i => rs.getD i 0) _ _ ≠ 0 at h2
    rw [reducedAt_colEntries] at h2
    simpa [hi] using h2
  · intro h
    exact isSequential_colEntries comps.length _ h _ (by
      show isE0 (1 :: List.replicate (comps.length - 1) (0 : F)) = true
      simp [isE0])

example : isSequential 2 (reducedAt (seqResolved ["a", "b"] [(1 : ℚ), 2]).es) (seqResolved ["a", "b"] [(1 : ℚ), 2]).j = true
    ∧ isSequential 2 (reducedAt (seqResolved ["a", "b"] [(1 : ℚ), 0]).es) (seqResolved ["a", "b"] [(1 : ℚ), 0]).j = false := by
  constructor <;> decide +kernel

/-- under the order hypothesis (`eig` lists the eigenvalues of the triangular `K` in diagonal order whenever
it is consulted, i.e. when some rate is zero) the rates handed to `calculate_matrix` are the chain's -/
theorem seq_rates_chain_order (ext : Ext ℝ) (comps : List String) (rs : List ℝ)
    (hord : (∃ i < comps.length, rs.getD i 0 = 0) →
      (ext.eig (fullAt (seqResolved comps rs).es)).1
        = (List.range comps.length).map fun l => fullAt (seqResolved comps rs).es l l) :
    (seqResolved comps rs).ratesOf ext = ratesSeq comps.length (seqResolved comps rs).es := by
  show rates ext comps.length (seqResolved comps rs).es (seqResolved comps rs).j = _
  by_cases hs : isSequential comps.length (reducedAt (seqResolved comps rs).es) (seqResolved comps rs).j = true
  · simp only [rates, hs, if_true]
  · have hz : ∃ i < comps.length, rs.getD i 0 = 0 := by
      by_contra hcon
      apply hs
      rw [seq_closed_form_rates_iff]
      intro i hi h0
      exact hcon ⟨i, hi, h0⟩
    simp only [rates, hs, Bool.false_eq_true, if_false, hord hz, ratesSeq, List.map_map, Function.comp_def]

/-- **Sequential megacomplex, zero rates allowed.**  For pairwise distinct rates (so at most one zero) and
under the order hypothesis the terms of `calculate_matrix` are `exp(K t) e₀`.  Without a zero rate the
hypothesis is void and this is `seq_megacomplex_solves`. -/
theorem seq_megacomplex_solves_partial (ext : Ext ℝ) (comps : List String) (rs : List ℝ) (hn : comps.Nodup)
    (hl : rs.length = comps.length) (hpos : 0 < comps.length)
    (hdist : ∀ a < comps.length, ∀ b < comps.length, rs.getD a 0 = rs.getD b 0 → a = b)
    (hord : (∃ i < comps.length, rs.getD i 0 = 0) →
      (ext.eig (fullAt (seqResolved comps rs).es)).1
        = (List.range comps.length).map fun l => fullAt (seqResolved comps rs).es l l)
    (t : ℝ) (c : ℕ) (hc : c < comps.length) :
    evalTerm (concTerm ((seqResolved comps rs).ratesOf ext) ((seqResolved comps rs).aMatrixOf ext .seq) t c)
      = (NormedSpace.exp (t • toMat comps.length (fullAt (seqResolved comps rs).es))
          *ᵥ toVec comps.length (listFn (seqResolved comps rs).j)) ⟨c, hc⟩ := by
  obtain ⟨_, hchain, hdiag, hj⟩ := seq_megacomplex_chain_any_rates comps rs hn hl hpos
  rw [seq_rates_chain_order ext comps rs hord]
  exact sequential_solves comps.length _ hchain (by
    intro a ha b hb hab
    rw [hdiag a ha, hdiag b hb, neg_inj] at hab
    exact hdist a ha b hb hab) _ hj t c hc

/-- the order hypothesis is satisfiable: `a →(1) b →(0)` with the eigenvalues in diagonal order -/
example : (∃ i < 2, [(1 : ℝ), 0].getD i 0 = 0) ∧
    ((⟨fun _ => ([-1, 0], fun _ _ => 0), fun _ _ _ => 0⟩ : Ext ℝ).eig (fullAt (seqResolved ["a", "b"] [(1 : ℝ), 0]).es)).1
      = (List.range 2).map fun l => fullAt (seqResolved ["a", "b"] [(1 : ℝ), 0]).es l l := by
  constructor
  · exact ⟨1, by norm_num, by simp⟩
  · norm_num [seqResolved, colEntries, fullAt, fullStep, List.range_succ]

/-- a certified eigen-decomposition of `a →(1) b →(0)` that lists the eigenvalue `0` first -/
def swapExt : Ext ℝ :=
  ⟨fun _ => ([0, -1], fun i l => if l = 0 then (if i = 1 then 1 else 0) else (if i = 0 then 1 else if i = 1 then -1 else 0)),
   fun _ _ _ => 1⟩

/-- **Counter-example to the unconditional statement.**  `swapExt` is a certified eigen-decomposition of
`K = [[−1,0],[1,0]]` (so the decay megacomplex with this `K` is right with it), but the sequential
megacomplex `a →(1) b →(0)` pairs the rates `(0, 1)` with the chain-ordered A-matrix and reports
`c_a(1) = 1` instead of `e^{−1}`.  The harness replays it on the real code with `scipy.linalg.eig`
wrapped to return this order. -/
theorem seq_megacomplex_solves_counterexample :
    ExtCertified swapExt 2 (fullAt (seqResolved ["a", "b"] [(1 : ℝ), 0]).es) (seqResolved ["a", "b"] [(1 : ℝ), 0]).j
    ∧ evalTerm (concTerm ((seqResolved ["a", "b"] [(1 : ℝ), 0]).ratesOf swapExt)
        ((seqResolved ["a", "b"] [(1 : ℝ), 0]).aMatrixOf swapExt .seq) 1 0)
      ≠ (NormedSpace.exp ((1 : ℝ) • toMat 2 (fullAt (seqResolved ["a", "b"] [(1 : ℝ), 0]).es))
          *ᵥ toVec 2 (listFn (seqResolved ["a", "b"] [(1 : ℝ), 0]).j)) ⟨0, by norm_num⟩ := by
  constructor
  · refine ⟨rfl, ?_, ?_⟩
    · intro i hi l hl
      interval_cases i <;> interval_cases l <;>
        norm_num [matMulAt, swapExt, seqResolved, colEntries, fullAt, fullStep, listFn, List.range_succ]
    · intro i hi
      interval_cases i <;> norm_num [mulVecAt, swapExt, seqResolved, listFn, List.range_succ]
  · have hgood := seq_megacomplex_solves_partial ⟨fun _ => ([-1, 0], fun _ _ => 0), fun _ _ _ => 0⟩
      ["a", "b"] [(1 : ℝ), 0] (by decide) rfl (by decide)
      (by intro a ha b hb; simp only [List.length_cons, List.length_nil] at ha hb
          interval_cases a <;> interval_cases b <;> norm_num)
      (by intro _; norm_num [seqResolved, colEntries, fullAt, fullStep, List.range_succ]) 1 0 (by decide)
    have hns : isSequential 2 (reducedAt (seqResolved ["a", "b"] [(1 : ℝ), 0]).es)
        (seqResolved ["a", "b"] [(1 : ℝ), 0]).j = false := by
      rw [Bool.eq_false_iff]
      intro h
      exact (seq_closed_form_rates_iff ["a", "b"] [(1 : ℝ), 0]).mp h 1 (by decide) (by simp)
    have hr1 : (seqResolved ["a", "b"] [(1 : ℝ), 0]).ratesOf swapExt = [-0, - -1] := by
      show rates swapExt 2 _ _ = _
      simp only [rates, hns, Bool.false_eq_true, if_false, swapExt, List.map_cons, List.map_nil]
    simp only [List.length_cons, List.length_nil] at hgood
    rw [← hgood, hr1]
    have hr2 : (seqResolved ["a", "b"] [(1 : ℝ), 0]).ratesOf
        (⟨fun _ => ([-1, 0], fun _ _ => 0), fun _ _ _ => 0⟩ : Ext ℝ) = [- -1, -0] := by
      show rates _ 2 _ _ = _
      simp only [rates, hns, Bool.false_eq_true, if_false, List.map_cons, List.map_nil]
    rw [hr2, evalTerm_concTerm, evalTerm_concTerm]
    simp only [Parts.aMatrixOf, aSeq, List.length_cons, List.length_nil, Finset.sum_range_succ,
      Finset.sum_range_zero, aSeqAt_zero_col, listFn, List.getD_cons_zero, List.getD_cons_succ]
    norm_num
    exact fun h => absurd ((Real.exp_eq_one_iff (-1)).mp h.symm) (by norm_num)

/-- **Consistency condition between `rate_*` and `a_matrix_*`.**  For pairwise distinct rates of which
only the last may be zero: every row `l` of the A-matrix is an eigenvector of `K` for the eigenvalue
`−rate_l` (the ODE certificate the harness checks on the real code) **iff** the reported rates are the
chain's rates in chain order. -/
theorem seq_rates_match_a_matrix_iff (ext : Ext ℝ) (comps : List String) (rs : List ℝ) (hn : comps.Nodup)
    (hl : rs.length = comps.length) (hpos : 0 < comps.length)
    (hdist : ∀ a < comps.length, ∀ b < comps.length, rs.getD a 0 = rs.getD b 0 → a = b)
    (hnz : ∀ i, i + 1 < comps.length → rs.getD i 0 ≠ 0)
    (hlen : ((seqResolved comps rs).ratesOf ext).length = comps.length) :
    (∀ l < comps.length, ∀ c < comps.length,
        matMulAt comps.length (fullAt (seqResolved comps rs).es)
          (fun c l => (seqResolved comps rs).aMatrixOf ext .seq l c) c l
        = (seqResolved comps rs).aMatrixOf ext .seq l c * (- listFn ((seqResolved comps rs).ratesOf ext) l))
    ↔ (seqResolved comps rs).ratesOf ext = rs := by
  obtain ⟨_, hchain, hdiag, _⟩ := seq_megacomplex_chain_any_rates comps rs hn hl hpos
  have hinj : ∀ a < comps.length, ∀ b < comps.length,
      fullAt (seqResolved comps rs).es a a = fullAt (seqResolved comps rs).es b b → a = b := by
    intro a ha b hb hab
    rw [hdiag a ha, hdiag b hb, neg_inj] at hab
    exact hdist a ha b hb hab
  have heig := sequential_eigen comps.length (fullAt (seqResolved comps rs).es) hchain hinj
  have hA : (seqResolved comps rs).aMatrixOf ext .seq
      = aSeqAt (fun m => fullAt (seqResolved comps rs).es m m) := rfl
  rw [hA]
  constructor
  · intro h
    apply List.ext_getElem (by rw [hlen, hl])
    intro l h1 h2
    have hlt : l < comps.length := by rw [← hl]; exact h2
    have h3 := h l hlt l hlt
    rw [heig l hlt l hlt] at h3
    have hne : aSeqAt (fun m => fullAt (seqResolved comps rs).es m m) l l ≠ 0 := by
      apply aSeqAt_diag_ne_zero
      · intro m hm
        show fullAt (seqResolved comps rs).es m m ≠ 0
        rw [hdiag m (by omega), neg_ne_zero]
        exact hnz m (by omega)
      · intro m hm hcon
        have := hinj m (by omega) l hlt hcon
        omega
    have h4 := mul_left_cancel₀ hne h3
    rw [hdiag l hlt, neg_inj] at h4
    have h5 : listFn ((seqResolved comps rs).ratesOf ext) l = ((seqResolved comps rs).ratesOf ext)[l] := by
      simp [listFn, List.getD_eq_getElem?_getD, h1]
    have h6 : rs.getD l 0 = rs[l] := by simp [List.getD_eq_getElem?_getD, h2]
    rw [← h5, ← h6, h4]
  · intro h l hlt c hc
    rw [heig c hc l hlt, h, hdiag l hlt]
    rfl

/-- with the eigenvalues in diagonal order the reported rates are the chain's; with `swapExt` they are not -/
example : (seqResolved ["a", "b"] [(1 : ℝ), 0]).ratesOf (⟨fun _ => ([-1, 0], fun _ _ => 0), fun _ _ _ => 0⟩ : Ext ℝ) = [1, 0]
    ∧ (seqResolved ["a", "b"] [(1 : ℝ), 0]).ratesOf swapExt ≠ [1, 0] := by
  have hns : isSequential 2 (reducedAt (seqResolved ["a", "b"] [(1 : ℝ), 0]).es)
      (seqResolved ["a", "b"] [(1 : ℝ), 0]).j = false := by
    rw [Bool.eq_false_iff]
    intro h
    exact (seq_closed_form_rates_iff ["a", "b"] [(1 : ℝ), 0]).mp h 1 (by decide) (by simp)
  constructor
  · show rates _ 2 _ _ = _
    simp [rates, hns]
  · show rates swapExt 2 _ _ ≠ _
    simp [rates, hns, swapExt]
/-- why only the *last* rate may vanish in `seq_rates_match_a_matrix_iff`: after a zero rate in the middle
the later rows of the A-matrix are zero (those compartments are never populated), so they constrain nothing -/
example : ∀ c < 4, aSeqAt (listFn [(-1 : ℚ), 0, -2, -3]) 2 c = 0 ∧ aSeqAt (listFn [(-1 : ℚ), 0, -2, -3]) 3 c = 0 := by
  decide +kernel

/-- **the closed form divides by zero exactly when two rates coincide** (the doubles are then inf / nan;
the property's domain — pairwise distinct eigenvalues — excludes it) -/
theorem closed_form_degenerate_iff {F : Type} [Field F] [DecidableEq F] (n : ℕ) (r : ℕ → F) :
    aSeqDegenerate n r = true ↔ ∃ a b, a < b ∧ b < n ∧ r a = r b := by
  simp only [aSeqDegenerate, List.any_eq_true, List.mem_range, Bool.and_eq_true, ne_eq,
    decide_eq_true_eq, List.prod_eq_zero_iff, List.mem_map, List.mem_filter, decide_not, Bool.not_eq_eq_eq_not,
    Bool.not_true, decide_eq_false_iff_not]
  constructor
  · rintro ⟨j, hj, _, i, hi, m, ⟨hm, hmi⟩, h0⟩
    have heq : r m = r i := sub_eq_zero.mp h0
    rcases Nat.lt_or_gt_of_ne hmi with hlt | hgt
    · exact ⟨m, i, hlt, by omega, heq⟩
    · exact ⟨i, m, hgt, by omega, heq.symm⟩
  · rintro ⟨a, b, hab, hb, heq⟩
    exact ⟨b, hb, by omega, a, by omega, b, ⟨by omega, by omega⟩, sub_eq_zero.mpr heq.symm⟩

example : aSeqDegenerate 3 (listFn [(-1 : ℚ), -2, -1]) = true ∧ aSeqDegenerate 3 (listFn [(-1 : ℚ), -2, 0]) = false := by
  constructor <;> decide +kernel

/-! ## several decay megacomplexes in one dataset model -/

/-- **`all_species`** (`finalize_data`) lists every compartment of every decay megacomplex exactly once -/
theorem allSpecies_spec (compss : List (List String)) :
    (allSpecies compss).Nodup ∧ ∀ y, y ∈ allSpecies compss ↔ ∃ cs ∈ compss, y ∈ cs := by
  refine ⟨nodup_allSpecies_foldl compss [] List.nodup_nil, fun y => ?_⟩
  simp [allSpecies, mem_allSpecies_foldl]

example : allSpecies [["s2", "s10"], ["s1", "s2"]] = ["s2", "s10", "s1"] := by decide

private theorem das_multi_reconstructs_aux (all : List String) (hall : all.Nodup) (ms : List (Mega ℝ))
    (sasAll : ℕ → ℕ → ℝ) (g : ℕ) (t : ℝ)
    (hnd : ∀ m ∈ ms, m.comps.Nodup) (hsub : ∀ m ∈ ms, ∀ c ∈ m.comps, c ∈ all) :
    (ms.map fun m => ∑ l ∈ Finset.range m.rs.length,
        dasSel all sasAll m g l * Real.exp ((- listFn m.rs l) * t)).sum
    = ∑ s ∈ Finset.range all.length, sasAll g s * evalTerm (combinedTerm ms t (all.getD s "")) := by
  induction ms with
  | nil => simp [combinedTerm, evalTerm_nil]
  | cons m ms ih =>
    rw [List.map_cons, List.sum_cons, ih (fun m' hm' => hnd m' (List.mem_cons_of_mem _ hm'))
      (fun m' hm' => hsub m' (List.mem_cons_of_mem _ hm'))]
    have hct : ∀ s, evalTerm (combinedTerm (m :: ms) t s)
        = (if m.comps.contains s then evalTerm (concTerm m.rs m.A t (m.comps.idxOf s)) else 0)
          + evalTerm (combinedTerm ms t s) := by
      intro s
      simp only [combinedTerm, List.flatMap_cons, evalTerm_append]
      split <;> simp [evalTerm_nil]
    simp only [hct, mul_add, Finset.sum_add_distrib]
    congr 1
    show ∑ l ∈ Finset.range m.rs.length,
        dasAt m.comps.length (selCols all sasAll m.comps) m.A g l * Real.exp ((- listFn m.rs l) * t) = _
    rw [das_reconstructs]
    exact sum_selCols_reindex all m.comps hall (hnd m List.mem_cons_self) (hsub m List.mem_cons_self)
      (fun s => sasAll g s) (fun c => evalTerm (concTerm m.rs m.A t c))

/-- **DAS of several decay megacomplexes reproduce the data model.**  With the species-associated table
labelled by `all_species` (any order — the compartments of a megacomplex are *selected by label*),
`DAS_m = SAS[:, species_m] × A_mᵀ` and the combined matrix column of a species being the sum of the
columns of all megacomplexes that have it:
`Σ_m Σ_l DAS_m[g,l]·e^{−rate_{m,l} t} = Σ_s SAS[g,s]·c_s(t)`. -/
theorem das_multi_reconstructs (ms : List (Mega ℝ)) (sasAll : ℕ → ℕ → ℝ) (g : ℕ) (t : ℝ)
    (hnd : ∀ m ∈ ms, m.comps.Nodup) :
    (ms.map fun m => ∑ l ∈ Finset.range m.rs.length,
        dasSel (allSpecies (ms.map fun m => m.comps)) sasAll m g l * Real.exp ((- listFn m.rs l) * t)).sum
    = ∑ s ∈ Finset.range (allSpecies (ms.map fun m => m.comps)).length,
        sasAll g s * evalTerm (combinedTerm ms t ((allSpecies (ms.map fun m => m.comps)).getD s "")) := by
  obtain ⟨hall, hmem⟩ := allSpecies_spec (ms.map fun m => m.comps)
  apply das_multi_reconstructs_aux _ hall ms sasAll g t hnd
  intro m hm c hc
  exact (hmem c).mpr ⟨m.comps, List.mem_map.mpr ⟨m, hm, rfl⟩, hc⟩

/-- label-based selection on a non-lexicographic species order: megacomplex `[s1, s2]` inside
`all_species = [s2, s10, s1]` reads columns 2 and 0 -/
example : ["s1", "s2"].Nodup ∧
    dasSel ["s2", "s10", "s1"] (fun _ s => if s = 0 then (3 : ℚ) else if s = 1 then 100 else 5)
      ⟨["s1", "s2"], [], fun l c => if l = c then 1 else 2⟩ 0 1 = 5 * 2 + 3 * 1 := by
  constructor
  · decide
  · decide +kernel

/-- **normalisation over the whole item**: a compartment that takes part in the normalisation gets its
parameter divided by the sum over *all* participating compartments of the initial-concentration item —
also those that belong to another megacomplex of the dataset (cf. `normalized_excluded_unchanged`,
`normalized_sum_one`) -/
theorem normalized_included_entry {F : Type} [Field F] [DecidableEq F] (ic : InitConc F)
    (v : List F) (h : normalized ic = .ok v) (k : ℕ) (hk : k < ic.comps.length)
    (hin : ic.excl.contains ic.comps[k] = false) :
    v[k]? = ic.params[k]?.map
      (fun p => p / inclSum ic.params (ic.comps.map fun c => !ic.excl.contains c)) := by
  unfold normalized at h
  simp only at h
  split_ifs at h with h1 h2
  have hlen : ic.comps.length = ic.params.length := by simpa using h1
  have hv := (Except.ok.injEq _ _ ▸ h : _ = v)
  rw [← hv]
  have hkp : k < ic.params.length := hlen ▸ hk
  rw [getElem?_map_zip _ _ _ k hkp (by simpa using hk), List.getElem?_eq_getElem hkp]
  have hnm : ic.comps[k] ∉ ic.excl := by simpa using hin
  simp [hnm, inclSum]

example : normalized (⟨["s2", "s10", "s1"], [(1 : ℚ), 5, 3], ["s10"]⟩ : InitConc ℚ) = .ok [1/4, 5, 3/4] := by
  decide +kernel
/-- two megacomplexes sharing the item `[s2: 1, s10: 5 (excluded), s1: 3]`: each picks its compartments
from the same normalised vector -/
example : decayJ (⟨["s2", "s10", "s1"], [(1 : ℚ), 5, 3], ["s10"]⟩ : InitConc ℚ) [(("s1", "s1"), 1)] true = .ok [3/4]
    ∧ decayJ (⟨["s2", "s10", "s1"], [(1 : ℚ), 5, 3], ["s10"]⟩ : InitConc ℚ) [(("s10", "s2"), 1), (("s10", "s10"), 2)] true
      = .ok [1/4, 5] := by
  constructor <;> decide +kernel

end Glotaran.C04
