/-
C03 — result datasets decompose the data exactly and on the right coordinates.
Property theorems about `Glotaran.C03` (lean/GlotaranModel/C03.lean).
-/
import GlotaranProofs.Lemmas.C03
namespace Glotaran.C03
open Glotaran.LinAlg Glotaran.C02

/-- a dataset without weight: the residual is the solver residual and fitted = data − residual -/
theorem finish_unweighted (d : Dataset) (labels : List String) (clps : List Vec) (wres : Mat)
    (hw : d.weight = none) :
    (finish d labels clps wres).residual = wres ∧ (finish d labels clps wres).weighted = none ∧
    (finish d labels clps wres).fitted = subMat d.data wres := by
  simp [finish, hw]

end Glotaran.C03
