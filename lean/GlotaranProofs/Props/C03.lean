/-
C03 — result datasets decompose the data exactly and on the right coordinates.
Property theorems about `Glotaran.C03` (lean/GlotaranModel/C03.lean).

`entry? m i j : Option Rat` (Lemmas/C03.lean) is entry (i, j) of a list-of-rows matrix,
`none` when the position does not exist: `(m[i]?).bind (·[j]?)`.
-/
import GlotaranProofs.Lemmas.C03
namespace Glotaran.C03
open Glotaran.LinAlg Glotaran.C02

/-- a dataset without weight: the residual is the solver residual and fitted = data − residual -/
theorem finish_unweighted (d : Dataset) (labels : List String) (clps : List Vec) (wres : Mat)
    (hw : d.weight = none) :
    (finish d labels clps wres).residual = wres ∧ (finish d labels clps wres).weighted = none ∧
    (finish d labels clps wres).fitted = subMat d.data wres := by
  simp [finish, hw]

/-! ### 1. data = fitted + residual, point by point, weighted or not -/

/-- At every position that exists in the data, in the solver residual (and in the weight, when the
    dataset has one — the weight entry may be zero) the result has a fitted value and a residual
    there, and they add up to the data exactly. -/
theorem data_eq_fitted_add_residual (d : Dataset) (labels : List String) (clps : List Vec) (wres : Mat)
    (i j : Nat) (x e : Rat)
    (hx : entry? d.data i j = some x) (he : entry? wres i j = some e)
    (hw : ∀ w, d.weight = some w → (entry? w i j).isSome) :
    ∃ f r, entry? (finish d labels clps wres).fitted i j = some f ∧
           entry? (finish d labels clps wres).residual i j = some r ∧
           f + r = x := by
  cases hwt : d.weight with
  | none =>
    refine ⟨x - e, e, ?_, ?_, by ring⟩
    · simp only [finish, hwt]; exact entry?_subMat _ _ _ _ _ _ hx he
    · simp only [finish, hwt]; exact he
  | some w =>
    obtain ⟨ω, hω⟩ := Option.isSome_iff_exists.mp (hw w hwt)
    have hr := entry?_divMat _ _ _ _ _ _ he hω
    refine ⟨x - e / ω, e / ω, ?_, ?_, by ring⟩
    · simp only [finish, hwt]; exact entry?_subMat _ _ _ _ _ _ hx hr
    · simp only [finish, hwt]; exact hr

/-- weighted 2 × 2 dataset (one weight entry is 0), position (1, 0) -/
example :
    let d : Dataset := { label := "a", globalAxis := [0, 1], data := [[1, 2], [3, 4]],
                         weight := some [[2, 4], [0, 3]], scale := none, mcs := [], gmcs := [] }
    ∃ f r, entry? (finish d ["c"] [] [[2, 4], [5, 9]]).fitted 1 0 = some f ∧
           entry? (finish d ["c"] [] [[2, 4], [5, 9]]).residual 1 0 = some r ∧ f + r = 3 := by
  intro d
  refine data_eq_fitted_add_residual d ["c"] [] [[2, 4], [5, 9]] 1 0 3 5 (by decide +kernel)
    (by decide +kernel) ?_
  intro w hw
  obtain rfl : [[2, 4], [0, 3]] = w := Option.some.inj hw
  decide +kernel

/-- unweighted, non-square (2 × 3), position (1, 2) -/
example :
    let d : Dataset := { label := "b", globalAxis := [0, 1, 2], data := [[1, 2, 3], [4, 5, 6]],
                         weight := none, scale := none, mcs := [], gmcs := [] }
    ∃ f r, entry? (finish d [] [] [[1, 1, 1], [1/2, 1/3, 1/4]]).fitted 1 2 = some f ∧
           entry? (finish d [] [] [[1, 1, 1], [1/2, 1/3, 1/4]]).residual 1 2 = some r ∧ f + r = 6 := by
  intro d
  exact data_eq_fitted_add_residual d [] [] [[1, 1, 1], [1/2, 1/3, 1/4]] 1 2 6 (1/4) (by decide +kernel)
    (by decide +kernel) (by intro w hw; cases hw)

/-- Whole-matrix form (`shape m` = list of row lengths, `addMat` = entrywise sum, Lemmas/C03.lean):
    when the solver residual (and the weight, if any) has the shape of the data — ragged or not —
    `fitted + residual = data` as matrices. -/
theorem data_eq_fitted_add_residual_mat (d : Dataset) (labels : List String) (clps : List Vec) (wres : Mat)
    (hs : shape wres = shape d.data) (hw : ∀ w, d.weight = some w → shape w = shape d.data) :
    addMat (finish d labels clps wres).fitted (finish d labels clps wres).residual = d.data := by
  cases hwt : d.weight with
  | none => simp only [finish, hwt]; exact subMat_addMat _ _ hs.symm
  | some w =>
    simp only [finish, hwt]
    apply subMat_addMat
    rw [shape_divMat wres w (by rw [hs, hw w hwt]), hs]

example :
    let d : Dataset := { label := "a", globalAxis := [0, 1], data := [[1, 2], [3, 4], [5, 6]],
                         weight := some [[2, 4], [0, 3], [1, 1]], scale := none, mcs := [], gmcs := [] }
    addMat (finish d ["c"] [] [[2, 4], [5, 9], [0, 1]]).fitted (finish d ["c"] [] [[2, 4], [5, 9], [0, 1]]).residual
      = [[1, 2], [3, 4], [5, 6]] := by
  intro d
  exact data_eq_fitted_add_residual_mat d ["c"] [] [[2, 4], [5, 9], [0, 1]] (by decide)
    (by intro w hw; obtain rfl : [[2, 4], [0, 3], [1, 1]] = w := Option.some.inj hw; decide)

/-! ### 2. weighted residual = weight × residual -/

theorem weighted_residual_eq (d : Dataset) (labels : List String) (clps : List Vec) (wres w : Mat)
    (hw : d.weight = some w) :
    (finish d labels clps wres).weighted = some wres ∧
    ∀ i j ω e, entry? w i j = some ω → entry? wres i j = some e → ω ≠ 0 →
      ∃ r, entry? (finish d labels clps wres).residual i j = some r ∧ ω * r = e := by
  refine ⟨by simp only [finish, hw], ?_⟩
  intro i j ω e hω he hne
  refine ⟨e / ω, ?_, by field_simp⟩
  simp only [finish, hw]; exact entry?_divMat _ _ _ _ _ _ he hω

example :
    let d : Dataset := { label := "a", globalAxis := [0, 1], data := [[1, 2], [3, 4]],
                         weight := some [[2, 4], [0, 3]], scale := none, mcs := [], gmcs := [] }
    ∃ r, entry? (finish d ["c"] [] [[2, 4], [5, 9]]).residual 1 1 = some r ∧ 3 * r = 9 := by
  intro d
  exact (weighted_residual_eq d ["c"] [] [[2, 4], [5, 9]] [[2, 4], [0, 3]] rfl).2 1 1 3 9
    (by decide +kernel) (by decide +kernel) (by decide +kernel)

/-! ### 3. per-index columns land on (model, global) -/

/-- `ofColumns nModel cols` is an `nModel × cols.length` matrix whose entry (m, g) is entry m of
    column g (0 where the column is too short): the residual of global index g sits in column g. -/
theorem ofColumns_entry (nModel : Nat) (cols : List Vec) :
    (ofColumns nModel cols).length = nModel ∧
    (∀ r ∈ ofColumns nModel cols, r.length = cols.length) ∧
    ∀ (m g : Nat) (_ : m < nModel) (hg : g < cols.length),
      entry? (ofColumns nModel cols) m g = some (cols[g].getD m 0) :=
  ⟨ofColumns_length nModel cols, ofColumns_row_length nModel cols,
   fun m g hm hg => entry?_ofColumns nModel cols m g hm hg⟩

/-- the same with `getElem`: `(ofColumns nModel cols)[m][g] = cols[g].getD m 0` -/
theorem ofColumns_getElem_getElem (nModel : Nat) (cols : List Vec) (m g : Nat)
    (hm : m < (ofColumns nModel cols).length) (hg : g < (ofColumns nModel cols)[m].length) :
    (ofColumns nModel cols)[m][g] =
      (cols[g]'(by rw [ofColumns_row_length nModel cols _ (List.getElem_mem hm)] at hg; exact hg)).getD m 0 := by
  have hg' : g < cols.length := by
    rw [ofColumns_row_length nModel cols _ (List.getElem_mem hm)] at hg; exact hg
  have hm' : m < nModel := by rw [ofColumns_length] at hm; exact hm
  obtain ⟨_, _, h⟩ := (entry?_eq_some_iff _ _ _ _).mp (entry?_ofColumns nModel cols m g hm' hg')
  exact h

example : ofColumns 3 [[1, 2, 3], [4, 5, 6]] = [[1, 4], [2, 5], [3, 6]] ∧
    entry? (ofColumns 3 [[1, 2, 3], [4, 5, 6]]) 2 1 = some 6 :=
  ⟨by decide +kernel, (ofColumns_entry 3 [[1, 2, 3], [4, 5, 6]]).2.2 2 1 (by decide) (by decide)⟩

/-! ### 4. full model: un-flattening is inverse to `data.T.flatten()` -/

/-- `chunk n k` cuts the concatenation of `k` vectors of length `n` back into those vectors -/
theorem chunk_flatten (n k : Nat) (vs : List Vec) (hk : vs.length = k) (hn : ∀ v ∈ vs, v.length = n) :
    chunk n k vs.flatten = vs := by
  subst hk; exact Glotaran.C03.chunk_flatten' n vs hn

example : chunk 2 3 [[1, 2], [3, 4], [5, 6]].flatten = [[1, 2], [3, 4], [5, 6]] :=
  chunk_flatten 2 3 _ rfl (by decide)

/-- For an `M × G` matrix `a`, flattening global-major (`a.T.flatten()`: entry `g·M + m`),
    cutting into `G` chunks of `M` and laying the chunks out as columns gives `a` back — square or not. -/
theorem ofColumns_chunk_flatten (a : Mat) (M G : Nat) (hM : a.length = M) (hG : ∀ r ∈ a, r.length = G) :
    ofColumns M (chunk M G ((List.range G).flatMap (fun g => col a g))) = a := by
  subst hM
  rw [chunk_flatMap_col, ofColumns_columns a G hG]

/-- 3 × 2 -/
example :
    let a : Mat := [[1, 2], [3, 4], [5, 6]]
    (List.range 2).flatMap (fun g => col a g) = [1, 3, 5, 2, 4, 6] ∧
    ofColumns 3 (chunk 3 2 [1, 3, 5, 2, 4, 6]) = a := by
  intro a
  refine ⟨by decide +kernel, ?_⟩
  have h := ofColumns_chunk_flatten a 3 2 rfl (by decide)
  have hf : (List.range 2).flatMap (fun g => col a g) = [1, 3, 5, 2, 4, 6] := by decide +kernel
  rw [hf] at h; exact h

/-! ### 5. linked groups: un-stacking the residual of an aligned index -/

/-- Slicing the stacked vector by the sizes of the preceding blocks returns block `k`
    (offset in the `foldl (· + ·) 0` form `linkedResults` uses). -/
theorem unstack_stack (bs : List Vec) (k : Nat) (hk : k < bs.length) :
    (bs.flatten.drop (((bs.take k).map List.length).foldl (· + ·) 0)).take bs[k].length = bs[k] := by
  rw [foldl_add_eq_sum]; exact unstack_stack_sum bs k hk

/-- the same with `List.sum` -/
theorem unstack_stack_sum' (bs : List Vec) (k : Nat) (hk : k < bs.length) :
    (bs.flatten.drop ((bs.take k).map List.length).sum).take bs[k].length = bs[k] :=
  unstack_stack_sum bs k hk

example : (([[1, 2], [3], [4, 5, 6]] : List Vec).flatten.drop
      (((([[1, 2], [3], [4, 5, 6]] : List Vec).take 2).map List.length).foldl (· + ·) 0)).take 3 = [4, 5, 6] :=
  unstack_stack [[1, 2], [3], [4, 5, 6]] 2 (by decide)

/-! ### 6. unlinked result: label, one clp vector per global index, model-axis size -/

/-- The exact shape: the residual has `nModel` rows, cut to the number of weight rows when the
    dataset carries a weight (`divMat` is a `zipWith`). -/
theorem unlinked_result_shape (mi : ModelItems) (s : Solver) (d : Dataset) (r : DsResult)
    (h : unlinkedResult mi s d = some r) (hg : d.gmcs = []) :
    r.label = d.label ∧ r.clps.length = d.nGlobal ∧
    r.residual.length = (match d.weight with | none => d.nModel | some w => min d.nModel w.length) :=
  unlinkedResult_shape mi s d r hg h

/-- The statement without a hypothesis on the weight,
    `∀ mi s d r, unlinkedResult mi s d = some r → d.gmcs = [] →
       r.label = d.label ∧ r.clps.length = d.nGlobal ∧ r.residual.length = d.nModel`,
    is false in the model: a weight with fewer rows than the data truncates the residual. -/
theorem unlinked_result_labels_and_count_counterexample :
    ¬ ∀ (mi : ModelItems) (s : Solver) (d : Dataset) (r : DsResult),
        unlinkedResult mi s d = some r → d.gmcs = [] →
        r.label = d.label ∧ r.clps.length = d.nGlobal ∧ r.residual.length = d.nModel := by
  intro hall
  let d : Dataset :=
    { label := "a", globalAxis := [0], data := [[1], [2]], weight := some [[1]], scale := none,
      mcs := [⟨⟨["c"], .d2 [[1], [1]]⟩, none⟩], gmcs := [] }
  have hev : (unlinkedResult {} .vp d).map (fun r => r.residual.length) = some 1 := by decide +kernel
  obtain ⟨r, hr, hlen⟩ := Option.map_eq_some_iff.mp hev
  have := (hall {} .vp d r hr rfl).2.2
  rw [hlen] at this
  exact absurd this (by decide)

/-- With a weight that has (at least) one row per model-axis point — in particular a weight of the
    shape of the data — the result carries the dataset's label, one clp vector per global index and a
    residual with one row per model-axis point. -/
theorem unlinked_result_labels_and_count_partial (mi : ModelItems) (s : Solver) (d : Dataset) (r : DsResult)
    (h : unlinkedResult mi s d = some r) (hg : d.gmcs = [])
    (hw : ∀ w, d.weight = some w → d.nModel ≤ w.length) :
    r.label = d.label ∧ r.clps.length = d.nGlobal ∧ r.residual.length = d.nModel := by
  obtain ⟨h1, h2, h3⟩ := unlinkedResult_shape mi s d r hg h
  refine ⟨h1, h2, ?_⟩
  cases hwt : d.weight with
  | none => simpa [hwt] using h3
  | some w =>
    have := hw w hwt
    rw [h3]; simp only [hwt]; omega

/-- a weighted 2 × 2 dataset with one compartment: the result exists and has the stated shape -/
example :
    let d : Dataset :=
      { label := "a", globalAxis := [0, 1], data := [[1, 2], [2, 3]], weight := some [[1, 2], [1, 1]],
        scale := none, mcs := [⟨⟨["c"], .d2 [[1], [1]]⟩, none⟩], gmcs := [] }
    ∃ r, unlinkedResult {} .vp d = some r ∧ r.label = "a" ∧ r.clps.length = 2 ∧ r.residual.length = 2 := by
  intro d
  have hs : (unlinkedResult {} .vp d).isSome = true := by decide +kernel
  obtain ⟨r, hr⟩ := Option.isSome_iff_exists.mp hs
  exact ⟨r, hr, unlinked_result_labels_and_count_partial {} .vp d r hr rfl
    (by intro w hw; obtain rfl : [[1, 2], [1, 1]] = w := Option.some.inj hw; decide)⟩

/-! ### 7. linked groups use dataset labels only through equality tests -/

/-- Renaming the datasets of a linked group (`renameGroup f`, Lemmas/C03.lean: every dataset label
    `l` becomes `f l`, nothing else changes) by a map that is injective on the labels of the group
    renames the results (`relabel f`: only the `label` field changes) and leaves everything else —
    clp labels, clps, residual, weighted residual, fitted data — exactly as it was. -/
theorem linked_result_label_independent (mi : ModelItems) (g : Group) (f : String → String)
    (hinj : ∀ d1 ∈ g.datasets, ∀ d2 ∈ g.datasets, f d1.label = f d2.label → d1.label = d2.label) :
    linkedResults mi (renameGroup f g) = (linkedResults mi g).map (List.map (relabel f)) :=
  linkedResults_rename mi g f hinj

/-- all numeric fields (and the clp labels) of the results are unchanged -/
theorem linked_result_numeric_label_independent (mi : ModelItems) (g : Group) (f : String → String)
    (hinj : ∀ d1 ∈ g.datasets, ∀ d2 ∈ g.datasets, f d1.label = f d2.label → d1.label = d2.label) :
    (linkedResults mi (renameGroup f g)).map
        (List.map (fun r => (r.clpLabels, r.clps, r.residual, r.weighted, r.fitted))) =
    (linkedResults mi g).map
        (List.map (fun r => (r.clpLabels, r.clps, r.residual, r.weighted, r.fitted))) := by
  rw [linkedResults_rename mi g f hinj]
  cases linkedResults mi g with
  | none => rfl
  | some rs => simp [relabel, Function.comp_def]

/-- two datasets (2 × 2 unweighted, 3 × 2 weighted and scaled) overlapping in one aligned index -/
private def exGroup (l1 l2 : String) : Group :=
  { linked := true, solver := .vp, tol := 0, method := .nearest,
    datasets := [
      { label := l1, globalAxis := [0, 1], data := [[1, 2], [2, 3]], weight := none, scale := none,
        mcs := [⟨⟨["c"], .d2 [[1], [1]]⟩, none⟩], gmcs := [] },
      { label := l2, globalAxis := [1, 2], data := [[4, 1], [6, 1], [9, 2]],
        weight := some [[1, 2], [1, 1], [2, 1]], scale := some 2,
        mcs := [⟨⟨["c", "e"], .d2 [[1, 0], [1, 1], [1, 2]]⟩, none⟩], gmcs := [] }] }

example : (linkedResults {} (exGroup "a" "b")).isSome = true ∧
    linkedResults {} (renameGroup (fun l => l ++ "'") (exGroup "a" "b")) =
      (linkedResults {} (exGroup "a" "b")).map (List.map (relabel (fun l => l ++ "'"))) :=
  ⟨by decide +kernel,
   linked_result_label_independent {} (exGroup "a" "b") (fun l => l ++ "'") (by
     intro d1 _ d2 _ h
     simpa using h)⟩

/-- injectivity on the group's labels cannot be dropped: giving both datasets the same label moves
    the block offset of the second one (its residual is cut from the wrong place of the stacked
    residual of the shared aligned index). -/
theorem linked_result_label_independent_needs_injective :
    (linkedResults {} (renameGroup (fun _ => "a") (exGroup "a" "b"))).map (List.map (·.residual)) ≠
    (linkedResults {} (exGroup "a" "b")).map (List.map (·.residual)) := by
  decide +kernel

end Glotaran.C03
