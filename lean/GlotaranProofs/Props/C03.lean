/-
C03 — result datasets decompose the data exactly and on the right coordinates.
Property theorems about `Glotaran.C03` (lean/GlotaranModel/C03.lean).

`entry? m i j : Option Rat` (Lemmas/C03.lean) is entry (i, j) of a list-of-rows matrix,
`none` when the position does not exist: `(m[i]?).bind (·[j]?)`.

Linked groups: the theorems are about `linkedResultsOwn` / `groupResultsOwn` (every dataset laid out on its own
global index order — the code after fix D27, what the driver's `results` executes); section 10 relates the legacy
aligned-order layout `linkedResults` to it.
-/
import GlotaranProofs.Lemmas.C03
import GlotaranProofs.Lemmas.C03Linked
import GlotaranProofs.Lemmas.C03Full
import GlotaranProofs.Lemmas.C03Legacy
import GlotaranProofs.Lemmas.C03Steps
namespace Glotaran.C03
open Glotaran.LinAlg Glotaran.C02

/-- a dataset without weight: the residual is the solver residual and fitted = data − residual -/
theorem finish_unweighted (d : Dataset) (labels : List String) (clps : List Vec) (wres : Mat)
    (hw : d.weight = none) :
    (finish d labels clps wres).residual = wres ∧ (finish d labels clps wres).weighted = none ∧
    (finish d labels clps wres).fitted = subMat d.data wres := by
  simp [finish, hw]

/-! ### 1. data = fitted + residual, point by point, weighted or not -/

/-- At every position that exists in the data, in the solver residual (and in the weight, when the
    dataset has one — the weight entry may be zero) the result has a fitted value and a residual
    there, and they add up to the data exactly. -/
theorem data_eq_fitted_add_residual (d : Dataset) (labels : List String) (clps : List Vec) (wres : Mat)
    (i j : Nat) (x e : Rat)
    (hx : entry? d.data i j = some x) (he : entry? wres i j = some e)
    (hw : ∀ w, d.weight = some w → (entry? w i j).isSome) :
    ∃ f r, entry? (finish d labels clps wres).fitted i j = some f ∧
           entry? (finish d labels clps wres).residual i j = some r ∧
           f + r = x := by
  cases hwt : d.weight with
  | none =>
    refine ⟨x - e, e, ?_, ?_, by ring⟩
    · simp only [finish, hwt]; exact entry?_subMat _ _ _ _ _ _ hx he
    · simp only [finish, hwt]; exact he
  | some w =>
    obtain ⟨ω, hω⟩ := Option.isSome_iff_exists.mp (hw w hwt)
    have hr := entry?_divMat _ _ _ _ _ _ he hω
    refine ⟨x - e / ω, e / ω, ?_, ?_, by ring⟩
    · simp only [finish, hwt]; exact entry?_subMat _ _ _ _ _ _ hx hr
    · simp only [finish, hwt]; exact hr

/-- weighted 2 × 2 dataset (one weight entry is 0), position (1, 0) -/
example :
    let d : Dataset := { label := "a", globalAxis := [0, 1], data := [[1, 2], [3, 4]],
                         weight := some [[2, 4], [0, 3]], scale := none, mcs := [], gmcs := [] }
    ∃ f r, entry? (finish d ["c"] [] [[2, 4], [5, 9]]).fitted 1 0 = some f ∧
           entry? (finish d ["c"] [] [[2, 4], [5, 9]]).residual 1 0 = some r ∧ f + r = 3 := by
  intro d
  refine data_eq_fitted_add_residual d ["c"] [] [[2, 4], [5, 9]] 1 0 3 5 (by decide +kernel)
    (by decide +kernel) ?_
  intro w hw
  obtain rfl : [[2, 4], [0, 3]] = w := Option.some.inj hw
  decide +kernel

/-- unweighted, non-square (2 × 3), position (1, 2) -/
example :
    let d : Dataset := { label := "b", globalAxis := [0, 1, 2], data := [[1, 2, 3], [4, 5, 6]],
                         weight := none, scale := none, mcs := [], gmcs := [] }
    ∃ f r, entry? (finish d [] [] [[1, 1, 1], [1/2, 1/3, 1/4]]).fitted 1 2 = some f ∧
           entry? (finish d [] [] [[1, 1, 1], [1/2, 1/3, 1/4]]).residual 1 2 = some r ∧ f + r = 6 := by
  intro d
  exact data_eq_fitted_add_residual d [] [] [[1, 1, 1], [1/2, 1/3, 1/4]] 1 2 6 (1/4) (by decide +kernel)
    (by decide +kernel) (by intro w hw; cases hw)

/-- Whole-matrix form (`shape m` = list of row lengths, `addMat` = entrywise sum, Lemmas/C03.lean):
    when the solver residual (and the weight, if any) has the shape of the data — ragged or not —
    `fitted + residual = data` as matrices. -/
theorem data_eq_fitted_add_residual_mat (d : Dataset) (labels : List String) (clps : List Vec) (wres : Mat)
    (hs : shape wres = shape d.data) (hw : ∀ w, d.weight = some w → shape w = shape d.data) :
    addMat (finish d labels clps wres).fitted (finish d labels clps wres).residual = d.data := by
  cases hwt : d.weight with
  | none => simp only [finish, hwt]; exact subMat_addMat _ _ hs.symm
  | some w =>
    simp only [finish, hwt]
    apply subMat_addMat
    rw [shape_divMat wres w (by rw [hs, hw w hwt]), hs]

example :
    let d : Dataset := { label := "a", globalAxis := [0, 1], data := [[1, 2], [3, 4], [5, 6]],
                         weight := some [[2, 4], [0, 3], [1, 1]], scale := none, mcs := [], gmcs := [] }
    addMat (finish d ["c"] [] [[2, 4], [5, 9], [0, 1]]).fitted (finish d ["c"] [] [[2, 4], [5, 9], [0, 1]]).residual
      = [[1, 2], [3, 4], [5, 6]] := by
  intro d
  exact data_eq_fitted_add_residual_mat d ["c"] [] [[2, 4], [5, 9], [0, 1]] (by decide)
    (by intro w hw; obtain rfl : [[2, 4], [0, 3], [1, 1]] = w := Option.some.inj hw; decide)

/-! ### 2. weighted residual = weight × residual -/

theorem weighted_residual_eq (d : Dataset) (labels : List String) (clps : List Vec) (wres w : Mat)
    (hw : d.weight = some w) :
    (finish d labels clps wres).weighted = some wres ∧
    ∀ i j ω e, entry? w i j = some ω → entry? wres i j = some e → ω ≠ 0 →
      ∃ r, entry? (finish d labels clps wres).residual i j = some r ∧ ω * r = e := by
  refine ⟨by simp only [finish, hw], ?_⟩
  intro i j ω e hω he hne
  refine ⟨e / ω, ?_, by field_simp⟩
  simp only [finish, hw]; exact entry?_divMat _ _ _ _ _ _ he hω

example :
    let d : Dataset := { label := "a", globalAxis := [0, 1], data := [[1, 2], [3, 4]],
                         weight := some [[2, 4], [0, 3]], scale := none, mcs := [], gmcs := [] }
    ∃ r, entry? (finish d ["c"] [] [[2, 4], [5, 9]]).residual 1 1 = some r ∧ 3 * r = 9 := by
  intro d
  exact (weighted_residual_eq d ["c"] [] [[2, 4], [5, 9]] [[2, 4], [0, 3]] rfl).2 1 1 3 9
    (by decide +kernel) (by decide +kernel) (by decide +kernel)

/-! ### 3. per-index columns land on (model, global) -/

/-- `ofColumns nModel cols` is an `nModel × cols.length` matrix whose entry (m, g) is entry m of
    column g (0 where the column is too short): the residual of global index g sits in column g. -/
theorem ofColumns_entry (nModel : Nat) (cols : List Vec) :
    (ofColumns nModel cols).length = nModel ∧
    (∀ r ∈ ofColumns nModel cols, r.length = cols.length) ∧
    ∀ (m g : Nat) (_ : m < nModel) (hg : g < cols.length),
      entry? (ofColumns nModel cols) m g = some (cols[g].getD m 0) :=
  ⟨ofColumns_length nModel cols, ofColumns_row_length nModel cols,
   fun m g hm hg => entry?_ofColumns nModel cols m g hm hg⟩

/-- the same with `getElem`: `(ofColumns nModel cols)[m][g] = cols[g].getD m 0` -/
theorem ofColumns_getElem_getElem (nModel : Nat) (cols : List Vec) (m g : Nat)
    (hm : m < (ofColumns nModel cols).length) (hg : g < (ofColumns nModel cols)[m].length) :
    (ofColumns nModel cols)[m][g] =
      (cols[g]'(by rw [ofColumns_row_length nModel cols _ (List.getElem_mem hm)] at hg; exact hg)).getD m 0 := by
  have hg' : g < cols.length := by
    rw [ofColumns_row_length nModel cols _ (List.getElem_mem hm)] at hg; exact hg
  have hm' : m < nModel := by rw [ofColumns_length] at hm; exact hm
  obtain ⟨_, _, h⟩ := (entry?_eq_some_iff _ _ _ _).mp (entry?_ofColumns nModel cols m g hm' hg')
  exact h

example : ofColumns 3 [[1, 2, 3], [4, 5, 6]] = [[1, 4], [2, 5], [3, 6]] ∧
    entry? (ofColumns 3 [[1, 2, 3], [4, 5, 6]]) 2 1 = some 6 :=
  ⟨by decide +kernel, (ofColumns_entry 3 [[1, 2, 3], [4, 5, 6]]).2.2 2 1 (by decide) (by decide)⟩

/-! ### 4. full model: un-flattening is inverse to `data.T.flatten()` -/

/-- `chunk n k` cuts the concatenation of `k` vectors of length `n` back into those vectors -/
theorem chunk_flatten (n k : Nat) (vs : List Vec) (hk : vs.length = k) (hn : ∀ v ∈ vs, v.length = n) :
    chunk n k vs.flatten = vs := by
  subst hk; exact Glotaran.C03.chunk_flatten' n vs hn

example : chunk 2 3 [[1, 2], [3, 4], [5, 6]].flatten = [[1, 2], [3, 4], [5, 6]] :=
  chunk_flatten 2 3 _ rfl (by decide)

/-- For an `M × G` matrix `a`, flattening global-major (`a.T.flatten()`: entry `g·M + m`),
    cutting into `G` chunks of `M` and laying the chunks out as columns gives `a` back — square or not. -/
theorem ofColumns_chunk_flatten (a : Mat) (M G : Nat) (hM : a.length = M) (hG : ∀ r ∈ a, r.length = G) :
    ofColumns M (chunk M G ((List.range G).flatMap (fun g => col a g))) = a := by
  subst hM
  rw [chunk_flatMap_col, ofColumns_columns a G hG]

/-- 3 × 2 -/
example :
    let a : Mat := [[1, 2], [3, 4], [5, 6]]
    (List.range 2).flatMap (fun g => col a g) = [1, 3, 5, 2, 4, 6] ∧
    ofColumns 3 (chunk 3 2 [1, 3, 5, 2, 4, 6]) = a := by
  intro a
  refine ⟨by decide +kernel, ?_⟩
  have h := ofColumns_chunk_flatten a 3 2 rfl (by decide)
  have hf : (List.range 2).flatMap (fun g => col a g) = [1, 3, 5, 2, 4, 6] := by decide +kernel
  rw [hf] at h; exact h

/-! ### 5. linked groups: un-stacking the residual of an aligned index -/

/-- Slicing the stacked vector by the sizes of the preceding blocks returns block `k`
    (offset in the `foldl (· + ·) 0` form `linkedResultsOwn` uses). -/
theorem unstack_stack (bs : List Vec) (k : Nat) (hk : k < bs.length) :
    (bs.flatten.drop (((bs.take k).map List.length).foldl (· + ·) 0)).take bs[k].length = bs[k] := by
  rw [foldl_add_eq_sum]; exact unstack_stack_sum bs k hk

/-- the same with `List.sum` -/
theorem unstack_stack_sum' (bs : List Vec) (k : Nat) (hk : k < bs.length) :
    (bs.flatten.drop ((bs.take k).map List.length).sum).take bs[k].length = bs[k] :=
  unstack_stack_sum bs k hk

example : (([[1, 2], [3], [4, 5, 6]] : List Vec).flatten.drop
      (((([[1, 2], [3], [4, 5, 6]] : List Vec).take 2).map List.length).foldl (· + ·) 0)).take 3 = [4, 5, 6] :=
  unstack_stack [[1, 2], [3], [4, 5, 6]] 2 (by decide)

/-! ### 6. unlinked result: label, one clp vector per global index, model-axis size -/

/-- The exact shape: the residual has `nModel` rows, cut to the number of weight rows when the
    dataset carries a weight (`divMat` is a `zipWith`). -/
theorem unlinked_result_shape (mi : ModelItems) (s : Solver) (d : Dataset) (r : DsResult)
    (h : unlinkedResult mi s d = some r) (hg : d.gmcs = []) :
    r.label = d.label ∧ r.clps.length = d.nGlobal ∧
    r.residual.length = (match d.weight with | none => d.nModel | some w => min d.nModel w.length) :=
  unlinkedResult_shape mi s d r hg h

/-- The statement without a hypothesis on the weight,
    `∀ mi s d r, unlinkedResult mi s d = some r → d.gmcs = [] →
       r.label = d.label ∧ r.clps.length = d.nGlobal ∧ r.residual.length = d.nModel`,
    is false in the model: a weight with fewer rows than the data truncates the residual. -/
theorem unlinked_result_labels_and_count_counterexample :
    ¬ ∀ (mi : ModelItems) (s : Solver) (d : Dataset) (r : DsResult),
        unlinkedResult mi s d = some r → d.gmcs = [] →
        r.label = d.label ∧ r.clps.length = d.nGlobal ∧ r.residual.length = d.nModel := by
  intro hall
  let d : Dataset :=
    { label := "a", globalAxis := [0], data := [[1], [2]], weight := some [[1]], scale := none,
      mcs := [⟨⟨["c"], .d2 [[1], [1]]⟩, none⟩], gmcs := [] }
  have hev : (unlinkedResult {} .vp d).map (fun r => r.residual.length) = some 1 := by decide +kernel
  obtain ⟨r, hr, hlen⟩ := Option.map_eq_some_iff.mp hev
  have := (hall {} .vp d r hr rfl).2.2
  rw [hlen] at this
  exact absurd this (by decide)

/-- With a weight that has (at least) one row per model-axis point — in particular a weight of the
    shape of the data — the result carries the dataset's label, one clp vector per global index and a
    residual with one row per model-axis point. -/
theorem unlinked_result_labels_and_count_partial (mi : ModelItems) (s : Solver) (d : Dataset) (r : DsResult)
    (h : unlinkedResult mi s d = some r) (hg : d.gmcs = [])
    (hw : ∀ w, d.weight = some w → d.nModel ≤ w.length) :
    r.label = d.label ∧ r.clps.length = d.nGlobal ∧ r.residual.length = d.nModel := by
  obtain ⟨h1, h2, h3⟩ := unlinkedResult_shape mi s d r hg h
  refine ⟨h1, h2, ?_⟩
  cases hwt : d.weight with
  | none => simpa [hwt] using h3
  | some w =>
    have := hw w hwt
    rw [h3]; simp only [hwt]; omega

/-- a weighted 2 × 2 dataset with one compartment: the result exists and has the stated shape -/
example :
    let d : Dataset :=
      { label := "a", globalAxis := [0, 1], data := [[1, 2], [2, 3]], weight := some [[1, 2], [1, 1]],
        scale := none, mcs := [⟨⟨["c"], .d2 [[1], [1]]⟩, none⟩], gmcs := [] }
    ∃ r, unlinkedResult {} .vp d = some r ∧ r.label = "a" ∧ r.clps.length = 2 ∧ r.residual.length = 2 := by
  intro d
  have hs : (unlinkedResult {} .vp d).isSome = true := by decide +kernel
  obtain ⟨r, hr⟩ := Option.isSome_iff_exists.mp hs
  exact ⟨r, hr, unlinked_result_labels_and_count_partial {} .vp d r hr rfl
    (by intro w hw; obtain rfl : [[1, 2], [1, 1]] = w := Option.some.inj hw; decide)⟩

/-! ### 7. linked groups use dataset labels only through equality tests -/

/-- Renaming the datasets of a linked group (`renameGroup f`, Lemmas/C03.lean: every dataset label
    `l` becomes `f l`, nothing else changes) by a map that is injective on the labels of the group
    renames the results (`relabel f`: only the `label` field changes) and leaves everything else —
    clp labels, clps, residual, weighted residual, fitted data — exactly as it was. -/
theorem linked_result_label_independent (mi : ModelItems) (g : Group) (f : String → String)
    (hinj : ∀ d1 ∈ g.datasets, ∀ d2 ∈ g.datasets, f d1.label = f d2.label → d1.label = d2.label) :
    linkedResultsOwn mi (renameGroup f g) = (linkedResultsOwn mi g).map (List.map (relabel f)) :=
  linkedResultsOwn_rename mi g f hinj

/-- all numeric fields (and the clp labels) of the results are unchanged -/
theorem linked_result_numeric_label_independent (mi : ModelItems) (g : Group) (f : String → String)
    (hinj : ∀ d1 ∈ g.datasets, ∀ d2 ∈ g.datasets, f d1.label = f d2.label → d1.label = d2.label) :
    (linkedResultsOwn mi (renameGroup f g)).map
        (List.map (fun r => (r.clpLabels, r.clps, r.residual, r.weighted, r.fitted))) =
    (linkedResultsOwn mi g).map
        (List.map (fun r => (r.clpLabels, r.clps, r.residual, r.weighted, r.fitted))) := by
  rw [linkedResultsOwn_rename mi g f hinj]
  cases linkedResultsOwn mi g with
  | none => rfl
  | some rs => simp [relabel, Function.comp_def]

/-- two datasets (2 × 2 unweighted, 3 × 2 weighted and scaled) overlapping in one aligned index -/
private def exGroup (l1 l2 : String) : Group :=
  { linked := true, solver := .vp, tol := 0, method := .nearest,
    datasets := [
      { label := l1, globalAxis := [0, 1], data := [[1, 2], [2, 3]], weight := none, scale := none,
        mcs := [⟨⟨["c"], .d2 [[1], [1]]⟩, none⟩], gmcs := [] },
      { label := l2, globalAxis := [1, 2], data := [[4, 1], [6, 1], [9, 2]],
        weight := some [[1, 2], [1, 1], [2, 1]], scale := some 2,
        mcs := [⟨⟨["c", "e"], .d2 [[1, 0], [1, 1], [1, 2]]⟩, none⟩], gmcs := [] }] }

example : (linkedResultsOwn {} (exGroup "a" "b")).isSome = true ∧
    linkedResultsOwn {} (renameGroup (fun l => l ++ "'") (exGroup "a" "b")) =
      (linkedResultsOwn {} (exGroup "a" "b")).map (List.map (relabel (fun l => l ++ "'"))) :=
  ⟨by decide +kernel,
   linked_result_label_independent {} (exGroup "a" "b") (fun l => l ++ "'") (by
     intro d1 _ d2 _ h
     simpa using h)⟩

/-- injectivity on the group's labels cannot be dropped: giving both datasets the same label moves
    the block offset of the second one (its residual is cut from the wrong place of the stacked
    residual of the shared aligned index). -/
theorem linked_result_label_independent_needs_injective :
    (linkedResultsOwn {} (renameGroup (fun _ => "a") (exGroup "a" "b"))).map (List.map (·.residual)) ≠
    (linkedResultsOwn {} (exGroup "a" "b")).map (List.map (·.residual)) := by
  decide +kernel

/-! ### 8. fitted = dataset scale × matrix × clp

Vocabulary (Lemmas/C03Fit.lean, Lemmas/C03Linked.lean, model C03.lean):
* `matrixAt lm nGlobal i` — the `matrix` variable of the result at global index `i`: slice `i` of the dataset's
  combined megacomplex matrix `lm = datasetMatrix d.mcs`, not scaled, not reduced, not weighted;
* `LMatOK nModel nGlobal lm` — distinct clp labels, `nModel` rows (per index), one column per label;
  `DataOK d` — data (and weight) are `nModel × nGlobal`;
* `NoChain rels L x` (C02) — among the relations applying at `x` on labels `L` no source is a target and
  the targets are distinct; the excluded point is finding D18 (counter-example below);
* `PointSpec d lm r i m` — the statement at one point: with `clp = r.clps[i]`, `row = (matrixAt lm _ i)[m]`,
  `k` the dataset scale, `y = data[m][i]`:
    no weight:  `residual[m][i] = y − k·row·clp`, `fitted[m][i] = y − residual[m][i]`;
    weight `ω`: `weighted_residual[m][i] = ω·(y − k·row·clp)`, `residual = weighted_residual/ω`,
                `fitted[m][i] = y − weighted_residual[m][i]/ω`.
-/

/-- **Unlinked dataset (no global model), every point, weighted or not**: the reported clps of index
    `i` have one entry per clp label of the dataset's matrix and the (weighted) residual is
    `weight · (data − scale · matrix_i · clp_i)`; `fitted = data − weighted residual / weight`.
    Partial: `NoChain` at every global index (D18). -/
theorem point_spec_unlinked_partial (mi : ModelItems) (s : Solver) (d : Dataset) (lm : LMat) (r : DsResult)
    (h : unlinkedResult mi s d = some r) (hg : d.gmcs = []) (hlm : datasetMatrix d.mcs = some lm)
    (hok : LMatOK d.nModel d.nGlobal lm) (hd : DataOK d)
    (hnc : ∀ x ∈ d.globalAxis, NoChain mi.relations lm.labels x)
    (i m : Nat) (hi : i < d.nGlobal) (hm : m < d.nModel) :
    r.clpLabels = lm.labels ∧
    ∃ clp row y, r.clps[i]? = some clp ∧ clp.length = lm.labels.length ∧
      (matrixAt lm d.nGlobal i)[m]? = some row ∧ entry? d.data m i = some y ∧
      match d.weight with
      | none => r.weighted = none ∧
          entry? r.residual m i = some (y - d.scale.getD 1 * dot row clp) ∧
          entry? r.fitted m i = some (y - (y - d.scale.getD 1 * dot row clp))
      | some w => ∃ ω wres, entry? w m i = some ω ∧ r.weighted = some wres ∧
          entry? wres m i = some (ω * (y - d.scale.getD 1 * dot row clp)) ∧
          entry? r.residual m i = some (ω * (y - d.scale.getD 1 * dot row clp) / ω) ∧
          entry? r.fitted m i = some (y - ω * (y - d.scale.getD 1 * dot row clp) / ω) :=
  unlinked_point mi s d lm r h hg hlm hok hd hnc i m hi hm

/-- **Unlinked: `fitted[m][i] = scale · (matrix_i · clp_i)[m]`** wherever the weight (if any) is non-zero. -/
theorem fitted_eq_scale_matrix_clp_unlinked_partial (mi : ModelItems) (s : Solver) (d : Dataset) (lm : LMat)
    (r : DsResult) (h : unlinkedResult mi s d = some r) (hg : d.gmcs = [])
    (hlm : datasetMatrix d.mcs = some lm) (hok : LMatOK d.nModel d.nGlobal lm) (hd : DataOK d)
    (hnc : ∀ x ∈ d.globalAxis, NoChain mi.relations lm.labels x)
    (i m : Nat) (hi : i < d.nGlobal) (hm : m < d.nModel)
    (hw : ∀ w, d.weight = some w → entry? w m i ≠ some 0) :
    ∃ clp row, r.clps[i]? = some clp ∧ clp.length = lm.labels.length ∧
      (matrixAt lm d.nGlobal i)[m]? = some row ∧
      entry? r.fitted m i = some (d.scale.getD 1 * dot row clp) :=
  (unlinked_pointSpec mi s d lm r h hg hlm hok hd hnc i m hi hm).2.fitted hw

/-- a weighted (one weight is 2), scaled (×2) 2 × 2 dataset with two compartments, s2 = 3·s1 on the whole axis -/
private def exDs : Dataset :=
  { label := "a", globalAxis := [0, 1], data := [[1, 2], [2, 3]], weight := some [[1, 2], [1, 1]],
    scale := some 2, mcs := [⟨⟨["s1", "s2"], .d2 [[1, 0], [1, 1]]⟩, none⟩], gmcs := [] }
private def exMi : ModelItems := { relations := [⟨"s1", "s2", 3, none⟩] }
private def exLm : LMat := ⟨["s1", "s2"], .d2 [[1, 0], [1, 1]]⟩

private theorem exDs_ok : datasetMatrix exDs.mcs = some exLm ∧ LMatOK exDs.nModel exDs.nGlobal exLm ∧ DataOK exDs ∧
    ∀ x ∈ exDs.globalAxis, NoChain exMi.relations exLm.labels x := by
  refine ⟨rfl, ⟨by decide, ?_⟩, ⟨by decide, ?_⟩, ?_⟩
  · show _ ∧ _
    exact ⟨by decide, by decide⟩
  · intro w hw
    obtain rfl : [[1, 2], [1, 1]] = w := Option.some.inj hw
    decide
  · intro x _
    exact noChain_of_flat _ ⟨by decide, by decide⟩ _ _

example : ∃ r, unlinkedResult exMi .vp exDs = some r ∧
    ∃ clp row, r.clps[1]? = some clp ∧ (matrixAt exLm 2 1)[1]? = some row ∧
      entry? r.fitted 1 1 = some (2 * dot row clp) := by
  have hs : (unlinkedResult exMi .vp exDs).isSome = true := by decide +kernel
  obtain ⟨r, hr⟩ := Option.isSome_iff_exists.mp hs
  obtain ⟨h1, h2, h3, h4⟩ := exDs_ok
  obtain ⟨clp, row, hc, _, hrow, hf⟩ := fitted_eq_scale_matrix_clp_unlinked_partial exMi .vp exDs exLm r hr rfl
    h1 h2 h3 h4 1 1 (by decide) (by decide) (by
      intro w hw
      obtain rfl : [[1, 2], [1, 1]] = w := Option.some.inj hw
      decide +kernel)
  exact ⟨r, hr, clp, row, hc, hrow, hf⟩

/-- the numbers of that example: clps (9/34, 27/34) at index 0, fitted column (9/17, 36/17) — twice
    (1·9/34, 1·9/34 + 1·27/34) -/
example : (unlinkedResult exMi .vp exDs).map (fun r => (r.clps[0]?, r.fitted.map (·[0]?))) =
    some (some [9/34, 27/34], [some (9/17), some (36/17)]) := by decide +kernel

/-- **Chained relations break `fitted = matrix × clp` (finding D18)**: with s2 = 3·s1 and s3 = 2·s2 on an
    identity matrix and data (1, 3, 6) the result reports clps (1, 3, 6) — `matrix · clp = (1, 3, 6)` — but
    `fitted_data = (1, 3, 0)`: the reduced matrix dropped s3.  `NoChain` fails for this input. -/
theorem fitted_eq_scale_matrix_clp_counterexample :
    let mi : ModelItems := { relations := [⟨"s1", "s2", 3, none⟩, ⟨"s2", "s3", 2, none⟩] }
    let d : Dataset :=
      { label := "a", globalAxis := [0], data := [[1], [3], [6]], weight := none, scale := none,
        mcs := [⟨⟨["s1", "s2", "s3"], .d2 [[1, 0, 0], [0, 1, 0], [0, 0, 1]]⟩, none⟩], gmcs := [] }
    ¬ NoChain mi.relations ["s1", "s2", "s3"] 0 ∧
    (unlinkedResult mi .vp d).map (fun r => (r.clps, r.fitted)) = some ([[1, 3, 6]], [[1], [3], [0]]) ∧
    mulVec [[1, 0, 0], [0, 1, 0], [0, 0, 1]] [1, 3, 6] = [1, 3, 6] := by
  decide +kernel

/-- **Linked group, every dataset, every point, weighted or not**: for dataset `k` of the group (in
    dataset order), its own global index `i` and model index `m` the result of dataset `k` satisfies the
    point statement with the dataset's own matrix, scale, data and weight — whatever datasets share the
    aligned index and wherever the dataset's block lies in the stacked problem.
    Partial: `NoChain` on the stacked labels of every aligned index (D18). -/
theorem point_spec_linked_partial (mi : ModelItems) (g : Group) (rs : List DsResult)
    (h : linkedResultsOwn mi g = some rs)
    (hlabels : (g.datasets.map (·.label)).Nodup)
    (hdata : ∀ d ∈ g.datasets, DataOK d)
    (hmatrix : ∀ d ∈ g.datasets, ∀ lm, datasetMatrix d.mcs = some lm → LMatOK d.nModel d.nGlobal lm)
    (haxes : ∀ d ∈ g.datasets, d.globalAxis.Nodup)
    (hnc : ∀ axis ps, linkedProblems mi g = some (axis, ps) → ∀ p ∈ ps, NoChain mi.relations p.fullLabels p.x)
    (k : Nat) (hk : k < g.datasets.length) (lm : LMat) (hlm : datasetMatrix g.datasets[k].mcs = some lm)
    (i m : Nat) (hi : i < g.datasets[k].nGlobal) (hm : m < g.datasets[k].nModel) :
    ∃ r, rs[k]? = some r ∧ r.label = g.datasets[k].label ∧ r.clpLabels = lm.labels ∧
    ∃ clp row y, r.clps[i]? = some clp ∧ clp.length = lm.labels.length ∧
      (matrixAt lm g.datasets[k].nGlobal i)[m]? = some row ∧ entry? g.datasets[k].data m i = some y ∧
      match g.datasets[k].weight with
      | none => r.weighted = none ∧
          entry? r.residual m i = some (y - g.datasets[k].scale.getD 1 * dot row clp) ∧
          entry? r.fitted m i = some (y - (y - g.datasets[k].scale.getD 1 * dot row clp))
      | some w => ∃ ω wres, entry? w m i = some ω ∧ r.weighted = some wres ∧
          entry? wres m i = some (ω * (y - g.datasets[k].scale.getD 1 * dot row clp)) ∧
          entry? r.residual m i = some (ω * (y - g.datasets[k].scale.getD 1 * dot row clp) / ω) ∧
          entry? r.fitted m i = some (y - ω * (y - g.datasets[k].scale.getD 1 * dot row clp) / ω) :=
  linked_point mi g rs h ⟨hlabels, hdata, hmatrix, haxes, hnc⟩ k hk lm hlm i m hi hm

/-- **Linked: `fitted[m][i] = scale · (matrix_i · clp_i)[m]`** wherever the weight (if any) is non-zero. -/
theorem fitted_eq_scale_matrix_clp_linked_partial (mi : ModelItems) (g : Group) (rs : List DsResult)
    (h : linkedResultsOwn mi g = some rs)
    (hlabels : (g.datasets.map (·.label)).Nodup)
    (hdata : ∀ d ∈ g.datasets, DataOK d)
    (hmatrix : ∀ d ∈ g.datasets, ∀ lm, datasetMatrix d.mcs = some lm → LMatOK d.nModel d.nGlobal lm)
    (haxes : ∀ d ∈ g.datasets, d.globalAxis.Nodup)
    (hnc : ∀ axis ps, linkedProblems mi g = some (axis, ps) → ∀ p ∈ ps, NoChain mi.relations p.fullLabels p.x)
    (k : Nat) (hk : k < g.datasets.length) (lm : LMat) (hlm : datasetMatrix g.datasets[k].mcs = some lm)
    (i m : Nat) (hi : i < g.datasets[k].nGlobal) (hm : m < g.datasets[k].nModel)
    (hw : ∀ w, g.datasets[k].weight = some w → entry? w m i ≠ some 0) :
    ∃ r clp row, rs[k]? = some r ∧ r.clps[i]? = some clp ∧ clp.length = lm.labels.length ∧
      (matrixAt lm g.datasets[k].nGlobal i)[m]? = some row ∧
      entry? r.fitted m i = some (g.datasets[k].scale.getD 1 * dot row clp) := by
  obtain ⟨r, hr, _, _, hp⟩ := linked_point mi g rs h ⟨hlabels, hdata, hmatrix, haxes, hnc⟩ k hk lm hlm i m hi hm
  obtain ⟨clp, row, h1, h2, h3, h4⟩ := hp.fitted hw
  exact ⟨r, clp, row, hr, h1, h2, h3, h4⟩

/-- the global sufficient condition: relation targets pairwise distinct and no source is a target -/
theorem noChain_of_relations_flat (rels : List Relation) (h : RelationsFlat rels) (L : List String) (x : Rat) :
    NoChain rels L x := noChain_of_flat rels h L x

/-- the linked example group of section 7 (dataset "b": 3 × 2, weighted, scale 2, sharing aligned value 1
    with "a" and alone at aligned value 2) satisfies the hypotheses -/
private theorem exGroup_ok :
    ((exGroup "a" "b").datasets.map (·.label)).Nodup ∧
    (∀ d ∈ (exGroup "a" "b").datasets, DataOK d) ∧
    (∀ d ∈ (exGroup "a" "b").datasets, ∀ lm, datasetMatrix d.mcs = some lm → LMatOK d.nModel d.nGlobal lm) ∧
    (∀ d ∈ (exGroup "a" "b").datasets, d.globalAxis.Nodup) ∧
    (∀ axis ps, linkedProblems {} (exGroup "a" "b") = some (axis, ps) →
      ∀ p ∈ ps, NoChain ({} : ModelItems).relations p.fullLabels p.x) := by
  refine ⟨by decide, ?_, ?_, ?_, ?_⟩
  · intro d hd
    simp only [exGroup, List.mem_cons, List.not_mem_nil, or_false] at hd
    rcases hd with rfl | rfl
    · exact ⟨by decide, by intro w hw; cases hw⟩
    · refine ⟨by decide, ?_⟩
      intro w hw
      obtain rfl : [[1, 2], [1, 1], [2, 1]] = w := Option.some.inj hw
      decide
  · intro d hd lm hlm
    simp only [exGroup, List.mem_cons, List.not_mem_nil, or_false] at hd
    rcases hd with rfl | rfl
    · obtain rfl : (⟨["c"], .d2 [[1], [1]]⟩ : LMat) = lm := Option.some.inj hlm
      refine ⟨by decide, ?_⟩
      show _ ∧ _
      exact ⟨by decide, by decide⟩
    · obtain rfl : (⟨["c", "e"], .d2 [[1, 0], [1, 1], [1, 2]]⟩ : LMat) = lm := Option.some.inj hlm
      refine ⟨by decide, ?_⟩
      show _ ∧ _
      exact ⟨by decide, by decide⟩
  · intro d hd
    simp only [exGroup, List.mem_cons, List.not_mem_nil, or_false] at hd
    rcases hd with rfl | rfl <;> decide
  · intro axis ps _ p _
    exact noChain_of_flat _ ⟨by decide, by simp⟩ _ _

/-- dataset "b" (index 1 of the group), its global index 0 (aligned value 1, shared with "a"; its block
    starts at offset 2 of the stacked residual), model index 2, weight 2 -/
example : ∃ rs r clp row, linkedResultsOwn {} (exGroup "a" "b") = some rs ∧ rs[1]? = some r ∧
    r.clps[0]? = some clp ∧ (matrixAt ⟨["c", "e"], .d2 [[1, 0], [1, 1], [1, 2]]⟩ 2 0)[2]? = some row ∧
    entry? r.fitted 2 0 = some (2 * dot row clp) := by
  have hs : (linkedResultsOwn {} (exGroup "a" "b")).isSome = true := by decide +kernel
  obtain ⟨rs, hrs⟩ := Option.isSome_iff_exists.mp hs
  obtain ⟨h1, h2, h3, h4, h5⟩ := exGroup_ok
  obtain ⟨r, clp, row, hr, hc, _, hrow, hf⟩ := fitted_eq_scale_matrix_clp_linked_partial {} (exGroup "a" "b") rs hrs
    h1 h2 h3 h4 h5 1 (by decide) ⟨["c", "e"], .d2 [[1, 0], [1, 1], [1, 2]]⟩ rfl 0 2 (by decide) (by decide) (by
      intro w hw
      obtain rfl : [[1, 2], [1, 1], [2, 1]] = w := Option.some.inj hw
      decide +kernel)
  exact ⟨rs, r, clp, row, hrs, hr, hc, hrow, hf⟩

/-- **Any dataset group, linked or not** (`GroupOK`, Lemmas/C03Linked.lean: rectangular data and weights, well
    formed matrices; unlinked: no global model and `NoChain` at every global index; linked: distinct dataset
    labels, no repeated axis value, `NoChain` on the stacked labels): the result of the group's `k`-th
    dataset carries its label, the clp labels of its matrix and `fitted = scale × matrix × clp` at every
    point whose weight (if any) is non-zero. -/
theorem fitted_eq_scale_matrix_clp_partial (mi : ModelItems) (g : Group) (rs : List DsResult)
    (h : groupResultsOwn mi g = some rs) (hok : GroupOK mi g)
    (k : Nat) (hk : k < g.datasets.length) (lm : LMat) (hlm : datasetMatrix g.datasets[k].mcs = some lm)
    (i m : Nat) (hi : i < g.datasets[k].nGlobal) (hm : m < g.datasets[k].nModel)
    (hw : ∀ w, g.datasets[k].weight = some w → entry? w m i ≠ some 0) :
    ∃ r clp row, rs[k]? = some r ∧ r.label = g.datasets[k].label ∧ r.clpLabels = lm.labels ∧
      r.clps[i]? = some clp ∧ clp.length = lm.labels.length ∧
      (matrixAt lm g.datasets[k].nGlobal i)[m]? = some row ∧
      entry? r.fitted m i = some (g.datasets[k].scale.getD 1 * dot row clp) := by
  obtain ⟨r, hr, hl, hc, hp⟩ := group_point mi g rs h hok k hk lm hlm i m hi hm
  obtain ⟨clp, row, h1, h2, h3, h4⟩ := hp.fitted hw
  exact ⟨r, clp, row, hr, hl, hc, h1, h2, h3, h4⟩

example : GroupOK {} (exGroup "a" "b") ∧ (groupResultsOwn {} (exGroup "a" "b")).isSome = true := by
  obtain ⟨h1, h2, h3, h4, h5⟩ := exGroup_ok
  exact ⟨⟨h2, h3, (fun h => by simp [exGroup] at h), (fun _ => ⟨h1, h4, h5⟩)⟩, by decide +kernel⟩

/-- **Linked groups report every dataset on its own global axis order**: two datasets with *descending*
    global axes (2, 1) and (3, 2) — the aligned axis is ascending (1, 2, 3) — still get `fitted = matrix·clp`
    column by column (regression witness for the repaired `get_result`, which used to lay the columns
    out in aligned-axis order). -/
example :
    let g : Group :=
      { linked := true, solver := .vp, tol := 0, method := .nearest,
        datasets := [
          { label := "a", globalAxis := [2, 1], data := [[0, -2], [3, 1], [-1, 4]], weight := none, scale := none,
            mcs := [⟨⟨["c"], .d2 [[1], [1], [2]]⟩, none⟩], gmcs := [] },
          { label := "b", globalAxis := [3, 2], data := [[0, -2], [3, 1], [-1, 4]], weight := none, scale := some 2,
            mcs := [⟨⟨["c"], .d2 [[1], [0], [1]]⟩, none⟩], gmcs := [] }] }
    (linkedResultsOwn {} g).map (List.map (fun r => (r.clps, r.fitted))) =
      some [([[5/14], [7/6]], [[5/14, 7/6], [5/14, 7/6], [5/7, 7/3]]),
            ([[-1/4], [5/14]], [[-1/2, 5/7], [0, 0], [-1/2, 5/7]])] := by
  decide +kernel

/-! ### 9. datasets with a global model: fitted = matrix × clp × global_matrixᵀ -/

/-- **Full model, every point, weighted or not**: the result reports one clp row per global clp label (each
    with one entry per clp label of the matrix), and with `grow` = row `g` of the global matrix, `row` = row
    `m` of the model matrix at index `g`, `S = Σ_j grow[j] · (row · clps[j])` — entry `(m, g)` of
    `matrix × clpᵀ × global_matrixᵀ` — the (weighted) residual is `ω · (data − S)` and
    `fitted = data − weighted residual / ω`.  No hypothesis on relations: a full model is not reduced. -/
theorem point_spec_full_model (mi : ModelItems) (s : Solver) (d : Dataset) (lm gm : LMat) (G : Mat) (r : DsResult)
    (h : unlinkedResult mi s d = some r) (hgne : d.gmcs ≠ [])
    (hlm : datasetMatrix d.mcs = some lm) (hgm : datasetMatrix d.gmcs = some gm) (hGb : gm.body = .d2 G)
    (hok : LMatOK d.nModel d.nGlobal lm) (hd : DataOK d) (hG : G.length = d.nGlobal)
    (hGw : ∀ r ∈ G, r.length = gm.labels.length)
    (g m : Nat) (hg : g < d.nGlobal) (hm : m < d.nModel) :
    r.clpLabels = lm.labels ∧ r.clps.length = gm.labels.length ∧
    ∃ grow row y ω, G[g]? = some grow ∧ (matrixAt lm d.nGlobal g)[m]? = some row ∧
      entry? d.data m g = some y ∧
      (match (generalizing := false) d.weight with | none => ω = 1 | some w => entry? w m g = some ω) ∧
      match d.weight with
      | none => r.weighted = none ∧
          entry? r.residual m g = some (ω * (y - dot grow (r.clps.map (fun clp => dot row clp)))) ∧
          entry? r.fitted m g = some (y - ω * (y - dot grow (r.clps.map (fun clp => dot row clp))))
      | some _ => ∃ wres, r.weighted = some wres ∧
          entry? wres m g = some (ω * (y - dot grow (r.clps.map (fun clp => dot row clp)))) ∧
          entry? r.residual m g = some (ω * (y - dot grow (r.clps.map (fun clp => dot row clp))) / ω) ∧
          entry? r.fitted m g = some (y - ω * (y - dot grow (r.clps.map (fun clp => dot row clp))) / ω) :=
  full_point mi s d lm gm G r h hgne hlm hgm hGb hok hd hG hGw g m hg hm

/-- **Full model: `fitted[m][g] = Σ_j G[g][j] · (M_g[m] · clp_j)`** wherever the weight (if any) is non-zero. -/
theorem fitted_eq_matrix_clp_global_full (mi : ModelItems) (s : Solver) (d : Dataset) (lm gm : LMat) (G : Mat)
    (r : DsResult) (h : unlinkedResult mi s d = some r) (hgne : d.gmcs ≠ [])
    (hlm : datasetMatrix d.mcs = some lm) (hgm : datasetMatrix d.gmcs = some gm) (hGb : gm.body = .d2 G)
    (hok : LMatOK d.nModel d.nGlobal lm) (hd : DataOK d) (hG : G.length = d.nGlobal)
    (hGw : ∀ r ∈ G, r.length = gm.labels.length)
    (g m : Nat) (hg : g < d.nGlobal) (hm : m < d.nModel)
    (hw : ∀ w, d.weight = some w → entry? w m g ≠ some 0) :
    ∃ grow row, G[g]? = some grow ∧ (matrixAt lm d.nGlobal g)[m]? = some row ∧
      entry? r.fitted m g = some (dot grow (r.clps.map (fun clp => dot row clp))) := by
  obtain ⟨_, _, grow, row, y, ω, h1, h2, _, hω, h5⟩ :=
    full_point mi s d lm gm G r h hgne hlm hgm hGb hok hd hG hGw g m hg hm
  refine ⟨grow, row, h1, h2, ?_⟩
  cases hwt : d.weight with
  | none =>
    rw [hwt] at h5 hω
    simp only at h5 hω
    subst hω
    rw [h5.2.2]; congr 1; ring
  | some w =>
    rw [hwt] at h5 hω
    simp only at h5 hω
    obtain ⟨wres, _, _, _, hf⟩ := h5
    have hne : ω ≠ 0 := by
      intro h0; subst h0; exact hw w hwt hω
    rw [hf]; congr 1; field_simp; ring

/-- 2 × 3 weighted data, two compartments, two global compartments (the dataset of C02's `full_model_kron`
    example): point (m, g) = (1, 2) -/
private def exFull : Dataset :=
  { label := "f", globalAxis := [0, 1, 2], data := [[1, 2, 3], [4, 5, 6]], weight := some [[1, 1, 2], [1, 3, 1]],
    scale := none, mcs := [⟨⟨["s1", "s2"], .d2 [[1, 2], [3, 4]]⟩, none⟩],
    gmcs := [⟨⟨["g1", "g2"], .d2 [[1, 0], [1, 1], [2, 5]]⟩, none⟩] }

example : ∃ r grow row, unlinkedResult {} .vp exFull = some r ∧
    ([[1, 0], [1, 1], [2, 5]] : Mat)[2]? = some grow ∧
    (matrixAt ⟨["s1", "s2"], .d2 [[1, 2], [3, 4]]⟩ 3 2)[1]? = some row ∧
    entry? r.fitted 1 2 = some (dot grow (r.clps.map (fun clp => dot row clp))) := by
  have hs : (unlinkedResult {} .vp exFull).isSome = true := by decide +kernel
  obtain ⟨r, hr⟩ := Option.isSome_iff_exists.mp hs
  obtain ⟨grow, row, h1, h2, h3⟩ := fitted_eq_matrix_clp_global_full {} .vp exFull
    ⟨["s1", "s2"], .d2 [[1, 2], [3, 4]]⟩ ⟨["g1", "g2"], .d2 [[1, 0], [1, 1], [2, 5]]⟩ [[1, 0], [1, 1], [2, 5]] r hr
    (by decide) rfl rfl rfl
    (by refine ⟨by decide, ?_⟩; show _ ∧ _; exact ⟨by decide, by decide⟩)
    ⟨by decide, by
      intro w hw
      obtain rfl : [[1, 1, 2], [1, 3, 1]] = w := Option.some.inj hw
      decide⟩
    (by decide) (by decide) 2 1 (by decide) (by decide) (by
      intro w hw
      obtain rfl : [[1, 1, 2], [1, 3, 1]] = w := Option.some.inj hw
      decide +kernel)
  exact ⟨r, grow, row, hr, h1, h2, h3⟩

/-- the numbers: clp rows (per global compartment) and the fitted data of that example -/
example : (unlinkedResult {} .vp exFull).map (fun r => (r.clps, r.fitted)) =
    some ([[46363/15755, -12544/15755], [-17003/15755, 9019/15755]],
      [[185/137, 194/137, 415/137], [649/115, 108/23, 753/115]]) := by decide +kernel

/-! ### 10. the legacy layout -/

/-- **`linkedResults` (a dataset's columns in aligned-axis order — the code before fix D27, still used by
    C13's lemmas) equals `linkedResultsOwn` (own global index order — the repaired code, what the C03 driver
    executes) whenever every dataset's aligned axis is strictly increasing.** -/
theorem legacy_layout_eq_own_of_ascending (mi : ModelItems) (g : Group)
    (hsorted : ∀ aligned, alignAxes (g.datasets.map (·.globalAxis)) g.tol g.method = some aligned →
      ∀ al ∈ aligned, al.Pairwise (· < ·)) :
    linkedResults mi g = linkedResultsOwn mi g :=
  linkedResults_eq_own mi g hsorted

/-- ascending axes (the example group of section 7) … -/
example : alignAxes ((exGroup "a" "b").datasets.map (·.globalAxis)) 0 .nearest = some [[0, 1], [1, 2]] ∧
    (∀ al ∈ ([[0, 1], [1, 2]] : List (List Rat)), al.Pairwise (· < ·)) ∧
    linkedResults {} (exGroup "a" "b") = linkedResultsOwn {} (exGroup "a" "b") := by
  refine ⟨by decide +kernel, by decide +kernel, ?_⟩
  apply legacy_layout_eq_own_of_ascending
  intro aligned hal al hmem
  have h : alignAxes ((exGroup "a" "b").datasets.map (·.globalAxis)) (exGroup "a" "b").tol (exGroup "a" "b").method
      = some [[0, 1], [1, 2]] := by decide +kernel
  rw [h] at hal
  obtain rfl := Option.some.inj hal
  revert al hmem
  decide +kernel

/-- … and the hypothesis cannot be dropped: with descending axes the two layouts differ (the legacy one is
    the defect D27) -/
example :
    let g : Group :=
      { linked := true, solver := .vp, tol := 0, method := .nearest,
        datasets := [
          { label := "a", globalAxis := [2, 1], data := [[0, -2], [3, 1], [-1, 4]], weight := none, scale := none,
            mcs := [⟨⟨["c"], .d2 [[1], [1], [2]]⟩, none⟩], gmcs := [] },
          { label := "b", globalAxis := [3, 2], data := [[0, -2], [3, 1], [-1, 4]], weight := none, scale := some 2,
            mcs := [⟨⟨["c"], .d2 [[1], [0], [1]]⟩, none⟩], gmcs := [] }] }
    (linkedResults {} g).map (List.map (·.clps)) ≠ (linkedResultsOwn {} g).map (List.map (·.clps)) := by
  decide +kernel

/-! ### 11. the result assembly regenerated from the source text equals the model

`Generated.tables` (GlotaranModel/Generated/C03Steps.lean) is rewritten on every run from the source of
`EstimationProviderUnlinked.get_result`, `EstimationProviderLinked.get_result`, `OptimizationGroup.create_result_data`,
`OptimizationGroup.add_weight_to_result_data` and the data loop of `Optimizer.create_result`; `Steps.genUnlinked`,
`Steps.genLinked`, `Steps.genResults` (GlotaranModel/C03Steps.lean) interpret it.  `stored` is the dimension order
in which a dataset's `data` variable is stored, `ownW` whether the dataset brings its own `weight` variable. -/
open Glotaran.C03.Steps in
/-- **`create_result_data` + `add_weight_to_result_data` as written in the source** turn what `get_result` hands over
    (clp labels, clps, residual with dims (model, global) — `hmg` —) into the variables of `finish`: `weighted_residual` is the handed
    over residual, `residual` is it divided by the data provider's weight, `fitted_data = data − residual`, the `weight`
    variable is the weight in the data's own dimension order, `dataset_scale` the dataset's scale (1 when absent) —
    for either storage order, with or without weight, own or model weight. -/
theorem generated_assemble_eq_model (stored : Orient) (ownW : Bool) (d : Dataset) (est : EstOut)
    (hmg : est.residualOrient = .mg) :
    assemble Generated.createStmts Generated.addWeightStmts stored ownW d est =
      some ⟨finish d est.clpLabels est.clps est.residual, d.weight, some (d.scale.getD 1)⟩ :=
  assemble_generated stored ownW d est hmg

open Glotaran.C03.Steps in
example : (assemble Generated.createStmts Generated.addWeightStmts .gm false
    { label := "a", globalAxis := [0, 1], data := [[1, 2], [3, 4]], weight := some [[2, 4], [1, 3]], scale := some 2,
      mcs := [], gmcs := [] } ⟨["c"], [[1], [2]], .mg, [[2, 4], [5, 9]]⟩).map (fun a => (a.result.residual, a.result.weighted, a.weightVar)) =
    some ([[1, 1], [5, 3]], some [[2, 4], [5, 9]], some [[2, 4], [1, 3]]) := by decide +kernel

open Glotaran.C03.Steps in
/-- **Unlinked dataset, with or without a global model**: the regenerated `get_result` → `create_result_data` path
    computes `unlinkedResult` (and reports the weight and the dataset scale). -/
theorem generated_result_eq_model_unlinked (stored : Orient) (ownW : Bool) (mi : ModelItems) (s : Solver) (d : Dataset) :
    genUnlinked Generated.tables stored ownW mi s d =
      (unlinkedResult mi s d).map (fun r => ⟨r, d.weight, some (d.scale.getD 1)⟩) :=
  genUnlinked_generated stored ownW mi s d

open Glotaran.C03.Steps in
example : (genUnlinked Generated.tables .gm false exMi .vp exDs).isSome = true ∧
    (genUnlinked Generated.tables .gm false exMi .vp exDs).map (·.result) = unlinkedResult exMi .vp exDs := by
  rw [generated_result_eq_model_unlinked]
  have hs : (unlinkedResult exMi .vp exDs).isSome = true := by decide +kernel
  obtain ⟨r, hr⟩ := Option.isSome_iff_exists.mp hs
  rw [hr]; exact ⟨rfl, rfl⟩

open Glotaran.C03.Steps in
/-- **Full model, spelled out**: the flattened (global-major) residual is cut into one chunk per global index and laid out
    as columns of a (model × global) array, the flattened clps into one row per global clp label. -/
theorem generated_result_eq_model_full (stored : Orient) (ownW : Bool) (mi : ModelItems) (s : Solver) (d : Dataset)
    (lm gm : LMat) (a : Mat) (y : Vec) (cr : Vec × Vec) (hg : d.gmcs ≠ [])
    (hp : fullModelProblem d = some (a, y)) (hlm : datasetMatrix d.mcs = some lm) (hgm : datasetMatrix d.gmcs = some gm)
    (hs : solveLS s a y = some cr) :
    genUnlinked Generated.tables stored ownW mi s d =
      some ⟨finish d lm.labels (chunk lm.labels.length gm.labels.length cr.1)
              (ofColumns d.nModel (chunk d.nModel d.nGlobal cr.2)), d.weight, some (d.scale.getD 1)⟩ := by
  rw [genUnlinked_generated]
  have hne : d.gmcs.isEmpty = false := by cases h : d.gmcs with | nil => exact absurd h hg | cons _ _ => rfl
  simp [unlinkedResult, hne, hp, hlm, hgm, hs]

open Glotaran.C03.Steps in
example : (genUnlinked Generated.tables .mg true {} .vp exFull).map (fun a => a.result.fitted) =
    some [[185/137, 194/137, 415/137], [649/115, 108/23, 753/115]] := by
  rw [generated_result_eq_model_unlinked]; decide +kernel

open Glotaran.C03.Steps in
/-- **Linked group**: the regenerated `EstimationProviderLinked.get_result` (parts collected over the aligned axis
    for the indices the dataset is a member of, clps picked by label, residual block cut by the model-axis sizes of
    the members before it, both re-ordered by the argsort of the dataset's own global indices) followed by
    `create_result_data` computes `linkedResultsOwn`, dataset by dataset, and reports every dataset's weight and
    scale.  Hypothesis: no dataset repeats a value on its global axis (a coordinate). -/
theorem generated_result_eq_model_linked (stored : String → Orient) (ownW : String → Bool) (mi : ModelItems) (g : Group)
    (haxes : ∀ d ∈ g.datasets, d.globalAxis.Nodup) :
    (genLinked Generated.tables stored ownW mi g).map (List.map (·.result)) = linkedResultsOwn mi g ∧
    (genLinked Generated.tables stored ownW mi g).map (List.map (fun a => (a.weightVar, a.scaleAttr))) =
      (linkedResultsOwn mi g).map (fun _ => g.datasets.map (fun d => (d.weight, some (d.scale.getD 1)))) := by
  have hn : ∀ aligned, alignAxes (g.datasets.map (·.globalAxis)) g.tol g.method = some aligned →
      ∀ al ∈ aligned, al.Nodup := fun aligned hal =>
    alignAxes_nodup _ _ _ aligned hal (by
      intro a ha
      obtain ⟨d, hd, rfl⟩ := List.mem_map.mp ha
      exact haxes d hd)
  rw [genLinked_generated stored ownW mi g hn]
  refine ⟨linkedAssembled_result mi g, ?_⟩
  unfold linkedAssembled linkedResultsOwn
  cases hal : alignAxes (g.datasets.map (·.globalAxis)) g.tol g.method with
  | none => rfl
  | some aligned =>
    cases linkedProblems mi g with
    | none => rfl
    | some ap =>
      obtain ⟨axis, ps⟩ := ap
      simp only []
      cases ps.mapM (fun p => (solveLS g.solver p.reduced.m p.data).map (fun cr => (p, cr))) with
      | none => rfl
      | some sols =>
        have hlen : aligned.length = g.datasets.length := by
          have := congrArg List.length (alignAxes_lengths _ _ _ _ hal)
          simpa using this
        simp only [Option.map_some, List.map_map, Option.some.injEq]
        have : g.datasets = (g.datasets.zip aligned).map (·.1) := by
          rw [List.map_fst_zip (by omega)]
        conv_rhs => rw [this]
        simp [List.map_map, Function.comp_def]

open Glotaran.C03.Steps in
/-- the descending-axes group of section 8 (regression witness of D27), both datasets stored as (global, model) -/
example :
    let g : Group :=
      { linked := true, solver := .vp, tol := 0, method := .nearest,
        datasets := [
          { label := "a", globalAxis := [2, 1], data := [[0, -2], [3, 1], [-1, 4]], weight := none, scale := none,
            mcs := [⟨⟨["c"], .d2 [[1], [1], [2]]⟩, none⟩], gmcs := [] },
          { label := "b", globalAxis := [3, 2], data := [[0, -2], [3, 1], [-1, 4]], weight := none, scale := some 2,
            mcs := [⟨⟨["c"], .d2 [[1], [0], [1]]⟩, none⟩], gmcs := [] }] }
    (genLinked Generated.tables (fun _ => .gm) (fun _ => false) {} g).map (List.map (fun a => (a.result.clps, a.scaleAttr))) =
      some [([[5/14], [7/6]], some 1), ([[-1/4], [5/14]], some 2)] := by
  decide +kernel

open Glotaran.C03.Steps in
/-- **All groups, as `Optimizer.create_result` walks them** (`for group in groups: group.calculate(current parameters);
    data.update(group.create_result_data())`): the regenerated path computes `resultsOwn` — what the driver's
    `results` line executes. -/
theorem generated_results_eq_model (stored : String → Orient) (ownW : String → Bool) (mi : ModelItems) (gs : List Group)
    (haxes : ∀ g ∈ gs, g.linked = true → ∀ d ∈ g.datasets, d.globalAxis.Nodup) :
    (genResults Generated.tables stored ownW mi gs).map (List.map (·.result)) = resultsOwn mi gs :=
  genResults_generated stored ownW mi gs haxes

open Glotaran.C03.Steps in
example : (genResults Generated.tables (fun _ => .mg) (fun _ => false) {} [exGroup "a" "b"]).isSome = true := by
  decide +kernel

end Glotaran.C03
