/-
C20 — model validation is sound and complete for references.
Property theorems only (helper lemmas: GlotaranProofs/Lemmas/C20.lean).

All statements are about `Glotaran.C20.getIssues` / `fillItem` / `generateParameters`, for
EVERY schema table `sch`, EVERY validator table `vt` (validator function name → predicate of the
language `VPred`, interpreted by `interpPred`), every abstract model `m` (any number of
collections, items, attributes, labels), every parameter set and every family `cv` of abstract
validators (only what the translator could not express is abstract).
The theorems `generated_*` are about the tables regenerated from the source.

History: before fix D11 `megacomplexValidator` looked every listed label up with
`model.megacomplex[label]`; for an undefined label the outcome was `.error (.keyError …)`,
so `never_internal_error` and `complete` were false (witness: `d11Witness` below, kept as a
regression example; replayed on the real code from corpus/C20/).
-/
import GlotaranProofs.Lemmas.C20
namespace Glotaran.C20

/-! ### what "dangling" means -/

/-- label `l` stands at a model-item reference position (scalar, list element or dict value)
    of some item of `m` — an item of ANY top-level collection, i.e. at any nesting depth —
    that refers to collection `coll`, and `coll` has no item with that label -/
def DanglingItem (sch : Schema) (m : Model) (coll l : String) : Prop :=
  ∃ it ∈ allItems m, ∃ a ∈ (specOf sch it.spec).attrs, a.kind = .item coll ∧
    ∃ ls, it.labels a = .ok ls ∧ l ∈ ls ∧ ∀ c, findColl m coll = some c → c.hasLabel l = false

/-- label `l` stands at a parameter position and is not a label of the parameter set -/
def DanglingParam (sch : Schema) (m : Model) (ps : List String) (l : String) : Prop :=
  ∃ it ∈ allItems m, ∃ a ∈ (specOf sch it.spec).attrs, a.kind = .param ∧
    ∃ ls, it.labels a = .ok ls ∧ l ∈ ls ∧ l ∉ ps

def AllResolve (sch : Schema) (m : Model) (ps : Option (List String)) : Prop :=
  (∀ coll l, ¬ DanglingItem sch m coll l) ∧
  (∀ P, ps = some P → ∀ l, ¬ DanglingParam sch m P l)

/-- a validator has nothing to complain about: a translated one is not violated (specification
    `Violated`: the resolved megacomplexes obey the rules, the measured lists have equal lengths, the
    stored labels are defined); an abstract one returns nothing -/
def PredQuiet (cv : CustomValidators) (sch : Schema) (m : Model) (it : Item) (a : AttrSpec) :
    VPred → Prop
  | .opaque n => cv n it = []
  | .untranslatable r => cv r it = []
  | p => ¬ Violated sch m it a p

/-- every validator is satisfied -/
def ValidatorsQuiet (cv : CustomValidators) (vt : VTable) (sch : Schema) (m : Model) : Prop :=
  ∀ it ∈ allItems m, ∀ a ∈ (specOf sch it.spec).attrs, ∀ n, a.validator = .named n →
    PredQuiet cv sch m it a (predOf vt n)

/-! ### never an internal error -/

/-- **Validation is total**: for a well-shaped model over a closed schema, with validators that
    guard against `None` and skip undefined labels (`tableSafe`: decided for the regenerated
    table, false for the table of the code before fix D11), `get_issues` returns a list of issues
    — no `KeyError`, `AttributeError`, … escapes, whatever dangles. -/
theorem never_internal_error (cv : CustomValidators) (vt : VTable) (sch : Schema) (m : Model)
    (ps : Option (List String)) (hs : WellShaped vt sch m) (hc : Closed vt sch m)
    (ht : tableSafe vt = true) :
    ∃ iss, getIssues cv vt sch m ps = .ok iss := by
  unfold getIssues
  apply collectM_isOk
  intro it hit
  exact itemIssues_isOk (hs it hit) (hc it hit) ht

/-! ### completeness -/

/-- every dangling model-item reference is reported as `Missing model item 'coll' with label 'l'` -/
theorem complete_items (cv : CustomValidators) (vt : VTable) (sch : Schema) (m : Model)
    (ps : Option (List String)) (iss : List Issue) (h : getIssues cv vt sch m ps = .ok iss)
    (coll l : String) (hd : DanglingItem sch m coll l) : Issue.missingItem coll l ∈ iss := by
  obtain ⟨it, hit, a, ha, hk, ls, hls, hl, hno⟩ := hd
  obtain ⟨r, hr⟩ := collectM_each h it hit
  refine (collectM_mem h _).mpr ⟨it, hit, r, hr, ?_⟩
  obtain ⟨i1, i2, i3, h1, _, _, rfl⟩ := itemIssues_ok hr
  obtain ⟨r1, hr1⟩ := collectM_each h1 a ha
  have hmem : Issue.missingItem coll l ∈ i1 := by
    refine (collectM_mem h1 _).mpr ⟨a, ha, r1, hr1, ?_⟩
    -- the collection must exist, otherwise the lookup would have raised
    have hcoll : ∃ c, findColl m coll = some c := by
      cases hc : findColl m coll with
      | some c => exact ⟨c, rfl⟩
      | none =>
        exfalso
        unfold attrItemIssues at hr1
        simp only [hk, hls] at hr1
        cases ls with
        | nil => cases hl
        | cons x xs => simp [hc] at hr1
    obtain ⟨c, hc⟩ := hcoll
    exact (attrItemIssues_mem hr1 _).mpr ⟨coll, ls, l, c, hk, hls, hl, hc, hno c hc, rfl⟩
  simp [hmem]

/-- every dangling parameter reference is reported as `Missing parameter with label 'l'` -/
theorem complete_parameters (cv : CustomValidators) (vt : VTable) (sch : Schema) (m : Model)
    (P : List String) (iss : List Issue) (h : getIssues cv vt sch m (some P) = .ok iss)
    (l : String) (hd : DanglingParam sch m P l) : Issue.missingParam l ∈ iss := by
  obtain ⟨it, hit, a, ha, hk, ls, hls, hl, hno⟩ := hd
  obtain ⟨r, hr⟩ := collectM_each h it hit
  refine (collectM_mem h _).mpr ⟨it, hit, r, hr, ?_⟩
  obtain ⟨i1, i2, i3, _, _, h3, rfl⟩ := itemIssues_ok hr
  simp only at h3
  obtain ⟨r3, hr3⟩ := collectM_each h3 a ha
  have hmem : Issue.missingParam l ∈ i3 :=
    (collectM_mem h3 _).mpr ⟨a, ha, r3, hr3,
      (attrParamIssues_mem hr3 _).mpr ⟨ls, l, hk, hls, hl, hno, rfl⟩⟩
  simp [hmem]

/-- **Completeness**: validation terminates with a list of issues, and that list names every
    dangling reference — model items referenced from any item of any collection (scalar, list,
    dict positions; the megacomplexes of a dataset are the instance `coll = "megacomplex"`) and,
    when parameters are given, every parameter label that is not in the set. -/
theorem complete (cv : CustomValidators) (vt : VTable) (sch : Schema) (m : Model) (ps : Option (List String))
    (hs : WellShaped vt sch m) (hc : Closed vt sch m)
    (ht : tableSafe vt = true) :
    ∃ iss, getIssues cv vt sch m ps = .ok iss ∧
      (∀ coll l, DanglingItem sch m coll l → Issue.missingItem coll l ∈ iss) ∧
      (∀ P, ps = some P → ∀ l, DanglingParam sch m P l → Issue.missingParam l ∈ iss) := by
  obtain ⟨iss, h⟩ := never_internal_error cv vt sch m ps hs hc ht
  refine ⟨iss, h, fun coll l hd => complete_items cv vt sch m ps iss h coll l hd, ?_⟩
  intro P hP l hd
  subst hP
  exact complete_parameters cv vt sch m P iss h l hd

/-- **Validation looks at every position of the walk**: a label the model walker `walkItem`
    lists for an item of the model (the walker that `walker_positions_generated` ties to the live
    `iterate_names_and_labels` / `fill_item_attributes`) is reported when it is not defined. -/
theorem walk_positions_checked (cv : CustomValidators) (vt : VTable) (sch : Schema) (m : Model)
    (ps : Option (List String)) (iss : List Issue) (h : getIssues cv vt sch m ps = .ok iss)
    (it : Item) (hit : it ∈ allItems m) :
    (∀ w coll l, walkItem sch true it = .ok w → (coll, l) ∈ w →
      (∀ c, findColl m coll = some c → c.hasLabel l = false) → Issue.missingItem coll l ∈ iss) ∧
    (∀ w P name l, walkItem sch false it = .ok w → ps = some P → (name, l) ∈ w → l ∉ P →
      Issue.missingParam l ∈ iss) := by
  constructor
  · intro w coll l hw hmem hno
    obtain ⟨a, ha, r, hr, hin⟩ := (collectM_mem hw _).mp hmem
    refine complete_items cv vt sch m ps iss h coll l ⟨it, hit, a, ha, ?_⟩
    unfold attrWalk at hr
    cases hk : a.kind with
    | item c =>
      simp only [hk, if_true] at hr
      cases hl : it.labels a with
      | error e => simp [hl] at hr
      | ok ls =>
        simp only [hl, Except.ok.injEq] at hr
        subst hr
        simp only [List.mem_map, Prod.mk.injEq] at hin
        obtain ⟨x, hx, rfl, rfl⟩ := hin
        exact ⟨rfl, ls, rfl, hx, hno⟩
    | param => simp only [hk, if_true, Except.ok.injEq] at hr; subst hr; cases hin
    | plain => simp only [hk, Except.ok.injEq] at hr; subst hr; cases hin
  · intro w P name l hw hps hmem hno
    subst hps
    obtain ⟨a, ha, r, hr, hin⟩ := (collectM_mem hw _).mp hmem
    refine complete_parameters cv vt sch m P iss h l ⟨it, hit, a, ha, ?_⟩
    unfold attrWalk at hr
    cases hk : a.kind with
    | param =>
      simp only [hk, Bool.false_eq_true, if_false] at hr
      cases hl : it.labels a with
      | error e => simp [hl] at hr
      | ok ls =>
        simp only [hl, Except.ok.injEq] at hr
        subst hr
        simp only [List.mem_map, Prod.mk.injEq] at hin
        obtain ⟨x, hx, _, rfl⟩ := hin
        exact ⟨rfl, ls, rfl, hx, hno⟩
    | item c => simp only [hk, Bool.false_eq_true, if_false, Except.ok.injEq] at hr; subst hr; cases hin
    | plain => simp only [hk, Except.ok.injEq] at hr; subst hr; cases hin

/-! ### the interpreted validators -/

/-- **Every violated validator is reported, and only those**: for an attribute whose validator the
    translator expressed in the predicate language, the validator's contribution to the issues of
    the model is non-empty exactly when the specification `Violated` holds (resolved megacomplexes
    break an exclusive / unique rule, two measured lengths differ, a stored label is not defined),
    and every issue of the contribution is among the reported issues. -/
theorem validators_reported (cv : CustomValidators) (vt : VTable) (sch : Schema) (m : Model)
    (ps : Option (List String)) (iss : List Issue) (h : getIssues cv vt sch m ps = .ok iss)
    (it : Item) (hit : it ∈ allItems m) (a : AttrSpec) (ha : a ∈ (specOf sch it.spec).attrs)
    (n : String) (hv : a.validator = .named n) (htr : (predOf vt n).translated = true) :
    ∃ r, interpPred cv sch m it a (predOf vt n) = .ok r ∧ (∀ i ∈ r, i ∈ iss) ∧
      (r ≠ [] ↔ Violated sch m it a (predOf vt n)) := by
  obtain ⟨ri, hri⟩ := collectM_each h it hit
  obtain ⟨i1, i2, i3, _, h2, _, rfl⟩ := itemIssues_ok hri
  obtain ⟨r2, hr2⟩ := collectM_each h2 a ha
  have hr2' : interpPred cv sch m it a (predOf vt n) = .ok r2 := by
    simpa [attrValidatorIssues, hv] using hr2
  refine ⟨r2, hr2', ?_, interpPred_nonempty_iff htr hr2'⟩
  intro i hi
  refine (collectM_mem h _).mpr ⟨it, hit, _, hri, ?_⟩
  have : i ∈ i2 := (collectM_mem h2 _).mpr ⟨a, ha, r2, hr2, hi⟩
  simp [this]

/-- **Every reported issue is justified**: an issue of `get_issues` is a dangling model-item
    reference, a dangling parameter reference, or comes from the validator of some attribute of
    some item — and if that validator is a translated one, it is violated. -/
theorem issues_justified (cv : CustomValidators) (vt : VTable) (sch : Schema) (m : Model)
    (ps : Option (List String)) (iss : List Issue) (h : getIssues cv vt sch m ps = .ok iss)
    (i : Issue) (hi : i ∈ iss) :
    (∃ coll l, i = .missingItem coll l ∧ DanglingItem sch m coll l) ∨
    (∃ P l, ps = some P ∧ i = .missingParam l ∧ DanglingParam sch m P l) ∨
    (∃ it ∈ allItems m, ∃ a ∈ (specOf sch it.spec).attrs, ∃ n r, a.validator = .named n ∧
      interpPred cv sch m it a (predOf vt n) = .ok r ∧ i ∈ r ∧
      ((predOf vt n).translated = true → Violated sch m it a (predOf vt n))) := by
  obtain ⟨it, hit, r, hr, hir⟩ := (collectM_mem h _).mp hi
  obtain ⟨i1, i2, i3, h1, h2, h3, rfl⟩ := itemIssues_ok hr
  simp only [List.mem_append] at hir
  rcases hir with (hi1 | hi2) | hi3
  · obtain ⟨a, ha, r1, hr1, hi1⟩ := (collectM_mem h1 _).mp hi1
    obtain ⟨coll, ls, l, c, hk, hls, hl, hcc, hno, rfl⟩ := (attrItemIssues_mem hr1 _).mp hi1
    refine Or.inl ⟨coll, l, rfl, it, hit, a, ha, hk, ls, hls, hl, ?_⟩
    intro c' hc'
    rw [hcc] at hc'
    cases hc'
    exact hno
  · obtain ⟨a, ha, r2, hr2, hi2⟩ := (collectM_mem h2 _).mp hi2
    cases hv : a.validator with
    | none => simp [attrValidatorIssues, hv] at hr2; subst hr2; cases hi2
    | named n =>
      have hr2' : interpPred cv sch m it a (predOf vt n) = .ok r2 := by
        simpa [attrValidatorIssues, hv] using hr2
      refine Or.inr (Or.inr ⟨it, hit, a, ha, n, r2, hv, hr2', hi2, ?_⟩)
      intro htr
      exact (interpPred_nonempty_iff htr hr2').mp (List.ne_nil_of_mem hi2)
  · cases ps with
    | none => simp only at h3; subst h3; cases hi3
    | some P =>
      simp only at h3
      obtain ⟨a, ha, r3, hr3, hi3⟩ := (collectM_mem h3 _).mp hi3
      obtain ⟨ls, l, hk, hls, hl, hno, rfl⟩ := (attrParamIssues_mem hr3 _).mp hi3
      exact Or.inr (Or.inl ⟨P, l, rfl, rfl, it, hit, a, ha, hk, ls, hls, hl, hno⟩)

/-- **Exclusive / unique violations are reported**: if the defined megacomplexes listed by an
    attribute whose validator resolves them (`validate_megacomplexes`,
    `validate_global_megacomplexes`) break a rule of that validator, an exclusive or unique issue
    is among the reported issues. -/
theorem exclusive_unique_reported (cv : CustomValidators) (vt : VTable) (sch : Schema) (m : Model)
    (ps : Option (List String)) (iss : List Issue) (h : getIssues cv vt sch m ps = .ok iss)
    (it : Item) (hit : it ∈ allItems m) (a : AttrSpec) (ha : a ∈ (specOf sch it.spec).attrs)
    (n coll : String) (g s : Bool) (rules : List McRule) (hv : a.validator = .named n)
    (hp : predOf vt n = .resolved coll g s rules) (ls : List String)
    (hval : it.valOf a.name = .list ls) (c : Coll) (hc : findColl m coll = some c)
    (hbad : ¬ RulesOK sch rules (ls.filterMap c.findItem)) :
    ∃ i ∈ iss, (∃ l t, i = .exclusive l t) ∨ (∃ l t, i = .unique l t) := by
  obtain ⟨r, hr, hsub, hiff⟩ := validators_reported cv vt sch m ps iss h it hit a ha n hv
    (by rw [hp]; rfl)
  rw [hp] at hr hiff
  have hne : r ≠ [] := hiff.mpr ⟨ls, c, hval, hc, hbad⟩
  obtain ⟨i, hi⟩ := List.exists_mem_of_ne_nil _ hne
  refine ⟨i, hsub i hi, ?_⟩
  simp only [interpPred, hval, hc] at hr
  split at hr
  · cases hr
  · cases hr
    exact ruleIssues_kind hi

/-- **Labels stored as plain strings are references too** (`DatasetModel.group`,
    `Weight.datasets` after the fix): for an attribute whose validator is `definedIn coll`, every
    stored label that is not a label of `coll` is reported as a missing model item. -/
theorem defined_in_reported (cv : CustomValidators) (vt : VTable) (sch : Schema) (m : Model)
    (ps : Option (List String)) (iss : List Issue) (h : getIssues cv vt sch m ps = .ok iss)
    (it : Item) (hit : it ∈ allItems m) (a : AttrSpec) (ha : a ∈ (specOf sch it.spec).attrs)
    (n coll rep : String) (hv : a.validator = .named n) (hp : predOf vt n = .definedIn coll rep)
    (ls : List String) (hls : plainLabels it a.name = .ok ls) (l : String) (hl : l ∈ ls)
    (c : Coll) (hc : findColl m coll = some c) (hno : c.hasLabel l = false) :
    Issue.missingItem rep l ∈ iss := by
  obtain ⟨r, hr, hsub, _⟩ := validators_reported cv vt sch m ps iss h it hit a ha n hv
    (by rw [hp]; rfl)
  apply hsub
  rw [hp] at hr
  simp only [interpPred, hls, hc, Except.ok.injEq] at hr
  subst hr
  exact List.mem_map.mpr ⟨l, List.mem_filter.mpr ⟨hl, by simp [hno]⟩, rfl⟩

/-! ### soundness -/

/-- **Soundness**: a model whose references all resolve and whose validators are satisfied gets
    no issue at all. -/
theorem sound (cv : CustomValidators) (vt : VTable) (sch : Schema) (m : Model)
    (ps : Option (List String))
    (hs : WellShaped vt sch m) (hc : Closed vt sch m) (ht : tableSafe vt = true)
    (hres : AllResolve sch m ps)
    (hq : ValidatorsQuiet cv vt sch m) : getIssues cv vt sch m ps = .ok [] := by
  obtain ⟨iss, h⟩ := never_internal_error cv vt sch m ps hs hc ht
  rw [h]
  congr
  refine collectM_nil_of h ?_
  intro it hit r hr
  obtain ⟨i1, i2, i3, h1, h2, h3, rfl⟩ := itemIssues_ok hr
  have e1 : i1 = [] := by
    refine collectM_nil_of h1 ?_
    intro a ha r1 hr1
    apply List.eq_nil_iff_forall_not_mem.mpr
    intro i hi
    obtain ⟨coll, ls, l, c, hk, hls, hl, hcc, hno, rfl⟩ := (attrItemIssues_mem hr1 i).mp hi
    refine hres.1 coll l ⟨it, hit, a, ha, hk, ls, hls, hl, ?_⟩
    intro c' hc'
    rw [hcc] at hc'
    cases hc'
    exact hno
  have e2 : i2 = [] := by
    refine collectM_nil_of h2 ?_
    intro a ha r2 hr2
    cases hv : a.validator with
    | none => simp [attrValidatorIssues, hv] at hr2; exact hr2
    | named n =>
      have hr2' : interpPred cv sch m it a (predOf vt n) = .ok r2 := by
        simpa [attrValidatorIssues, hv] using hr2
      have hqa := hq it hit a ha n hv
      cases hp : predOf vt n with
      | «opaque» k =>
        rw [hp] at hr2' hqa
        simp only [PredQuiet] at hqa
        simp only [interpPred, hqa, List.map_nil, Except.ok.injEq] at hr2'
        exact hr2'.symm
      | untranslatable k =>
        rw [hp] at hr2' hqa
        simp only [PredQuiet] at hqa
        simp only [interpPred, hqa, List.map_nil, Except.ok.injEq] at hr2'
        exact hr2'.symm
      | resolved coll g s rules =>
        rw [hp] at hr2' hqa
        exact Classical.byContradiction fun hne =>
          hqa ((interpPred_nonempty_iff rfl hr2').mp hne)
      | lengthsEqual as =>
        rw [hp] at hr2' hqa
        exact Classical.byContradiction fun hne =>
          hqa ((interpPred_nonempty_iff rfl hr2').mp hne)
      | definedIn coll rep =>
        rw [hp] at hr2' hqa
        exact Classical.byContradiction fun hne =>
          hqa ((interpPred_nonempty_iff rfl hr2').mp hne)
  have e3 : i3 = [] := by
    cases ps with
    | none => exact h3
    | some P =>
      simp only at h3
      refine collectM_nil_of h3 ?_
      intro a ha r3 hr3
      apply List.eq_nil_iff_forall_not_mem.mpr
      intro i hi
      obtain ⟨ls, l, hk, hls, hl, hno, rfl⟩ := (attrParamIssues_mem hr3 i).mp hi
      exact hres.2 P rfl l ⟨it, hit, a, ha, hk, ls, hls, hl, hno⟩
  simp [e1, e2, e3]

/-! ### a valid model fills -/

private theorem fillParams_isOk {ps : List String} {it : Item} {a : AttrSpec}
    (h : attrParamIssues ps it a = .ok []) : ∃ r, fillParams ps it a = .ok r := by
  unfold fillParams
  unfold attrParamIssues at h
  cases hk : a.kind with
  | param =>
    simp only [hk] at h
    cases hl : it.labels a with
    | error e => simp [hl] at h
    | ok ls =>
      simp only [hl] at h
      have hall : ∀ l ∈ ls, l ∈ ps := by
        intro l hl'
        by_cases hcon : l ∈ ps
        · exact hcon
        · exfalso
          have : Issue.missingParam l ∈ ((ls.filter (fun x => !ps.contains x)).map Issue.missingParam) :=
            List.mem_map.mpr ⟨l, List.mem_filter.mpr ⟨hl', by simpa using hcon⟩, rfl⟩
          simp only [Except.ok.injEq] at h
          rw [h] at this
          cases this
      simp only
      apply collectM_isOk
      intro l hl'
      exact ⟨[l], by simp [hall l hl']⟩
  | item c => simp
  | plain => simp

/-- **A model and parameter set that validate can be filled**: if validation reports nothing
    and item references are acyclic (`rk` decreases along every resolved reference — Python
    would otherwise recurse without bound), `fill_item` succeeds for every item, in particular
    for every dataset, once the recursion budget exceeds the item's rank. -/
theorem valid_fills (cv : CustomValidators) (vt : VTable) (sch : Schema) (m : Model) (ps : List String)
    (rk : Item → Nat)
    (hrk : ∀ it ∈ allItems m, ∀ a ∈ (specOf sch it.spec).attrs, ∀ coll, a.kind = .item coll →
      ∀ ls, it.labels a = .ok ls → ∀ l ∈ ls, ∀ c, findColl m coll = some c →
      ∀ t, c.findItem l = some t → rk t < rk it)
    (hvalid : getIssues cv vt sch m (some ps) = .ok []) :
    ∀ (fuel : Nat) (it : Item), it ∈ allItems m → rk it < fuel →
      ∃ f, fillItem sch m ps fuel it = .ok f := by
  intro fuel
  induction fuel with
  | zero => intro it _ h; omega
  | succ fuel ih =>
    intro it hit hlt
    obtain ⟨r, hr⟩ := collectM_each hvalid it hit
    have hrnil : r = [] := by
      apply List.eq_nil_iff_forall_not_mem.mpr
      intro i hi
      have := (collectM_mem hvalid i).mpr ⟨it, hit, r, hr, hi⟩
      cases this
    subst hrnil
    obtain ⟨i1, i2, i3, h1, _, h3, hnil⟩ := itemIssues_ok hr
    simp only at h3
    have hi1 : i1 = [] := by
      cases i1 with
      | nil => rfl
      | cons x xs => simp at hnil
    have hi3 : i3 = [] := by
      cases i3 with
      | nil => rfl
      | cons x xs => simp at hnil
    subst hi1 hi3
    -- children
    have hchildren : ∃ cs, collectM (fillAttr m (fillItem sch m ps fuel) it)
        (specOf sch it.spec).attrs = .ok cs := by
      apply collectM_isOk
      intro a ha
      obtain ⟨r1, hr1⟩ := collectM_each h1 a ha
      have hr1nil : r1 = [] := by
        apply List.eq_nil_iff_forall_not_mem.mpr
        intro i hi
        have := (collectM_mem h1 i).mpr ⟨a, ha, r1, hr1, hi⟩
        cases this
      subst hr1nil
      unfold fillAttr
      cases hk : a.kind with
      | item coll =>
        simp only
        unfold attrItemIssues at hr1
        simp only [hk] at hr1
        cases hl : it.labels a with
        | error e => simp [hl] at hr1
        | ok ls =>
          cases ls with
          | nil => exact ⟨[], rfl⟩
          | cons l ls =>
            simp only [hl] at hr1
            cases hc : findColl m coll with
            | none => simp [hc] at hr1
            | some c =>
              simp only [hc] at hr1
              simp only
              apply collectM_isOk
              intro x hx
              have hhas : c.hasLabel x = true := by
                cases hh : c.hasLabel x with
                | true => rfl
                | false =>
                  exfalso
                  have : Issue.missingItem coll x ∈
                      (((l :: ls).filter (fun y => !c.hasLabel y)).map (Issue.missingItem coll)) :=
                    List.mem_map.mpr ⟨x, List.mem_filter.mpr ⟨hx, by simp [hh]⟩, rfl⟩
                  simp only [Except.ok.injEq] at hr1
                  rw [hr1] at this
                  cases this
              obtain ⟨t, ht⟩ := findItem_of_hasLabel hhas
              have htm : t ∈ allItems m := mem_allItems (findColl_mem hc) (findItem_mem ht)
              have hlt' : rk t < fuel := by
                have := hrk it hit a ha coll hk (l :: ls) hl x hx c hc t ht
                omega
              obtain ⟨f, hf⟩ := ih t htm hlt'
              exact ⟨[f], by simp [ht, hf]⟩
      | param => exact ⟨[], rfl⟩
      | plain => exact ⟨[], rfl⟩
    have hparams : ∃ pl, collectM (fillParams ps it) (specOf sch it.spec).attrs = .ok pl := by
      apply collectM_isOk
      intro a ha
      obtain ⟨r3, hr3⟩ := collectM_each h3 a ha
      have hr3nil : r3 = [] := by
        apply List.eq_nil_iff_forall_not_mem.mpr
        intro i hi
        have := (collectM_mem h3 i).mpr ⟨a, ha, r3, hr3, hi⟩
        cases this
      subst hr3nil
      exact fillParams_isOk hr3
    obtain ⟨cs, hcs⟩ := hchildren
    obtain ⟨pl, hpl⟩ := hparams
    exact ⟨.node it.spec it.label cs pl, by simp [fillItem, hcs, hpl]⟩

/-- every item sits in the collection its class belongs to -/
def WellTyped (sch : Schema) (m : Model) : Prop :=
  ∀ c ∈ m, ∀ it ∈ c.items, (specOf sch it.spec).coll = c.name

/-- `valid_fills` for a schema whose reference graph is ranked (as `generated_schema_ranked`
    establishes for the builtin classes): a recursion budget of `rank + 1` suffices — for the
    builtin classes 3 nested `fill_item` calls (dataset → megacomplex → k_matrix / shape). -/
theorem valid_fills_ranked (cv : CustomValidators) (vt : VTable) (sch : Schema) (m : Model)
    (ps : List String)
    (rk : String → Nat) (hr : schemaRanked sch rk = true) (ht : WellTyped sch m)
    (hvalid : getIssues cv vt sch m (some ps) = .ok []) (it : Item) (hit : it ∈ allItems m) :
    ∃ f, fillItem sch m ps (rk (specOf sch it.spec).coll + 1) it = .ok f := by
  refine valid_fills cv vt sch m ps (fun x => rk (specOf sch x.spec).coll) ?_ hvalid _ it hit
    (Nat.lt_succ_self _)
  intro it' _ a ha coll hk ls _ l _ c hc t hfi
  have hcm : c ∈ m := findColl_mem hc
  have hname : c.name = coll := by
    have := List.find?_some hc
    simpa using this
  have htc : (specOf sch t.spec).coll = coll := by
    rw [ht c hcm t (findItem_mem hfi), hname]
  rcases specOf_mem_or_empty sch it'.spec with hs | hs
  · simp only [schemaRanked, List.all_eq_true] at hr
    have := hr _ hs a ha
    rw [hk] at this
    simp only [decide_eq_true_eq] at this
    simpa [htc] using this
  · rw [hs] at ha; cases ha

/-! ### generated parameters -/

/-- **The parameters generated for a model leave no missing-parameter issue** (and both
    `generate_parameters` and the validation against them terminate normally). -/
theorem generated_parameters_suffice (cv : CustomValidators) (vt : VTable) (sch : Schema) (m : Model)
    (hs : WellShaped vt sch m) (hc : Closed vt sch m)
    (ht : tableSafe vt = true) :
    ∃ P iss, generateParameters sch m = .ok P ∧ getIssues cv vt sch m (some P) = .ok iss ∧
      ∀ l, Issue.missingParam l ∉ iss := by
  have hP : ∃ P, parameterLabels sch m = .ok P := by
    unfold parameterLabels
    apply collectM_isOk
    intro it hit
    unfold itemParamLabels
    apply collectM_isOk
    intro a ha
    unfold attrParamLabels
    cases hk : a.kind with
    | param => exact (hs it hit a ha).1 (by simp [hk])
    | item c => exact ⟨[], rfl⟩
    | plain => exact ⟨[], rfl⟩
  obtain ⟨P, hP⟩ := hP
  obtain ⟨iss, h⟩ := never_internal_error cv vt sch m (some P) hs hc ht
  refine ⟨P, iss, hP, h, ?_⟩
  intro l hmem
  obtain ⟨it, hit, r, hr, hir⟩ := (collectM_mem h _).mp hmem
  obtain ⟨i1, i2, i3, h1, h2, h3, rfl⟩ := itemIssues_ok hr
  simp only at h3
  simp only [List.mem_append] at hir
  rcases hir with (hi | hi) | hi
  · obtain ⟨a, ha, r1, hr1, hi1⟩ := (collectM_mem h1 _).mp hi
    obtain ⟨_, _, _, _, _, _, _, _, _, hne⟩ := (attrItemIssues_mem hr1 _).mp hi1
    cases hne
  · obtain ⟨a, ha, r2, hr2, hi2⟩ := (collectM_mem h2 _).mp hi
    exact attrValidatorIssues_kind hr2 hi2 l rfl
  · obtain ⟨a, ha, r3, hr3, hi3⟩ := (collectM_mem h3 _).mp hi
    obtain ⟨ls, l', hk, hls, hl, hno, he⟩ := (attrParamIssues_mem hr3 _).mp hi3
    cases he
    apply hno
    -- l is one of the collected labels
    refine (collectM_mem hP l).mpr ⟨it, hit, ?_⟩
    obtain ⟨q, hq⟩ := collectM_each hP it hit
    refine ⟨q, hq, ?_⟩
    unfold itemParamLabels at hq
    refine (collectM_mem hq l).mpr ⟨a, ha, ls, ?_, hl⟩
    simp [attrParamLabels, hk, hls]

/-- **Nothing superfluous is generated**: every label of `generate_parameters` stands at a parameter
    position of some item of the model. -/
theorem generated_parameters_all_referenced (sch : Schema) (m : Model) (P : List String)
    (hP : generateParameters sch m = .ok P) (l : String) (hl : l ∈ P) :
    ∃ it ∈ allItems m, ∃ a ∈ (specOf sch it.spec).attrs, a.kind = .param ∧
      ∃ ls, it.labels a = .ok ls ∧ l ∈ ls := by
  unfold generateParameters parameterLabels at hP
  obtain ⟨it, hit, q, hq, hlq⟩ := (collectM_mem hP l).mp hl
  unfold itemParamLabels at hq
  obtain ⟨a, ha, ls, hls, hlls⟩ := (collectM_mem hq l).mp hlq
  refine ⟨it, hit, a, ha, ?_⟩
  unfold attrParamLabels at hls
  cases hk : a.kind with
  | param =>
    simp only [hk] at hls
    exact ⟨rfl, ls, hls, hlls⟩
  | item c =>
    simp only [hk] at hls
    cases hls
    cases hlls
  | plain =>
    simp only [hk] at hls
    cases hls
    cases hlls

/-- **The generated parameter set is tight**: leaving out any one of the generated labels makes
    validation report a `ParameterIssue` for exactly that label (so `generated_parameters_suffice`
    is not met by generating too much, and "every single parameter removed in turn" is reported). -/
theorem generated_parameters_tight (cv : CustomValidators) (vt : VTable) (sch : Schema) (m : Model)
    (P : List String) (hP : generateParameters sch m = .ok P) (l : String) (hl : l ∈ P)
    (iss : List Issue) (h : getIssues cv vt sch m (some (P.filter (· ≠ l))) = .ok iss) :
    Issue.missingParam l ∈ iss := by
  obtain ⟨it, hit, a, ha, hk, ls, hls, hlls⟩ := generated_parameters_all_referenced sch m P hP l hl
  refine complete_parameters cv vt sch m _ iss h l ⟨it, hit, a, ha, hk, ls, hls, hlls, ?_⟩
  intro hmem
  have := (List.mem_filter.mp hmem).2
  simp at this

/-! ### the regenerated tables -/

/-- what the modeller claims the validator functions of the builtin classes check — the
    hand-written side of `generated_validators_eq_model` -/
def builtinValidators : VTable := [
  ("glotaran.builtin.megacomplexes.damped_oscillation.damped_oscillation_megacomplex.validate_oscillation_parameter",
    .lengthsEqual ["labels", "frequencies", "rates"]),
  ("glotaran.builtin.megacomplexes.pfid.pfid_megacomplex.validate_pfid_parameter",
    .lengthsEqual ["labels", "frequencies", "rates"]),
  ("glotaran.model.dataset_model.validate_dataset_group", .definedIn "dataset_groups" "dataset_groups"),
  ("glotaran.model.dataset_model.validate_global_megacomplexes", .resolved "megacomplex" true true stdRules),
  ("glotaran.model.dataset_model.validate_megacomplexes", .resolved "megacomplex" true true stdRules),
  ("glotaran.model.weight.validate_weight_datasets", .definedIn "dataset" "dataset")]

/-- **the validator functions of the live classes check what the model says they check**: the
    table translated from their source on this run is the hand-written one (an edit of a validator
    that changes the translated predicate, or makes it untranslatable, re-opens this theorem) -/
theorem generated_validators_eq_model : Generated.validators = builtinValidators := by
  decide

/-- no builtin validator is abstract, none can raise: every one resolves labels behind a `None`
    guard and skips undefined labels (fix D11) -/
theorem generated_validators_safe :
    tableSafe Generated.validators = true ∧
    Generated.validators.all (fun e => e.2.translated) = true ∧
    Generated.otherHooks = [] := by
  decide

/-- every validator attached to an attribute of a builtin class has an entry in the table -/
theorem generated_validators_cover :
    (Generated.schema.all fun s => s.attrs.all fun a =>
      match a.validator with
      | .named n => Generated.validators.any (fun e => e.1 = n) &&
          Generated.validatorUses.contains (s.key, a.name, n)
      | .none => true) = true := by
  decide

/-- **the model walker visits exactly the positions the live walkers visit**: every builtin class
    was probed with every reference attribute full (a label / two list elements / two dict values,
    all labels distinct), empty (`""`, `[]`, `{}`) and `None`, and on every probe the positions
    `walkItem` lists — those `attrItemIssues`, `attrParamIssues`, `fillAttr`, `fillParams` look at
    — are, in order, the `(name, label)` pairs `iterate_model_item_names_and_labels` /
    `iterate_parameter_names_and_labels` yielded and `fill_item_attributes` filled.  An edit that
    makes a live walker skip a kind of container (dict values, Optional lists, aliased attributes)
    changes the regenerated rows and re-opens this theorem. -/
theorem walker_positions_generated :
    Generated.walker.all (rowAgrees Generated.schema) = true ∧
    walkerCovers Generated.schema Generated.walker = true := by
  constructor <;> decide

/-- every collection an attribute or a validator of a builtin class refers to is a keyed collection
    of the model class (so `getattr(model, name)` cannot fail) — re-decided whenever a table changes -/
theorem generated_schema_closed :
    schemaClosed Generated.validators Generated.schema Generated.keyed = true := by
  decide

/-- the item references of the builtin classes are acyclic: the generated rank decreases along
    every reference (dataset → megacomplex → k_matrix / shape, dataset → irf, …) -/
theorem generated_schema_ranked :
    schemaRanked Generated.schema (rankOf Generated.collRank) = true := by
  decide

/-- the instance for the real classes: any well-shaped model over the regenerated schema whose
    model class has the keyed collections of the table validates without an internal error and
    names every dangling reference -/
theorem complete_generated (cv : CustomValidators) (m : Model) (ps : Option (List String))
    (hs : WellShaped Generated.validators Generated.schema m)
    (hm : ∀ c ∈ Generated.keyed, ∃ x, findColl m c = some x) :
    ∃ iss, getIssues cv Generated.validators Generated.schema m ps = .ok iss ∧
      (∀ coll l, DanglingItem Generated.schema m coll l → Issue.missingItem coll l ∈ iss) ∧
      (∀ P, ps = some P → ∀ l, DanglingParam Generated.schema m P l → Issue.missingParam l ∈ iss) :=
  complete cv Generated.validators Generated.schema m ps hs
    (closed_of_schemaClosed generated_schema_closed hm) generated_validators_safe.1

/-- the instance of `sound` for the real classes: nothing abstract is left in the hypothesis — no
    dangling reference and no violated (translated) validator means no issue -/
theorem sound_generated (cv : CustomValidators) (m : Model) (ps : Option (List String))
    (hs : WellShaped Generated.validators Generated.schema m)
    (hm : ∀ c ∈ Generated.keyed, ∃ x, findColl m c = some x)
    (hres : AllResolve Generated.schema m ps)
    (hq : ∀ it ∈ allItems m, ∀ a ∈ (specOf Generated.schema it.spec).attrs, ∀ n,
      a.validator = .named n → ¬ Violated Generated.schema m it a (predOf Generated.validators n)) :
    getIssues cv Generated.validators Generated.schema m ps = .ok [] := by
  refine sound cv Generated.validators Generated.schema m ps hs
    (closed_of_schemaClosed generated_schema_closed hm) generated_validators_safe.1 hres ?_
  intro it hit a ha n hv
  have hq' := hq it hit a ha n hv
  have htr : (predOf Generated.validators n).translated = true := by
    have hall := generated_validators_safe.2.1
    unfold predOf
    cases hf : Generated.validators.find? (fun p => p.1 = n) with
    | none =>
      -- a validator without an entry: excluded by `generated_validators_cover`
      exfalso
      rcases specOf_mem_or_empty Generated.schema it.spec with hsm | hsm
      · have hcov := generated_validators_cover
        simp only [List.all_eq_true] at hcov
        have := hcov _ hsm a ha
        rw [hv] at this
        simp only [Bool.and_eq_true, List.any_eq_true, decide_eq_true_eq] at this
        obtain ⟨⟨e, he, hen⟩, _⟩ := this
        have := List.find?_eq_none.mp hf e he
        simp [hen] at this
      · rw [hsm] at ha; cases ha
    | some e =>
      simp only [List.all_eq_true] at hall
      exact hall e (List.mem_of_find?_eq_some hf)
  cases hp : predOf Generated.validators n with
  | «opaque» k => rw [hp] at htr; cases htr
  | untranslatable k => rw [hp] at htr; cases htr
  | resolved coll g s rules => rw [hp] at hq'; exact hq'
  | lengthsEqual as => rw [hp] at hq'; exact hq'
  | definedIn coll rep => rw [hp] at hq'; exact hq'

/-! ### non-vacuity and regression examples -/

/-! ### the parameter set only decides the `ParameterIssue`s

`Model.get_issues(parameters=P)` = `Model.get_issues()` plus one `ParameterIssue` per parameter
position whose label is not in `P`: the statement "reports an issue for every parameter referenced
but not defined … and nothing for a model whose references all resolve" is monotone — giving more
parameters can only remove issues, removing a parameter (the quantifier's "every single parameter
removed in turn") can only add `ParameterIssue`s for exactly that label. -/

/-- **Parameters only add parameter issues (1)**: everything `get_issues()` reports without a
    parameter set is also reported by `get_issues(parameters=P)`, for any `P`. -/
theorem issues_without_parameters_subset (cv : CustomValidators) (vt : VTable) (sch : Schema)
    (m : Model) (P : List String) {r0 r : List Issue}
    (h0 : getIssues cv vt sch m none = .ok r0) (h : getIssues cv vt sch m (some P) = .ok r) :
    ∀ i ∈ r0, i ∈ r := by
  intro i hi
  unfold getIssues at h0 h
  obtain ⟨it, hit, bs0, hb0, hib0⟩ := (collectM_mem h0 i).mp hi
  obtain ⟨bs, hb⟩ := collectM_each h it hit
  refine (collectM_mem h i).mpr ⟨it, hit, bs, hb, ?_⟩
  obtain ⟨a1, a2, a3, ha1, ha2, ha3, rfl⟩ := itemIssues_ok hb0
  obtain ⟨b1, b2, b3, hb1, hb2, _, rfl⟩ := itemIssues_ok hb
  rw [ha1] at hb1; rw [ha2] at hb2
  cases hb1; cases hb2
  simp only at ha3
  subst ha3
  simp only [List.append_nil, List.mem_append] at hib0 ⊢
  exact Or.inl hib0

/-- **Parameters only add parameter issues (2)**: an issue of `get_issues(parameters=P)` is an
    issue of `get_issues()` or a `ParameterIssue` for a label that is not in `P`. -/
theorem issues_with_parameters_extra (cv : CustomValidators) (vt : VTable) (sch : Schema)
    (m : Model) (P : List String) {r0 r : List Issue}
    (h0 : getIssues cv vt sch m none = .ok r0) (h : getIssues cv vt sch m (some P) = .ok r) :
    ∀ i ∈ r, i ∈ r0 ∨ ∃ l, i = .missingParam l ∧ l ∉ P := by
  intro i hi
  unfold getIssues at h0 h
  obtain ⟨it, hit, bs, hb, hib⟩ := (collectM_mem h i).mp hi
  obtain ⟨bs0, hb0⟩ := collectM_each h0 it hit
  obtain ⟨a1, a2, a3, ha1, ha2, ha3, rfl⟩ := itemIssues_ok hb0
  obtain ⟨b1, b2, b3, hb1, hb2, hb3, rfl⟩ := itemIssues_ok hb
  rw [ha1] at hb1; rw [ha2] at hb2
  cases hb1; cases hb2
  simp only at ha3 hb3
  subst ha3
  rcases List.mem_append.mp hib with h12 | h3
  · exact Or.inl ((collectM_mem h0 i).mpr ⟨it, hit, _, hb0, by simpa using h12⟩)
  · obtain ⟨a, _, cs, hcs, hic⟩ := (collectM_mem hb3 i).mp h3
    obtain ⟨_, l, _, _, _, hn, rfl⟩ := (attrParamIssues_mem hcs i).mp hic
    exact Or.inr ⟨l, rfl, hn⟩

/-- **Validation is antitone in the parameter set**: adding parameters (`P ⊆ P'`) never adds an
    issue — every issue reported with the larger set is reported with the smaller one. -/
theorem issues_antitone_in_parameters (cv : CustomValidators) (vt : VTable) (sch : Schema)
    (m : Model) (P P' : List String) (hsub : ∀ x ∈ P, x ∈ P') {r r' : List Issue}
    (h : getIssues cv vt sch m (some P) = .ok r) (h' : getIssues cv vt sch m (some P') = .ok r') :
    ∀ i ∈ r', i ∈ r := by
  intro i hi
  unfold getIssues at h h'
  obtain ⟨it, hit, bs', hb', hib'⟩ := (collectM_mem h' i).mp hi
  obtain ⟨bs, hb⟩ := collectM_each h it hit
  refine (collectM_mem h i).mpr ⟨it, hit, bs, hb, ?_⟩
  obtain ⟨a1, a2, a3, ha1, ha2, ha3, rfl⟩ := itemIssues_ok hb
  obtain ⟨b1, b2, b3, hb1, hb2, hb3, rfl⟩ := itemIssues_ok hb'
  rw [ha1] at hb1; rw [ha2] at hb2
  cases hb1; cases hb2
  simp only at ha3 hb3
  rcases List.mem_append.mp hib' with h12 | h3
  · exact List.mem_append.mpr (Or.inl h12)
  · refine List.mem_append.mpr (Or.inr ?_)
    obtain ⟨a, ha, cs', hcs', hic'⟩ := (collectM_mem hb3 i).mp h3
    obtain ⟨cs, hcs⟩ := collectM_each ha3 a ha
    refine (collectM_mem ha3 i).mpr ⟨a, ha, cs, hcs, ?_⟩
    obtain ⟨ls, l, hk, hls, hl, hn, rfl⟩ := (attrParamIssues_mem hcs' _).mp hic'
    exact (attrParamIssues_mem hcs _).mpr ⟨ls, l, hk, hls, hl, fun hp => hn (hsub l hp), rfl⟩

/-- whether validation ends in an internal error does not depend on which parameters are given:
    only the shape of the parameter positions is inspected -/
theorem parameters_do_not_change_totality (cv : CustomValidators) (vt : VTable) (sch : Schema)
    (m : Model) (P P' : List String) {r : List Issue}
    (h : getIssues cv vt sch m (some P) = .ok r) :
    ∃ r', getIssues cv vt sch m (some P') = .ok r' := by
  unfold getIssues at h ⊢
  apply collectM_isOk
  intro it hit
  obtain ⟨bs, hb⟩ := collectM_each h it hit
  obtain ⟨a1, a2, a3, ha1, ha2, ha3, rfl⟩ := itemIssues_ok hb
  simp only at ha3
  have h3 : ∃ c3, collectM (attrParamIssues P' it) (specOf sch it.spec).attrs = .ok c3 := by
    apply collectM_isOk
    intro a ha
    obtain ⟨cs, hcs⟩ := collectM_each ha3 a ha
    unfold attrParamIssues at hcs ⊢
    cases hk : a.kind with
    | param =>
      simp only [hk] at hcs ⊢
      cases hl : it.labels a with
      | error e => simp [hl] at hcs
      | ok ls => exact ⟨_, rfl⟩
    | item c => exact ⟨_, rfl⟩
    | plain => exact ⟨_, rfl⟩
  obtain ⟨c3, hc3⟩ := h3
  exact ⟨a1 ++ a2 ++ c3, by simp [itemIssues, ha1, ha2, hc3]⟩

/-- **Only membership in the parameter set is observable**: two parameter sets with the same
    labels (any order, any multiplicity) give literally the same outcome — the same issues in the
    same order, or the same internal error. -/
theorem issues_depend_on_parameter_membership (cv : CustomValidators) (vt : VTable) (sch : Schema)
    (m : Model) (P P' : List String) (hmem : ∀ x, x ∈ P ↔ x ∈ P') :
    getIssues cv vt sch m (some P) = getIssues cv vt sch m (some P') := by
  have hc : ∀ x, P.contains x = P'.contains x := by
    intro x
    have := hmem x
    by_cases hx : x ∈ P
    · simp [hx, this.mp hx]
    · have hx' : x ∉ P' := fun h => hx (this.mpr h)
      simp [hx, hx']
  have ha : attrParamIssues P = attrParamIssues P' := by
    funext it a
    unfold attrParamIssues
    simp only [hc]
  unfold getIssues
  congr 1
  funext it
  simp only [itemIssues, ha]

/-- **One parameter removed in turn**: removing the label `l` from the parameter set adds nothing
    but `ParameterIssue`s for `l` itself. -/
theorem remove_one_parameter (cv : CustomValidators) (vt : VTable) (sch : Schema)
    (m : Model) (P : List String) (l : String) {r r' : List Issue}
    (h : getIssues cv vt sch m (some P) = .ok r)
    (h' : getIssues cv vt sch m (some (P.filter (· ≠ l))) = .ok r') :
    (∀ i ∈ r, i ∈ r') ∧ (∀ i ∈ r', i ∈ r ∨ i = .missingParam l) := by
  refine ⟨issues_antitone_in_parameters cv vt sch m _ P (fun x hx => (List.mem_filter.mp hx).1) h' h, ?_⟩
  intro i hi
  unfold getIssues at h h'
  obtain ⟨it, hit, bs', hb', hib'⟩ := (collectM_mem h' i).mp hi
  obtain ⟨bs, hb⟩ := collectM_each h it hit
  obtain ⟨a1, a2, a3, ha1, ha2, ha3, rfl⟩ := itemIssues_ok hb
  obtain ⟨b1, b2, b3, hb1, hb2, hb3, rfl⟩ := itemIssues_ok hb'
  rw [ha1] at hb1; rw [ha2] at hb2
  cases hb1; cases hb2
  simp only at ha3 hb3
  rcases List.mem_append.mp hib' with h12 | h3
  · exact Or.inl ((collectM_mem h i).mpr ⟨it, hit, _, hb, List.mem_append.mpr (Or.inl h12)⟩)
  · obtain ⟨a, ha, cs', hcs', hic'⟩ := (collectM_mem hb3 i).mp h3
    obtain ⟨cs, hcs⟩ := collectM_each ha3 a ha
    obtain ⟨ls, x, hk, hls, hx, hn, rfl⟩ := (attrParamIssues_mem hcs' _).mp hic'
    by_cases hxl : x = l
    · exact Or.inr (by rw [hxl])
    · refine Or.inl ((collectM_mem h _).mpr ⟨it, hit, _, hb, List.mem_append.mpr (Or.inr ?_)⟩)
      refine (collectM_mem ha3 _).mpr ⟨a, ha, cs, hcs, ?_⟩
      refine (attrParamIssues_mem hcs _).mpr ⟨ls, x, hk, hls, hx, fun hp => hn ?_, rfl⟩
      exact List.mem_filter.mpr ⟨hp, by simpa using hxl⟩

def exVT : VTable := [
  ("validate_megacomplexes", .resolved "megacomplex" true true stdRules),
  ("validate_lengths", .lengthsEqual ["labels", "rates"]),
  ("validate_group", .definedIn "group" "group")]

def exSchema : Schema := [
  ⟨"dataset/", "dataset", [
      ⟨"megacomplex", .list, false, .item "megacomplex", .named "validate_megacomplexes"⟩,
      ⟨"irf", .scalar, true, .item "irf", .none⟩,
      ⟨"scale", .scalar, true, .param, .none⟩], false, false⟩,
  ⟨"megacomplex/decay", "megacomplex", [⟨"k_matrix", .list, false, .item "k_matrix", .none⟩], false, false⟩,
  ⟨"megacomplex/baseline", "megacomplex", [], false, true⟩,
  ⟨"megacomplex/clp-guide", "megacomplex", [], true, false⟩,
  ⟨"megacomplex/osc", "megacomplex", [
      ⟨"labels", .list, false, .plain, .named "validate_lengths"⟩,
      ⟨"rates", .list, false, .param, .none⟩], false, false⟩,
  ⟨"k_matrix/", "k_matrix", [⟨"matrix", .dict, false, .param, .none⟩], false, false⟩,
  ⟨"irf/gaussian", "irf", [⟨"center", .scalar, false, .param, .none⟩], false, false⟩,
  ⟨"group/", "group", [], false, false⟩,
  ⟨"weights/", "weights", [⟨"group", .scalar, false, .plain, .named "validate_group"⟩], false, false⟩]

def exModel (mcs : List String) : Model := [
  ⟨"dataset", [⟨"dataset/", "d1", [("megacomplex", .list mcs), ("irf", .scalar "i1"), ("scale", .scalar "s")]⟩]⟩,
  ⟨"megacomplex", [⟨"megacomplex/decay", "m1", [("k_matrix", .list ["k1"])]⟩,
                   ⟨"megacomplex/baseline", "b1", []⟩, ⟨"megacomplex/baseline", "b2", []⟩,
                   ⟨"megacomplex/clp-guide", "g1", []⟩]⟩,
  ⟨"k_matrix", [⟨"k_matrix/", "k1", [("matrix", .dict [("(s1, s1)", "k.1")])]⟩]⟩,
  ⟨"irf", [⟨"irf/gaussian", "i1", [("center", .scalar "c")]⟩]⟩]

/-- D11 witness (regression): a dataset refers to the undefined megacomplex `nope`.  Before the
    fix the outcome was `.error (.keyError "megacomplex" "nope")`; now the dangling label is
    reported and nothing is raised. -/
def d11Witness : Model := exModel ["m1", "nope"]

example : getIssues noCustom exVT exSchema d11Witness (some ["s", "c", "k.1"])
    = .ok [.missingItem "megacomplex" "nope"] := by decide
-- the table of the code before fix D11 (no `if label in model.megacomplex`): `tableSafe` fails and
-- so does validation, with the KeyError of D11 — the hypothesis of `never_internal_error` is sharp
example : tableSafe [("validate_megacomplexes", .resolved "megacomplex" true false stdRules)] = false := by
  decide
example : getIssues noCustom [("validate_megacomplexes", .resolved "megacomplex" true false stdRules)]
    exSchema d11Witness none = .error (.keyError "megacomplex" "nope") := by decide

-- a valid model: nothing reported, with and without parameters; it fills
example : getIssues noCustom exVT exSchema (exModel ["m1", "b1"]) (some ["s", "c", "k.1"]) = .ok [] := by
  decide
example : getIssues noCustom exVT exSchema (exModel ["m1", "b1"]) none = .ok [] := by decide
example : (fillItem exSchema (exModel ["m1", "b1"]) ["s", "c", "k.1"] 3
    ⟨"dataset/", "d1", [("megacomplex", .list ["m1", "b1"]), ("irf", .scalar "i1"), ("scale", .scalar "s")]⟩).isOk
    = true := by decide
-- nested dangling parameter in a dict of an item two levels below the dataset
example : getIssues noCustom exVT exSchema (exModel ["m1"]) (some ["s", "c"])
    = .ok [.missingParam "k.1"] := by decide
-- duplicated unique and combined exclusive megacomplexes
example : getIssues noCustom exVT exSchema (exModel ["b1", "b2"]) none
    = .ok [.unique "b1" "megacomplex/baseline", .unique "b2" "megacomplex/baseline"] := by decide
example : getIssues noCustom exVT exSchema (exModel ["m1", "g1"]) none
    = .ok [.exclusive "g1" "megacomplex/clp-guide"] := by decide
-- the other predicates of the language: unequal lengths, an undefined label behind `definedIn`
example : getIssues noCustom exVT exSchema
    [⟨"megacomplex", [⟨"megacomplex/osc", "o1", [("labels", .list ["a", "b"]), ("rates", .list ["r"])]⟩]⟩] none
    = .ok [.lengths "o1" [2, 1]] := by decide
example : getIssues noCustom exVT exSchema
    [⟨"group", [⟨"group/", "g1", []⟩]⟩, ⟨"weights", [⟨"weights/", "#0", [("group", .scalar "g2")]⟩]⟩] none
    = .ok [.missingItem "group" "g2"] := by decide
example : Violated exSchema (exModel ["b1", "b2"])
    ⟨"dataset/", "d1", [("megacomplex", .list ["b1", "b2"])]⟩
    ⟨"megacomplex", .list, false, .item "megacomplex", .named "validate_megacomplexes"⟩
    (.resolved "megacomplex" true true stdRules) := by
  refine ⟨["b1", "b2"], ⟨"megacomplex", [⟨"megacomplex/decay", "m1", [("k_matrix", .list ["k1"])]⟩,
    ⟨"megacomplex/baseline", "b1", []⟩, ⟨"megacomplex/baseline", "b2", []⟩,
    ⟨"megacomplex/clp-guide", "g1", []⟩]⟩, by decide, by decide, ?_⟩
  intro h
  have := h ⟨"megacomplex/baseline", "b1", []⟩ (by decide) ⟨.unique, .sameClass, 1, .unique⟩ (by decide)
    (by decide)
  revert this
  decide
-- the walk of the example dataset: two megacomplex positions and the irf; one parameter position
example : walkItem exSchema true ⟨"dataset/", "d1", [("megacomplex", .list ["m1", "b1"]), ("irf", .scalar "i1"), ("scale", .scalar "s")]⟩
    = .ok [("megacomplex", "m1"), ("megacomplex", "b1"), ("irf", "i1")] := by decide
example : walkItem exSchema false ⟨"k_matrix/", "k1", [("matrix", .dict [("(s1, s1)", "k.1"), ("(s2, s1)", "k.2")])]⟩
    = .ok [("matrix", "k.1"), ("matrix", "k.2")] := by decide
-- a live walker that skipped dict values would give a row the model walker does not agree with
example : rowAgrees exSchema ⟨"k_matrix/", "full", [("matrix", .dict [("k0", "a"), ("k1", "b")])], [], [], [], []⟩ = false := by
  decide
example : rowAgrees exSchema ⟨"k_matrix/", "full", [("matrix", .dict [("k0", "a"), ("k1", "b")])], [],
    [("matrix", "a"), ("matrix", "b")], [], [("matrix", "a"), ("matrix", "b")]⟩ = true := by decide
-- an abstract validator is interpreted through `cv`
example : getIssues (fun n _ => if n = "f" then ["x"] else []) [] [⟨"a/", "a", [⟨"v", .scalar, false, .plain, .named "f"⟩], false, false⟩]
    [⟨"a", [⟨"a/", "i", []⟩]⟩] none = .ok [.custom "f" "x"] := by decide
-- the Except outcome has content: a collection the model class does not have, a wrong shape
example : getIssues noCustom exVT exSchema [⟨"dataset", [⟨"dataset/", "d1", [("irf", .scalar "i1")]⟩]⟩] none
    = .error (.attributeError "irf") := by decide
example : getIssues noCustom exVT exSchema [⟨"dataset", [⟨"dataset/", "d1", [("irf", .list ["i1"])]⟩]⟩] none
    = .error (.shape "d1" "irf") := by decide
-- generated parameters
example : generateParameters exSchema (exModel ["m1"]) = .ok ["s", "k.1", "c"] := by decide
-- the hypotheses are satisfiable: the example model is closed, the example table safe
example : schemaClosed exVT exSchema ["dataset", "megacomplex", "k_matrix", "irf", "group"] = true := by decide
example : tableSafe exVT = true := by decide
example : DanglingItem exSchema d11Witness "megacomplex" "nope" :=
  ⟨⟨"dataset/", "d1", [("megacomplex", .list ["m1", "nope"]), ("irf", .scalar "i1"), ("scale", .scalar "s")]⟩,
    by decide, ⟨"megacomplex", .list, false, .item "megacomplex", .named "validate_megacomplexes"⟩, by decide, rfl,
    ["m1", "nope"], by decide, by decide, by decide⟩

private theorem exColls (m : Model)
    (h : (["dataset", "megacomplex", "k_matrix", "irf", "group"].all fun c => (findColl m c).isSome) = true) :
    ∀ c ∈ ["dataset", "megacomplex", "k_matrix", "irf", "group"], ∃ x, findColl m c = some x := by
  intro c hc
  simp only [List.all_eq_true] at h
  exact Option.isSome_iff_exists.mp (h c hc)

def d11Witness' : Model := d11Witness ++ [⟨"group", []⟩]

-- the hypotheses of the theorems are satisfiable on the (dangling!) witness: well-shaped,
-- closed, ranked and well-typed, so `complete` / `never_internal_error` apply to it
example : WellShaped exVT exSchema d11Witness' := wellShaped_of_check (by decide)
example : Closed exVT exSchema d11Witness' :=
  closed_of_schemaClosed (colls := ["dataset", "megacomplex", "k_matrix", "irf", "group"]) (by decide)
    (exColls _ (by decide))
example : ∃ iss, getIssues noCustom exVT exSchema d11Witness' none = .ok iss ∧
    Issue.missingItem "megacomplex" "nope" ∈ iss := by
  obtain ⟨iss, h, hi, _⟩ := complete noCustom exVT exSchema d11Witness' none (wellShaped_of_check (by decide))
    (closed_of_schemaClosed (colls := ["dataset", "megacomplex", "k_matrix", "irf", "group"]) (by decide)
    (exColls _ (by decide))) (by decide)
  exact ⟨iss, h, hi _ _ ⟨⟨"dataset/", "d1", [("megacomplex", .list ["m1", "nope"]), ("irf", .scalar "i1"),
      ("scale", .scalar "s")]⟩, by decide,
    ⟨"megacomplex", .list, false, .item "megacomplex", .named "validate_megacomplexes"⟩, by decide, rfl,
    ["m1", "nope"], by decide, by decide, by decide⟩⟩
example : schemaRanked exSchema
    (rankOf [("dataset", 2), ("megacomplex", 1), ("k_matrix", 0), ("irf", 0)]) = true := by decide
example : WellTyped exSchema (exModel ["m1", "b1"]) := by unfold WellTyped; decide
example : ExclusiveUniqueOK exSchema
    [⟨"megacomplex/decay", "m1", []⟩, ⟨"megacomplex/baseline", "b1", []⟩] := by
  unfold ExclusiveUniqueOK; decide
example : ¬ ExclusiveUniqueOK exSchema
    [⟨"megacomplex/baseline", "b1", []⟩, ⟨"megacomplex/baseline", "b2", []⟩] := by
  unfold ExclusiveUniqueOK; decide
-- the regenerated tables are not trivial: they list the reference positions and the validators of
-- the real classes
example : ((specOf Generated.schema "dataset/").attrs.map (·.name)).contains "global_megacomplex" = true := by
  decide
example : (specOf Generated.schema "megacomplex/baseline").unique = true ∧
    (specOf Generated.schema "megacomplex/clp-guide").exclusive = true := by decide
example : predOf Generated.validators "glotaran.model.dataset_model.validate_megacomplexes"
    = .resolved "megacomplex" true true stdRules := by decide


-- non-vacuity: the hypotheses are met by a concrete model, and the inclusion is strict there
example : getIssues noCustom exVT exSchema (exModel ["m1"]) (some ["s", "c"]) = .ok [.missingParam "k.1"] ∧
    getIssues noCustom exVT exSchema (exModel ["m1"]) (some ["s", "c", "k.1"]) = .ok [] ∧
    getIssues noCustom exVT exSchema (exModel ["m1"]) none = .ok [] := by decide
example : ∀ i ∈ ([] : List Issue), i ∈ [Issue.missingParam "k.1"] :=
  issues_antitone_in_parameters noCustom exVT exSchema (exModel ["m1"]) ["s", "c"] ["s", "c", "k.1"]
    (by decide) (by decide) (by decide)

end Glotaran.C20
