/-
C20 — model validation is sound and complete for references.
Property theorems only (helper lemmas: GlotaranProofs/Lemmas/C20.lean).

All statements are about `Glotaran.C20.getIssues` / `fillItem` / `generateParameters`, for
EVERY schema table `sch`, every abstract model `m` (any number of collections, items,
attributes, labels), every parameter set and every family of custom validators `cv`.
The two theorems `generated_schema_*` are about the table regenerated from the source.

History: before fix D11 `megacomplexValidator` looked every listed label up with
`model.megacomplex[label]`; for an undefined label the outcome was `.error (.keyError …)`,
so `never_internal_error` and `complete` were false (witness: `d11Witness` below, kept as a
regression example; replayed on the real code from corpus/C20/).
-/
import GlotaranProofs.Lemmas.C20
namespace Glotaran.C20

/-! ### what "dangling" means -/

/-- label `l` stands at a model-item reference position (scalar, list element or dict value)
    of some item of `m` — an item of ANY top-level collection, i.e. at any nesting depth —
    that refers to collection `coll`, and `coll` has no item with that label -/
def DanglingItem (sch : Schema) (m : Model) (coll l : String) : Prop :=
  ∃ it ∈ allItems m, ∃ a ∈ (specOf sch it.spec).attrs, a.kind = .item coll ∧
    ∃ ls, it.labels a = .ok ls ∧ l ∈ ls ∧ ∀ c, findColl m coll = some c → c.hasLabel l = false

/-- label `l` stands at a parameter position and is not a label of the parameter set -/
def DanglingParam (sch : Schema) (m : Model) (ps : List String) (l : String) : Prop :=
  ∃ it ∈ allItems m, ∃ a ∈ (specOf sch it.spec).attrs, a.kind = .param ∧
    ∃ ls, it.labels a = .ok ls ∧ l ∈ ls ∧ l ∉ ps

def AllResolve (sch : Schema) (m : Model) (ps : Option (List String)) : Prop :=
  (∀ coll l, ¬ DanglingItem sch m coll l) ∧
  (∀ P, ps = some P → ∀ l, ¬ DanglingParam sch m P l)

/-- every validator is satisfied: megacomplex lists obey exclusive / unique, the measured
    lists have equal lengths, custom validators have no complaint -/
def ValidatorsQuiet (cv : CustomValidators) (sch : Schema) (m : Model) : Prop :=
  ∀ it ∈ allItems m, ∀ a ∈ (specOf sch it.spec).attrs,
    match a.validator with
    | .none => True
    | .megacomplexes => ∀ ls c, it.valOf a.name = .list ls → findColl m "megacomplex" = some c →
        ExclusiveUniqueOK sch (ls.filterMap c.findItem)
    | .sameLength as => ∀ lens, collectM (lenOf it) as = .ok lens → allSame lens = true
    | .custom n => cv n it = []

/-! ### never an internal error -/

/-- **Validation is total**: for a well-shaped model over a closed schema `get_issues` returns a
    list of issues — no `KeyError`, `AttributeError`, … escapes, whatever dangles. -/
theorem never_internal_error (cv : CustomValidators) (sch : Schema) (m : Model)
    (ps : Option (List String)) (hs : WellShaped sch m) (hc : Closed sch m) :
    ∃ iss, getIssues cv sch m ps = .ok iss := by
  unfold getIssues
  apply collectM_isOk
  intro it hit
  exact itemIssues_isOk (hs it hit) (hc it hit)

/-! ### completeness -/

/-- every dangling model-item reference is reported as `Missing model item 'coll' with label 'l'` -/
theorem complete_items (cv : CustomValidators) (sch : Schema) (m : Model)
    (ps : Option (List String)) (iss : List Issue) (h : getIssues cv sch m ps = .ok iss)
    (coll l : String) (hd : DanglingItem sch m coll l) : Issue.missingItem coll l ∈ iss := by
  obtain ⟨it, hit, a, ha, hk, ls, hls, hl, hno⟩ := hd
  obtain ⟨r, hr⟩ := collectM_each h it hit
  refine (collectM_mem h _).mpr ⟨it, hit, r, hr, ?_⟩
  obtain ⟨i1, i2, i3, h1, _, _, rfl⟩ := itemIssues_ok hr
  obtain ⟨r1, hr1⟩ := collectM_each h1 a ha
  have hmem : Issue.missingItem coll l ∈ i1 := by
    refine (collectM_mem h1 _).mpr ⟨a, ha, r1, hr1, ?_⟩
    -- the collection must exist, otherwise the lookup would have raised
    have hcoll : ∃ c, findColl m coll = some c := by
      cases hc : findColl m coll with
      | some c => exact ⟨c, rfl⟩
      | none =>
        exfalso
        unfold attrItemIssues at hr1
        simp only [hk, hls] at hr1
        cases ls with
        | nil => cases hl
        | cons x xs => simp [hc] at hr1
    obtain ⟨c, hc⟩ := hcoll
    exact (attrItemIssues_mem hr1 _).mpr ⟨coll, ls, l, c, hk, hls, hl, hc, hno c hc, rfl⟩
  simp [hmem]

/-- every dangling parameter reference is reported as `Missing parameter with label 'l'` -/
theorem complete_parameters (cv : CustomValidators) (sch : Schema) (m : Model)
    (P : List String) (iss : List Issue) (h : getIssues cv sch m (some P) = .ok iss)
    (l : String) (hd : DanglingParam sch m P l) : Issue.missingParam l ∈ iss := by
  obtain ⟨it, hit, a, ha, hk, ls, hls, hl, hno⟩ := hd
  obtain ⟨r, hr⟩ := collectM_each h it hit
  refine (collectM_mem h _).mpr ⟨it, hit, r, hr, ?_⟩
  obtain ⟨i1, i2, i3, _, _, h3, rfl⟩ := itemIssues_ok hr
  simp only at h3
  obtain ⟨r3, hr3⟩ := collectM_each h3 a ha
  have hmem : Issue.missingParam l ∈ i3 :=
    (collectM_mem h3 _).mpr ⟨a, ha, r3, hr3,
      (attrParamIssues_mem hr3 _).mpr ⟨ls, l, hk, hls, hl, hno, rfl⟩⟩
  simp [hmem]

/-- **Completeness**: validation terminates with a list of issues, and that list names every
    dangling reference — model items referenced from any item of any collection (scalar, list,
    dict positions; the megacomplexes of a dataset are the instance `coll = "megacomplex"`) and,
    when parameters are given, every parameter label that is not in the set. -/
theorem complete (cv : CustomValidators) (sch : Schema) (m : Model) (ps : Option (List String))
    (hs : WellShaped sch m) (hc : Closed sch m) :
    ∃ iss, getIssues cv sch m ps = .ok iss ∧
      (∀ coll l, DanglingItem sch m coll l → Issue.missingItem coll l ∈ iss) ∧
      (∀ P, ps = some P → ∀ l, DanglingParam sch m P l → Issue.missingParam l ∈ iss) := by
  obtain ⟨iss, h⟩ := never_internal_error cv sch m ps hs hc
  refine ⟨iss, h, fun coll l hd => complete_items cv sch m ps iss h coll l hd, ?_⟩
  intro P hP l hd
  subst hP
  exact complete_parameters cv sch m P iss h l hd

/-- **Exclusive / unique violations are reported**: if the defined megacomplexes listed by an
    attribute validated by `validate_megacomplexes` break the rule, an exclusive or unique issue
    is among the reported issues. -/
theorem exclusive_unique_reported (cv : CustomValidators) (sch : Schema) (m : Model)
    (ps : Option (List String)) (iss : List Issue) (h : getIssues cv sch m ps = .ok iss)
    (it : Item) (hit : it ∈ allItems m) (a : AttrSpec) (ha : a ∈ (specOf sch it.spec).attrs)
    (hv : a.validator = .megacomplexes) (ls : List String) (hval : it.valOf a.name = .list ls)
    (c : Coll) (hc : findColl m "megacomplex" = some c)
    (hbad : ¬ ExclusiveUniqueOK sch (ls.filterMap c.findItem)) :
    ∃ i ∈ iss, (∃ l t, i = .exclusive l t) ∨ (∃ l t, i = .unique l t) := by
  have hne : megacomplexIssues sch (ls.filterMap c.findItem) ≠ [] :=
    fun hnil => hbad ((megacomplexIssues_nil_iff sch _).mp hnil)
  obtain ⟨i, hi⟩ := List.exists_mem_of_ne_nil _ hne
  refine ⟨i, ?_, megacomplexIssues_kind hi⟩
  obtain ⟨r, hr⟩ := collectM_each h it hit
  refine (collectM_mem h _).mpr ⟨it, hit, r, hr, ?_⟩
  obtain ⟨i1, i2, i3, _, h2, _, rfl⟩ := itemIssues_ok hr
  obtain ⟨r2, hr2⟩ := collectM_each h2 a ha
  have hmem : i ∈ i2 := by
    refine (collectM_mem h2 _).mpr ⟨a, ha, r2, hr2, ?_⟩
    unfold attrValidatorIssues at hr2
    simp only [hv, megacomplexValidator, hval, hc] at hr2
    cases hr2
    exact hi
  simp [hmem]

/-! ### soundness -/

/-- **Soundness**: a model whose references all resolve and whose validators are satisfied gets
    no issue at all. -/
theorem sound (cv : CustomValidators) (sch : Schema) (m : Model) (ps : Option (List String))
    (hs : WellShaped sch m) (hc : Closed sch m) (hres : AllResolve sch m ps)
    (hq : ValidatorsQuiet cv sch m) : getIssues cv sch m ps = .ok [] := by
  obtain ⟨iss, h⟩ := never_internal_error cv sch m ps hs hc
  rw [h]
  congr
  refine collectM_nil_of h ?_
  intro it hit r hr
  obtain ⟨i1, i2, i3, h1, h2, h3, rfl⟩ := itemIssues_ok hr
  have e1 : i1 = [] := by
    refine collectM_nil_of h1 ?_
    intro a ha r1 hr1
    apply List.eq_nil_iff_forall_not_mem.mpr
    intro i hi
    obtain ⟨coll, ls, l, c, hk, hls, hl, hcc, hno, rfl⟩ := (attrItemIssues_mem hr1 i).mp hi
    refine hres.1 coll l ⟨it, hit, a, ha, hk, ls, hls, hl, ?_⟩
    intro c' hc'
    rw [hcc] at hc'
    cases hc'
    exact hno
  have e2 : i2 = [] := by
    refine collectM_nil_of h2 ?_
    intro a ha r2 hr2
    have hqa := hq it hit a ha
    unfold attrValidatorIssues at hr2
    cases hv : a.validator with
    | none => simp only [hv] at hr2; cases hr2; rfl
    | megacomplexes =>
      simp only [hv] at hr2 hqa
      simp only [megacomplexValidator] at hr2
      split at hr2
      · cases hr2; rfl
      · rename_i ls hval
        split at hr2
        · cases hr2
        · rename_i c hcc
          cases hr2
          exact (megacomplexIssues_nil_iff sch _).mpr (hqa ls c hval hcc)
      · cases hr2
    | sameLength as =>
      simp only [hv] at hr2 hqa
      split at hr2
      · cases hr2
      · rename_i lens hl
        cases hr2
        simp [hqa lens hl]
    | custom n =>
      simp only [hv] at hr2 hqa
      cases hr2
      simp [hqa]
  have e3 : i3 = [] := by
    cases ps with
    | none => exact h3
    | some P =>
      simp only at h3
      refine collectM_nil_of h3 ?_
      intro a ha r3 hr3
      apply List.eq_nil_iff_forall_not_mem.mpr
      intro i hi
      obtain ⟨ls, l, hk, hls, hl, hno, rfl⟩ := (attrParamIssues_mem hr3 i).mp hi
      exact hres.2 P rfl l ⟨it, hit, a, ha, hk, ls, hls, hl, hno⟩
  simp [e1, e2, e3]

/-! ### a valid model fills -/

private theorem fillParams_isOk {ps : List String} {it : Item} {a : AttrSpec}
    (h : attrParamIssues ps it a = .ok []) : ∃ r, fillParams ps it a = .ok r := by
  unfold fillParams
  unfold attrParamIssues at h
  cases hk : a.kind with
  | param =>
    simp only [hk] at h
    cases hl : it.labels a with
    | error e => simp [hl] at h
    | ok ls =>
      simp only [hl] at h
      have hall : ∀ l ∈ ls, l ∈ ps := by
        intro l hl'
        by_cases hcon : l ∈ ps
        · exact hcon
        · exfalso
          have : Issue.missingParam l ∈ ((ls.filter (fun x => !ps.contains x)).map Issue.missingParam) :=
            List.mem_map.mpr ⟨l, List.mem_filter.mpr ⟨hl', by simpa using hcon⟩, rfl⟩
          simp only [Except.ok.injEq] at h
          rw [h] at this
          cases this
      simp only
      apply collectM_isOk
      intro l hl'
      exact ⟨[l], by simp [hall l hl']⟩
  | item c => simp
  | plain => simp

/-- **A model and parameter set that validate can be filled**: if validation reports nothing
    and item references are acyclic (`rk` decreases along every resolved reference — Python
    would otherwise recurse without bound), `fill_item` succeeds for every item, in particular
    for every dataset, once the recursion budget exceeds the item's rank. -/
theorem valid_fills (cv : CustomValidators) (sch : Schema) (m : Model) (ps : List String)
    (rk : Item → Nat)
    (hrk : ∀ it ∈ allItems m, ∀ a ∈ (specOf sch it.spec).attrs, ∀ coll, a.kind = .item coll →
      ∀ ls, it.labels a = .ok ls → ∀ l ∈ ls, ∀ c, findColl m coll = some c →
      ∀ t, c.findItem l = some t → rk t < rk it)
    (hvalid : getIssues cv sch m (some ps) = .ok []) :
    ∀ (fuel : Nat) (it : Item), it ∈ allItems m → rk it < fuel →
      ∃ f, fillItem sch m ps fuel it = .ok f := by
  intro fuel
  induction fuel with
  | zero => intro it _ h; omega
  | succ fuel ih =>
    intro it hit hlt
    obtain ⟨r, hr⟩ := collectM_each hvalid it hit
    have hrnil : r = [] := by
      apply List.eq_nil_iff_forall_not_mem.mpr
      intro i hi
      have := (collectM_mem hvalid i).mpr ⟨it, hit, r, hr, hi⟩
      cases this
    subst hrnil
    obtain ⟨i1, i2, i3, h1, _, h3, hnil⟩ := itemIssues_ok hr
    simp only at h3
    have hi1 : i1 = [] := by
      cases i1 with
      | nil => rfl
      | cons x xs => simp at hnil
    have hi3 : i3 = [] := by
      cases i3 with
      | nil => rfl
      | cons x xs => simp at hnil
    subst hi1 hi3
    -- children
    have hchildren : ∃ cs, collectM (fillAttr m (fillItem sch m ps fuel) it)
        (specOf sch it.spec).attrs = .ok cs := by
      apply collectM_isOk
      intro a ha
      obtain ⟨r1, hr1⟩ := collectM_each h1 a ha
      have hr1nil : r1 = [] := by
        apply List.eq_nil_iff_forall_not_mem.mpr
        intro i hi
        have := (collectM_mem h1 i).mpr ⟨a, ha, r1, hr1, hi⟩
        cases this
      subst hr1nil
      unfold fillAttr
      cases hk : a.kind with
      | item coll =>
        simp only
        unfold attrItemIssues at hr1
        simp only [hk] at hr1
        cases hl : it.labels a with
        | error e => simp [hl] at hr1
        | ok ls =>
          cases ls with
          | nil => exact ⟨[], rfl⟩
          | cons l ls =>
            simp only [hl] at hr1
            cases hc : findColl m coll with
            | none => simp [hc] at hr1
            | some c =>
              simp only [hc] at hr1
              simp only
              apply collectM_isOk
              intro x hx
              have hhas : c.hasLabel x = true := by
                cases hh : c.hasLabel x with
                | true => rfl
                | false =>
                  exfalso
                  have : Issue.missingItem coll x ∈
                      (((l :: ls).filter (fun y => !c.hasLabel y)).map (Issue.missingItem coll)) :=
                    List.mem_map.mpr ⟨x, List.mem_filter.mpr ⟨hx, by simp [hh]⟩, rfl⟩
                  simp only [Except.ok.injEq] at hr1
                  rw [hr1] at this
                  cases this
              obtain ⟨t, ht⟩ := findItem_of_hasLabel hhas
              have htm : t ∈ allItems m := mem_allItems (findColl_mem hc) (findItem_mem ht)
              have hlt' : rk t < fuel := by
                have := hrk it hit a ha coll hk (l :: ls) hl x hx c hc t ht
                omega
              obtain ⟨f, hf⟩ := ih t htm hlt'
              exact ⟨[f], by simp [ht, hf]⟩
      | param => exact ⟨[], rfl⟩
      | plain => exact ⟨[], rfl⟩
    have hparams : ∃ pl, collectM (fillParams ps it) (specOf sch it.spec).attrs = .ok pl := by
      apply collectM_isOk
      intro a ha
      obtain ⟨r3, hr3⟩ := collectM_each h3 a ha
      have hr3nil : r3 = [] := by
        apply List.eq_nil_iff_forall_not_mem.mpr
        intro i hi
        have := (collectM_mem h3 i).mpr ⟨a, ha, r3, hr3, hi⟩
        cases this
      subst hr3nil
      exact fillParams_isOk hr3
    obtain ⟨cs, hcs⟩ := hchildren
    obtain ⟨pl, hpl⟩ := hparams
    exact ⟨.node it.spec it.label cs pl, by simp [fillItem, hcs, hpl]⟩

/-- every item sits in the collection its class belongs to -/
def WellTyped (sch : Schema) (m : Model) : Prop :=
  ∀ c ∈ m, ∀ it ∈ c.items, (specOf sch it.spec).coll = c.name

/-- `valid_fills` for a schema whose reference graph is ranked (as `generated_schema_ranked`
    establishes for the builtin classes): a recursion budget of `rank + 1` suffices — for the
    builtin classes 3 nested `fill_item` calls (dataset → megacomplex → k_matrix / shape). -/
theorem valid_fills_ranked (cv : CustomValidators) (sch : Schema) (m : Model) (ps : List String)
    (rk : String → Nat) (hr : schemaRanked sch rk = true) (ht : WellTyped sch m)
    (hvalid : getIssues cv sch m (some ps) = .ok []) (it : Item) (hit : it ∈ allItems m) :
    ∃ f, fillItem sch m ps (rk (specOf sch it.spec).coll + 1) it = .ok f := by
  refine valid_fills cv sch m ps (fun x => rk (specOf sch x.spec).coll) ?_ hvalid _ it hit
    (Nat.lt_succ_self _)
  intro it' _ a ha coll hk ls _ l _ c hc t hfi
  have hcm : c ∈ m := findColl_mem hc
  have hname : c.name = coll := by
    have := List.find?_some hc
    simpa using this
  have htc : (specOf sch t.spec).coll = coll := by
    rw [ht c hcm t (findItem_mem hfi), hname]
  rcases specOf_mem_or_empty sch it'.spec with hs | hs
  · simp only [schemaRanked, List.all_eq_true] at hr
    have := hr _ hs a ha
    rw [hk] at this
    simp only [decide_eq_true_eq] at this
    simpa [htc] using this
  · rw [hs] at ha; cases ha

/-! ### generated parameters -/

/-- **The parameters generated for a model leave no missing-parameter issue** (and both
    `generate_parameters` and the validation against them terminate normally). -/
theorem generated_parameters_suffice (cv : CustomValidators) (sch : Schema) (m : Model)
    (hs : WellShaped sch m) (hc : Closed sch m) :
    ∃ P iss, generateParameters sch m = .ok P ∧ getIssues cv sch m (some P) = .ok iss ∧
      ∀ l, Issue.missingParam l ∉ iss := by
  have hP : ∃ P, parameterLabels sch m = .ok P := by
    unfold parameterLabels
    apply collectM_isOk
    intro it hit
    unfold itemParamLabels
    apply collectM_isOk
    intro a ha
    unfold attrParamLabels
    cases hk : a.kind with
    | param => exact (hs it hit a ha).1 (by simp [hk])
    | item c => exact ⟨[], rfl⟩
    | plain => exact ⟨[], rfl⟩
  obtain ⟨P, hP⟩ := hP
  obtain ⟨iss, h⟩ := never_internal_error cv sch m (some P) hs hc
  refine ⟨P, iss, hP, h, ?_⟩
  intro l hmem
  obtain ⟨it, hit, r, hr, hir⟩ := (collectM_mem h _).mp hmem
  obtain ⟨i1, i2, i3, h1, h2, h3, rfl⟩ := itemIssues_ok hr
  simp only at h3
  simp only [List.mem_append] at hir
  rcases hir with (hi | hi) | hi
  · obtain ⟨a, ha, r1, hr1, hi1⟩ := (collectM_mem h1 _).mp hi
    obtain ⟨_, _, _, _, _, _, _, _, _, hne⟩ := (attrItemIssues_mem hr1 _).mp hi1
    cases hne
  · obtain ⟨a, ha, r2, hr2, hi2⟩ := (collectM_mem h2 _).mp hi
    exact (attrValidatorIssues_kind hr2 hi2).2 l rfl
  · obtain ⟨a, ha, r3, hr3, hi3⟩ := (collectM_mem h3 _).mp hi
    obtain ⟨ls, l', hk, hls, hl, hno, he⟩ := (attrParamIssues_mem hr3 _).mp hi3
    cases he
    apply hno
    -- l is one of the collected labels
    refine (collectM_mem hP l).mpr ⟨it, hit, ?_⟩
    obtain ⟨q, hq⟩ := collectM_each hP it hit
    refine ⟨q, hq, ?_⟩
    unfold itemParamLabels at hq
    refine (collectM_mem hq l).mpr ⟨a, ha, ls, ?_, hl⟩
    simp [attrParamLabels, hk, hls]

/-! ### the regenerated table -/

/-- every collection an attribute of a builtin class refers to is a keyed collection of the
    model class (so `getattr(model, name)` cannot fail) — re-decided whenever the table changes -/
theorem generated_schema_closed : schemaClosed Generated.schema Generated.keyed = true := by
  decide

/-- the item references of the builtin classes are acyclic: the generated rank decreases along
    every reference (dataset → megacomplex → k_matrix / shape, dataset → irf, …) -/
theorem generated_schema_ranked :
    schemaRanked Generated.schema (rankOf Generated.collRank) = true := by
  decide

/-- the instance for the real classes: any well-shaped model over the regenerated schema whose
    model class has the keyed collections of the table validates without an internal error and
    names every dangling reference -/
theorem complete_generated (cv : CustomValidators) (m : Model) (ps : Option (List String))
    (hs : WellShaped Generated.schema m)
    (hm : ∀ c ∈ Generated.keyed, ∃ x, findColl m c = some x) :
    ∃ iss, getIssues cv Generated.schema m ps = .ok iss ∧
      (∀ coll l, DanglingItem Generated.schema m coll l → Issue.missingItem coll l ∈ iss) ∧
      (∀ P, ps = some P → ∀ l, DanglingParam Generated.schema m P l → Issue.missingParam l ∈ iss) :=
  complete cv Generated.schema m ps hs (closed_of_schemaClosed generated_schema_closed hm)

/-! ### non-vacuity and regression examples -/

def exSchema : Schema := [
  ⟨"dataset/", "dataset", [
      ⟨"megacomplex", .list, false, .item "megacomplex", .megacomplexes⟩,
      ⟨"irf", .scalar, true, .item "irf", .none⟩,
      ⟨"scale", .scalar, true, .param, .none⟩], false, false⟩,
  ⟨"megacomplex/decay", "megacomplex", [⟨"k_matrix", .list, false, .item "k_matrix", .none⟩], false, false⟩,
  ⟨"megacomplex/baseline", "megacomplex", [], false, true⟩,
  ⟨"megacomplex/clp-guide", "megacomplex", [], true, false⟩,
  ⟨"k_matrix/", "k_matrix", [⟨"matrix", .dict, false, .param, .none⟩], false, false⟩,
  ⟨"irf/gaussian", "irf", [⟨"center", .scalar, false, .param, .none⟩], false, false⟩]

def exModel (mcs : List String) : Model := [
  ⟨"dataset", [⟨"dataset/", "d1", [("megacomplex", .list mcs), ("irf", .scalar "i1"), ("scale", .scalar "s")]⟩]⟩,
  ⟨"megacomplex", [⟨"megacomplex/decay", "m1", [("k_matrix", .list ["k1"])]⟩,
                   ⟨"megacomplex/baseline", "b1", []⟩, ⟨"megacomplex/baseline", "b2", []⟩,
                   ⟨"megacomplex/clp-guide", "g1", []⟩]⟩,
  ⟨"k_matrix", [⟨"k_matrix/", "k1", [("matrix", .dict [("(s1, s1)", "k.1")])]⟩]⟩,
  ⟨"irf", [⟨"irf/gaussian", "i1", [("center", .scalar "c")]⟩]⟩]

/-- D11 witness (regression): a dataset refers to the undefined megacomplex `nope`.  Before the
    fix the outcome was `.error (.keyError "megacomplex" "nope")`; now the dangling label is
    reported and nothing is raised. -/
def d11Witness : Model := exModel ["m1", "nope"]

example : getIssues noCustom exSchema d11Witness (some ["s", "c", "k.1"])
    = .ok [.missingItem "megacomplex" "nope"] := by decide

-- a valid model: nothing reported, with and without parameters; it fills
example : getIssues noCustom exSchema (exModel ["m1", "b1"]) (some ["s", "c", "k.1"]) = .ok [] := by
  decide
example : getIssues noCustom exSchema (exModel ["m1", "b1"]) none = .ok [] := by decide
example : (fillItem exSchema (exModel ["m1", "b1"]) ["s", "c", "k.1"] 3
    ⟨"dataset/", "d1", [("megacomplex", .list ["m1", "b1"]), ("irf", .scalar "i1"), ("scale", .scalar "s")]⟩).isOk
    = true := by decide
-- nested dangling parameter in a dict of an item two levels below the dataset
example : getIssues noCustom exSchema (exModel ["m1"]) (some ["s", "c"])
    = .ok [.missingParam "k.1"] := by decide
-- duplicated unique and combined exclusive megacomplexes
example : getIssues noCustom exSchema (exModel ["b1", "b2"]) none
    = .ok [.unique "b1" "megacomplex/baseline", .unique "b2" "megacomplex/baseline"] := by decide
example : getIssues noCustom exSchema (exModel ["m1", "g1"]) none
    = .ok [.exclusive "g1" "megacomplex/clp-guide"] := by decide
-- the Except outcome has content: a collection the model class does not have, a wrong shape
example : getIssues noCustom exSchema [⟨"dataset", [⟨"dataset/", "d1", [("irf", .scalar "i1")]⟩]⟩] none
    = .error (.attributeError "irf") := by decide
example : getIssues noCustom exSchema [⟨"dataset", [⟨"dataset/", "d1", [("irf", .list ["i1"])]⟩]⟩] none
    = .error (.shape "d1" "irf") := by decide
-- generated parameters
example : generateParameters exSchema (exModel ["m1"]) = .ok ["s", "k.1", "c"] := by decide
-- the hypotheses are satisfiable: the example model is closed
example : schemaClosed exSchema ["dataset", "megacomplex", "k_matrix", "irf"] = true := by decide
example : DanglingItem exSchema d11Witness "megacomplex" "nope" :=
  ⟨⟨"dataset/", "d1", [("megacomplex", .list ["m1", "nope"]), ("irf", .scalar "i1"), ("scale", .scalar "s")]⟩,
    by decide, ⟨"megacomplex", .list, false, .item "megacomplex", .megacomplexes⟩, by decide, rfl,
    ["m1", "nope"], by decide, by decide, by decide⟩

private theorem exColls (m : Model)
    (h : (["dataset", "megacomplex", "k_matrix", "irf"].all fun c => (findColl m c).isSome) = true) :
    ∀ c ∈ ["dataset", "megacomplex", "k_matrix", "irf"], ∃ x, findColl m c = some x := by
  intro c hc
  simp only [List.all_eq_true] at h
  exact Option.isSome_iff_exists.mp (h c hc)

-- the hypotheses of the theorems are satisfiable on the (dangling!) witness: well-shaped,
-- closed, ranked and well-typed, so `complete` / `never_internal_error` apply to it
example : WellShaped exSchema d11Witness := wellShaped_of_check (by decide)
example : Closed exSchema d11Witness :=
  closed_of_schemaClosed (colls := ["dataset", "megacomplex", "k_matrix", "irf"]) (by decide)
    (exColls _ (by decide))
example : ∃ iss, getIssues noCustom exSchema d11Witness none = .ok iss ∧
    Issue.missingItem "megacomplex" "nope" ∈ iss := by
  obtain ⟨iss, h, hi, _⟩ := complete noCustom exSchema d11Witness none (wellShaped_of_check (by decide))
    (closed_of_schemaClosed (colls := ["dataset", "megacomplex", "k_matrix", "irf"]) (by decide)
    (exColls _ (by decide)))
  exact ⟨iss, h, hi _ _ ⟨⟨"dataset/", "d1", [("megacomplex", .list ["m1", "nope"]), ("irf", .scalar "i1"),
      ("scale", .scalar "s")]⟩, by decide,
    ⟨"megacomplex", .list, false, .item "megacomplex", .megacomplexes⟩, by decide, rfl,
    ["m1", "nope"], by decide, by decide, by decide⟩⟩
example : schemaRanked exSchema
    (rankOf [("dataset", 2), ("megacomplex", 1), ("k_matrix", 0), ("irf", 0)]) = true := by decide
example : WellTyped exSchema (exModel ["m1", "b1"]) := by unfold WellTyped; decide
example : ExclusiveUniqueOK exSchema
    [⟨"megacomplex/decay", "m1", []⟩, ⟨"megacomplex/baseline", "b1", []⟩] := by
  unfold ExclusiveUniqueOK; decide
example : ¬ ExclusiveUniqueOK exSchema
    [⟨"megacomplex/baseline", "b1", []⟩, ⟨"megacomplex/baseline", "b2", []⟩] := by
  unfold ExclusiveUniqueOK; decide
-- the regenerated table is not trivial: it lists the reference positions of the real classes
example : ((specOf Generated.schema "dataset/").attrs.map (·.name)).contains "global_megacomplex" = true := by
  decide
example : (specOf Generated.schema "megacomplex/baseline").unique = true ∧
    (specOf Generated.schema "megacomplex/clp-guide").exclusive = true := by decide

end Glotaran.C20
