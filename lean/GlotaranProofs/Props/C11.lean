/-
C11 — parameter transformations, bounds and fixed parameters are respected.
Property theorems only (helpers: GlotaranProofs/Lemmas/C11.lean).  Statements are about the
functions of GlotaranModel/C11.lean, for parameter lists of any length, every expression evaluator
`ev` and — where `log`/`exp` do not matter — every number type `α` with every interpretation of
the arithmetic (`Num α`), in particular the executable term instance and the real numbers.
The analytic statements are for `α = ℝ` (`Real.log`, `Real.exp`).
-/
import GlotaranProofs.Lemmas.C11
import GlotaranProofs.Lemmas.C11Gen
import GlotaranProofs.Lemmas.C11More
namespace Glotaran.C11

variable {α : Type}

/-! ### round trip -/

/-- **Optimiser space and back is the identity**: for every parameter that is not non-negative
    (any number type — no arithmetic happens), and over ℝ for a non-negative parameter with a
    positive value other than 1 (`exp (log v) = v`). -/
theorem roundtrip (p : Parameter ℝ)
    (h : p.nonNeg = false ∨ ∃ v, p.value = .fin v ∧ 0 < v ∧ v ≠ 1) :
    fromOpt p.nonNeg (toOpt p).value = p.value := by
  rcases h with h | ⟨v, hv, hpos, hne⟩
  · simp [fromOpt, toOpt, h]
  · cases hn : p.nonNeg with
    | false => simp [fromOpt, toOpt, hn]
    | true =>
      simp only [fromOpt, toOpt, hn, if_true, hv, logValue, expE, logFin_real, hne, if_false]
      simp only [Num.exp]
      rw [Real.exp_log hpos]

example : fromOpt true (toOpt (⟨"k", .fin 3, .ninf, .pinf, true, true, none, .nan⟩ : Parameter ℝ)).value
    = .fin 3 :=
  roundtrip ⟨"k", .fin 3, .ninf, .pinf, true, true, none, .nan⟩ (Or.inr ⟨3, rfl, by norm_num, by norm_num⟩)

/-- the exact part of `roundtrip` for every number type -/
theorem roundtrip_plain [Num α] (p : Parameter α) (h : p.nonNeg = false) :
    fromOpt p.nonNeg (toOpt p).value = p.value := by
  simp [fromOpt, toOpt, h]

/-- **The guard of `_log_value` (N5), stated**: a non-negative parameter whose value is exactly 1
    comes back as `1 + 1e-10`, i.e. off by exactly `1e-10` and no more. -/
theorem roundtrip_at_one (p : Parameter ℝ) (hn : p.nonNeg = true) (hv : p.value = .fin 1) :
    fromOpt p.nonNeg (toOpt p).value = .fin (1 + 1 / 10000000000) ∧
      |(1 + 1 / 10000000000 : ℝ) - 1| ≤ 1 / 10000000000 := by
  constructor
  · simp only [fromOpt, toOpt, hn, if_true, hv, logValue, expE, logFin_real]
    simp only [Num.exp]
    rw [Real.exp_log (by norm_num)]
  · norm_num [abs_of_pos]

/-- non-finite values and bounds are handed over unchanged (`±inf` bounds stay `±inf`) -/
theorem nonfinite_passes [Num α] : logValue (.pinf : Ext α) = .pinf ∧ logValue (.ninf : Ext α) = .ninf ∧
    logValue (.nan : Ext α) = .nan := ⟨rfl, rfl, rfl⟩

/-! ### which parameters are handed over, and in which order -/

/-- **Labels, values, lower and upper bounds are one enumeration**: the selected parameters
    (all, or the varying ones) in declaration order; the four arrays have equal length and entry
    `i` of each belongs to the same parameter. -/
theorem arrays_same_order_and_length [Num α] (ev : Eval α) (excl : Bool) (ps : List (Parameter α)) :
    let a := arrays ev excl ps
    let sel := (updateExpr ev ps).filter (selected excl)
    a.labels = sel.map (·.label) ∧ a.values = sel.map (fun p => (toOpt p).value) ∧
      a.lower = sel.map (fun p => (toOpt p).lower) ∧ a.upper = sel.map (fun p => (toOpt p).upper) ∧
      a.values.length = a.labels.length ∧ a.lower.length = a.labels.length ∧
      a.upper.length = a.labels.length ∧
      a.labels = (ps.filter (selected excl)).map (·.label) ∧
      List.Sublist a.labels (ps.map (·.label)) := by
  intro a sel
  have hs : a = ⟨sel.map (·.label), sel.map (fun p => (toOpt p).value),
      sel.map (fun p => (toOpt p).lower), sel.map (fun p => (toOpt p).upper)⟩ := arrays_spec ev excl ps
  have hl : a.labels = (ps.filter (selected excl)).map (·.label) := arrays_labels ev excl ps
  refine ⟨by rw [hs], by rw [hs], by rw [hs], by rw [hs], by rw [hs]; simp, by rw [hs]; simp,
    by rw [hs]; simp, hl, ?_⟩
  rw [hl]
  exact List.Sublist.map _ List.filter_sublist

example : (arrays (fun _ _ => .nan) true
    [(⟨"b", .fin (.q 2), .ninf, .pinf, true, true, none, .nan⟩ : Parameter Term),
     ⟨"f", .fin (.q 5), .ninf, .pinf, false, false, none, .nan⟩,
     ⟨"a", .fin (.q 3), .fin (.q 1), .pinf, false, true, none, .nan⟩]).labels = ["b", "a"] := by
  decide

/-- **Fixed and expression parameters are never handed to the optimiser**: a free label always
    belongs to a parameter with `vary = true`; a parameter with `vary = false` never appears; in a
    parameter set built through the constructor a parameter with an expression never appears. -/
theorem free_excludes_fixed_and_expr [Num α] (ev : Eval α) (ps : List (Parameter α)) :
    (∀ l ∈ (arrays ev true ps).labels, ∃ p ∈ ps, p.label = l ∧ p.vary = true) ∧
    ((ps.map (·.label)).Nodup → ∀ p ∈ ps, p.vary = false → p.label ∉ (arrays ev true ps).labels) ∧
    ((ps.map (·.label)).Nodup → WellFormed ps → ∀ p ∈ ps, ∀ e, p.expr = some e → e ≠ "" →
      p.label ∉ (arrays ev true ps).labels) := by
  have hl := arrays_labels ev true ps
  have fixed : (ps.map (·.label)).Nodup → ∀ p ∈ ps, p.vary = false →
      p.label ∉ (arrays ev true ps).labels := by
    intro hN p hp hv hmem
    rw [hl] at hmem
    obtain ⟨q, hq, hql⟩ := List.mem_map.mp hmem
    have hq' := List.mem_filter.mp hq
    have : q = p := List.inj_on_of_nodup_map hN hq'.1 hp hql
    subst this
    simp [selected, hv] at hq'
  refine ⟨?_, fixed, ?_⟩
  · intro l hmem
    rw [hl] at hmem
    obtain ⟨q, hq, hql⟩ := List.mem_map.mp hmem
    have hq' := List.mem_filter.mp hq
    exact ⟨q, hq'.1, hql, by simpa [selected] using hq'.2⟩
  · intro hN hW p hp e he hne
    exact fixed hN p hp (hW p hp e he hne)

/-- **The constructor makes expression parameters non-varying** whatever `vary` was asked for —
    the premise `WellFormed` of `free_excludes_fixed_and_expr` — and nothing in the modelled code
    sets `vary` again (`set_preserves_unlisted`). -/
theorem create_expr_not_free (label : String) (v lo hi : Ext α) (nn vy : Bool) (e : String)
    (he : e ≠ "") :
    (Parameter.create label v lo hi nn vy (some e)).vary = false ∧
      (Parameter.create label v lo hi nn vy (some e)).expr = some e ∧
      (Parameter.create label v lo hi nn vy none : Parameter α).vary = vy := by
  simp [Parameter.create, Parameter.setExpr, he]

example : (Parameter.create "a" (.fin (.q 1)) .ninf .pinf false true (some "$b") : Parameter Term).vary
    = false := by decide

/-! ### setting values -/

/-- **`set_from_label_and_value_arrays` touches nothing but the values it is given**, whatever
    the outcome (ok, length mismatch, unknown label): positionally, every parameter keeps label,
    bounds, flags, expression *definition* and standard error, and every parameter that is neither
    listed nor defined by an expression keeps its value. -/
theorem set_preserves_unlisted [Num α] (ev : Eval α) (ps : List (Parameter α)) (labels : List String)
    (xs : List (Ext α)) :
    (setFromArrays ev ps labels xs).1.map (Parameter.frame labels) = ps.map (Parameter.frame labels) := by
  unfold setFromArrays
  split
  · rfl
  · have h := setLoop_frame labels (labels.zip xs) ps (fun pr hp => (List.of_mem_zip (a := pr.1) (b := pr.2) hp).1)
    split
    · rename_i ps' heq
      rw [updateExpr_map_frame]
      rw [heq] at h
      exact h
    · exact h

/-- concrete instance: the fixed `f` and the expression definition of `e` survive a set of `k`;
    only `k`'s value is replaced (by `exp` of the optimiser value, `k` being non-negative) -/
example : ((setFromArrays (fun _ _ => .fin (.q 9))
    [(⟨"k", .fin (.q 2), .ninf, .pinf, true, true, none, .nan⟩ : Parameter Term),
     ⟨"f", .fin (.q 5), .ninf, .pinf, true, false, none, .nan⟩,
     ⟨"e", .fin (.q 0), .ninf, .pinf, false, false, some "$k", .nan⟩] ["k"] [.fin (.q 1)]).1.map
      (fun p => (p.label, p.vary, p.expr, match p.value with
        | .fin (.q r) => some r | _ => none))) =
    [("k", true, none, none), ("f", false, none, some 5), ("e", false, some "$k", some 9)] := by
  decide

/-- the invariant `WellFormed` (expression ⇒ not varying) survives every set -/
theorem wellFormed_preserved [Num α] (ev : Eval α) (ps : List (Parameter α)) (labels : List String)
    (xs : List (Ext α)) (hW : WellFormed ps) : WellFormed (setFromArrays ev ps labels xs).1 := by
  intro p' hp' e he hne
  obtain ⟨i, hi⟩ := List.mem_iff_getElem?.mp hp'
  have h := congrArg (fun l => l[i]?) (set_preserves_unlisted ev ps labels xs)
  simp only [List.getElem?_map, hi, Option.map_some] at h
  cases hq : ps[i]? with
  | none => simp [hq] at h
  | some p =>
    simp only [hq, Option.map_some, Option.some.injEq, Parameter.frame, Prod.mk.injEq,
      Parameter.defn] at h
    have := hW p (List.mem_of_getElem? hq) e (by rw [← h.1.2.2.2.2.2.1]; exact he) hne
    rw [h.1.2.2.2.2.1]
    exact this

/-- …read off position by position: in the optimiser's use (`labels` = the free labels of the
    set) a fixed parameter keeps its value and every parameter keeps its definition. -/
theorem fixed_values_survive_optimizer_set [Num α] (ev : Eval α) (ps : List (Parameter α))
    (xs : List (Ext α)) (hN : (ps.map (·.label)).Nodup) (i : Nat) (p : Parameter α)
    (hi : ps[i]? = some p) :
    ∃ p', (setFromArrays ev ps (arrays ev true ps).labels xs).1[i]? = some p' ∧
      p'.defn = p.defn ∧ (p.vary = false → p.expr = none → p'.value = p.value) := by
  have h := set_preserves_unlisted ev ps (arrays ev true ps).labels xs
  have hi' := congrArg (fun l => l[i]?) h
  simp only [List.getElem?_map, hi, Option.map_some] at hi'
  cases hq : (setFromArrays ev ps (arrays ev true ps).labels xs).1[i]? with
  | none => simp [hq] at hi'
  | some p' =>
    simp only [hq, Option.map_some, Option.some.injEq, Parameter.frame, Prod.mk.injEq] at hi'
    refine ⟨p', rfl, hi'.1, ?_⟩
    intro hv he
    have hnot : p.label ∉ (arrays ev true ps).labels :=
      (free_excludes_fixed_and_expr ev ps).2.1 hN p (List.mem_of_getElem? hi) hv
    have hd := hi'.1
    simp only [Parameter.defn, Prod.mk.injEq] at hd
    have h2 := hi'.2
    rw [hd.1, hd.2.2.2.2.2.1] at h2
    simpa [he, hnot] using h2

/-- **Arrays → set is the identity (exact part)**: for a parameter set without non-negative
    parameters among the selected ones, whose expressions are up to date, handing the arrays back
    changes nothing — for every number type. -/
theorem set_get_identity [Num α] (ev : Eval α) (excl : Bool) (ps : List (Parameter α))
    (hN : (ps.map (·.label)).Nodup) (hU : updateExpr ev ps = ps)
    (hP : ∀ p ∈ ps, selected excl p = true → p.nonNeg = false) :
    setFromArrays ev ps (arrays ev excl ps).labels (arrays ev excl ps).values = (ps, .ok) :=
  set_get_identity_of_roundtrip ev excl ps hN hU (fun p hp hs => roundtrip_plain p (hP p hp hs))

/-- **Arrays → set is the identity over ℝ**, non-negative parameters included, provided their
    values are positive and not 1 (at 1: `roundtrip_at_one`). -/
theorem set_get_identity_real (ev : Eval ℝ) (excl : Bool) (ps : List (Parameter ℝ))
    (hN : (ps.map (·.label)).Nodup) (hU : updateExpr ev ps = ps)
    (hP : ∀ p ∈ ps, p.nonNeg = false ∨ ∃ v, p.value = .fin v ∧ 0 < v ∧ v ≠ 1) :
    setFromArrays ev ps (arrays ev excl ps).labels (arrays ev excl ps).values = (ps, .ok) :=
  set_get_identity_of_roundtrip ev excl ps hN hU (fun p hp _ => roundtrip p (hP p hp))

example : ∃ ps : List (Parameter ℝ), ps.length = 2 ∧
    setFromArrays (fun _ _ => .nan) ps (arrays (fun _ _ => .nan) false ps).labels
      (arrays (fun _ _ => .nan) false ps).values = (ps, .ok) :=
  ⟨[⟨"k", .fin 3, .fin 2, .pinf, true, true, none, .nan⟩, ⟨"f", .fin (-1), .ninf, .pinf, false, false, none, .nan⟩],
   rfl,
   set_get_identity_real _ _ _ (by simp) (by simp [updateExpr, updateGo])
     (by
       intro p hp
       simp only [List.mem_cons, List.not_mem_nil, or_false] at hp
       rcases hp with rfl | rfl
       · exact Or.inr ⟨3, rfl, by norm_num, by norm_num⟩
       · exact Or.inl rfl)⟩

/-! ### bounds -/

/-- **`log` transports a positive box**: for positive numbers, `lo ≤ v ≤ hi` in parameter space
    is the same as `log lo ≤ log v ≤ log hi` in optimiser space. -/
theorem bounds_transport (lo v hi : ℝ) (hlo : 0 < lo) (hv : 0 < v) (hhi : 0 < hi) :
    (lo ≤ v ∧ v ≤ hi) ↔ (Real.log lo ≤ Real.log v ∧ Real.log v ≤ Real.log hi) := by
  rw [Real.log_le_log_iff hlo hv, Real.log_le_log_iff hv hhi]

/-- Full statement: *whatever* optimiser value a non-negative parameter is set from, it is a
    positive number.  It holds for every finite real `x` (`fromOpt_pos_partial`) and fails at
    `x = -inf` (`fromOpt_pos_counterexample`): `np.exp(-inf) = 0`.  In IEEE doubles every
    `x < -745.13…` behaves like `-inf` (underflow), and `-inf` is the lower bound handed to scipy
    unless `minimum > 0` — the recorded finding `nonneg-underflow-to-zero`; the harness replays the
    witness on the real code.  (`0 ≤ value`, what the flag's name promises, always holds.) -/
def FromOptPos (x : Ext ℝ) : Prop := ∃ v : ℝ, fromOpt true x = .fin v ∧ 0 < v

/-- **A non-negative parameter is positive** for every finite (real) optimiser value. -/
theorem fromOpt_pos_partial (x : ℝ) : FromOptPos (.fin x) :=
  ⟨Real.exp x, rfl, Real.exp_pos x⟩

/-- …but not at the lower end of the optimiser's range: `exp(-inf) = 0` is not positive. -/
theorem fromOpt_pos_counterexample : ¬ FromOptPos .ninf := by
  rintro ⟨v, hv, hpos⟩
  simp only [fromOpt, if_true, expE, Ext.fin.injEq] at hv
  have : v = 0 := by rw [← hv]; simp [Num.ofRat]
  linarith

/-- **If the optimiser keeps `x` inside the box it was given, the parameter stays inside
    `[min, max]`** — for a non-negative parameter whose finite bounds are positive (a `±inf` bound
    stays infinite).  The guard of `_log_value` shows at a maximum that is exactly 1: there the
    value may reach `1 + 1e-10` (N5); everywhere else the box is exact. -/
theorem box_transport (p : Parameter ℝ) (x : ℝ) (hn : p.nonNeg = true)
    (hmin : p.min = .ninf ∨ ∃ lo, p.min = .fin lo ∧ 0 < lo)
    (hmax : p.max = .pinf ∨ ∃ hi, p.max = .fin hi ∧ 0 < hi)
    (hx : Ext.le (toOpt p).lower (.fin x) ∧ Ext.le (.fin x) (toOpt p).upper) :
    Ext.le p.min (fromOpt true (.fin x)) ∧
      (p.max ≠ .fin 1 → Ext.le (fromOpt true (.fin x)) p.max) ∧
      (p.max = .fin 1 → Real.exp x ≤ 1 + 1 / 10000000000) := by
  have hexp : fromOpt true (.fin x : Ext ℝ) = .fin (Real.exp x) := rfl
  simp only [toOpt, hn, if_true] at hx
  obtain ⟨hxl, hxu⟩ := hx
  rw [hexp]
  refine ⟨?_, ?_, ?_⟩
  · rcases hmin with h | ⟨lo, h, hpos⟩
    · simp [h, Ext.le]
    · simp only [h, logValue, Ext.le, logFin_real] at hxl ⊢
      have := Real.exp_le_exp.mpr hxl
      split at this
      · rename_i h1
        rw [Real.exp_log (by rw [h1]; norm_num)] at this
        linarith
      · rwa [Real.exp_log hpos] at this
  · intro hne
    rcases hmax with h | ⟨hi, h, hpos⟩
    · simp [h, Ext.le]
    · have hne1 : hi ≠ 1 := by
        intro h1; exact hne (by rw [h, h1])
      simp only [h, logValue, Ext.le, logFin_real, hne1, if_false] at hxu ⊢
      have := Real.exp_le_exp.mpr hxu
      rwa [Real.exp_log hpos] at this
  · intro h
    simp only [h, logValue, Ext.le, logFin_real, if_true] at hxu
    have := Real.exp_le_exp.mpr hxu
    rwa [Real.exp_log (by norm_num)] at this

example : Ext.le (toOpt (⟨"k", .fin 3, .fin 2, .fin 5, true, true, none, .nan⟩ : Parameter ℝ)).lower
    (.fin (Real.log 4)) := by
  simp only [toOpt, if_true, logValue, logFin_real, Ext.le]
  norm_num
  exact Real.log_le_log (by norm_num) (by norm_num)

/-! ### one ordering for labels, x, bounds and standard errors -/

/-- **The free labels index everything**: the vector `x`, the bounds and the labels handed to the
    optimiser enumerate the varying parameters of the set in declaration order, and the
    standard-error loop assigns the `i`-th error to exactly the parameter carrying the `i`-th free
    label (through `seValue`: identity, or the non-negative back-transformation), leaving every other
    parameter and every other attribute alone. -/
theorem labels_index_everything [Num α] (ev : Eval α) (ps qs : List (Parameter α)) (errs : List α)
    (hN : (ps.map (·.label)).Nodup) :
    let a := arrays ev true ps
    a.labels = (ps.filter (·.vary)).map (·.label) ∧
    a.values.length = a.labels.length ∧ a.lower.length = a.labels.length ∧
    a.upper.length = a.labels.length ∧
    (∀ (k i : Nat) (q : Parameter α) (e : α), qs[k]? = some q → a.labels[i]? = some q.label →
        errs[i]? = some e →
        (assignStdErrs qs a.labels errs)[k]? = some { q with stderr := seValue q e }) ∧
    (∀ (k : Nat) (q : Parameter α), qs[k]? = some q → q.label ∉ a.labels →
        (assignStdErrs qs a.labels errs)[k]? = some q) := by
  intro a
  have h := arrays_same_order_and_length ev true ps
  have hl : a.labels = (ps.filter (·.vary)).map (·.label) := by
    have := h.2.2.2.2.2.2.2.1
    simpa [selected_true] using this
  have hnd : a.labels.Nodup := List.Nodup.sublist h.2.2.2.2.2.2.2.2 hN
  refine ⟨hl, h.2.2.2.2.1, h.2.2.2.2.2.1, h.2.2.2.2.2.2.1, ?_, ?_⟩
  · intro k i q e hk hi he
    have hp : (a.labels.zip errs)[i]? = some (q.label, e) := by
      rw [List.getElem?_zip_eq_some]
      exact ⟨hi, he⟩
    have hnd' : ((a.labels.zip errs).map (·.1)).Nodup :=
      List.Nodup.sublist (zip_fst_sublist _ _) hnd
    exact foldl_seOne_hit _ qs k i q q.label e hnd' hp hk rfl
  · intro k q hk hn
    apply foldl_seOne_untouched _ qs k q hk
    intro hmem
    obtain ⟨pr, hpr, hfst⟩ := List.mem_map.mp hmem
    have := (List.of_mem_zip (a := pr.1) (b := pr.2) hpr).1
    exact hn (hfst ▸ this)

example : ((assignStdErrs
    [(⟨"b", .fin (.q 2), .ninf, .pinf, false, true, none, .nan⟩ : Parameter Term),
     ⟨"a", .fin (.q 3), .ninf, .pinf, false, true, none, .nan⟩] ["b", "a"] [.q 7, .q 9]).map
      (fun p => match p.stderr with | .fin (.q r) => r | _ => 0)) = [7, 9] := by
  decide

/-! ### history -/

/-- **A history record holds every parameter** — fixed and expression ones too — in declaration
    order and in optimiser space, behind the iteration number; the first record fixes the labels. -/
theorem history_row_is_all_parameters [Num α] (ev : Eval α) (ps : List (Parameter α)) (it : Ext α) :
    History.append ev ⟨[], []⟩ ps it =
      some ⟨"iteration" :: ps.map (·.label),
            [it :: (updateExpr ev ps).map (fun p => (toOpt p).value)]⟩ := by
  have h := arrays_same_order_and_length ev false ps
  simp only [History.append, List.isEmpty_nil, if_true, ne_eq, not_true_eq_false, if_false,
    List.nil_append]
  have hl : (arrays ev false ps).labels = ps.map (·.label) := by
    have := h.2.2.2.2.2.2.2.1
    simpa [selected_false] using this
  have hv : (arrays ev false ps).values = (updateExpr ev ps).map (fun p => (toOpt p).value) := by
    have := h.2.1
    simpa [selected_false] using this
  rw [hl, hv]

example : (History.append (fun _ _ => .nan) ⟨[], []⟩
    [(⟨"b", .fin (.q 2), .ninf, .pinf, false, true, none, .nan⟩ : Parameter Term),
     ⟨"a", .fin (.q 3), .ninf, .pinf, false, false, none, .nan⟩] (.fin (.q 0))).map (·.labels)
    = some ["iteration", "b", "a"] := by
  decide

/-- …and mapping a record back (`set_from_history`) restores the parameter set it was taken from
    (over ℝ; values positive and not 1 for non-negative parameters). -/
theorem history_maps_back (ev : Eval ℝ) (ps : List (Parameter ℝ)) (it : Ext ℝ) (h : History ℝ)
    (hN : (ps.map (·.label)).Nodup) (hU : updateExpr ev ps = ps)
    (hP : ∀ p ∈ ps, p.nonNeg = false ∨ ∃ v, p.value = .fin v ∧ 0 < v ∧ v ≠ 1)
    (hh : History.append ev ⟨[], []⟩ ps it = some h) :
    setFromHistory ev ps h 0 = (ps, .ok) := by
  rw [history_row_is_all_parameters] at hh
  cases hh
  have := set_get_identity_real ev false ps hN hU hP
  have h' := arrays_same_order_and_length ev false ps
  have hl : (arrays ev false ps).labels = ps.map (·.label) := by
    have := h'.2.2.2.2.2.2.2.1
    simpa [selected_false] using this
  have hv : (arrays ev false ps).values = (updateExpr ev ps).map (fun p => (toOpt p).value) := by
    have := h'.2.1
    simpa [selected_false] using this
  rw [hl, hv] at this
  simpa [setFromHistory] using this

/-! ### the source text is the model

`GlotaranModel/Generated/C11Fns.lean` is regenerated on every run from parameter.py / parameters.py by
the `ast` → Lean translator (harness/props/_c11_gen.py).  Each generated definition equals the
hand-written definition all theorems above are about — for every input, every number type and every
interpretation of its arithmetic.  A semantic edit of one of these functions changes the generated
definition and the corresponding theorem no longer compiles. -/

/-- `_log_value` (with its guard and the constants `1`, `1e-10`) is `logValue` -/
theorem generated_eq_model_log_value [Num α] (v : Ext α) : Gen.log_value v = logValue v :=
  gen_log_value_eq v

example : Gen.log_value (.fin (.q 1) : Ext Term) = logValue (.fin (.q 1)) ∧
    Gen.log_value (.pinf : Ext Term) = .pinf := ⟨rfl, rfl⟩

/-- `Parameter.get_value_and_bounds_for_optimization` is `toOpt` -/
theorem generated_eq_model_toOpt [Num α] (p : Parameter α) :
    Gen.get_value_and_bounds_for_optimization p = ((toOpt p).value, (toOpt p).lower, (toOpt p).upper) :=
  gen_toOpt_eq p

example : (Gen.get_value_and_bounds_for_optimization
    (⟨"k", .fin (.q 3), .fin (.q 2), .pinf, true, true, none, .nan⟩ : Parameter Term)).2.2 = .pinf := rfl

/-- `Parameter.set_value_from_optimization` is `setFromOpt` -/
theorem generated_eq_model_setFromOpt [Num α] (p : Parameter α) (x : Ext α) :
    Gen.set_value_from_optimization p x = p.setFromOpt x :=
  gen_setFromOpt_eq p x

example : (Gen.set_value_from_optimization
    (⟨"k", .fin (.q 3), .ninf, .pinf, true, true, none, .nan⟩ : Parameter Term) .ninf).value = .fin (.q 0) := rfl

/-- the validator `set_transformed_expression` (run by the constructor after the attributes are
    assigned, and again by every assignment to `expression`) is `setExpr`: a truthy expression — not
    `None`, not the empty string — forces `vary = False` -/
theorem generated_eq_model_setExpr (p : Parameter α) (e : Option String) :
    Gen.set_transformed_expression { p with expr := e } () e = Parameter.setExpr p e := by
  cases e with
  | none => simp [Gen.set_transformed_expression, Py.truthy, Parameter.setExpr]
  | some s =>
    by_cases hs : s = "" <;> simp [Gen.set_transformed_expression, Py.truthy, Parameter.setExpr, hs]

example : (Gen.set_transformed_expression
    (⟨"e", .fin (.q 0), .ninf, .pinf, false, true, some "$k", .nan⟩ : Parameter Term) () (some "$k")).vary = false := rfl

/-- `Parameters.get_label_value_and_bounds_arrays`: the expression update, the selection predicate
    `not exclude_non_vary or parameter.vary`, the loop with its four `append`s and the returned tuple
    are `arrays` (and the parameter set is left as `updateExpr` leaves it) -/
theorem generated_eq_model_arrays [Num α] (ev : Eval α) (ps : List (Parameter α)) (excl : Bool) :
    Gen.get_label_value_and_bounds_arrays ev ps excl = (updateExpr ev ps, (arrays ev excl ps).tuple) := by
  have h := gen_arrays_fold excl (updateExpr ev ps) (⟨[], [], [], []⟩ : Arrays α)
  simp only [Arrays.tuple] at h
  simp only [Gen.get_label_value_and_bounds_arrays, Py.asarray, arrays, Arrays.tuple, h]

example : (Gen.get_label_value_and_bounds_arrays (fun _ _ => .nan)
    [(⟨"b", .fin (.q 2), .ninf, .pinf, true, true, none, .nan⟩ : Parameter Term),
     ⟨"f", .fin (.q 5), .ninf, .pinf, false, false, none, .nan⟩,
     ⟨"a", .fin (.q 3), .fin (.q 1), .pinf, false, true, none, .nan⟩] true).2.1 = ["b", "a"] := by
  decide

/-- `Parameters.set_from_label_and_value_arrays`: the length check, the loop over `zip(labels, values)`
    with `self.get(label)` raising on an unknown label (earlier pairs already set), the final
    expression update — are `setFromArrays`, outcome included -/
theorem generated_eq_model_set [Num α] (ev : Eval α) (ps : List (Parameter α)) (labels : List String)
    (xs : List (Ext α)) :
    Gen.set_from_label_and_value_arrays ev ps labels xs =
      ((setFromArrays ev ps labels xs).1, excOfStatus (setFromArrays ev ps labels xs).2) := by
  simp only [Gen.set_from_label_and_value_arrays, setFromArrays, gen_set_fold]
  by_cases hlen : labels.length = xs.length
  · simp only [hlen, ne_eq, not_true_eq_false, decide_false, if_false, Bool.false_eq_true]
    generalize setLoop ps (labels.zip xs) = r
    obtain ⟨ps', st⟩ := r
    cases st <;> simp [excOfStatus]
  · simp [hlen, excOfStatus]

example : (Gen.set_from_label_and_value_arrays (fun _ _ => .nan)
    [(⟨"k", .fin (.q 2), .ninf, .pinf, false, true, none, .nan⟩ : Parameter Term)] ["k", "zz"]
      [.fin (.q 1), .fin (.q 1)]).2 = some ⟨"ParameterNotFoundException", ["zz"]⟩ := by
  decide

/-! ### look-up by label -/

/-- `Parameters.has` / `Parameters.get` as written in the source are the model's look-ups
    (`get` raising `ParameterNotFoundException(label)` where the model answers `none`) -/
theorem generated_eq_model_has_get (ps : List (Parameter α)) (l : String) :
    Gen.Parameters_has ps l = hasLabel ps l ∧
    Gen.Parameters_get ps l =
      (match getLabel ps l with
       | some p => .ok p
       | none => .error ⟨"ParameterNotFoundException", [l]⟩) := ⟨rfl, rfl⟩

/-- **Look-up is exact**: `has` is true for the declared full labels and for nothing else (no group
    path, no prefix, no short label); `get` answers a parameter carrying exactly that label, fails
    exactly where `has` is false, and with unique labels returns each parameter under its own label. -/
theorem lookup_exact (ps : List (Parameter α)) (l : String) :
    (hasLabel ps l = true ↔ l ∈ ps.map (·.label)) ∧
    (getLabel ps l = none ↔ hasLabel ps l = false) ∧
    (∀ p, getLabel ps l = some p → p ∈ ps ∧ p.label = l) ∧
    ((ps.map (·.label)).Nodup → ∀ p ∈ ps, getLabel ps p.label = some p) := by
  refine ⟨?_, ?_, ?_, fun hN p hp => getLabel_of_nodup ps hN p hp⟩
  · simp [hasLabel]
  · simp [getLabel, hasLabel]
  · intro p hp
    refine ⟨List.mem_of_find?_eq_some hp, ?_⟩
    have := List.find?_some hp
    simpa using this

/-- a group path is not a label -/
example : hasLabel [(⟨"rates.k1", .fin (.q 1), .ninf, .pinf, false, true, none, .nan⟩ : Parameter Term)] "rates" = false ∧
    hasLabel [(⟨"rates.k1", .fin (.q 1), .ninf, .pinf, false, true, none, .nan⟩ : Parameter Term)] "rates.k1" = true ∧
    (getLabel [(⟨"rates.k1", .fin (.q 1), .ninf, .pinf, false, true, none, .nan⟩ : Parameter Term)] "k1").isNone = true := by
  decide

/-! ### the constructor validates no ordering; what reaches the optimiser -/

/-- **Nothing about `minimum ≤ value ≤ maximum` (or `minimum ≤ maximum`, or the sign of a non-negative
    parameter) is checked or repaired by the constructor, and a start value outside the box is handed
    to the optimiser exactly as declared** (plain parameter: unchanged, next to the unchanged bounds).
    scipy then refuses it (`x0 is infeasible` → `InitialParameterError`, no evaluation, no result —
    observed by the harness on every run); nothing is clipped or transported into the box. -/
theorem start_value_handed_over_unvalidated [Num α] (label : String) (v lo hi : Ext α) (nn vy : Bool)
    (e : Option String) :
    let p := Parameter.create label v lo hi nn vy e
    p.value = v ∧ p.min = lo ∧ p.max = hi ∧ p.nonNeg = nn ∧
      (nn = false → toOpt p = ⟨v, lo, hi⟩) ∧
      (nn = true → toOpt p = ⟨logValue v, logValue lo, logValue hi⟩) := by
  intro p
  have h : p.value = v ∧ p.min = lo ∧ p.max = hi ∧ p.nonNeg = nn := by
    cases e with
    | none => exact ⟨rfl, rfl, rfl, rfl⟩
    | some s =>
      by_cases hs : s = ""
      · subst hs; exact ⟨rfl, rfl, rfl, rfl⟩
      · simp [p, Parameter.create, Parameter.setExpr, hs]
  refine ⟨h.1, h.2.1, h.2.2.1, h.2.2.2, ?_, ?_⟩
  · intro hn; simp [toOpt, h.1, h.2.1, h.2.2.1, h.2.2.2, hn]
  · intro hn; simp [toOpt, h.1, h.2.1, h.2.2.1, h.2.2.2, hn]

/-- value 9 outside [1, 5], and a reversed box: both accepted and handed over -/
example : toOpt (Parameter.create "a" (.fin (.q 9)) (.fin (.q 5)) (.fin (.q 1)) false true none : Parameter Term) =
    ⟨.fin (.q 9), .fin (.q 5), .fin (.q 1)⟩ := rfl

/-- **The start of a non-negative parameter is feasible for the optimiser exactly when it lies in the
    declared box** (positive values and bounds other than 1; at 1 the guard shifts by 1e-10). -/
theorem start_feasible_iff (p : Parameter ℝ) (v lo hi : ℝ) (hn : p.nonNeg = true)
    (hv : p.value = .fin v) (hlo : p.min = .fin lo) (hhi : p.max = .fin hi)
    (pv : 0 < v) (plo : 0 < lo) (phi : 0 < hi) (nv : v ≠ 1) (nlo : lo ≠ 1) (nhi : hi ≠ 1) :
    (Ext.le (toOpt p).lower (toOpt p).value ∧ Ext.le (toOpt p).value (toOpt p).upper) ↔ (lo ≤ v ∧ v ≤ hi) := by
  simp only [toOpt, hn, if_true, hv, hlo, hhi, logValue, logFin_real, nv, nlo, nhi, if_false, Ext.le]
  exact (bounds_transport lo v hi plo pv phi).symm

example : Ext.le (toOpt (⟨"k", .fin 3, .fin 2, .fin 5, true, true, none, .nan⟩ : Parameter ℝ)).lower
    (toOpt (⟨"k", .fin 3, .fin 2, .fin 5, true, true, none, .nan⟩ : Parameter ℝ)).value :=
  ((start_feasible_iff ⟨"k", .fin 3, .fin 2, .fin 5, true, true, none, .nan⟩ 3 2 5 rfl rfl rfl rfl
    (by norm_num) (by norm_num) (by norm_num) (by norm_num) (by norm_num) (by norm_num)).mpr
    ⟨by norm_num, by norm_num⟩).1

/-! ### copies, dictionaries, equality -/

/-- **A copy is always well formed**: whatever was assigned to `vary` after construction, in a copy
    (and `Optimizer` works on a copy of the scheme's parameters) every parameter with an expression has
    `vary = false` again — with `free_excludes_fixed_and_expr` no expression parameter of any
    parameter set reaches the optimiser.  Labels and their order are kept. -/
theorem copy_wellFormed (ev : Eval α) (ps : List (Parameter α)) :
    WellFormed (copyParams ev ps) ∧ (copyParams ev ps).map (·.label) = ps.map (·.label) := by
  constructor
  · apply wellFormed_of_map_eq _ _ (updateExpr_map_wfdata ev _)
    intro p hp e he hne
    obtain ⟨q, _, rfl⟩ := List.mem_map.mp hp
    exact Parameter.copy_wf q e he hne
  · have h := congrArg (List.map (fun (t : String × Bool × Option String) => t.1)) (updateExpr_map_wfdata ev (ps.map Parameter.copy))
    simp only [List.map_map] at h
    simp only [copyParams]
    refine Eq.trans (by simpa [Function.comp_def] using h) ?_
    apply List.map_congr_left
    intro p _
    exact Parameter.copy_label p

example : ((copyParams (fun _ _ => .fin (.q 9))
    [(⟨"e", .fin (.q 0), .ninf, .pinf, false, true, some "$k", .nan⟩ : Parameter Term)]).map (·.vary)) = [false] := by
  decide

/-- **`copy()` and `to_parameter_dict_list` → `from_parameter_dict_list` are the identity** on a well
    formed parameter set whose expression values are up to date (otherwise they are the expression
    update of the normalised set: `copyParams`). -/
theorem copy_and_dict_list_roundtrip (ev : Eval α) (ps : List (Parameter α)) (hW : WellFormed ps)
    (hU : updateExpr ev ps = ps) :
    copyParams ev ps = ps ∧ fromDictList ev (toDictList ps) = ps := by
  simp [copyParams, fromDictList, toDictList, map_copy_of_wf ps hW, hU]

example : copyParams (fun _ _ => .nan)
    [(⟨"k", .fin (.q 2), .ninf, .pinf, true, false, none, .fin (.q 1)⟩ : Parameter Term)] =
    [⟨"k", .fin (.q 2), .ninf, .pinf, true, false, none, .fin (.q 1)⟩] := by decide

/-- …and not the identity when `vary` was re-enabled on an expression parameter (kept visible) -/
theorem copy_identity_counterexample :
    copyParams (fun _ _ => .fin (.q 0))
      [(⟨"e", .fin (.q 0), .ninf, .pinf, false, true, some "$k", .nan⟩ : Parameter Term)] ≠
      [⟨"e", .fin (.q 0), .ninf, .pinf, false, true, some "$k", .nan⟩] := by
  decide

/-- **`==` on parameter sets**: reflexive (also with `nan` values and errors), and sound — equal sets
    hold, under every label, parameters that agree in all eight attributes.  (It ignores the
    declaration order: see the example.) -/
theorem params_eq_spec [DecidableEq α] (ps qs : List (Parameter α)) :
    paramsEq ps ps = true ∧
    (paramsEq ps qs = true → ∀ p ∈ ps, ∃ q ∈ qs, q.label = p.label ∧
      (getLabel ps p.label).isSome ∧ getLabel qs p.label = getLabel ps p.label) := by
  constructor
  · simp only [paramsEq, Bool.and_eq_true, List.all_eq_true]
    refine ⟨List.isPerm_iff.mpr (List.Perm.refl _), ?_⟩
    intro l hl
    obtain ⟨p, hp, _, _⟩ := getLabel_isSome_of_mem ps l hl
    simp [hp, deepEquals_refl]
  · intro h p hp
    simp only [paramsEq, Bool.and_eq_true, List.all_eq_true] at h
    have hl : p.label ∈ ps.map (·.label) := List.mem_map.mpr ⟨p, hp, rfl⟩
    have := h.2 _ hl
    cases h1 : getLabel ps p.label with
    | none => simp [h1] at this
    | some p1 =>
      cases h2 : getLabel qs p.label with
      | none => simp [h1, h2] at this
      | some q1 =>
        simp only [h1, h2] at this
        have e := deepEquals_eq p1 q1 this
        subst e
        refine ⟨p1, List.mem_of_find?_eq_some h2, ?_, rfl, rfl⟩
        have := List.find?_some h2
        simpa using this

/-- equality does not see the declaration order -/
example : paramsEq
    [(⟨"b", .fin (.q 2), .ninf, .pinf, false, true, none, .nan⟩ : Parameter Term), ⟨"a", .nan, .ninf, .pinf, false, true, none, .nan⟩]
    [⟨"a", .nan, .ninf, .pinf, false, true, none, .nan⟩, ⟨"b", .fin (.q 2), .ninf, .pinf, false, true, none, .nan⟩] = true := by
  decide

/-! ### in which space a standard error is reported -/

/-- **Standard errors are reported in parameter space.**  The covariance matrix and the Jacobian are in
    optimiser space (`x = log value` for a non-negative parameter); the error `err` of `x` is mapped
    back before it is stored: it becomes the distance from the value to the image of `x + err`, i.e.
    the upper deviation `exp(log v + err) − v`, capped at `|v|` (100 %) once `err ≥ |log v|`.  A plain
    parameter gets `err` itself.  (The property asks for the *ordering* only: `labels_index_everything`.) -/
theorem stderr_space (p : Parameter ℝ) (err : ℝ) :
    (p.nonNeg = false → seValue p err = .fin err) ∧
    (∀ v, p.nonNeg = true → p.value = .fin v → 0 < v → v ≠ 1 →
      seValue p err = .fin (if err < |Real.log v| then Real.exp (Real.log v + err) - v else v)) := by
  constructor
  · intro hn; simp [seValue, hn]
  · intro v hn hv hpos hne
    simp only [seValue, hn, if_true, hv, logFin_real, hne, if_false, Num.ifLt, Num.abs, Num.mul, Num.sub,
      Num.exp, Num.ofRat]
    congr 1
    split
    · rw [Real.exp_add, Real.exp_log hpos]; push_cast; ring
    · exact abs_of_pos hpos

example : seValue (⟨"k", .fin 2, .ninf, .pinf, true, true, none, .nan⟩ : Parameter ℝ) 0 = .fin 0 := by
  have := (stderr_space ⟨"k", .fin 2, .ninf, .pinf, true, true, none, .nan⟩ 0).2 2 rfl rfl (by norm_num) (by norm_num)
  rw [this]
  have : (0 : ℝ) < |Real.log 2| := abs_pos.mpr (ne_of_gt (Real.log_pos (by norm_num)))
  simp [this, Real.exp_log]

/-! ### access to a history -/

/-- **What a history built by `append` holds and how it is read**: after the records `recs` the history
    has that many records, record `i` (Python index `i`, and `-1` for the last) is the iteration number
    followed by *all* parameters of the `i`-th set in declaration order and optimiser space, all sets
    carry the labels of the columns, and the data frame (`to_dataframe` / `from_dataframe`) carries
    exactly labels and rows. -/
theorem history_access [Num α] (ev : Eval α) (recs : List (List (Parameter α) × Ext α)) (h : History α)
    (hh : History.appendAll ev ⟨[], []⟩ recs = some h) :
    h.numberOfRecords = recs.length ∧
    (∀ (i : Nat) (r : List (Parameter α) × Ext α), recs[i]? = some r →
      h.getParameters (i : Int) = some (r.2 :: (updateExpr ev r.1).map (fun p => (toOpt p).value)) ∧
      h.labels = "iteration" :: r.1.map (·.label)) ∧
    h.getParameters (-1) = (recs.getLast?).map (recordOf ev) ∧
    History.fromDataFrame h.toDataFrame = h := by
  obtain ⟨hr, hl, _⟩ := appendAll_spec ev recs ⟨[], []⟩ h hh
  simp only [List.nil_append] at hr
  refine ⟨by simp [History.numberOfRecords, hr], ?_, ?_, rfl⟩
  · intro i r hi
    refine ⟨?_, hl r (List.mem_of_getElem? hi)⟩
    simp [History.getParameters, pyIndex_nat, hr, hi, recordOf]
  · simp [History.getParameters, pyIndex_neg_one, hr, List.getLast?_map]

example : (History.appendAll (fun _ _ => .nan) ⟨[], []⟩
    [([(⟨"b", .fin (.q 2), .ninf, .pinf, false, true, none, .nan⟩ : Parameter Term)], .fin (.q 0)),
     ([(⟨"b", .fin (.q 3), .ninf, .pinf, false, true, none, .nan⟩ : Parameter Term)], .fin (.q 1))]).map
      (·.numberOfRecords) = some 2 := by decide

/-- **Row `i` of a history maps back to the `i`-th recorded parameter set** (`set_from_history(h, i)`
    applied to that set; over ℝ, non-negative values positive and not 1): rows are in the order of *all*
    parameters, not of the free ones, and the first column (iteration) is skipped. -/
theorem history_row_i_maps_back (ev : Eval ℝ) (recs : List (List (Parameter ℝ) × Ext ℝ)) (h : History ℝ)
    (hh : History.appendAll ev ⟨[], []⟩ recs = some h) (i : Nat) (ps : List (Parameter ℝ)) (it : Ext ℝ)
    (hi : recs[i]? = some (ps, it))
    (hN : (ps.map (·.label)).Nodup) (hU : updateExpr ev ps = ps)
    (hP : ∀ p ∈ ps, p.nonNeg = false ∨ ∃ v, p.value = .fin v ∧ 0 < v ∧ v ≠ 1) :
    setFromHistoryAt ev ps h (i : Int) = some (ps, .ok) := by
  obtain ⟨_, hrow, _, _⟩ := history_access ev recs h hh
  obtain ⟨hg, hl⟩ := hrow i (ps, it) hi
  have := set_get_identity_real ev false ps hN hU hP
  rw [arrays_false_labels, arrays_false_values] at this
  simp only [setFromHistoryAt, hg, hl, List.drop_succ_cons, List.drop_zero]
  exact congrArg some this

example : ∃ h : History ℝ, History.appendAll (fun _ _ => .nan) ⟨[], []⟩
    [([(⟨"k", .fin 3, .ninf, .pinf, true, true, none, .nan⟩ : Parameter ℝ)], .fin 0)] = some h :=
  ⟨_, rfl⟩

end Glotaran.C11
