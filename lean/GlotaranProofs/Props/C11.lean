/-
C11 — parameter transformations, bounds and fixed parameters are respected.
Property theorems only (helpers: GlotaranProofs/Lemmas/C11.lean).  Statements are about the
functions of GlotaranModel/C11.lean, for parameter lists of any length, every expression evaluator
`ev` and — where `log`/`exp` do not matter — every number type `α` with every interpretation of
the arithmetic (`Num α`), in particular the executable term instance and the real numbers.
The analytic statements are for `α = ℝ` (`Real.log`, `Real.exp`).
-/
import GlotaranProofs.Lemmas.C11
namespace Glotaran.C11

variable {α : Type}

/-! ### round trip -/

/-- **Optimiser space and back is the identity**: for every parameter that is not non-negative
    (any number type — no arithmetic happens), and over ℝ for a non-negative parameter with a
    positive value other than 1 (`exp (log v) = v`). -/
theorem roundtrip (p : Parameter ℝ)
    (h : p.nonNeg = false ∨ ∃ v, p.value = .fin v ∧ 0 < v ∧ v ≠ 1) :
    fromOpt p.nonNeg (toOpt p).value = p.value := by
  rcases h with h | ⟨v, hv, hpos, hne⟩
  · simp [fromOpt, toOpt, h]
  · cases hn : p.nonNeg with
    | false => simp [fromOpt, toOpt, hn]
    | true =>
      simp only [fromOpt, toOpt, hn, if_true, hv, logValue, expE, logFin_real, hne, if_false]
      simp only [Num.exp]
      rw [Real.exp_log hpos]

example : fromOpt true (toOpt (⟨"k", .fin 3, .ninf, .pinf, true, true, none, .nan⟩ : Parameter ℝ)).value
    = .fin 3 :=
  roundtrip ⟨"k", .fin 3, .ninf, .pinf, true, true, none, .nan⟩ (Or.inr ⟨3, rfl, by norm_num, by norm_num⟩)

/-- the exact part of `roundtrip` for every number type -/
theorem roundtrip_plain [Num α] (p : Parameter α) (h : p.nonNeg = false) :
    fromOpt p.nonNeg (toOpt p).value = p.value := by
  simp [fromOpt, toOpt, h]

/-- **The guard of `_log_value` (N5), stated**: a non-negative parameter whose value is exactly 1
    comes back as `1 + 1e-10`, i.e. off by exactly `1e-10` and no more. -/
theorem roundtrip_at_one (p : Parameter ℝ) (hn : p.nonNeg = true) (hv : p.value = .fin 1) :
    fromOpt p.nonNeg (toOpt p).value = .fin (1 + 1 / 10000000000) ∧
      |(1 + 1 / 10000000000 : ℝ) - 1| ≤ 1 / 10000000000 := by
  constructor
  · simp only [fromOpt, toOpt, hn, if_true, hv, logValue, expE, logFin_real]
    simp only [Num.exp]
    rw [Real.exp_log (by norm_num)]
  · norm_num [abs_of_pos]

/-- non-finite values and bounds are handed over unchanged (`±inf` bounds stay `±inf`) -/
theorem nonfinite_passes [Num α] : logValue (.pinf : Ext α) = .pinf ∧ logValue (.ninf : Ext α) = .ninf ∧
    logValue (.nan : Ext α) = .nan := ⟨rfl, rfl, rfl⟩

/-! ### which parameters are handed over, and in which order -/

/-- **Labels, values, lower and upper bounds are one enumeration**: the selected parameters
    (all, or the varying ones) in declaration order; the four arrays have equal length and entry
    `i` of each belongs to the same parameter. -/
theorem arrays_same_order_and_length [Num α] (ev : Eval α) (excl : Bool) (ps : List (Parameter α)) :
    let a := arrays ev excl ps
    let sel := (updateExpr ev ps).filter (selected excl)
    a.labels = sel.map (·.label) ∧ a.values = sel.map (fun p => (toOpt p).value) ∧
      a.lower = sel.map (fun p => (toOpt p).lower) ∧ a.upper = sel.map (fun p => (toOpt p).upper) ∧
      a.values.length = a.labels.length ∧ a.lower.length = a.labels.length ∧
      a.upper.length = a.labels.length ∧
      a.labels = (ps.filter (selected excl)).map (·.label) ∧
      List.Sublist a.labels (ps.map (·.label)) := by
  intro a sel
  have hs : a = ⟨sel.map (·.label), sel.map (fun p => (toOpt p).value),
      sel.map (fun p => (toOpt p).lower), sel.map (fun p => (toOpt p).upper)⟩ := arrays_spec ev excl ps
  have hl : a.labels = (ps.filter (selected excl)).map (·.label) := arrays_labels ev excl ps
  refine ⟨by rw [hs], by rw [hs], by rw [hs], by rw [hs], by rw [hs]; simp, by rw [hs]; simp,
    by rw [hs]; simp, hl, ?_⟩
  rw [hl]
  exact List.Sublist.map _ List.filter_sublist

example : (arrays (fun _ _ => .nan) true
    [(⟨"b", .fin (.q 2), .ninf, .pinf, true, true, none, .nan⟩ : Parameter Term),
     ⟨"f", .fin (.q 5), .ninf, .pinf, false, false, none, .nan⟩,
     ⟨"a", .fin (.q 3), .fin (.q 1), .pinf, false, true, none, .nan⟩]).labels = ["b", "a"] := by
  decide

/-- **Fixed and expression parameters are never handed to the optimiser**: a free label always
    belongs to a parameter with `vary = true`; a parameter with `vary = false` never appears; in a
    parameter set built through the constructor a parameter with an expression never appears. -/
theorem free_excludes_fixed_and_expr [Num α] (ev : Eval α) (ps : List (Parameter α)) :
    (∀ l ∈ (arrays ev true ps).labels, ∃ p ∈ ps, p.label = l ∧ p.vary = true) ∧
    ((ps.map (·.label)).Nodup → ∀ p ∈ ps, p.vary = false → p.label ∉ (arrays ev true ps).labels) ∧
    ((ps.map (·.label)).Nodup → WellFormed ps → ∀ p ∈ ps, ∀ e, p.expr = some e → e ≠ "" →
      p.label ∉ (arrays ev true ps).labels) := by
  have hl := arrays_labels ev true ps
  have fixed : (ps.map (·.label)).Nodup → ∀ p ∈ ps, p.vary = false →
      p.label ∉ (arrays ev true ps).labels := by
    intro hN p hp hv hmem
    rw [hl] at hmem
    obtain ⟨q, hq, hql⟩ := List.mem_map.mp hmem
    have hq' := List.mem_filter.mp hq
    have : q = p := List.inj_on_of_nodup_map hN hq'.1 hp hql
    subst this
    simp [selected, hv] at hq'
  refine ⟨?_, fixed, ?_⟩
  · intro l hmem
    rw [hl] at hmem
    obtain ⟨q, hq, hql⟩ := List.mem_map.mp hmem
    have hq' := List.mem_filter.mp hq
    exact ⟨q, hq'.1, hql, by simpa [selected] using hq'.2⟩
  · intro hN hW p hp e he hne
    exact fixed hN p hp (hW p hp e he hne)

/-- **The constructor makes expression parameters non-varying** whatever `vary` was asked for —
    the premise `WellFormed` of `free_excludes_fixed_and_expr` — and nothing in the modelled code
    sets `vary` again (`set_preserves_unlisted`). -/
theorem create_expr_not_free (label : String) (v lo hi : Ext α) (nn vy : Bool) (e : String)
    (he : e ≠ "") :
    (Parameter.create label v lo hi nn vy (some e)).vary = false ∧
      (Parameter.create label v lo hi nn vy (some e)).expr = some e ∧
      (Parameter.create label v lo hi nn vy none : Parameter α).vary = vy := by
  simp [Parameter.create, Parameter.setExpr, he]

example : (Parameter.create "a" (.fin (.q 1)) .ninf .pinf false true (some "$b") : Parameter Term).vary
    = false := by decide

/-! ### setting values -/

/-- **`set_from_label_and_value_arrays` touches nothing but the values it is given**, whatever
    the outcome (ok, length mismatch, unknown label): positionally, every parameter keeps label,
    bounds, flags, expression *definition* and standard error, and every parameter that is neither
    listed nor defined by an expression keeps its value. -/
theorem set_preserves_unlisted [Num α] (ev : Eval α) (ps : List (Parameter α)) (labels : List String)
    (xs : List (Ext α)) :
    (setFromArrays ev ps labels xs).1.map (Parameter.frame labels) = ps.map (Parameter.frame labels) := by
  unfold setFromArrays
  split
  · rfl
  · have h := setLoop_frame labels (labels.zip xs) ps (fun pr hp => (List.of_mem_zip (a := pr.1) (b := pr.2) hp).1)
    split
    · rename_i ps' heq
      rw [updateExpr_map_frame]
      rw [heq] at h
      exact h
    · exact h

/-- concrete instance: the fixed `f` and the expression definition of `e` survive a set of `k`;
    only `k`'s value is replaced (by `exp` of the optimiser value, `k` being non-negative) -/
example : ((setFromArrays (fun _ _ => .fin (.q 9))
    [(⟨"k", .fin (.q 2), .ninf, .pinf, true, true, none, .nan⟩ : Parameter Term),
     ⟨"f", .fin (.q 5), .ninf, .pinf, true, false, none, .nan⟩,
     ⟨"e", .fin (.q 0), .ninf, .pinf, false, false, some "$k", .nan⟩] ["k"] [.fin (.q 1)]).1.map
      (fun p => (p.label, p.vary, p.expr, match p.value with
        | .fin (.q r) => some r | _ => none))) =
    [("k", true, none, none), ("f", false, none, some 5), ("e", false, some "$k", some 9)] := by
  decide

/-- the invariant `WellFormed` (expression ⇒ not varying) survives every set -/
theorem wellFormed_preserved [Num α] (ev : Eval α) (ps : List (Parameter α)) (labels : List String)
    (xs : List (Ext α)) (hW : WellFormed ps) : WellFormed (setFromArrays ev ps labels xs).1 := by
  intro p' hp' e he hne
  obtain ⟨i, hi⟩ := List.mem_iff_getElem?.mp hp'
  have h := congrArg (fun l => l[i]?) (set_preserves_unlisted ev ps labels xs)
  simp only [List.getElem?_map, hi, Option.map_some] at h
  cases hq : ps[i]? with
  | none => simp [hq] at h
  | some p =>
    simp only [hq, Option.map_some, Option.some.injEq, Parameter.frame, Prod.mk.injEq,
      Parameter.defn] at h
    have := hW p (List.mem_of_getElem? hq) e (by rw [← h.1.2.2.2.2.2.1]; exact he) hne
    rw [h.1.2.2.2.2.1]
    exact this

/-- …read off position by position: in the optimiser's use (`labels` = the free labels of the
    set) a fixed parameter keeps its value and every parameter keeps its definition. -/
theorem fixed_values_survive_optimizer_set [Num α] (ev : Eval α) (ps : List (Parameter α))
    (xs : List (Ext α)) (hN : (ps.map (·.label)).Nodup) (i : Nat) (p : Parameter α)
    (hi : ps[i]? = some p) :
    ∃ p', (setFromArrays ev ps (arrays ev true ps).labels xs).1[i]? = some p' ∧
      p'.defn = p.defn ∧ (p.vary = false → p.expr = none → p'.value = p.value) := by
  have h := set_preserves_unlisted ev ps (arrays ev true ps).labels xs
  have hi' := congrArg (fun l => l[i]?) h
  simp only [List.getElem?_map, hi, Option.map_some] at hi'
  cases hq : (setFromArrays ev ps (arrays ev true ps).labels xs).1[i]? with
  | none => simp [hq] at hi'
  | some p' =>
    simp only [hq, Option.map_some, Option.some.injEq, Parameter.frame, Prod.mk.injEq] at hi'
    refine ⟨p', rfl, hi'.1, ?_⟩
    intro hv he
    have hnot : p.label ∉ (arrays ev true ps).labels :=
      (free_excludes_fixed_and_expr ev ps).2.1 hN p (List.mem_of_getElem? hi) hv
    have hd := hi'.1
    simp only [Parameter.defn, Prod.mk.injEq] at hd
    have h2 := hi'.2
    rw [hd.1, hd.2.2.2.2.2.1] at h2
    simpa [he, hnot] using h2

/-- **Arrays → set is the identity (exact part)**: for a parameter set without non-negative
    parameters among the selected ones, whose expressions are up to date, handing the arrays back
    changes nothing — for every number type. -/
theorem set_get_identity [Num α] (ev : Eval α) (excl : Bool) (ps : List (Parameter α))
    (hN : (ps.map (·.label)).Nodup) (hU : updateExpr ev ps = ps)
    (hP : ∀ p ∈ ps, selected excl p = true → p.nonNeg = false) :
    setFromArrays ev ps (arrays ev excl ps).labels (arrays ev excl ps).values = (ps, .ok) :=
  set_get_identity_of_roundtrip ev excl ps hN hU (fun p hp hs => roundtrip_plain p (hP p hp hs))

/-- **Arrays → set is the identity over ℝ**, non-negative parameters included, provided their
    values are positive and not 1 (at 1: `roundtrip_at_one`). -/
theorem set_get_identity_real (ev : Eval ℝ) (excl : Bool) (ps : List (Parameter ℝ))
    (hN : (ps.map (·.label)).Nodup) (hU : updateExpr ev ps = ps)
    (hP : ∀ p ∈ ps, p.nonNeg = false ∨ ∃ v, p.value = .fin v ∧ 0 < v ∧ v ≠ 1) :
    setFromArrays ev ps (arrays ev excl ps).labels (arrays ev excl ps).values = (ps, .ok) :=
  set_get_identity_of_roundtrip ev excl ps hN hU (fun p hp _ => roundtrip p (hP p hp))

example : ∃ ps : List (Parameter ℝ), ps.length = 2 ∧
    setFromArrays (fun _ _ => .nan) ps (arrays (fun _ _ => .nan) false ps).labels
      (arrays (fun _ _ => .nan) false ps).values = (ps, .ok) :=
  ⟨[⟨"k", .fin 3, .fin 2, .pinf, true, true, none, .nan⟩, ⟨"f", .fin (-1), .ninf, .pinf, false, false, none, .nan⟩],
   rfl,
   set_get_identity_real _ _ _ (by simp) (by simp [updateExpr, updateGo])
     (by
       intro p hp
       simp only [List.mem_cons, List.not_mem_nil, or_false] at hp
       rcases hp with rfl | rfl
       · exact Or.inr ⟨3, rfl, by norm_num, by norm_num⟩
       · exact Or.inl rfl)⟩

/-! ### bounds -/

/-- **`log` transports a positive box**: for positive numbers, `lo ≤ v ≤ hi` in parameter space
    is the same as `log lo ≤ log v ≤ log hi` in optimiser space. -/
theorem bounds_transport (lo v hi : ℝ) (hlo : 0 < lo) (hv : 0 < v) (hhi : 0 < hi) :
    (lo ≤ v ∧ v ≤ hi) ↔ (Real.log lo ≤ Real.log v ∧ Real.log v ≤ Real.log hi) := by
  rw [Real.log_le_log_iff hlo hv, Real.log_le_log_iff hv hhi]

/-- Full statement: *whatever* optimiser value a non-negative parameter is set from, it is a
    positive number.  It holds for every finite real `x` (`fromOpt_pos_partial`) and fails at
    `x = -inf` (`fromOpt_pos_counterexample`): `np.exp(-inf) = 0`.  In IEEE doubles every
    `x < -745.13…` behaves like `-inf` (underflow), and `-inf` is the lower bound handed to scipy
    unless `minimum > 0` — the recorded finding `nonneg-underflow-to-zero`; the harness replays the
    witness on the real code.  (`0 ≤ value`, what the flag's name promises, always holds.) -/
def FromOptPos (x : Ext ℝ) : Prop := ∃ v : ℝ, fromOpt true x = .fin v ∧ 0 < v

/-- **A non-negative parameter is positive** for every finite (real) optimiser value. -/
theorem fromOpt_pos_partial (x : ℝ) : FromOptPos (.fin x) :=
  ⟨Real.exp x, rfl, Real.exp_pos x⟩

/-- …but not at the lower end of the optimiser's range: `exp(-inf) = 0` is not positive. -/
theorem fromOpt_pos_counterexample : ¬ FromOptPos .ninf := by
  rintro ⟨v, hv, hpos⟩
  simp only [fromOpt, if_true, expE, Ext.fin.injEq] at hv
  have : v = 0 := by rw [← hv]; simp [Num.ofRat]
  linarith

/-- **If the optimiser keeps `x` inside the box it was given, the parameter stays inside
    `[min, max]`** — for a non-negative parameter whose finite bounds are positive (a `±inf` bound
    stays infinite).  The guard of `_log_value` shows at a maximum that is exactly 1: there the
    value may reach `1 + 1e-10` (N5); everywhere else the box is exact. -/
theorem box_transport (p : Parameter ℝ) (x : ℝ) (hn : p.nonNeg = true)
    (hmin : p.min = .ninf ∨ ∃ lo, p.min = .fin lo ∧ 0 < lo)
    (hmax : p.max = .pinf ∨ ∃ hi, p.max = .fin hi ∧ 0 < hi)
    (hx : Ext.le (toOpt p).lower (.fin x) ∧ Ext.le (.fin x) (toOpt p).upper) :
    Ext.le p.min (fromOpt true (.fin x)) ∧
      (p.max ≠ .fin 1 → Ext.le (fromOpt true (.fin x)) p.max) ∧
      (p.max = .fin 1 → Real.exp x ≤ 1 + 1 / 10000000000) := by
  have hexp : fromOpt true (.fin x : Ext ℝ) = .fin (Real.exp x) := rfl
  simp only [toOpt, hn, if_true] at hx
  obtain ⟨hxl, hxu⟩ := hx
  rw [hexp]
  refine ⟨?_, ?_, ?_⟩
  · rcases hmin with h | ⟨lo, h, hpos⟩
    · simp [h, Ext.le]
    · simp only [h, logValue, Ext.le, logFin_real] at hxl ⊢
      have := Real.exp_le_exp.mpr hxl
      split at this
      · rename_i h1
        rw [Real.exp_log (by rw [h1]; norm_num)] at this
        linarith
      · rwa [Real.exp_log hpos] at this
  · intro hne
    rcases hmax with h | ⟨hi, h, hpos⟩
    · simp [h, Ext.le]
    · have hne1 : hi ≠ 1 := by
        intro h1; exact hne (by rw [h, h1])
      simp only [h, logValue, Ext.le, logFin_real, hne1, if_false] at hxu ⊢
      have := Real.exp_le_exp.mpr hxu
      rwa [Real.exp_log hpos] at this
  · intro h
    simp only [h, logValue, Ext.le, logFin_real, if_true] at hxu
    have := Real.exp_le_exp.mpr hxu
    rwa [Real.exp_log (by norm_num)] at this

example : Ext.le (toOpt (⟨"k", .fin 3, .fin 2, .fin 5, true, true, none, .nan⟩ : Parameter ℝ)).lower
    (.fin (Real.log 4)) := by
  simp only [toOpt, if_true, logValue, logFin_real, Ext.le]
  norm_num
  exact Real.log_le_log (by norm_num) (by norm_num)

/-! ### one ordering for labels, x, bounds and standard errors -/

/-- **The free labels index everything**: the vector `x`, the bounds and the labels handed to the
    optimiser enumerate the varying parameters of the set in declaration order, and the
    standard-error loop assigns the `i`-th error to exactly the parameter carrying the `i`-th free
    label (through `seValue`: identity, or the non-negative back-transformation), leaving every other
    parameter and every other attribute alone. -/
theorem labels_index_everything [Num α] (ev : Eval α) (ps qs : List (Parameter α)) (errs : List α)
    (hN : (ps.map (·.label)).Nodup) :
    let a := arrays ev true ps
    a.labels = (ps.filter (·.vary)).map (·.label) ∧
    a.values.length = a.labels.length ∧ a.lower.length = a.labels.length ∧
    a.upper.length = a.labels.length ∧
    (∀ (k i : Nat) (q : Parameter α) (e : α), qs[k]? = some q → a.labels[i]? = some q.label →
        errs[i]? = some e →
        (assignStdErrs qs a.labels errs)[k]? = some { q with stderr := seValue q e }) ∧
    (∀ (k : Nat) (q : Parameter α), qs[k]? = some q → q.label ∉ a.labels →
        (assignStdErrs qs a.labels errs)[k]? = some q) := by
  intro a
  have h := arrays_same_order_and_length ev true ps
  have hl : a.labels = (ps.filter (·.vary)).map (·.label) := by
    have := h.2.2.2.2.2.2.2.1
    simpa [selected_true] using this
  have hnd : a.labels.Nodup := List.Nodup.sublist h.2.2.2.2.2.2.2.2 hN
  refine ⟨hl, h.2.2.2.2.1, h.2.2.2.2.2.1, h.2.2.2.2.2.2.1, ?_, ?_⟩
  · intro k i q e hk hi he
    have hp : (a.labels.zip errs)[i]? = some (q.label, e) := by
      rw [List.getElem?_zip_eq_some]
      exact ⟨hi, he⟩
    have hnd' : ((a.labels.zip errs).map (·.1)).Nodup :=
      List.Nodup.sublist (zip_fst_sublist _ _) hnd
    exact foldl_seOne_hit _ qs k i q q.label e hnd' hp hk rfl
  · intro k q hk hn
    apply foldl_seOne_untouched _ qs k q hk
    intro hmem
    obtain ⟨pr, hpr, hfst⟩ := List.mem_map.mp hmem
    have := (List.of_mem_zip (a := pr.1) (b := pr.2) hpr).1
    exact hn (hfst ▸ this)

example : ((assignStdErrs
    [(⟨"b", .fin (.q 2), .ninf, .pinf, false, true, none, .nan⟩ : Parameter Term),
     ⟨"a", .fin (.q 3), .ninf, .pinf, false, true, none, .nan⟩] ["b", "a"] [.q 7, .q 9]).map
      (fun p => match p.stderr with | .fin (.q r) => r | _ => 0)) = [7, 9] := by
  decide

/-! ### history -/

/-- **A history record holds every parameter** — fixed and expression ones too — in declaration
    order and in optimiser space, behind the iteration number; the first record fixes the labels. -/
theorem history_row_is_all_parameters [Num α] (ev : Eval α) (ps : List (Parameter α)) (it : Ext α) :
    History.append ev ⟨[], []⟩ ps it =
      some ⟨"iteration" :: ps.map (·.label),
            [it :: (updateExpr ev ps).map (fun p => (toOpt p).value)]⟩ := by
  have h := arrays_same_order_and_length ev false ps
  simp only [History.append, List.isEmpty_nil, if_true, ne_eq, not_true_eq_false, if_false,
    List.nil_append]
  have hl : (arrays ev false ps).labels = ps.map (·.label) := by
    have := h.2.2.2.2.2.2.2.1
    simpa [selected_false] using this
  have hv : (arrays ev false ps).values = (updateExpr ev ps).map (fun p => (toOpt p).value) := by
    have := h.2.1
    simpa [selected_false] using this
  rw [hl, hv]

example : (History.append (fun _ _ => .nan) ⟨[], []⟩
    [(⟨"b", .fin (.q 2), .ninf, .pinf, false, true, none, .nan⟩ : Parameter Term),
     ⟨"a", .fin (.q 3), .ninf, .pinf, false, false, none, .nan⟩] (.fin (.q 0))).map (·.labels)
    = some ["iteration", "b", "a"] := by
  decide

/-- …and mapping a record back (`set_from_history`) restores the parameter set it was taken from
    (over ℝ; values positive and not 1 for non-negative parameters). -/
theorem history_maps_back (ev : Eval ℝ) (ps : List (Parameter ℝ)) (it : Ext ℝ) (h : History ℝ)
    (hN : (ps.map (·.label)).Nodup) (hU : updateExpr ev ps = ps)
    (hP : ∀ p ∈ ps, p.nonNeg = false ∨ ∃ v, p.value = .fin v ∧ 0 < v ∧ v ≠ 1)
    (hh : History.append ev ⟨[], []⟩ ps it = some h) :
    setFromHistory ev ps h 0 = (ps, .ok) := by
  rw [history_row_is_all_parameters] at hh
  cases hh
  have := set_get_identity_real ev false ps hN hU hP
  have h' := arrays_same_order_and_length ev false ps
  have hl : (arrays ev false ps).labels = ps.map (·.label) := by
    have := h'.2.2.2.2.2.2.2.1
    simpa [selected_false] using this
  have hv : (arrays ev false ps).values = (updateExpr ev ps).map (fun p => (toOpt p).value) := by
    have := h'.2.1
    simpa [selected_false] using this
  rw [hl, hv] at this
  simpa [setFromHistory] using this

end Glotaran.C11
