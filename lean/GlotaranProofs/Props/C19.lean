/-
C19 — plugin registry: first registration wins, every plugin stays reachable.
Property theorems only (helper lemmas: GlotaranProofs/Lemmas/C19.lean).
All statements are about `Glotaran.C19.step` / `run`, for every registry state and every
operation history (no bound on length).
-/
import GlotaranProofs.Lemmas.C19
namespace Glotaran.C19

/-- an op that is not a `set_plugin` call on short name `k` -/
def Op.notSetOn (k : String) : Op → Prop
  | .setPlugin k' _ => k' ≠ k
  | _ => True

private theorem addOne_keeps_short (r r' : Registry) (k : String) (q : Plugin)
    (key : String) (p : Plugin) (id : String) (w : Bool)
    (hk : hasDot k = false) (hq : lookup r k = some q)
    (h : addOne r key p id = some (r', w)) : lookup r' k = some q := by
  unfold addOne at h
  split at h
  · cases h
  · rename_i hkey
    have hfk : fullKey p id ≠ k := ne_of_hasDot (hasDot_fullKey p id) hk
    have hfn : p.fullName ≠ k := ne_of_hasDot (hasDot_fullName p) hk
    split at h
    · cases h
      simp [lookup_insert, hfk, hfn, hq]
    · rename_i hnone
      cases h
      have : key ≠ k := by
        intro e; subst e; simp [hq] at hnone
      simp [lookup_insert, hfk, this, hq]

private theorem addInstLoop_keeps_short (m n : String) (k : String) (q : Plugin)
    (hk : hasDot k = false) :
    ∀ (keys : List String) (r : Registry) (u : Nat) (acc : List Bool),
      lookup r k = some q → lookup (addInstLoop r m n keys u acc).1 k = some q := by
  intro keys
  induction keys with
  | nil => intro r u acc h; simpa [addInstLoop] using h
  | cons key ks ih =>
    intro r u acc h
    unfold addInstLoop
    split
    · simpa using h
    · rename_i r' w hadd
      exact ih r' (u + 1) (w :: acc) (addOne_keeps_short r r' k q key _ key w hk h hadd)

/-- **One step never changes what a registered short name resolves to**, unless the step is
    `set_plugin` on that very name. -/
theorem step_keeps_short (r : Registry) (op : Op) (k : String) (q : Plugin)
    (hk : hasDot k = false) (hq : lookup r k = some q) (hop : op.notSetOn k) :
    lookup (step r op).1 k = some q := by
  cases op with
  | add key p id =>
    simp only [step]
    split
    · simpa using hq
    · rename_i r' w hadd
      exact addOne_keeps_short r r' k q key p id w hk hq hadd
  | addInst keys m n u =>
    exact addInstLoop_keeps_short m n k q hk keys r u [] hq
  | setPlugin key full =>
    have hne : key ≠ k := hop
    simp only [step]
    split
    · simpa using hq
    · split
      · simpa using hq
      · split
        · simpa using hq
        · simp [lookup_insert, hne, hq]
  | get key => simp only [step]; split <;> simpa using hq
  | registered full => simpa [step] using hq

theorem run_keeps_short (ops : List Op) : ∀ (r : Registry) (k : String) (q : Plugin),
    hasDot k = false → lookup r k = some q → (∀ op ∈ ops, op.notSetOn k) →
    lookup (run r ops) k = some q := by
  induction ops with
  | nil => intro r k q _ h _; simpa [run] using h
  | cons op ops ih =>
    intro r k q hk h hall
    have h1 := step_keeps_short r op k q hk h (hall op (by simp))
    have := ih (step r op).1 k q hk h1 (fun o ho => hall o (by simp [ho]))
    simpa [run, List.foldl] using this

/-- **First registration wins.**  If short name `k` is free, `add k p` is accepted without a
    warning and `k` resolves to `p` after *any* later history that contains no `set_plugin k`. -/
theorem first_registration_wins (r : Registry) (k : String) (p : Plugin) (id : String)
    (ops : List Op) (hk : hasDot k = false) (hfree : lookup r k = none)
    (hops : ∀ op ∈ ops, op.notSetOn k) :
    (step r (.add k p id)).2 = .ok false ∧
    lookup (run (step r (.add k p id)).1 ops) k = some p := by
  have hstep : step r (.add k p id) = (insert (insert r (fullKey p id) p) k p, .ok false) := by
    simp [step, addOne, hk, hfree]
  refine ⟨by rw [hstep], ?_⟩
  apply run_keeps_short ops _ k p hk _ hops
  rw [hstep]; simp [lookup_insert]

/-- **A conflicting registration warns and does not replace.**  The warning is issued exactly
    when the full names differ; the short name keeps its plugin; the newcomer is stored under
    its full name. -/
theorem conflict_warns_and_keeps (r : Registry) (k : String) (old p : Plugin) (id : String)
    (hk : hasDot k = false) (hold : lookup r k = some old) :
    (step r (.add k p id)).2 = .ok (decide (old.fullName ≠ p.fullName)) ∧
    lookup (step r (.add k p id)).1 k = some old ∧
    lookup (step r (.add k p id)).1 p.fullName = some p ∧
    lookup (step r (.add k p id)).1 (fullKey p id) = some p := by
  have hfk : fullKey p id ≠ k := ne_of_hasDot (hasDot_fullKey p id) hk
  have hfn : p.fullName ≠ k := ne_of_hasDot (hasDot_fullName p) hk
  have hstep : step r (.add k p id) =
      (insert (insert r (fullKey p id) p) p.fullName p, .ok (decide (old.fullName ≠ p.fullName))) := by
    simp [step, addOne, hk, hold]
  rw [hstep]
  refine ⟨rfl, ?_, ?_, ?_⟩
  · simp [lookup_insert, hfk, hfn, hold]
  · simp [lookup_insert]
  · simp [lookup_insert]

/-- **`set_plugin` re-points a short name** to the plugin registered under the given full
    name, and it stays there through any later history without another `set_plugin k`. -/
theorem set_plugin_repoints (r : Registry) (k full : String) (q : Plugin) (ops : List Op)
    (hk : hasDot k = false) (hf : hasDot full = true) (hq : lookup r full = some q)
    (hops : ∀ op ∈ ops, op.notSetOn k) :
    (step r (.setPlugin k full)).2 = .done ∧
    lookup (run (step r (.setPlugin k full)).1 ops) k = some q := by
  have hstep : step r (.setPlugin k full) = (insert r k q, .done) := by
    simp [step, hk, hf, hq]
  refine ⟨by rw [hstep], ?_⟩
  apply run_keeps_short ops _ k q hk _ hops
  rw [hstep]; simp [lookup_insert]

/-- **Short names containing '.' are rejected** and the registry is untouched. -/
theorem dotted_short_names_rejected (r : Registry) (k : String) (hk : hasDot k = true) :
    (∀ p id, step r (.add k p id) = (r, .errDotted)) ∧
    (∀ full, step r (.setPlugin k full) = (r, .errDotted)) ∧
    (∀ m n u, step r (.addInst [k] m n u) = (r, .errDotted)) := by
  refine ⟨?_, ?_, ?_⟩
  · intro p id; simp [step, addOne, hk]
  · intro full; simp [step, hk]
  · intro m n u; simp [step, addInstLoop, addOne, hk]

/-- `set_plugin` with something that is not a registered full name is refused, registry
    untouched, and the error names exactly the registered dotted keys. -/
theorem set_plugin_unknown_rejected (r : Registry) (k full : String)
    (hk : hasDot k = false) (h : hasDot full = false ∨ lookup r full = none) :
    step r (.setPlugin k full) = (r, .errUnknownFull ((sortedKeys r true).filter hasDot)) := by
  rcases h with h | h
  · simp [step, hk, h]
  · by_cases hf : hasDot full = true
    · simp [step, hk, hf, h]
    · simp at hf; simp [step, hk, hf]

/-- **Lookup**: a registered key resolves to its plugin, an unknown key raises (ValueError),
    neither changes the registry. -/
theorem lookup_spec (r : Registry) (k : String) :
    (∀ p, lookup r k = some p → step r (.get k) = (r, .found p)) ∧
    (lookup r k = none → step r (.get k) = (r, .notFound)) := by
  constructor
  · intro p h; simp [step, h]
  · intro h; simp [step, h]

private theorem mem_keys_iff (r : Registry) (k : String) :
    k ∈ r.map (·.1) ↔ ∃ p, lookup r k = some p := by
  induction r with
  | nil => simp [lookup]
  | cons e rest ih =>
    obtain ⟨ke, pe⟩ := e
    by_cases h : ke = k
    · simp [lookup, h]
    · have h' : k ≠ ke := fun e => h e.symm
      simp [lookup, h, h', ih]

/-- **The known names reported are exactly the registered keys** (all of them with
    `full_names`, otherwise the undotted ones). -/
theorem registered_names_complete (r : Registry) (k : String) :
    (k ∈ sortedKeys r true ↔ ∃ p, lookup r k = some p) ∧
    (k ∈ sortedKeys r false ↔ (hasDot k = false ∧ ∃ p, lookup r k = some p)) := by
  constructor
  · simp [sortedKeys, List.mem_mergeSort, mem_keys_iff r k]
  · have := mem_keys_iff r k
    simp only [List.mem_map] at this
    simp only [sortedKeys, List.mem_mergeSort, List.mem_filter, Bool.not_eq_true', List.mem_map,
      Bool.false_eq_true, if_false]
    rw [this]; exact And.comm

/-! ### every plugin stays reachable under its full key -/

/-- later registration `(p', id')` does not hijack the key `K` of a plugin with full name `F` -/
def noClash (K F : String) (p' : Plugin) (id' : String) : Prop :=
  (fullKey p' id' = K → p'.fullName = F) ∧ (p'.fullName = K → p'.fullName = F)

def Op.noClash (K F : String) : Op → Prop
  | .add _ p' id' => Glotaran.C19.noClash K F p' id'
  | .addInst keys m n _ => ∀ k' ∈ keys, ∀ u, Glotaran.C19.noClash K F ⟨m, n, u⟩ k'
  | _ => True

def holdsName (r : Registry) (K F : String) : Prop := ∃ p', lookup r K = some p' ∧ p'.fullName = F

private theorem addOne_keeps_full (r r' : Registry) (K F : String) (key : String) (p : Plugin)
    (id : String) (w : Bool) (hc : noClash K F p id) (hK : holdsName r K F)
    (h : addOne r key p id = some (r', w)) : holdsName r' K F := by
  obtain ⟨q, hq, hqF⟩ := hK
  unfold addOne at h
  split at h
  · cases h
  · split at h
    · cases h
      by_cases h1 : p.fullName = K
      · exact ⟨p, by simp [lookup_insert, h1], hc.2 h1⟩
      · by_cases h2 : fullKey p id = K
        · exact ⟨p, by simp [lookup_insert, h1, h2], hc.1 h2⟩
        · exact ⟨q, by simp [lookup_insert, h1, h2, hq], hqF⟩
    · rename_i hnone
      cases h
      by_cases h1 : key = K
      · subst h1; simp [hq] at hnone
      · by_cases h2 : fullKey p id = K
        · exact ⟨p, by simp [lookup_insert, h1, h2], hc.1 h2⟩
        · exact ⟨q, by simp [lookup_insert, h1, h2, hq], hqF⟩

private theorem addInstLoop_keeps_full (m n K F : String) :
    ∀ (keys : List String) (r : Registry) (u : Nat) (acc : List Bool),
      (∀ k' ∈ keys, ∀ u, noClash K F ⟨m, n, u⟩ k') → holdsName r K F →
      holdsName (addInstLoop r m n keys u acc).1 K F := by
  intro keys
  induction keys with
  | nil => intro r u acc _ h; simpa [addInstLoop] using h
  | cons key ks ih =>
    intro r u acc hc h
    unfold addInstLoop
    split
    · simpa using h
    · rename_i r' w hadd
      exact ih r' (u + 1) (w :: acc) (fun k' hk' => hc k' (by simp [hk']))
        (addOne_keeps_full r r' K F key _ key w (hc key (by simp) u) h hadd)

theorem step_keeps_full (r : Registry) (op : Op) (K F : String) (hKd : hasDot K = true)
    (hc : op.noClash K F) (hK : holdsName r K F) : holdsName (step r op).1 K F := by
  cases op with
  | add key p id =>
    simp only [step]; split
    · simpa using hK
    · rename_i r' w hadd; exact addOne_keeps_full r r' K F key p id w hc hK hadd
  | addInst keys m n u => exact addInstLoop_keeps_full m n K F keys r u [] hc hK
  | setPlugin key full =>
    simp only [step]; split
    · simpa using hK
    · rename_i hkey
      split
      · simpa using hK
      · split
        · simpa using hK
        · have : key ≠ K := by
            intro e; subst e; simp [hKd] at hkey
          obtain ⟨q, hq, hqF⟩ := hK
          exact ⟨q, by simp [lookup_insert, this, hq], hqF⟩
  | get key => simp only [step]; split <;> simpa using hK
  | registered full => simpa [step] using hK

theorem run_keeps_full (ops : List Op) : ∀ (r : Registry) (K F : String), hasDot K = true →
    (∀ op ∈ ops, op.noClash K F) → holdsName r K F → holdsName (run r ops) K F := by
  induction ops with
  | nil => intro r K F _ _ h; simpa [run] using h
  | cons op ops ih =>
    intro r K F hKd hall h
    have h1 := step_keeps_full r op K F hKd (hall op (by simp)) h
    have := ih (step r op).1 K F hKd (fun o ho => hall o (by simp [ho])) h1
    simpa [run, List.foldl] using this

/-- **Every registered plugin stays retrievable under its full key** (`module.Class` for
    class plugins, `module.Class_format` for instantiated IO plugins): after an accepted
    `add k p id`, and after any later history, the full key resolves to a plugin with `p`'s
    full name — *provided* no later registration produces the same key string from a
    different full name (the `noClash` hypothesis; see `every_plugin_reachable_counterexample`
    for why it cannot be dropped: `m.A_b` + format `c` and `m.A` + format `b_c` collide). -/
theorem every_plugin_reachable_partial (r : Registry) (k : String) (p : Plugin) (id : String)
    (ops : List Op) (hk : hasDot k = false)
    (hops : ∀ op ∈ ops, op.noClash (fullKey p id) p.fullName) :
    holdsName (run (step r (.add k p id)).1 ops) (fullKey p id) p.fullName := by
  apply run_keeps_full ops _ _ _ (hasDot_fullKey p id) hops
  unfold step addOne
  simp only [hk]
  cases hl : lookup r k with
  | none =>
    have : k ≠ fullKey p id := fun e => (ne_of_hasDot (hasDot_fullKey p id) hk) e.symm
    exact ⟨p, by simp [lookup_insert, this], rfl⟩
  | some old =>
    by_cases h1 : p.fullName = fullKey p id
    · exact ⟨p, by simp [lookup_insert, h1], rfl⟩
    · exact ⟨p, by simp [lookup_insert, h1], rfl⟩

/-- The unrestricted statement is false on the model (and on the code, replayed by the
    harness): a class `m.A_b` registered for format `c` is shadowed under its own full key
    `m.A_b_c` by class `m.A` registered for format `b_c`. -/
theorem every_plugin_reachable_counterexample :
    ¬ holdsName
        (run (step [] (.add "c" ⟨"m", "A_b", 1⟩ "c")).1 [.add "b_c" ⟨"m", "A", 2⟩ "b_c"])
        (fullKey ⟨"m", "A_b", 1⟩ "c") (Plugin.fullName ⟨"m", "A_b", 1⟩) := by
  intro ⟨p', h, hF⟩
  have : lookup (run (step [] (.add "c" ⟨"m", "A_b", 1⟩ "c")).1 [.add "b_c" ⟨"m", "A", 2⟩ "b_c"])
      (fullKey ⟨"m", "A_b", 1⟩ "c") = some ⟨"m", "A", 2⟩ := by decide
  rw [this] at h
  cases h
  revert hF
  decide

/-! ### non-vacuity: the hypotheses are met by concrete non-trivial states -/

example : hasDot "csv" = false ∧ lookup [("nc", ⟨"m", "Nc", 0⟩)] "csv" = none := by decide
example : (run (step [("csv", ⟨"m", "A", 0⟩)] (.add "csv" ⟨"x", "B", 1⟩ "csv")).1
    [.get "csv", .add "csv" ⟨"y", "C", 2⟩ "csv"]).length = 5 := by decide
example : Op.noClash (fullKey ⟨"m", "A", 1⟩ "csv") "m.A" (.add "tsv" ⟨"m", "A", 2⟩ "tsv") := by
  constructor <;> decide

end Glotaran.C19
