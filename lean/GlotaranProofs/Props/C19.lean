/-
C19 — plugin registry: first registration wins, every plugin stays reachable.
Property theorems only (helper lemmas: GlotaranProofs/Lemmas/C19.lean).
All statements are about `Glotaran.C19.step` / `run`, for every registry state and every
operation history (no bound on length).

Sections: one registry dict (`step_keeps_short` … `registered_names_complete`); reachability under
dotted names (`every_plugin_reachable_partial` / `_counterexample`, the exact characterisation
`every_plugin_reachable_iff` and its corollaries); the three registries of `__PluginRegistry` as
instances of the one model, over the table regenerated from the source (`known_names_instances` …
`api_history_projects`, `supported_file_extensions_instances`); dispatch of the ten load/save
convenience functions over the regenerated table (`dispatch_uses_resolution`) and the model of
`infer_file_format` (`infer_file_format_spec`, `extOf_spec`).
-/
import GlotaranProofs.Lemmas.C19
import GlotaranProofs.Lemmas.C19Reach
import GlotaranProofs.Lemmas.C19Api
import GlotaranProofs.Lemmas.C19Gen
import GlotaranModel.Generated.C19
import GlotaranModel.Generated.C19Builtins
namespace Glotaran.C19

/-- an op that is not a `set_plugin` call on short name `k` -/
def Op.notSetOn (k : String) : Op → Prop
  | .setPlugin k' _ => k' ≠ k
  | _ => True

private theorem addOne_keeps_short (r r' : Registry) (k : String) (q : Plugin)
    (key : String) (p : Plugin) (id : String) (w : Bool)
    (hk : hasDot k = false) (hq : lookup r k = some q)
    (h : addOne r key p id = some (r', w)) : lookup r' k = some q := by
  unfold addOne at h
  split at h
  · cases h
  · rename_i hkey
    have hfk : fullKey p id ≠ k := ne_of_hasDot (hasDot_fullKey p id) hk
    have hfn : p.fullName ≠ k := ne_of_hasDot (hasDot_fullName p) hk
    split at h
    · cases h
      simp [lookup_insert, hfk, hfn, hq]
    · rename_i hnone
      cases h
      have : key ≠ k := by
        intro e; subst e; simp [hq] at hnone
      simp [lookup_insert, hfk, this, hq]

private theorem addInstLoop_keeps_short (m n : String) (k : String) (q : Plugin)
    (hk : hasDot k = false) :
    ∀ (keys : List String) (r : Registry) (u : Nat) (acc : List Bool),
      lookup r k = some q → lookup (addInstLoop r m n keys u acc).1 k = some q := by
  intro keys
  induction keys with
  | nil => intro r u acc h; simpa [addInstLoop] using h
  | cons key ks ih =>
    intro r u acc h
    unfold addInstLoop
    split
    · simpa using h
    · rename_i r' w hadd
      exact ih r' (u + 1) (w :: acc) (addOne_keeps_short r r' k q key _ key w hk h hadd)

/-- **One step never changes what a registered short name resolves to**, unless the step is
    `set_plugin` on that very name. -/
theorem step_keeps_short (r : Registry) (op : Op) (k : String) (q : Plugin)
    (hk : hasDot k = false) (hq : lookup r k = some q) (hop : op.notSetOn k) :
    lookup (step r op).1 k = some q := by
  cases op with
  | add key p id =>
    simp only [step]
    split
    · simpa using hq
    · rename_i r' w hadd
      exact addOne_keeps_short r r' k q key p id w hk hq hadd
  | addInst keys m n u =>
    exact addInstLoop_keeps_short m n k q hk keys r u [] hq
  | setPlugin key full =>
    have hne : key ≠ k := hop
    simp only [step]
    split
    · simpa using hq
    · split
      · simpa using hq
      · split
        · simpa using hq
        · simp [lookup_insert, hne, hq]
  | get key => simp only [step]; split <;> simpa using hq
  | registered full => simpa [step] using hq

theorem run_keeps_short (ops : List Op) : ∀ (r : Registry) (k : String) (q : Plugin),
    hasDot k = false → lookup r k = some q → (∀ op ∈ ops, op.notSetOn k) →
    lookup (run r ops) k = some q := by
  induction ops with
  | nil => intro r k q _ h _; simpa [run] using h
  | cons op ops ih =>
    intro r k q hk h hall
    have h1 := step_keeps_short r op k q hk h (hall op (by simp))
    have := ih (step r op).1 k q hk h1 (fun o ho => hall o (by simp [ho]))
    simpa [run, List.foldl] using this

/-- **First registration wins.**  If short name `k` is free, `add k p` is accepted without a
    warning and `k` resolves to `p` after *any* later history that contains no `set_plugin k`. -/
theorem first_registration_wins (r : Registry) (k : String) (p : Plugin) (id : String)
    (ops : List Op) (hk : hasDot k = false) (hfree : lookup r k = none)
    (hops : ∀ op ∈ ops, op.notSetOn k) :
    (step r (.add k p id)).2 = .ok false ∧
    lookup (run (step r (.add k p id)).1 ops) k = some p := by
  have hstep : step r (.add k p id) = (insert (insert r (fullKey p id) p) k p, .ok false) := by
    simp [step, addOne, hk, hfree]
  refine ⟨by rw [hstep], ?_⟩
  apply run_keeps_short ops _ k p hk _ hops
  rw [hstep]; simp [lookup_insert]

/-- **A conflicting registration warns and does not replace.**  The warning is issued exactly
    when the full names differ; the short name keeps its plugin; the newcomer is stored under
    its full name. -/
theorem conflict_warns_and_keeps (r : Registry) (k : String) (old p : Plugin) (id : String)
    (hk : hasDot k = false) (hold : lookup r k = some old) :
    (step r (.add k p id)).2 = .ok (decide (old.fullName ≠ p.fullName)) ∧
    lookup (step r (.add k p id)).1 k = some old ∧
    lookup (step r (.add k p id)).1 p.fullName = some p ∧
    lookup (step r (.add k p id)).1 (fullKey p id) = some p := by
  have hfk : fullKey p id ≠ k := ne_of_hasDot (hasDot_fullKey p id) hk
  have hfn : p.fullName ≠ k := ne_of_hasDot (hasDot_fullName p) hk
  have hstep : step r (.add k p id) =
      (insert (insert r (fullKey p id) p) p.fullName p, .ok (decide (old.fullName ≠ p.fullName))) := by
    simp [step, addOne, hk, hold]
  rw [hstep]
  refine ⟨rfl, ?_, ?_, ?_⟩
  · simp [lookup_insert, hfk, hfn, hold]
  · simp [lookup_insert]
  · simp [lookup_insert]

/-- **`set_plugin` re-points a short name** to the plugin registered under the given full
    name, and it stays there through any later history without another `set_plugin k`. -/
theorem set_plugin_repoints (r : Registry) (k full : String) (q : Plugin) (ops : List Op)
    (hk : hasDot k = false) (hf : hasDot full = true) (hq : lookup r full = some q)
    (hops : ∀ op ∈ ops, op.notSetOn k) :
    (step r (.setPlugin k full)).2 = .done ∧
    lookup (run (step r (.setPlugin k full)).1 ops) k = some q := by
  have hstep : step r (.setPlugin k full) = (insert r k q, .done) := by
    simp [step, hk, hf, hq]
  refine ⟨by rw [hstep], ?_⟩
  apply run_keeps_short ops _ k q hk _ hops
  rw [hstep]; simp [lookup_insert]

/-- **Short names containing '.' are rejected** and the registry is untouched. -/
theorem dotted_short_names_rejected (r : Registry) (k : String) (hk : hasDot k = true) :
    (∀ p id, step r (.add k p id) = (r, .errDotted)) ∧
    (∀ full, step r (.setPlugin k full) = (r, .errDotted)) ∧
    (∀ m n u, step r (.addInst [k] m n u) = (r, .errDotted)) := by
  refine ⟨?_, ?_, ?_⟩
  · intro p id; simp [step, addOne, hk]
  · intro full; simp [step, hk]
  · intro m n u; simp [step, addInstLoop, addOne, hk]

/-- `set_plugin` with something that is not a registered full name is refused, registry
    untouched, and the error names exactly the registered dotted keys (in the order they were first
    stored: the dict's iteration order). -/
theorem set_plugin_unknown_rejected (r : Registry) (k full : String)
    (hk : hasDot k = false) (h : hasDot full = false ∨ lookup r full = none) :
    step r (.setPlugin k full) = (r, .errUnknownFull ((keys r).filter hasDot)) := by
  rcases h with h | h
  · simp [step, hk, h]
  · by_cases hf : hasDot full = true
    · simp [step, hk, hf, h]
    · simp at hf; simp [step, hk, hf]

/-- **Lookup**: a registered key resolves to its plugin, an unknown key raises (ValueError),
    neither changes the registry. -/
theorem lookup_spec (r : Registry) (k : String) :
    (∀ p, lookup r k = some p → step r (.get k) = (r, .found p)) ∧
    (lookup r k = none → step r (.get k) = (r, .notFound)) := by
  constructor
  · intro p h; simp [step, h]
  · intro h; simp [step, h]

private theorem mem_keys_iff (r : Registry) (k : String) :
    k ∈ r.map (·.1) ↔ ∃ p, lookup r k = some p := by
  induction r with
  | nil => simp [lookup]
  | cons e rest ih =>
    obtain ⟨ke, pe⟩ := e
    by_cases h : ke = k
    · simp [lookup, h]
    · have h' : k ≠ ke := fun e => h e.symm
      simp [lookup, h, h', ih]

/-- **The known names reported are exactly the registered keys** (all of them with
    `full_names`, otherwise the undotted ones). -/
theorem registered_names_complete (r : Registry) (k : String) :
    (k ∈ sortedKeys r true ↔ ∃ p, lookup r k = some p) ∧
    (k ∈ sortedKeys r false ↔ (hasDot k = false ∧ ∃ p, lookup r k = some p)) := by
  constructor
  · simp [sortedKeys, List.mem_mergeSort, mem_keys_iff r k]
  · have := mem_keys_iff r k
    simp only [List.mem_map] at this
    simp only [sortedKeys, List.mem_mergeSort, List.mem_filter, Bool.not_eq_true', List.mem_map,
      Bool.false_eq_true, if_false]
    rw [this]; exact And.comm

/-! ### every plugin stays reachable under its full key -/

/-- later registration `(p', id')` does not hijack the key `K` of a plugin with full name `F` -/
def noClash (K F : String) (p' : Plugin) (id' : String) : Prop :=
  (fullKey p' id' = K → p'.fullName = F) ∧ (p'.fullName = K → p'.fullName = F)

def Op.noClash (K F : String) : Op → Prop
  | .add _ p' id' => Glotaran.C19.noClash K F p' id'
  | .addInst keys m n _ => ∀ k' ∈ keys, ∀ u, Glotaran.C19.noClash K F ⟨m, n, u⟩ k'
  | _ => True

def holdsName (r : Registry) (K F : String) : Prop := ∃ p', lookup r K = some p' ∧ p'.fullName = F

private theorem addOne_keeps_full (r r' : Registry) (K F : String) (key : String) (p : Plugin)
    (id : String) (w : Bool) (hc : noClash K F p id) (hK : holdsName r K F)
    (h : addOne r key p id = some (r', w)) : holdsName r' K F := by
  obtain ⟨q, hq, hqF⟩ := hK
  unfold addOne at h
  split at h
  · cases h
  · split at h
    · cases h
      by_cases h1 : p.fullName = K
      · exact ⟨p, by simp [lookup_insert, h1], hc.2 h1⟩
      · by_cases h2 : fullKey p id = K
        · exact ⟨p, by simp [lookup_insert, h1, h2], hc.1 h2⟩
        · exact ⟨q, by simp [lookup_insert, h1, h2, hq], hqF⟩
    · rename_i hnone
      cases h
      by_cases h1 : key = K
      · subst h1; simp [hq] at hnone
      · by_cases h2 : fullKey p id = K
        · exact ⟨p, by simp [lookup_insert, h1, h2], hc.1 h2⟩
        · exact ⟨q, by simp [lookup_insert, h1, h2, hq], hqF⟩

private theorem addInstLoop_keeps_full (m n K F : String) :
    ∀ (keys : List String) (r : Registry) (u : Nat) (acc : List Bool),
      (∀ k' ∈ keys, ∀ u, noClash K F ⟨m, n, u⟩ k') → holdsName r K F →
      holdsName (addInstLoop r m n keys u acc).1 K F := by
  intro keys
  induction keys with
  | nil => intro r u acc _ h; simpa [addInstLoop] using h
  | cons key ks ih =>
    intro r u acc hc h
    unfold addInstLoop
    split
    · simpa using h
    · rename_i r' w hadd
      exact ih r' (u + 1) (w :: acc) (fun k' hk' => hc k' (by simp [hk']))
        (addOne_keeps_full r r' K F key _ key w (hc key (by simp) u) h hadd)

theorem step_keeps_full (r : Registry) (op : Op) (K F : String) (hKd : hasDot K = true)
    (hc : op.noClash K F) (hK : holdsName r K F) : holdsName (step r op).1 K F := by
  cases op with
  | add key p id =>
    simp only [step]; split
    · simpa using hK
    · rename_i r' w hadd; exact addOne_keeps_full r r' K F key p id w hc hK hadd
  | addInst keys m n u => exact addInstLoop_keeps_full m n K F keys r u [] hc hK
  | setPlugin key full =>
    simp only [step]; split
    · simpa using hK
    · rename_i hkey
      split
      · simpa using hK
      · split
        · simpa using hK
        · have : key ≠ K := by
            intro e; subst e; simp [hKd] at hkey
          obtain ⟨q, hq, hqF⟩ := hK
          exact ⟨q, by simp [lookup_insert, this, hq], hqF⟩
  | get key => simp only [step]; split <;> simpa using hK
  | registered full => simpa [step] using hK

theorem run_keeps_full (ops : List Op) : ∀ (r : Registry) (K F : String), hasDot K = true →
    (∀ op ∈ ops, op.noClash K F) → holdsName r K F → holdsName (run r ops) K F := by
  induction ops with
  | nil => intro r K F _ _ h; simpa [run] using h
  | cons op ops ih =>
    intro r K F hKd hall h
    have h1 := step_keeps_full r op K F hKd (hall op (by simp)) h
    have := ih (step r op).1 K F hKd (fun o ho => hall o (by simp [ho])) h1
    simpa [run, List.foldl] using this

/-- **Every registered plugin stays retrievable under its full key** (`module.Class` for
    class plugins, `module.Class_format` for instantiated IO plugins): after an accepted
    `add k p id`, and after any later history, the full key resolves to a plugin with `p`'s
    full name — *provided* no later registration produces the same key string from a
    different full name (the `noClash` hypothesis; see `every_plugin_reachable_counterexample`
    for why it cannot be dropped: `m.A_b` + format `c` and `m.A` + format `b_c` collide). -/
theorem every_plugin_reachable_partial (r : Registry) (k : String) (p : Plugin) (id : String)
    (ops : List Op) (hk : hasDot k = false)
    (hops : ∀ op ∈ ops, op.noClash (fullKey p id) p.fullName) :
    holdsName (run (step r (.add k p id)).1 ops) (fullKey p id) p.fullName := by
  apply run_keeps_full ops _ _ _ (hasDot_fullKey p id) hops
  unfold step addOne
  simp only [hk]
  cases hl : lookup r k with
  | none =>
    have : k ≠ fullKey p id := fun e => (ne_of_hasDot (hasDot_fullKey p id) hk) e.symm
    exact ⟨p, by simp [lookup_insert, this], rfl⟩
  | some old =>
    by_cases h1 : p.fullName = fullKey p id
    · exact ⟨p, by simp [lookup_insert, h1], rfl⟩
    · exact ⟨p, by simp [lookup_insert, h1], rfl⟩

/-- The unrestricted statement is false on the model (and on the code, replayed by the
    harness): a class `m.A_b` registered for format `c` is shadowed under its own full key
    `m.A_b_c` by class `m.A` registered for format `b_c`. -/
theorem every_plugin_reachable_counterexample :
    ¬ holdsName
        (run (step [] (.add "c" ⟨"m", "A_b", 1⟩ "c")).1 [.add "b_c" ⟨"m", "A", 2⟩ "b_c"])
        (fullKey ⟨"m", "A_b", 1⟩ "c") (Plugin.fullName ⟨"m", "A_b", 1⟩) := by
  intro ⟨p', h, hF⟩
  have : lookup (run (step [] (.add "c" ⟨"m", "A_b", 1⟩ "c")).1 [.add "b_c" ⟨"m", "A", 2⟩ "b_c"])
      (fullKey ⟨"m", "A_b", 1⟩ "c") = some ⟨"m", "A", 2⟩ := by decide
  rw [this] at h
  cases h
  revert hF
  decide

/-! ### exactly when a plugin is shadowed under a dotted name

A registration stores the plugin under its full key and — when the short name is already taken —
under its plain full name as well (`runWrites`: every dict write to a dotted key of a history, in
order).  Two registrations *collide* when they write the same dotted key with different full
names. -/

/-- two writes of the history go to the same dotted key with different full names -/
def Collide (r : Registry) (ops : List Op) : Prop :=
  ∃ w ∈ runWrites r ops, ∃ w' ∈ runWrites r ops, w.1 = w'.1 ∧ w.2.fullName ≠ w'.2.fullName

/-- **Every plugin stays retrievable under every dotted name it was stored under, iff no two
    registrations of the history collide on such a name.**  For every start registry and every
    history; this is the exact form of the recorded finding (`m.A_b`+`c` vs `m.A`+`b_c`, and
    `m.A_b` registered twice for one format vs `m.A`+`b`). -/
theorem every_plugin_reachable_iff (r : Registry) (ops : List Op) :
    (∀ w ∈ runWrites r ops, holdsName (run r ops) w.1 w.2.fullName) ↔ ¬ Collide r ops := by
  constructor
  · intro h ⟨w, hw, w', hw', hk, hne⟩
    obtain ⟨q, hq, hqF⟩ := h w hw
    obtain ⟨q', hq', hqF'⟩ := h w' hw'
    rw [hk, hq'] at hq
    cases hq
    exact hne (hqF.symm.trans hqF')
  · intro h w hw
    obtain ⟨pi, _, hwo⟩ := (runWrites_spec ops r).1 w hw
    obtain ⟨w', hw', hk, he⟩ := applyWrites_of_mem (runWrites r ops) (lookup r w.1) w.1 ⟨w, hw, rfl⟩
    refine ⟨w'.2, ?_, ?_⟩
    · rw [run_lookup_dotted ops r w.1 hwo.dotted]; exact he
    · by_cases e : w'.2.fullName = w.2.fullName
      · exact e
      · exact absurd ⟨w', hw', w, hw, hk, e⟩ h

/-- the registered plugins themselves (`accepted`: every accepted `add` / every key an
    instantiating registration processed) are among the writes, under their full key: without a
    collision every registered plugin is reachable under its full key -/
theorem every_plugin_reachable_of_no_collision (r : Registry) (ops : List Op) (h : ¬ Collide r ops) :
    ∀ pi ∈ accepted ops, holdsName (run r ops) (fullKey pi.1 pi.2) pi.1.fullName := by
  intro pi hpi
  exact (every_plugin_reachable_iff r ops).mpr h _ ((runWrites_spec ops r).2 pi hpi)

/-- **Static form.**  If no registered plugin's plain full name is another one's full key
    (`m.A_b` vs `m.A` + format `b`; the name is written only when the short name was taken, which
    depends on the history), then all registered plugins are reachable under their full keys iff no
    two of them with different full names share a full key. -/
theorem every_plugin_reachable_iff_static (r : Registry) (ops : List Op)
    (hsec : ∀ pi ∈ accepted ops, ∀ pi' ∈ accepted ops,
      pi'.1.fullName = fullKey pi.1 pi.2 → pi'.1.fullName = pi.1.fullName) :
    (∀ pi ∈ accepted ops, holdsName (run r ops) (fullKey pi.1 pi.2) pi.1.fullName) ↔
    (∀ pi ∈ accepted ops, ∀ pi' ∈ accepted ops,
      fullKey pi.1 pi.2 = fullKey pi'.1 pi'.2 → pi.1.fullName = pi'.1.fullName) := by
  constructor
  · intro h pi hpi pi' hpi' hk
    obtain ⟨q, hq, hqF⟩ := h pi hpi
    obtain ⟨q', hq', hqF'⟩ := h pi' hpi'
    rw [hk, hq'] at hq
    cases hq
    exact hqF.symm.trans hqF'
  · intro h pi hpi
    have hmem := (runWrites_spec ops r).2 pi hpi
    obtain ⟨w', hw', hk, he⟩ := applyWrites_of_mem (runWrites r ops) (lookup r (fullKey pi.1 pi.2))
      (fullKey pi.1 pi.2) ⟨_, hmem, rfl⟩
    refine ⟨w'.2, ?_, ?_⟩
    · rw [run_lookup_dotted ops r _ (hasDot_fullKey pi.1 pi.2)]; exact he
    · obtain ⟨pi', hpi', hp, hkey⟩ := (runWrites_spec ops r).1 w' hw'
      rw [hp]
      rcases hkey with e | e
      · exact (h pi hpi pi' hpi' (by rw [← hk, e])).symm
      · exact hsec pi hpi pi' hpi' (by rw [← e, hk])

/-- a history registers class-style plugins only (`register_megacomplex`: no instance identifier) -/
def Op.classStyle : Op → Prop
  | .add _ _ id => id = ""
  | .addInst keys _ _ _ => keys = []
  | _ => True

private theorem accepted_classStyle (ops : List Op) (hc : ∀ op ∈ ops, op.classStyle) :
    ∀ pi ∈ accepted ops, pi.2 = "" := by
  intro pi hpi
  simp only [accepted, List.mem_flatMap] at hpi
  obtain ⟨op, hop, hin⟩ := hpi
  have := hc op hop
  cases op with
  | add key p id =>
    simp only [Op.classStyle] at this
    by_cases hk : hasDot key = true
    · simp [acceptedOf, hk] at hin
    · simp [acceptedOf, hk] at hin
      rw [hin]; exact this
  | addInst keys m n u =>
    simp only [Op.classStyle] at this
    simp [acceptedOf, this, acceptedInst] at hin
  | setPlugin _ _ => simp [acceptedOf] at hin
  | get _ => simp [acceptedOf] at hin
  | registered _ => simp [acceptedOf] at hin

/-- **In a class-style registry (the megacomplex registry) the clause holds without any
    hypothesis**: the full key is the full name, so nothing can collide; after every history every
    registered class is retrievable under its full name. -/
theorem every_class_plugin_reachable (r : Registry) (ops : List Op) (hc : ∀ op ∈ ops, op.classStyle) :
    ∀ pi ∈ accepted ops, holdsName (run r ops) pi.1.fullName pi.1.fullName := by
  have hid := accepted_classStyle ops hc
  have hfk : ∀ pi ∈ accepted ops, fullKey pi.1 pi.2 = pi.1.fullName := by
    intro pi hpi; simp [fullKey, hid pi hpi]
  intro pi hpi
  have := (every_plugin_reachable_iff_static r ops
    (fun a ha b _ e => by rw [e, hfk a ha])).mpr
    (fun a ha b hb e => by rw [← hfk a ha, e, hfk b hb]) pi hpi
  rwa [hfk pi hpi] at this

/-- the second shape of the finding: class `m.A_b` registered twice for format `x` is stored under
    its plain full name `m.A_b`, which is the full key of class `m.A` registered for format `b`
    (no two *full keys* coincide here; `hsec` of the static form is what fails) -/
theorem every_plugin_reachable_counterexample_plain_name :
    let ops := [Op.addInst ["b"] "m" "A" 0, .addInst ["x"] "m" "A_b" 1, .addInst ["x"] "m" "A_b" 2]
    Collide [] ops ∧ ¬ holdsName (run [] ops) (fullKey ⟨"m", "A", 0⟩ "b") "m.A" ∧
    (∀ pi ∈ accepted ops, ∀ pi' ∈ accepted ops,
      fullKey pi.1 pi.2 = fullKey pi'.1 pi'.2 → pi.1.fullName = pi'.1.fullName) := by
  refine ⟨⟨("m.A_b", ⟨"m", "A", 0⟩), by decide, ("m.A_b", ⟨"m", "A_b", 2⟩), by decide, rfl, by decide⟩, ?_, by decide⟩
  intro ⟨p', h, hF⟩
  have : lookup (run [] [Op.addInst ["b"] "m" "A" 0, .addInst ["x"] "m" "A_b" 1, .addInst ["x"] "m" "A_b" 2])
      (fullKey ⟨"m", "A", 0⟩ "b") = some ⟨"m", "A_b", 2⟩ := by decide
  rw [this] at h
  cases h
  revert hF
  decide

/-! ### the three registries are instances of the one model (regenerated table `Generated.accessors`)

`specApi` is the statement's side: which public function works on which dict of
`__PluginRegistry` and which operation of the model it is.  The theorems say that the rows
regenerated from the source (`Generated.accessors`, interpreted by `callApi`) do exactly that; they
are re-checked against the current source text on every run. -/

def specApi : List ApiSpec := [
  ⟨"register_megacomplex", "megacomplex", .add⟩,
  ⟨"is_known_megacomplex", "megacomplex", .isKnown⟩,
  ⟨"get_megacomplex", "megacomplex", .get⟩,
  ⟨"known_megacomplex_names", "megacomplex", .known⟩,
  ⟨"set_megacomplex_plugin", "megacomplex", .set⟩,
  ⟨"register_data_io", "data_io", .addInst⟩,
  ⟨"is_known_data_format", "data_io", .isKnown⟩,
  ⟨"get_data_io", "data_io", .get⟩,
  ⟨"known_data_formats", "data_io", .known⟩,
  ⟨"set_data_plugin", "data_io", .set⟩,
  ⟨"register_project_io", "project_io", .addInst⟩,
  ⟨"is_known_project_format", "project_io", .isKnown⟩,
  ⟨"get_project_io", "project_io", .get⟩,
  ⟨"known_project_formats", "project_io", .known⟩,
  ⟨"set_project_plugin", "project_io", .set⟩]

/-- every function the statement names exists in the source with the demanded shape -/
def apiTableOk : Bool :=
  specApi.all (fun s => match findAccessor Generated.accessors s.name with
    | some a => accessorOk Generated.accessors a s false || accessorOk Generated.accessors a s true
    | none => false)

/-- and the source has no other function that touches `__PluginRegistry` (in particular no other
    writer: "registries are only modified through the functions of base_registry.py") -/
def apiTableClosed : Bool :=
  Generated.accessors.all (fun a => specApi.any (fun s => s.name = a.name))

private theorem apiTable_checked : apiTableOk = true ∧ apiTableClosed = true := by decide

private theorem spec_row (s : ApiSpec) (hs : s ∈ specApi) :
    ∃ a mf, findAccessor Generated.accessors s.name = some a ∧ accessorOk Generated.accessors a s mf = true := by
  have h := apiTable_checked.1
  unfold apiTableOk at h
  rw [List.all_eq_true] at h
  have := h s hs
  cases hf : findAccessor Generated.accessors s.name with
  | none => simp [hf] at this
  | some a =>
    simp only [hf, Bool.or_eq_true] at this
    rcases this with h' | h'
    · exact ⟨a, false, rfl, h'⟩
    · exact ⟨a, true, rfl, h'⟩

private theorem spec_attr (s : ApiSpec) (hs : s ∈ specApi) (rs : Registries) : ∃ r, rs.get s.attr = some r := by
  have : s.attr = "megacomplex" ∨ s.attr = "data_io" ∨ s.attr = "project_io" := by
    revert s; decide
  rcases this with h | h | h <;> simp [Registries.get, h]

/-- **`known_*`** (`known_megacomplex_names`, `known_data_formats`, `known_project_formats`): the
    sorted keys of *their* registry — all of them with `full_names=True`, the undotted ones
    otherwise and by default; exactly the registered keys (`registered_names_complete`). -/
theorem known_names_instances (s : ApiSpec) (hs : s ∈ specApi) (hop : s.op = .known)
    (rs : Registries) (r : Registry) (hr : rs.get s.attr = some r) :
    (∀ full, callApi Generated.accessors s.name rs [.bool full] = (rs, .base (.names (sortedKeys r full)))) ∧
    callApi Generated.accessors s.name rs [] = (rs, .base (.names (sortedKeys r false))) ∧
    (∀ k, k ∈ sortedKeys r true ↔ ∃ p, lookup r k = some p) ∧
    (∀ k, k ∈ sortedKeys r false ↔ (hasDot k = false ∧ ∃ p, lookup r k = some p)) := by
  obtain ⟨a, mf, hf, hok⟩ := spec_row s hs
  have h := callAccessor_known Generated.accessors a s rs r hop mf hok hr
  refine ⟨?_, ?_, fun k => (registered_names_complete r k).1, fun k => (registered_names_complete r k).2⟩
  · intro full; simp only [callApi, hf]; exact h.1 full
  · simp only [callApi, hf]; exact h.2

/-- **`is_known_*`**: membership in *their* registry, i.e. in the list `known_*(full_names=True)`
    returns; the call changes nothing. -/
theorem is_known_instances (s : ApiSpec) (hs : s ∈ specApi) (hop : s.op = .isKnown)
    (rs : Registries) (r : Registry) (hr : rs.get s.attr = some r) (k : String) :
    callApi Generated.accessors s.name rs [.str k] = (rs, .bool (lookup r k).isSome) ∧
    ((lookup r k).isSome = true ↔ k ∈ sortedKeys r true) := by
  obtain ⟨a, mf, hf, hok⟩ := spec_row s hs
  refine ⟨?_, ?_⟩
  · simp only [callApi, hf]; exact callAccessor_isKnown Generated.accessors a s rs r k hop mf hok hr
  · rw [(registered_names_complete r k).1, Option.isSome_iff_exists]

/-- **`get_*`**: the plugin their registry resolves, or a ValueError whose message lists the known
    names: all undotted ones at least (`full = false`: exactly those — the io getters today;
    `full = true`: the dotted keys as well — `get_megacomplex` today). -/
theorem get_instances (s : ApiSpec) (hs : s ∈ specApi) (hop : s.op = .get) :
    ∃ full, ∀ (rs : Registries) (r : Registry), rs.get s.attr = some r → ∀ k,
      callApi Generated.accessors s.name rs [.str k] =
        (rs, match lookup r k with
             | some p => .base (.found p)
             | none => .unknown k (sortedKeys r full)) ∧
      (∀ k', hasDot k' = false → (∃ p, lookup r k' = some p) → k' ∈ sortedKeys r full) := by
  obtain ⟨a, mf, hf, hok⟩ := spec_row s hs
  have hg : getterOk Generated.accessors a s.attr mf = true := by
    unfold accessorOk at hok
    simp only [hop, Bool.and_eq_true] at hok
    exact hok.2
  refine ⟨mf, fun rs r hr k => ⟨?_, ?_⟩⟩
  · simp only [callApi, hf]
    exact callAccessor_getter Generated.accessors a s.attr mf rs r k hg hr
  · intro k' hd hp
    cases mf with
    | false => exact (registered_names_complete r k').2.mpr ⟨hd, hp⟩
    | true => exact (registered_names_complete r k').1.mpr hp

/-- **`register_*` / `set_*_plugin`** are `step` of the model on their own registry:
    `register_megacomplex(name, cls)` is `add name cls ""` (class-style, no instance identifier),
    `register_data_io(names)(cls)` / `register_project_io(names)(cls)` are `addInst names cls`
    (a single string counts as a one-element list), `set_*_plugin(name, full)` is `setPlugin`. -/
theorem register_set_instances (s : ApiSpec) (hs : s ∈ specApi)
    (rs : Registries) (r : Registry) (hr : rs.get s.attr = some r) :
    (s.op = .add → ∀ k m n u, callApi Generated.accessors s.name rs [.str k, .cls m n u] =
      (rs.set s.attr (step r (.add k ⟨m, n, u⟩ "")).1, .base (step r (.add k ⟨m, n, u⟩ "")).2)) ∧
    (s.op = .addInst → ∀ kv keys m n u, keysOfVal kv = some keys →
      callApi Generated.accessors s.name rs [kv, .cls m n u] =
      (rs.set s.attr (step r (.addInst keys m n u)).1, .base (step r (.addInst keys m n u)).2)) ∧
    (s.op = .set → ∀ k full, callApi Generated.accessors s.name rs [.str k, .str full] =
      (rs.set s.attr (step r (.setPlugin k full)).1, .base (step r (.setPlugin k full)).2)) := by
  obtain ⟨a, mf, hf, hok⟩ := spec_row s hs
  refine ⟨?_, ?_, ?_⟩
  · intro hop k m n u
    simp only [callApi, hf]; exact callAccessor_add Generated.accessors a s rs r k m n u hop mf hok hr
  · intro hop kv keys m n u hkv
    simp only [callApi, hf]; exact callAccessor_addInst Generated.accessors a s rs r kv keys m n u hkv hop mf hok hr
  · intro hop k full
    simp only [callApi, hf]; exact callAccessor_set Generated.accessors a s rs r k full hop mf hok hr

/-- a call of a public registry function with arguments of the documented kinds -/
inductive ApiCall where
  | register (name : String) (key : String) (m n : String) (u : Nat)               -- class-style
  | registerInst (name : String) (keys : List String) (m n : String) (u : Nat)     -- instantiating decorator
  | set (name : String) (key full : String)
  | get (name : String) (key : String)
  | isKnown (name : String) (key : String)
  | known (name : String) (full : Bool)

def ApiCall.name : ApiCall → String
  | .register n .. | .registerInst n .. | .set n .. | .get n .. | .isKnown n .. | .known n .. => n

def ApiCall.args : ApiCall → List Val
  | .register _ k m n u => [.str k, .cls m n u]
  | .registerInst _ keys m n u => [.strs keys, .cls m n u]
  | .set _ k f => [.str k, .str f]
  | .get _ k => [.str k]
  | .isKnown _ k => [.str k]
  | .known _ b => [.bool b]

def ApiCall.kind : ApiCall → BaseOp
  | .register .. => .add
  | .registerInst .. => .addInst
  | .set .. => .set
  | .get .. => .get
  | .isKnown .. => .isKnown
  | .known .. => .known

/-- the operation of the model a mutating call stands for -/
def ApiCall.op? : ApiCall → Option Op
  | .register _ k m n u => some (.add k ⟨m, n, u⟩ "")
  | .registerInst _ keys m n u => some (.addInst keys m n u)
  | .set _ k f => some (.setPlugin k f)
  | _ => none

def specOf (name : String) : Option ApiSpec := specApi.find? (fun s => s.name = name)

/-- the function exists and is called with the kind of arguments it documents -/
def ApiCall.WellTyped (c : ApiCall) : Prop := ∃ s, specOf c.name = some s ∧ s.op = c.kind

/-- the model operation a call performs on registry `attr` (none: it belongs to another registry or
    only reads) -/
def ApiCall.opOn (attr : String) (c : ApiCall) : Option Op :=
  match specOf c.name with
  | some s => if s.attr = attr then c.op? else none
  | none => none

def runApi (accs : List Accessor) (rs : Registries) (cs : List ApiCall) : Registries :=
  cs.foldl (fun s c => (callApi accs c.name s c.args).1) rs

private theorem call_effect (rs : Registries) (c : ApiCall) (s : ApiSpec) (r : Registry)
    (hs : specOf c.name = some s) (hk : s.op = c.kind) (hr : rs.get s.attr = some r) :
    (callApi Generated.accessors c.name rs c.args).1 =
      match c.op? with
      | some op => rs.set s.attr (step r op).1
      | none => rs := by
  have hmem : s ∈ specApi := List.mem_of_find?_eq_some hs
  have hname : s.name = c.name := by simpa using List.find?_some hs
  rw [← hname]
  cases c with
  | register nm k m n u =>
    rw [ApiCall.args, (register_set_instances s hmem rs r hr).1 hk]; rfl
  | registerInst nm keys m n u =>
    rw [ApiCall.args, (register_set_instances s hmem rs r hr).2.1 hk (.strs keys) keys m n u rfl]; rfl
  | set nm k f =>
    rw [ApiCall.args, (register_set_instances s hmem rs r hr).2.2 hk]; rfl
  | get nm k =>
    obtain ⟨full, hget⟩ := get_instances s hmem hk
    rw [ApiCall.args, (hget rs r hr k).1]; rfl
  | isKnown nm k => rw [ApiCall.args, (is_known_instances s hmem hk rs r hr k).1]; rfl
  | known nm b => rw [ApiCall.args, (known_names_instances s hmem hk rs r hr).1]; rfl

private theorem call_projects (rs : Registries) (c : ApiCall) (hc : c.WellTyped) (attr : String)
    (r : Registry) (hr : rs.get attr = some r) :
    (callApi Generated.accessors c.name rs c.args).1.get attr =
      some (match c.opOn attr with
            | some op => (step r op).1
            | none => r) := by
  obtain ⟨s, hs, hk⟩ := hc
  have hmem : s ∈ specApi := List.mem_of_find?_eq_some hs
  obtain ⟨r0, hr0⟩ := spec_attr s hmem rs
  rw [call_effect rs c s r0 hs hk hr0]
  unfold ApiCall.opOn
  simp only [hs]
  by_cases hat : s.attr = attr
  · subst hat
    rw [hr0] at hr; cases hr
    simp only [if_true]
    cases c.op? with
    | none => simpa using hr0
    | some op => simpa using Registries.get_set_same rs s.attr r _ hr0
  · simp only [hat, if_false]
    cases c.op? with
    | none => simpa using hr
    | some op =>
      simp only
      rw [Registries.get_set_other rs s.attr attr _ (fun e => hat e.symm)]; exact hr

/-- **Every history of public API calls is, on each of the three registries, a history of the one
    model**: the megacomplex / data-io / project-io dict after the calls is `run` of the projected
    operation list on what it was before, and calls on one registry never touch another.  Hence
    every theorem above (`first_registration_wins`, `conflict_warns_and_keeps`,
    `set_plugin_repoints`, `every_plugin_reachable_iff`, …) holds for each registry's own API. -/
theorem api_history_projects (cs : List ApiCall) (hcs : ∀ c ∈ cs, c.WellTyped) (attr : String) :
    ∀ (rs : Registries) (r : Registry), rs.get attr = some r →
      (runApi Generated.accessors rs cs).get attr = some (run r (cs.filterMap (ApiCall.opOn attr))) := by
  induction cs with
  | nil => intro rs r hr; simpa [runApi, run] using hr
  | cons c cs ih =>
    intro rs r hr
    have h1 := call_projects rs c (hcs c (by simp)) attr r hr
    have := ih (fun c' hc' => hcs c' (by simp [hc'])) _ _ h1
    simp only [runApi, List.foldl_cons] at this ⊢
    rw [this]
    cases hop : c.opOn attr with
    | none => simp [hop]
    | some op => simp [hop, run_cons]

/-- the lifted form of `first_registration_wins` for the instantiating registries: after
    `register_data_io(k)(cls)` / `register_project_io(k)(cls)` on a free name `k`, any later history
    of public calls (on any registry) without `set_*_plugin(k, …)` of that registry leaves
    `get_data_io(k)` / `get_project_io(k)` resolving to that first instance. -/
theorem first_registration_wins_public (sreg sget : ApiSpec) (hreg : sreg ∈ specApi) (hget : sget ∈ specApi)
    (hro : sreg.op = .addInst) (hgo : sget.op = .get) (hattr : sget.attr = sreg.attr)
    (rs : Registries) (r : Registry) (hr : rs.get sreg.attr = some r)
    (k m n : String) (u : Nat) (hk : hasDot k = false) (hfree : lookup r k = none)
    (cs : List ApiCall) (hcs : ∀ c ∈ cs, c.WellTyped)
    (hnoset : ∀ c ∈ cs, ∀ op, c.opOn sreg.attr = some op → op.notSetOn k) :
    (callApi Generated.accessors sget.name
      (runApi Generated.accessors (callApi Generated.accessors sreg.name rs [.str k, .cls m n u]).1 cs)
      [.str k]).2 = .base (.found ⟨m, n, u⟩) := by
  have h1 := (register_set_instances sreg hreg rs r hr).2.1 hro (.str k) [k] m n u rfl
  have hr1 : (callApi Generated.accessors sreg.name rs [.str k, .cls m n u]).1.get sreg.attr
      = some (step r (.addInst [k] m n u)).1 := by
    rw [h1]; exact Registries.get_set_same rs sreg.attr r _ hr
  have h2 := api_history_projects cs hcs sreg.attr _ _ hr1
  have hl : lookup (step r (.addInst [k] m n u)).1 k = some ⟨m, n, u⟩ := by
    simp [step, addInstLoop, addOne, hk, hfree, lookup_insert]
  have hkeep := run_keeps_short (cs.filterMap (ApiCall.opOn sreg.attr)) _ k ⟨m, n, u⟩ hk hl (by
    intro op hop
    obtain ⟨c, hc, hco⟩ := List.mem_filterMap.mp hop
    exact hnoset c hc op hco)
  have h2' : (runApi Generated.accessors (callApi Generated.accessors sreg.name rs [.str k, .cls m n u]).1 cs).get
      sget.attr = some (run (step r (.addInst [k] m n u)).1 (cs.filterMap (ApiCall.opOn sreg.attr))) := by
    rw [hattr]; exact h2
  obtain ⟨full, hgi⟩ := get_instances sget hget hgo
  rw [(hgi _ _ h2' k).1, hkeep]

/-- the two generators of supported file extensions and the registry they must look at -/
def specExt : List (String × String) :=
  [("supported_file_extensions_data_io", "data_io"), ("supported_file_extensions_project_io", "project_io")]

def extTableOk : Bool :=
  specExt.all (fun s => Generated.extFns.any (fun e => decide (e.name = s.1))) &&
  Generated.extFns.all (fun e => specExt.any (fun s => decide (e.name = s.1) &&
    (extOk Generated.accessors e s.2 false || extOk Generated.accessors e s.2 true)))

private theorem extTable_checked : extTableOk = true := by decide

/-- **`supported_file_extensions_data_io` / `_project_io`** (regenerated table `Generated.extFns`):
    the generator yields `"." ++ k` exactly for the short names `k` of *its own* registry that do not
    end in `_str` and whose resolved plugin overrides every requested method (`implements`), in
    sorted order of the names. -/
theorem supported_file_extensions_instances :
    (∀ s ∈ specExt, ∃ e ∈ Generated.extFns, e.name = s.1) ∧
    ∀ e ∈ Generated.extFns, ∃ s ∈ specExt, s.1 = e.name ∧
      ∀ (rs : Registries) (r : Registry), rs.get s.2 = some r →
      ∀ (implements : Plugin → String → Bool) (methods : List String),
        callExtFn Generated.accessors e rs implements methods
          = some (supportedExtensions (sortedKeys r false) (lookup r) implements methods) ∧
        ∀ ext, ext ∈ supportedExtensions (sortedKeys r false) (lookup r) implements methods ↔
          ∃ k p, ext = "." ++ k ∧ hasDot k = false ∧ lookup r k = some p ∧ endsWithStr k = false ∧
            ∀ m ∈ methods, implements p m = true := by
  have h := extTable_checked
  unfold extTableOk at h
  simp only [Bool.and_eq_true, List.all_eq_true, List.any_eq_true, decide_eq_true_eq, Bool.or_eq_true] at h
  obtain ⟨hex, hall⟩ := h
  refine ⟨fun s hs => hex s hs, ?_⟩
  intro e he
  obtain ⟨s, hs, hname, hok⟩ := hall e he
  refine ⟨s, hs, hname.symm, ?_⟩
  intro rs r hr implements methods
  constructor
  · rcases hok with h' | h'
    · exact callExtFn_of_ok _ e s.2 false rs r implements methods h' hr
    · exact callExtFn_of_ok _ e s.2 true rs r implements methods h' hr
  · intro ext
    unfold supportedExtensions
    rw [List.mem_filterMap]
    constructor
    · rintro ⟨k, hk, hf⟩
      have hreg := (registered_names_complete r k).2.mp hk
      cases hl : lookup r k with
      | none => simp [hl] at hf
      | some p =>
        simp only [hl] at hf
        split at hf
        · rename_i hc
          simp only [Bool.and_eq_true, Bool.not_eq_true', List.all_eq_true] at hc
          cases hf
          exact ⟨k, p, rfl, hreg.1, hl, hc.1, hc.2⟩
        · cases hf
    · rintro ⟨k, p, he, hd, hl, hs, hm⟩
      refine ⟨k, (registered_names_complete r k).2.mpr ⟨hd, p, hl⟩, ?_⟩
      have : (!endsWithStr k && methods.all (implements p)) = true := by
        simp only [Bool.and_eq_true, Bool.not_eq_true', List.all_eq_true]
        exact ⟨hs, hm⟩
      simp [hl, this, he]

/-! ### dispatch of the load/save convenience functions (regenerated table `Generated.convFns`) -/

/-- the statement's side: the ten convenience functions, whose registry they consult, which
    positional argument is the path (`format_name` follows it) and how the format is inferred:
    `load_*` need an existing file, `save_*` do not, the two result functions accept a folder -/
def specConv : List ConvSpec := [
  ⟨"load_dataset", "data_io", 0, true, false⟩,
  ⟨"save_dataset", "data_io", 1, false, false⟩,
  ⟨"load_model", "project_io", 0, true, false⟩,
  ⟨"save_model", "project_io", 1, false, false⟩,
  ⟨"load_parameters", "project_io", 0, true, false⟩,
  ⟨"save_parameters", "project_io", 1, false, false⟩,
  ⟨"load_scheme", "project_io", 0, true, false⟩,
  ⟨"save_scheme", "project_io", 1, false, false⟩,
  ⟨"load_result", "project_io", 0, true, true⟩,
  ⟨"save_result", "project_io", 1, false, true⟩]

/-- every `load_*` / `save_*` function found in the source is one of the ten and has the demanded
    shape: one registry access, `get_*_io(format_name or infer_file_format(<path>, flags…))` with
    the flags of `specConv` (signature defaults of `infer_file_format` included), the object bound
    to a variable that is used for exactly one call of the method of the same name -/
def convTableOk : Bool :=
  decide (Generated.inferDefaults? = some (true, false)) &&
  Generated.convFns.all (fun f => specConv.any (fun s =>
    convOk Generated.accessors Generated.inferDefaults f s false || convOk Generated.accessors Generated.inferDefaults f s true)) &&
  specConv.all (fun s => Generated.convFns.any (fun f => decide (f.name = s.name)))

private theorem convTable_checked : convTableOk = true := by decide

/-- **Dispatch.**  For every convenience function `f` of the regenerated table, every state of
    the three registries (in particular the one after any history of registrations and
    `set_*_plugin` calls, `api_history_projects`), every path, file-system answer and
    `format_name` (absent, empty or given): the call resolves the given — else the inferred —
    format in `f`'s own registry and invokes exactly the method `f.name` of that plugin; an
    inference failure or an unknown format is a ValueError (naming the known formats: `full`
    is what `get_instances` says about the getter's message) and no plugin is touched.  All ten functions of the statement are in the table. -/
theorem dispatch_uses_resolution :
    (∀ s ∈ specConv, ∃ f ∈ Generated.convFns, f.name = s.name) ∧
    ∀ f ∈ Generated.convFns, ∃ s ∈ specConv, ∃ full, s.name = f.name ∧
      ∀ (rs : Registries) (r : Registry), rs.get s.attr = some r →
      ∀ (args : List Val) (isFile : String → Bool) (given : Option String) (path : String),
        args[s.pathIdx]? = some (.str path) → args[s.pathIdx + 1]? = some (optVal given) →
        dispatch Generated.accessors Generated.inferDefaults f rs args isFile
          = specDispatch s full r given path (isFile path) := by
  have h := convTable_checked
  unfold convTableOk at h
  simp only [Bool.and_eq_true, List.all_eq_true, List.any_eq_true, decide_eq_true_eq, Bool.or_eq_true] at h
  obtain ⟨⟨_, hall⟩, hex⟩ := h
  refine ⟨hex, ?_⟩
  intro f hf
  obtain ⟨s, hs, hok⟩ := hall f hf
  have key : ∀ full, convOk Generated.accessors Generated.inferDefaults f s full = true →
      ∃ s ∈ specConv, ∃ full, s.name = f.name ∧
      ∀ (rs : Registries) (r : Registry), rs.get s.attr = some r →
      ∀ (args : List Val) (isFile : String → Bool) (given : Option String) (path : String),
        args[s.pathIdx]? = some (.str path) → args[s.pathIdx + 1]? = some (optVal given) →
        dispatch Generated.accessors Generated.inferDefaults f rs args isFile
          = specDispatch s full r given path (isFile path) := by
    intro full hok
    have hname : f.name = s.name := by
      unfold convOk at hok
      simp only [Bool.and_eq_true, decide_eq_true_eq] at hok
      exact hok.1.1.1.1
    refine ⟨s, hs, full, hname.symm, ?_⟩
    intro rs r hr args isFile given path hp hg
    exact dispatch_of_convOk _ _ f s rs r args isFile given path full hok hr hp hg
  rcases hok with h' | h'
  · exact key false h'
  · exact key true h'

/-- what the resolved format is, in the statement's words: a non-empty `format_name` wins and the
    file is not even looked at; otherwise the extension decides, `yml` reads as `yaml`; a path
    without extension is `yaml` for the result functions and an error elsewhere; a missing file is
    an error only for the `load_*` functions that do not accept folders -/
theorem infer_file_format_spec (path : String) (isFile nte af : Bool) :
    (isFile = false → nte = true → af = false → inferFileFormat path isFile nte af = .error .noFile) ∧
    ((isFile = true ∨ nte = false ∨ af = true) →
      inferFileFormat path isFile nte af =
        match extOf path with
        | some e => .ok (if e = "yml" then "yaml" else e)
        | none => if af then .ok "yaml" else .error .noExtension) := by
  constructor
  · intro h1 h2 h3; simp [inferFileFormat, h1, h2, h3]
  · intro h
    have : (!isFile && nte && !af) = false := by
      rcases h with h | h | h <;> simp [h]
    simp only [inferFileFormat, this, Bool.false_eq_true, if_false]
    cases extOf path <;> rfl

/-- `os.path.splitext` on a path that ends in `<stem>.<ext>`: `ext` (without dots and slashes) is
    the extension provided the last component has a character other than `.` before that dot -/
theorem extOf_spec (dir stem ext : List Char) (hstem : ∀ c ∈ stem, c ≠ '/') (hnd : ∃ c ∈ stem, c ≠ '.')
    (hext : ∀ c ∈ ext, c ≠ '.' ∧ c ≠ '/') (hdir : dir = [] ∨ dir.getLast? = some '/') :
    extOf (String.ofList (dir ++ stem ++ '.' :: ext)) = some (String.ofList ext) := by
  unfold extOf
  simp only [String.toList_ofList, List.reverse_append, List.reverse_cons, List.append_assoc]
  have hbase : ((ext.reverse ++ ['.']) ++ (stem.reverse ++ dir.reverse)).takeWhile (· ≠ '/')
      = ext.reverse ++ '.' :: stem.reverse := by
    have : (ext.reverse ++ ['.']) ++ (stem.reverse ++ dir.reverse)
        = (ext.reverse ++ '.' :: stem.reverse) ++ dir.reverse := by simp
    rw [this]
    apply takeWhile_prefix
    · intro a ha
      simp only [List.mem_append, List.mem_reverse, List.mem_cons] at ha
      rcases ha with h | h | h
      · simpa using (hext a h).2
      · subst h; decide
      · simpa using hstem a h
    · rcases hdir with e | e
      · left; simp [e]
      · right
        cases hd : dir.reverse with
        | nil => simp at hd; subst hd; simp at e
        | cons b t =>
          refine ⟨b, t, rfl, ?_⟩
          have : dir.getLast? = some b := by
            rw [← List.head?_reverse, hd]; rfl
          rw [this] at e; cases e; decide
  simp only [List.append_assoc, List.cons_append, List.nil_append] at hbase ⊢
  rw [hbase]
  have h1 : (ext.reverse ++ '.' :: stem.reverse).takeWhile (· ≠ '.') = ext.reverse := by
    apply takeWhile_prefix
    · intro a ha; simpa using (hext a (by simpa using ha)).1
    · right; exact ⟨'.', stem.reverse, rfl, by decide⟩
  have h2 : (ext.reverse ++ '.' :: stem.reverse).dropWhile (· ≠ '.') = '.' :: stem.reverse := by
    rw [List.dropWhile_append_of_pos (by intro a ha; simpa using (hext a (by simpa using ha)).1)]
    simp
  rw [h1, h2]
  obtain ⟨c, hc, hcd⟩ := hnd
  simp
  exact ⟨c, hc, hcd⟩

/-! ### the source itself, translated (`Generated/C19Fns.lean`), equals the model

`harness/props/_c19_fns.py` rewrites the functions of `base_registry.py` that work on the registry dict
(and `infer_file_format`) statement by statement into `do` blocks over the state/exception monad of
`C19Py.lean` (dict + warnings + object counter).  Each theorem says: for every interpreter world, every
state and every argument the translated function does what the model operation of the theorems above
does — same dict, same warnings, same result, `ValueError` exactly where the model reports one
(`Res.outcome` forgets the wording of a message, keeps the exception class and the lists of names it
prints).  An edit of the source changes the generated definition; if it changes the behaviour one of
these stops compiling. -/

open Py in
/-- `full_plugin_name` is `module.ClassName` for a class and for an instance. -/
theorem generated_full_plugin_name_eq_model (w : World) (p : Plugin) (s : St) :
    Gen.full_plugin_name w p s = .ok p.fullName s := gen_full_plugin_name_eq w p s

open Py in
/-- `is_registered_plugin` is membership in the dict, nothing else. -/
theorem generated_is_registered_plugin_eq_model (w : World) (k : String) (s : St) :
    Gen.is_registered_plugin w k s = .ok (lookup s.reg k).isSome s := gen_is_registered_eq w k s

open Py in
/-- `add_plugin_to_registry` is `addOne`: refused (`ValueError`, nothing changed) exactly when `addOne`
    refuses, otherwise the dict `addOne` gives and the overwrite warning (old and new plugin, the name the
    conflict is about) exactly when `addOne` flags one. -/
theorem generated_add_plugin_eq_model (w : World) (key : String) (p : Plugin) (fn id : String) (s : St) :
    (Gen.add_plugin_to_registry w key p fn id s).outcome =
      match addOne s.reg key p id with
      | none => .err "ValueError" [] s
      | some (r', warned) => .ok () { s with reg := r', warns := s.warns ++ addWarnings s.reg key p fn warned } :=
  gen_add_plugin_eq w key p fn id s

open Py in
/-- `add_instantiated_plugin_to_registry` (a list of names or one name) is the model's `addInstLoop`: one new
    object per name (named by the counter, in order, created before the name is examined), registered with
    the name as instance identifier; the loop stops at the first refused name with what was registered before
    it kept.  `addInstSt` is that loop on the whole state; its dict and `Out` are `addInstLoop`'s. -/
theorem generated_add_instantiated_eq_model (w : World) (m n fn : String) (keys : List String) (s : St) :
    ((Gen.add_instantiated_plugin_to_registry w (.list keys) ⟨m, n⟩ fn s).outcome =
      match addInstSt m n fn keys s [] with
      | (s', .oks _) => .ok () s'
      | (s', _) => .err "ValueError" [] s') ∧
    ((addInstSt m n fn keys s []).1.reg, (addInstSt m n fn keys s []).2) = addInstLoop s.reg m n keys s.nextUid [] ∧
    ∀ k, Gen.add_instantiated_plugin_to_registry w (.str k) ⟨m, n⟩ fn =
      Gen.add_instantiated_plugin_to_registry w (.list [k]) ⟨m, n⟩ fn :=
  ⟨gen_inst_eq w m n fn keys s [], addInstSt_eq_loop m n fn keys s [], fun k => gen_inst_str w k ⟨m, n⟩ fn⟩

open Py in
/-- `set_plugin` is `step (.setPlugin …)`: the same dict, and the `ValueError` for an unknown full name prints
    exactly the dotted keys in the dict's own order. -/
theorem generated_set_plugin_eq_model (w : World) (key full kn : String) (s : St) :
    (Gen.set_plugin w key full kn s).outcome =
      match step s.reg (.setPlugin key full) with
      | (r', .done) => .ok () { s with reg := r' }
      | (_, .errUnknownFull known) => .err "ValueError" [known] s
      | _ => .err "ValueError" [] s := gen_set_plugin_eq w key full kn s

open Py in
/-- `get_plugin_from_registry` is `step (.get …)`: the plugin stored under exactly that key, or `ValueError`. -/
theorem generated_get_plugin_eq_model (w : World) (k msg : String) (s : St) :
    (Gen.get_plugin_from_registry w k msg s).outcome =
      match (step s.reg (.get k)).2 with
      | .found p => .ok p s
      | _ => .err "ValueError" [] s := gen_get_plugin_eq w k msg s

open Py in
/-- `registered_plugins` is `sortedKeys`: all keys, or the undotted ones, sorted. -/
theorem generated_registered_plugins_eq_model (w : World) (full : Bool) (s : St) :
    Gen.registered_plugins w full s = .ok (sortedKeys s.reg full) s := gen_registered_plugins_eq w full s

open Py in
/-- `infer_file_format` is the model's `inferFileFormat` (with `os.path.isfile` taken from the world): same
    format, `ValueError` in the same cases, no effect on the registry. -/
theorem generated_infer_file_format_eq_model (w : World) (path : String) (nte af : Bool) (s : St) :
    (Gen.infer_file_format w path nte af s).outcome =
      match inferFileFormat path (w.isFile path) nte af with
      | .ok fmt => .ok fmt s
      | .error _ => .err "ValueError" [] s := gen_infer_file_format_eq w path nte af s

/-! ### import-time registration: the regenerated decorator call sites and `load_plugins()`

`Generated/C19Builtins.lean` lists every class under `glotaran/builtin/` that a registering decorator is applied
to, with the literal names it registers, and the `glotaran.plugins.*` entry points of `setup.cfg`.  The model of
`load_plugins()` (`loadedCalls` / `loadPlugins`, GlotaranModel/C19.lean) is the code's: entry points in importlib's
order, foreign groups skipped, no `try` around `entry_point.load()`. -/
/-- the short names the builtin call sites register in registry `attr`, in table order -/
def builtinNames (bs : List BuiltinReg) (attr : String) : List String :=
  (bs.filter (fun b => b.attr = attr)).flatMap (·.names)

/-- every call site of the table has literal names, names one of the three registries, registers at least one name,
    no name contains '.', and inside each registry no name is registered twice -/
def builtinTableOk (bs : List BuiltinReg) : Bool :=
  bs.all (fun b => b.literal && !b.names.isEmpty && (b.attr = "data_io" || b.attr = "project_io" || b.attr = "megacomplex")
    && b.names.all (fun n => !hasDot n) && (b.attr != "megacomplex" || b.names.length = 1)) &&
  ["data_io", "project_io", "megacomplex"].all (fun a => (builtinNames bs a).Nodup)

theorem builtin_names_unique : builtinTableOk Generated.builtins = true := by decide

/-- the registration call a builtin call site makes when its module is imported (`u`: identity of the class / of its
    first instance) -/
def BuiltinReg.call (b : BuiltinReg) (u : Nat) : ApiCall :=
  if b.attr = "megacomplex" then .register "register_megacomplex" (b.names.headD "") b.module b.cls u
  else if b.attr = "data_io" then .registerInst "register_data_io" b.names b.module b.cls u
  else .registerInst "register_project_io" b.names b.module b.cls u

def builtinCalls : List BuiltinReg → Nat → List ApiCall
  | [], _ => []
  | b :: bs, u => b.call u :: builtinCalls bs (u + b.names.length)

/-- what a builtin short name must resolve to -/
def resolvesTo (rs : Registries) (attr k full : String) : Bool :=
  match (rs.get attr).bind (fun r => lookup r k) with
  | some p => p.fullName = full
  | none => false

theorem builtins_register_cleanly :
    let rs := runApi Generated.accessors {} (builtinCalls Generated.builtins 0)
    Generated.builtins.all (fun b => b.names.all (fun k => resolvesTo rs b.attr k (b.module ++ "." ++ b.cls))) = true := by
  decide +kernel

def EntryPoint.raw (e : EntryPoint ApiCall) : EntryPoint (String × List Val) :=
  { group := e.group, calls := e.calls.map (fun c => (c.name, c.args)), fails := e.fails }

private theorem loadedCalls_raw (eps : List (EntryPoint ApiCall)) :
    loadedCalls (eps.map EntryPoint.raw) = ((loadedCalls eps).1.map (fun c => (c.name, c.args)), (loadedCalls eps).2) := by
  induction eps with
  | nil => rfl
  | cons e es ih =>
    simp only [List.map_cons, loadedCalls, EntryPoint.raw]
    by_cases hg : isPluginGroup e.group <;> by_cases hf : e.fails <;> simp [hg, hf, ih]

/-- **Order of import-time registration.**  `load_plugins()` performs the registration calls of the entry points of the
    `glotaran.plugins*` groups in the order importlib yields them, skipping every other group; an entry point whose
    import raises is the last one loaded (its own calls made before the exception count), nothing after it is loaded. -/
theorem load_plugins_order (pre post : List (EntryPoint α)) (e : EntryPoint α)
    (hpre : ∀ x ∈ pre, isPluginGroup x.group = true → x.fails = false) :
    ((isPluginGroup e.group = true ∧ e.fails = true) →
      loadedCalls (pre ++ e :: post) = ((pre.filter (fun x => isPluginGroup x.group)).flatMap (·.calls) ++ e.calls, true)) ∧
    ((∀ x ∈ post, isPluginGroup x.group = true → x.fails = false) → (isPluginGroup e.group = true → e.fails = false) →
      loadedCalls (pre ++ e :: post)
        = (((pre ++ e :: post).filter (fun x => isPluginGroup x.group)).flatMap (·.calls), false)) := by
  induction pre with
  | nil =>
    constructor
    · intro ⟨hg, hf⟩; simp [loadedCalls, hg, hf]
    · intro hpost he
      have hall : ∀ l : List (EntryPoint α), (∀ x ∈ l, isPluginGroup x.group = true → x.fails = false) →
          loadedCalls l = ((l.filter (fun x => isPluginGroup x.group)).flatMap (·.calls), false) := by
        intro l
        induction l with
        | nil => intro _; rfl
        | cons a t iht =>
          intro h
          have ht := iht (fun x hx => h x (by simp [hx]))
          by_cases hg : isPluginGroup a.group = true
          · have := h a (by simp) hg
            simp [loadedCalls, hg, this, ht]
          · simp [loadedCalls, hg, ht]
      exact hall _ (by
        intro x hx
        rcases List.mem_cons.mp hx with h | h
        · subst h; exact he
        · exact hpost x h)
  | cons a t ih =>
    have iht := ih (fun x hx => hpre x (by simp [hx]))
    constructor
    · intro h
      by_cases hg : isPluginGroup a.group = true
      · have := hpre a (by simp) hg
        simp [loadedCalls, hg, this, iht.1 h]
      · simp [loadedCalls, hg, iht.1 h]
    · intro hpost he
      by_cases hg : isPluginGroup a.group = true
      · have := hpre a (by simp) hg
        simp [loadedCalls, hg, this, iht.2 hpost he]
      · simp [loadedCalls, hg, iht.2 hpost he]

theorem loadPlugins_eq_runApi (eps : List (EntryPoint ApiCall)) (rs : Registries) :
    (loadPlugins Generated.accessors false (eps.map EntryPoint.raw) rs).1 = runApi Generated.accessors rs (loadedCalls eps).1 := by
  simp only [loadPlugins, loadedCalls_raw, Bool.false_eq_true, if_false, runApi]
  generalize (loadedCalls eps).1 = cs
  suffices h : ∀ (acc : Registries × List ApiOut),
      (List.foldl (fun (acc : Registries × List ApiOut) (c : String × List Val) =>
        ((callApi Generated.accessors c.1 acc.1 c.2).1, acc.2 ++ [(callApi Generated.accessors c.1 acc.1 c.2).2]))
        acc (cs.map (fun c => (c.name, c.args)))).1 =
      List.foldl (fun s c => (callApi Generated.accessors c.name s c.args).1) acc.1 cs from h (rs, [])
  induction cs with
  | nil => intro acc; rfl
  | cons c cs ih => intro acc; simp only [List.map_cons, List.foldl_cons]; exact ih _

/-- **An entry point cannot shadow a name that is already registered** (e.g. by a builtin whose module was imported
    before): whatever well-typed registration calls the entry points loaded afterwards make — on any registry, with or
    without a failing entry point, in any order — short name `k` of registry `attr` still resolves to the plugin `b` it
    resolved to before, unless one of them calls `set_*_plugin(k, …)` of that registry. -/
theorem entry_point_cannot_shadow_builtin (rs : Registries) (attr : String) (r : Registry) (hr : rs.get attr = some r)
    (k : String) (b : Plugin) (hk : hasDot k = false) (hb : lookup r k = some b)
    (eps : List (EntryPoint ApiCall)) (hwt : ∀ e ∈ eps, ∀ c ∈ e.calls, c.WellTyped)
    (hnoset : ∀ e ∈ eps, ∀ c ∈ e.calls, ∀ op, c.opOn attr = some op → op.notSetOn k) :
    ∃ r', (loadPlugins Generated.accessors false (eps.map EntryPoint.raw) rs).1.get attr = some r' ∧ lookup r' k = some b := by
  have hsub : ∀ c ∈ (loadedCalls eps).1, ∃ e ∈ eps, c ∈ e.calls := by
    induction eps with
    | nil => intro c hc; simp [loadedCalls] at hc
    | cons e es ih =>
      intro c hc
      simp only [loadedCalls] at hc
      by_cases hg : isPluginGroup e.group = true
      · by_cases hf : e.fails = true
        · simp [hg, hf] at hc; exact ⟨e, by simp, hc⟩
        · simp [hg, hf] at hc
          rcases hc with hc | hc
          · exact ⟨e, by simp, hc⟩
          · obtain ⟨e', he', hc'⟩ := ih (fun e he => hwt e (by simp [he])) (fun e he => hnoset e (by simp [he])) c hc
            exact ⟨e', by simp [he'], hc'⟩
      · simp [hg] at hc
        obtain ⟨e', he', hc'⟩ := ih (fun e he => hwt e (by simp [he])) (fun e he => hnoset e (by simp [he])) c hc
        exact ⟨e', by simp [he'], hc'⟩
  rw [loadPlugins_eq_runApi]
  have h := api_history_projects (loadedCalls eps).1 (by
    intro c hc; obtain ⟨e, he, hce⟩ := hsub c hc; exact hwt e he c hce) attr rs r hr
  refine ⟨_, h, ?_⟩
  exact run_keeps_short _ r k b hk hb (by
    intro op hop
    obtain ⟨c, hc, hco⟩ := List.mem_filterMap.mp hop
    obtain ⟨e, he, hce⟩ := hsub c hc
    exact hnoset e he c hce op hco)


/-- the plugin of an entry point that asks for a taken name is not lost: it is stored under its full name (the name
    the overwrite warning tells the user to pass to `set_*_plugin`) and under its full key, the taken short name keeps
    its plugin, and the warning is issued exactly when the two full names differ. -/
theorem shadowed_entry_point_reachable (r : Registry) (k m n : String) (u : Nat) (b : Plugin)
    (hk : hasDot k = false) (hb : lookup r k = some b) :
    let res := step r (.addInst [k] m n u)
    lookup res.1 k = some b ∧ lookup res.1 (m ++ "." ++ n) = some ⟨m, n, u⟩ ∧
      lookup res.1 (fullKey ⟨m, n, u⟩ k) = some ⟨m, n, u⟩ ∧ res.2 = .oks [decide (b.fullName ≠ m ++ "." ++ n)] := by
  have hfk : fullKey ⟨m, n, u⟩ k ≠ k := ne_of_hasDot (hasDot_fullKey _ k) hk
  have hfn : (⟨m, n, u⟩ : Plugin).fullName ≠ k := ne_of_hasDot (hasDot_fullName _) hk
  simp only [Plugin.fullName] at hfn
  by_cases he : m ++ "." ++ n = fullKey ⟨m, n, u⟩ k <;>
    simp [step, addInstLoop, addOne, hk, hb, lookup_insert, Plugin.fullName, hfk, hfn, he] <;> congr

/-- **The order importlib yields the entry points in decides who owns a short name**: nothing makes glotaran's own
    modules load first.  A third-party entry point listed before the builtin yml plugin takes `yml`; the builtin then
    gets the overwrite warning and is reachable under its full name only. -/
theorem entry_point_order_decides_counterexample :
    let third : EntryPoint ApiCall := ⟨"glotaran.plugins.project_io", [.registerInst "register_project_io" ["yml"] "third" "Yml" 7], false⟩
    let builtin : EntryPoint ApiCall := ⟨"glotaran.plugins.project_io",
      [.registerInst "register_project_io" ["yml", "yaml", "yml_str"] "glotaran.builtin.io.yml.yml" "YmlProjectIo" 0], false⟩
    (resolvesTo (loadPlugins Generated.accessors false ([builtin, third].map EntryPoint.raw) {}).1 "project_io" "yml"
        "glotaran.builtin.io.yml.yml.YmlProjectIo" = true) ∧
    (resolvesTo (loadPlugins Generated.accessors false ([third, builtin].map EntryPoint.raw) {}).1 "project_io" "yml" "third.Yml" = true) ∧
    (resolvesTo (loadPlugins Generated.accessors false ([third, builtin].map EntryPoint.raw) {}).1 "project_io"
        "glotaran.builtin.io.yml.yml.YmlProjectIo" "glotaran.builtin.io.yml.yml.YmlProjectIo" = true) ∧
    (loadPlugins Generated.accessors false ([third, builtin].map EntryPoint.raw) {}).2.1 =
      [.base (.oks [false]), .base (.oks [true, false, false])] := by
  decide +kernel

/-! ### non-vacuity: the hypotheses are met by concrete non-trivial states -/

example : hasDot "csv" = false ∧ lookup [("nc", ⟨"m", "Nc", 0⟩)] "csv" = none := by decide
example : (run (step [("csv", ⟨"m", "A", 0⟩)] (.add "csv" ⟨"x", "B", 1⟩ "csv")).1
    [.get "csv", .add "csv" ⟨"y", "C", 2⟩ "csv"]).length = 5 := by decide
example : Op.noClash (fullKey ⟨"m", "A", 1⟩ "csv") "m.A" (.add "tsv" ⟨"m", "A", 2⟩ "tsv") := by
  constructor <;> decide

-- every_plugin_reachable_iff: a colliding and a collision-free history, both with ≥ 2 writes
example : Collide [] [.add "c" ⟨"m", "A_b", 1⟩ "c", .add "b_c" ⟨"m", "A", 2⟩ "b_c"] :=
  ⟨("m.A_b_c", ⟨"m", "A_b", 1⟩), by decide, ("m.A_b_c", ⟨"m", "A", 2⟩), by decide, rfl, by decide⟩
example : runWrites [] [.addInst ["a"] "m" "A" 0, .addInst ["a", "b"] "m" "B" 1]
    = [("m.A_a", ⟨"m", "A", 0⟩), ("m.B_a", ⟨"m", "B", 1⟩), ("m.B", ⟨"m", "B", 1⟩), ("m.B_b", ⟨"m", "B", 2⟩)] := by
  decide
example : accepted [.addInst ["a", "x.y", "b"] "m" "B" 1, .add "k" ⟨"m", "M", 9⟩ ""]
    = [(⟨"m", "B", 1⟩, "a"), (⟨"m", "M", 9⟩, "")] := by decide
-- every_class_plugin_reachable: two classes competing for one name
example : ∀ op ∈ [Op.add "decay" ⟨"m", "A", 0⟩ "", .add "decay" ⟨"x", "B", 1⟩ "", .setPlugin "decay" "x.B"],
    op.classStyle := by simp [Op.classStyle]

-- the three registries after some registrations (used by the examples below)
def exRs : Registries :=
  { megacomplex := run [] [.add "decay" ⟨"m", "A", 100⟩ "", .add "decay" ⟨"x", "B", 101⟩ ""],
    dataIo := run [] [.addInst ["nc", "a"] "m" "N" 0],
    projectIo := run [] [.addInst ["yaml", "yml"] "m" "Y" 2, .addInst ["yml", "csv"] "m" "Z" 4, .setPlugin "csv" "m.Y_yaml"] }

-- the instance theorems: rows of `specApi` of every kind, and the table rows evaluated on `exRs`
example : (⟨"known_data_formats", "data_io", .known⟩ : ApiSpec) ∈ specApi ∧
    (⟨"is_known_megacomplex", "megacomplex", .isKnown⟩ : ApiSpec) ∈ specApi ∧
    (⟨"get_project_io", "project_io", .get⟩ : ApiSpec) ∈ specApi ∧
    (⟨"register_megacomplex", "megacomplex", .add⟩ : ApiSpec) ∈ specApi ∧
    (⟨"register_data_io", "data_io", .addInst⟩ : ApiSpec) ∈ specApi ∧
    (⟨"set_project_plugin", "project_io", .set⟩ : ApiSpec) ∈ specApi := by decide
def unknownKey : ApiOut → Option String
  | .unknown k _ => some k
  | _ => none
example : (callApi Generated.accessors "is_known_data_format" exRs [.str "m.N_a"]).2 = .bool true ∧
    (callApi Generated.accessors "is_known_data_format" exRs [.str "yaml"]).2 = .bool false ∧
    (callApi Generated.accessors "get_project_io" exRs [.str "csv"]).2 = .base (.found ⟨"m", "Y", 2⟩) ∧
    (callApi Generated.accessors "get_megacomplex" exRs [.str "decay"]).2 = .base (.found ⟨"m", "A", 100⟩) ∧
    (callApi Generated.accessors "get_megacomplex" exRs [.str "x.B"]).2 = .base (.found ⟨"x", "B", 101⟩) ∧
    unknownKey (callApi Generated.accessors "get_data_io" exRs [.str "yaml"]).2 = some "yaml" ∧
    (callApi Generated.accessors "register_project_io" exRs [.str "csv", .cls "m" "W" 9]).2 = .base (.oks [true]) ∧
    (callApi Generated.accessors "set_megacomplex_plugin" exRs [.str "decay", .str "x.B"]).2 = .base .done := by decide
-- api_history_projects / first_registration_wins_public: a well-typed mixed history
private theorem wellTyped_of_check (c : ApiCall)
    (h : (match specOf c.name with
          | some s => decide (s.op = c.kind)
          | none => false) = true) : c.WellTyped := by
  cases hs : specOf c.name with
  | none => simp [hs] at h
  | some s => exact ⟨s, hs, by simpa [hs] using h⟩
example : ∀ c ∈ [ApiCall.registerInst "register_data_io" ["a"] "m" "N" 0, .register "register_megacomplex" "a" "m" "A" 100,
      .set "set_data_plugin" "b" "m.N_a", .get "get_project_io" "a", .known "known_data_formats" true,
      .isKnown "is_known_megacomplex" "a"], c.WellTyped := by
  intro c hc
  simp only [List.mem_cons, List.mem_nil_iff, or_false] at hc
  rcases hc with h | h | h | h | h | h <;> subst h <;> exact wellTyped_of_check _ (by decide)
example : [ApiCall.registerInst "register_data_io" ["a"] "m" "N" 0, .register "register_megacomplex" "a" "m" "A" 100,
      .set "set_data_plugin" "b" "m.N_a", .get "get_project_io" "a"].filterMap (ApiCall.opOn "data_io")
    = [.addInst ["a"] "m" "N" 0, .setPlugin "b" "m.N_a"] := by decide
-- dispatch_uses_resolution: the table rows evaluated (inferred yml → yaml, given format wins, folder → yaml for results,
-- missing file, no extension, unknown format, data functions use the data registry)
example :
    dispatchByName Generated.accessors Generated.convFns Generated.inferDefaults "load_model" exRs
      [.str "d.x/f.yml", .none_] (fun _ => true) = .called ["load_model"] ⟨"m", "Y", 2⟩ ∧
    dispatchByName Generated.accessors Generated.convFns Generated.inferDefaults "save_scheme" exRs
      [.obj, .str "new/f.txt", .str "yml"] (fun _ => false) = .called ["save_scheme"] ⟨"m", "Y", 3⟩ ∧
    dispatchByName Generated.accessors Generated.convFns Generated.inferDefaults "save_result" exRs
      [.obj, .str "results/run_0", .str ""] (fun _ => false) = .called ["save_result"] ⟨"m", "Y", 2⟩ ∧
    dispatchByName Generated.accessors Generated.convFns Generated.inferDefaults "load_parameters" exRs
      [.str "gone.csv", .none_] (fun _ => false) = .inferError .noFile ∧
    dispatchByName Generated.accessors Generated.convFns Generated.inferDefaults "save_parameters" exRs
      [.obj, .str "d.x/noext", .none_] (fun _ => false) = .inferError .noExtension ∧
    unknownKey (dispatchByName Generated.accessors Generated.convFns Generated.inferDefaults "load_dataset" exRs
      [.str "f.yaml", .none_] (fun _ => true)) = some "yaml" ∧
    dispatchByName Generated.accessors Generated.convFns Generated.inferDefaults "save_dataset" exRs
      [.obj, .str "f.nc", .none_] (fun _ => false) = .called ["save_dataset"] ⟨"m", "N", 0⟩ := by decide
example : (⟨"save_result", "project_io", 1, false, true⟩ : ConvSpec) ∈ specConv ∧
    exRs.get "project_io" = some exRs.projectIo := by decide
-- infer_file_format_spec / extOf_spec
example : extOf "d.x/f.yml" = some "yml" ∧ extOf "d.x/noext" = none ∧ extOf ".hidden" = none ∧ extOf "a." = some "" ∧
    extOf "g.tar.gz" = some "gz" ∧ extOf "..b" = none := by decide
example : (∀ c ∈ "f".toList, c ≠ '/') ∧ (∃ c ∈ "f".toList, c ≠ '.') ∧ (∀ c ∈ "yml".toList, c ≠ '.' ∧ c ≠ '/') ∧
    "d.x/".toList.getLast? = some '/' := by decide

-- supported_file_extensions_instances: the filter on concrete keys and plugins
example : supportedExtensions ["csv", "md_str", "yml", "zz"]
      (lookup [("csv", ⟨"m", "C", 0⟩), ("md_str", ⟨"m", "C", 1⟩), ("yml", ⟨"m", "Y", 2⟩)])
      (fun p m => p.name = "C" || m = "load_model") ["load_model", "save_model"] = [".csv"] ∧
    endsWithStr "md_str" = true ∧ endsWithStr "str" = false := by decide

-- generated_*_eq_model: the translated functions run on a concrete state (a conflicting registration that warns, a
-- three-name instantiation that stops at the dotted name, a re-pointing, an unknown full name, a lookup, both listings)
def exW : Py.World := ⟨fun p => p.uid ≥ 100, fun path => path = "d/f.yml"⟩
def exSt : Py.St := ⟨[("a", ⟨"m", "A", 0⟩), ("m.A_a", ⟨"m", "A", 0⟩)], [], 1⟩
example : (Gen.add_plugin_to_registry exW "a" ⟨"x", "B", 1⟩ "set_data_plugin" "a" exSt).state.reg
      = [("a", ⟨"m", "A", 0⟩), ("m.A_a", ⟨"m", "A", 0⟩), ("x.B_a", ⟨"x", "B", 1⟩), ("x.B", ⟨"x", "B", 1⟩)] ∧
    (Gen.add_plugin_to_registry exW "a" ⟨"x", "B", 1⟩ "set_data_plugin" "a" exSt).state.warns
      = [Py.overwriteWarning "a" ⟨"m", "A", 0⟩ ⟨"x", "B", 1⟩ "set_data_plugin"] ∧
    addOne exSt.reg "a" ⟨"x", "B", 1⟩ "a" = some ((Gen.add_plugin_to_registry exW "a" ⟨"x", "B", 1⟩ "f" "a" exSt).state.reg, true) := by
  decide
example : ((Gen.add_instantiated_plugin_to_registry exW (.list ["b", "a", "c.d", "e"]) ⟨"x", "B"⟩ "f" exSt).state.reg.map (·.1)
      = ["a", "m.A_a", "x.B_b", "b", "x.B_a", "x.B"]) ∧
    (Gen.add_instantiated_plugin_to_registry exW (.list ["b", "a", "c.d", "e"]) ⟨"x", "B"⟩ "f" exSt).state.nextUid = 4 ∧
    (Py.addInstSt "x" "B" "f" ["b", "a", "c.d", "e"] exSt []).2 = .errDottedAfter [false, true] := by
  decide
example : (Gen.set_plugin exW "b" "m.A_a" "format_name" exSt).state.reg.map (·.1) = ["a", "m.A_a", "b"] ∧
    (step exSt.reg (.setPlugin "b" "m.B")).2 = .errUnknownFull ["m.A_a"] ∧
    (step exSt.reg (.get "a")).2 = .found ⟨"m", "A", 0⟩ ∧ (keys exSt.reg).filter (fun k => !hasDot k) = ["a"] ∧
    (⟨"m", "A", 7⟩ : Plugin).fullName = "m.A" := by
  decide
example : exW.isFile "d/f.yml" = true ∧ exW.isFile "d/g.csv" = false ∧ extOf "d/f.yml" = some "yml" ∧
    extOf "d/noext" = none ∧ Py.lstripDots ".yml" = "yml" ∧ Py.splitextExt "d/f.yml" = ".yml" := by
  decide

-- import-time registration: the builtin table is non-trivial; a loading sequence with a foreign group, a failing entry
-- point after which nothing is loaded, and the well-typedness / no-set hypotheses of entry_point_cannot_shadow_builtin
example : Generated.builtins.length ≥ 10 ∧ builtinNames Generated.builtins "project_io" ≠ [] ∧
    (builtinCalls Generated.builtins 0).length = Generated.builtins.length := by decide
example : loadedCalls [(⟨"glotaran.plugins.data_io", [1, 2], false⟩ : EntryPoint Nat), ⟨"console_scripts", [3], false⟩,
    ⟨"glotaran.plugins_x", [4], true⟩, ⟨"glotaran.plugins.project_io", [5], false⟩] = ([1, 2, 4], true) := by decide
example : ∀ c ∈ [ApiCall.registerInst "register_project_io" ["yml"] "third" "Yml" 7, .register "register_megacomplex" "decay" "third" "D" 8],
    c.WellTyped ∧ ∀ op, c.opOn "project_io" = some op → op.notSetOn "yml" := by
  intro c hc
  simp only [List.mem_cons, List.mem_nil_iff, or_false] at hc
  rcases hc with rfl | rfl
  · have h1 : (ApiCall.registerInst "register_project_io" ["yml"] "third" "Yml" 7).opOn "project_io"
        = some (.addInst ["yml"] "third" "Yml" 7) := by decide
    exact ⟨wellTyped_of_check _ (by decide), by intro op h; rw [h1] at h; cases h; trivial⟩
  · have h1 : (ApiCall.register "register_megacomplex" "decay" "third" "D" 8).opOn "project_io" = none := by decide
    exact ⟨wellTyped_of_check _ (by decide), by intro op h; rw [h1] at h; cases h⟩
example : hasDot "yml" = false ∧ lookup [("yml", ⟨"glotaran.builtin.io.yml.yml", "YmlProjectIo", 0⟩)] "yml" =
    some ⟨"glotaran.builtin.io.yml.yml", "YmlProjectIo", 0⟩ := by decide

end Glotaran.C19
