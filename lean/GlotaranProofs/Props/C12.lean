/-
C12 — expression parameters always equal their expression.
Property theorems only (vocabulary `WF`, `Consistent`, `Acyclic`, `IsExprLabel`, `Same`, `skel` and
the helper lemmas: GlotaranProofs/Lemmas/C12.lean).

All statements are about the model of the *fixed* `update_parameter_expression` (passes in
declaration order repeated until nothing changes, at most one per expression parameter), for
every list of parameters of any length in **any declaration order**, every acyclic dependency
graph (expression parameters may reference expression parameters), every interpretation `F` of
the function symbols and every initial value (NaN included).  Success hypotheses
`… = .ok ps'` say that no evaluation raised.
-/
import GlotaranProofs.Lemmas.C12
namespace Glotaran.C12

/-- **After an update every expression parameter has the value of its expression on the
    current values** — whatever the declaration order. -/
theorem consistent_after_update (F : Funs) (ps ps' : List Param) (hwf : WF ps) (hac : Acyclic ps)
    (h : update F ps = .ok ps') : Consistent F ps' := by
  obtain ⟨order, ht⟩ := hac
  exact loop_consistent F order (exprCount ps) 0 ps ps' hwf ht
    (fun _ _ _ _ hk => absurd hk (Nat.not_lt_zero _)) (by have := ht.1; omega) h

/-- An update touches values only: labels, expressions, `vary`, `non_negative` and the
    declaration order are kept. -/
theorem update_preserves_structure (F : Funs) (ps ps' : List Param) (h : update F ps = .ok ps') :
    ps'.map skel = ps.map skel ∧ labels ps' = labels ps :=
  ⟨(loop_same F _ ps ps' h).2, same_labels (loop_same F _ ps ps' h).1⟩

/-- **Parameters without an expression are not changed by an update** (the very same
    parameter, value included, is still there). -/
theorem update_preserves_non_expression_values (F : Funs) (ps ps' : List Param) (hwf : WF ps)
    (h : update F ps = .ok ps') : ∀ p ∈ ps, p.expr = none → p ∈ ps' ∧ valueOf ps' p.label = some p.value := by
  intro p hp he
  have hk : p ∈ ps' := by
    apply loop_keeps F _ ps ps' h p hp
    intro q hq hqe hlab
    have := eq_of_label_eq hwf hq hp hlab
    rw [this, he] at hqe
    cases hqe
  exact ⟨hk, valueOf_of_mem (same_wf (loop_same F _ ps ps' h).1 hwf) hk⟩

/-- A pass that reports no change is a fixpoint, and a fixpoint is consistent (no acyclicity
    needed): the early exit of the loop is sound. -/
theorem fixpoint_of_quiet_pass (F : Funs) (ps ps' : List Param) (hwf : WF ps)
    (h : pass F ps = .ok (ps', false)) : ps' = ps ∧ Consistent F ps := by
  obtain ⟨_, h2, h3⟩ := passAux_quiet F ps ps false ps' h hwf
  refine ⟨h2, ?_⟩
  intro p hp e he
  obtain ⟨v, hv1, hv2⟩ := h3 p hp e he
  rw [valueOf_of_mem hwf hp] at hv2
  rw [hv1, Option.some.inj hv2]

/-- On a consistent state the update is the identity. -/
theorem update_of_consistent (F : Funs) (ps : List Param) (hwf : WF ps) (hc : Consistent F ps) :
    update F ps = .ok ps :=
  loop_of_consistent F hwf hc _

/-- **Updating twice changes nothing.** -/
theorem update_idempotent (F : Funs) (ps ps' : List Param) (hwf : WF ps) (hac : Acyclic ps)
    (h : update F ps = .ok ps') : update F ps' = .ok ps' :=
  update_of_consistent F ps' (same_wf (loop_same F _ ps ps' h).1 hwf)
    (consistent_after_update F ps ps' hwf hac h)

/-- **After `set_from_label_and_value_arrays`** (any labels, any values — the optimiser's
    steps) the expression parameters are consistent again. -/
theorem consistent_after_setFromArrays (F : Funs) (ps ps' : List Param) (ls : List String)
    (vs : List Val) (hwf : WF ps) (hac : Acyclic ps)
    (h : setFromArrays F ps ls vs = .ok ps') : Consistent F ps' := by
  unfold setFromArrays at h
  split at h
  · cases h
  · split at h
    · cases h
    · rename_i ps1 hset
      have hs := setAll_same F _ _ _ hset
      obtain ⟨order, ht⟩ := hac
      exact consistent_after_update F ps1 ps' (same_wf hs hwf) ⟨order, same_topo hs ht⟩ h

/-- … and the free parameters hold the values they were given: a label that is listed once
    and carries no expression ends up with `fromOptimization` of its value. -/
theorem setFromArrays_sets_free_values (F : Funs) (ps ps' : List Param) (ls : List String)
    (vs : List Val) (hwf : WF ps) (hnd : ls.Nodup)
    (h : setFromArrays F ps ls vs = .ok ps') :
    ∀ l v, (l, v) ∈ ls.zip vs → ¬ IsExprLabel ps l →
      ∃ p ∈ ps, p.label = l ∧ ∃ v', fromOptimization F p v = some v' ∧ valueOf ps' l = some v' := by
  intro l v hmem hne
  unfold setFromArrays at h
  split at h
  · cases h
  · rename_i hlen
    split at h
    · cases h
    · rename_i ps1 hset
      have hs := setAll_same F _ _ _ hset
      have hkeys : ((ls.zip vs).map Prod.fst).Nodup := by
        rw [List.map_fst_zip (by omega)]; exact hnd
      obtain ⟨p, hp, hl, v', hv', hval⟩ := setAll_value F _ _ _ hset hwf hkeys l v hmem
      refine ⟨p, hp, hl, v', hv', ?_⟩
      rw [← hval]
      exact loop_nonexpr F _ ps1 ps' h l (fun hx => hne (same_isExprLabel hs hx))

/-- **After `get_label_value_and_bounds_arrays`** (which updates first). -/
theorem consistent_after_arrays (F : Funs) (ps ps' : List Param) (excl : Bool)
    (out : List (String × Val)) (hwf : WF ps) (hac : Acyclic ps)
    (h : arrays F ps excl = .ok (ps', out)) : Consistent F ps' := by
  unfold arrays at h
  split at h
  · cases h
  · rename_i ps1 hup
    split at h
    · cases h
    · simp only [Except.ok.injEq, Prod.mk.injEq] at h
      rw [← h.1]
      exact consistent_after_update F ps ps1 hwf hac hup

/-- The constructor keeps labels unique (dict semantics), so `WF` is not an extra assumption
    for constructed objects. -/
theorem ofList_labels_nodup (items : List Param) : WF (ofList items) :=
  ofList_wf items

/-- **After construction** (`__init__` behind from_list / from_dict / from_dataframe / the
    yml and csv loaders). -/
theorem consistent_after_construct (F : Funs) (items ps' : List Param) (hac : Acyclic (ofList items))
    (h : construct F items = .ok ps') : Consistent F ps' :=
  consistent_after_update F (ofList items) ps' (ofList_wf items) hac h

/-- **After `copy()`**. -/
theorem consistent_after_copy (F : Funs) (ps ps' : List Param) (hwf : WF ps) (hac : Acyclic ps)
    (h : copy F ps = .ok ps') : Consistent F ps' := by
  have hs : Same (ofList ps) ps := by
    rw [ofList_of_wf ps hwf]; exact map_normalize_same ps
  obtain ⟨order, ht⟩ := hac
  exact consistent_after_update F (ofList ps) ps' (ofList_wf ps) ⟨order, same_topo hs ht⟩ h

/-- **The consistent values are unique**: two states with the same labels and expressions that
    agree on everything that is not an expression parameter and are both consistent agree on
    every value.  So "the value of its expression" is well defined — it does not depend on
    how (in which order, from which stale values) it was reached. -/
theorem consistent_unique (F : Funs) (a b : List Param) (hwa : WF a) (hac : Acyclic a)
    (hs : Same b a) (hca : Consistent F a) (hcb : Consistent F b)
    (hfree : ∀ l, ¬ IsExprLabel a l → valueOf a l = valueOf b l) :
    ∀ l, valueOf a l = valueOf b l := by
  obtain ⟨order, ht⟩ := hac
  have hwb : WF b := same_wf hs hwa
  have key : ∀ n l, order.idxOf l = n → IsExprLabel a l → valueOf a l = valueOf b l := by
    intro n
    induction n using Nat.strongRecOn with
    | _ n ih =>
      intro l hn hx
      obtain ⟨p, hp, hpl, hpe⟩ := hx
      obtain ⟨e, he⟩ := Option.isSome_iff_exists.mp hpe
      obtain ⟨q, hq, hql, hqe⟩ := same_mem (same_symm hs) hp
      have hcongr : eval F a e = eval F b e := by
        apply eval_congr
        intro r hr
        by_cases hrx : IsExprLabel a r
        · have hlt := ht.2.2 p hp e he r hr hrx
          rw [hpl, hn] at hlt
          exact ih _ hlt r rfl hrx
        · exact hfree r hrx
      have h1 := hca p hp e he
      have h2 := hcb q hq e (by rw [hqe]; exact he)
      rw [hcongr, h2] at h1
      have hv : q.value = p.value := Except.ok.inj h1
      rw [← hpl, valueOf_of_mem hwa hp, ← hql, valueOf_of_mem hwb hq, hv]
  intro l
  by_cases hx : IsExprLabel a l
  · exact key _ l rfl hx
  · exact hfree l hx

/-- **Stale values do not matter**: the result of an update depends only on the values of the
    parameters without expression — not on what the expression parameters held before (NaN, an
    old value, anything). -/
theorem update_ignores_stale_expression_values (F : Funs) (a b a' b' : List Param) (hwa : WF a)
    (hac : Acyclic a) (hs : Same b a)
    (hfree : ∀ l, ¬ IsExprLabel a l → valueOf a l = valueOf b l)
    (ha : update F a = .ok a') (hb : update F b = .ok b') : ∀ l, valueOf a' l = valueOf b' l := by
  have hwb : WF b := same_wf hs hwa
  obtain ⟨order, ht⟩ := hac
  have hsa := (loop_same F _ a a' ha).1
  have hsb := (loop_same F _ b b' hb).1
  apply consistent_unique F a' b' (same_wf hsa hwa) ⟨order, same_topo hsa ht⟩
    (same_trans hsb (same_trans hs (same_symm hsa)))
    (consistent_after_update F a a' hwa ⟨order, ht⟩ ha)
    (consistent_after_update F b b' hwb ⟨order, same_topo hs ht⟩ hb)
  intro l hl
  have hla : ¬ IsExprLabel a l := fun hx => hl (same_isExprLabel (same_symm hsa) hx)
  have hlb : ¬ IsExprLabel b l := fun hx => hla (same_isExprLabel hs hx)
  rw [loop_nonexpr F _ a a' ha l hla, loop_nonexpr F _ b b' hb l hlb]
  exact hfree l hla

/-- **`Acyclic` is the usual notion**: any rank (depth) function that strictly decreases along
    references between expression parameters yields a topological order — so the hypothesis of
    the theorems above holds for every dependency graph without a cycle. -/
theorem acyclic_of_rank (ps : List Param) (r : String → Nat)
    (h : ∀ p ∈ ps, ∀ e, p.expr = some e → ∀ l ∈ e.refs, IsExprLabel ps l → r l < r p.label) :
    Acyclic ps := by
  let el := (ps.filter (fun p => p.expr.isSome)).map (·.label)
  let order := el.mergeSort (fun a b => decide (r a ≤ r b))
  have hsorted : order.Pairwise (fun a b => r a ≤ r b) := by
    have := List.pairwise_mergeSort (le := fun a b => decide (r a ≤ r b))
      (by intro a b c h1 h2; simp at h1 h2 ⊢; omega)
      (by intro a b; simp; omega) el
    simpa using this
  have hmem : ∀ l, l ∈ order ↔ IsExprLabel ps l := by
    intro l
    simp only [order, el, List.mem_mergeSort, List.mem_map, List.mem_filter]
    constructor
    · rintro ⟨p, ⟨hp, he⟩, hl⟩; exact ⟨p, hp, hl, he⟩
    · rintro ⟨p, hp, hl, he⟩; exact ⟨p, ⟨hp, he⟩, hl⟩
  refine ⟨order, ?_, ?_, ?_⟩
  · simp [order, el, exprCount, List.length_mergeSort]
  · intro p hp he; exact (hmem _).mpr ⟨p, hp, rfl, he⟩
  · intro p hp e he l hl hx
    have hlt := h p hp e he l hl hx
    have hpo : p.label ∈ order := (hmem _).mpr ⟨p, hp, rfl, by simp [he]⟩
    have hlo : l ∈ order := (hmem _).mpr hx
    apply Nat.lt_of_not_le
    intro hle
    have := rank_le_of_idxOf_le r order hsorted p.label l hpo hlo hle
    omega
/-! ### non-vacuity and the regression witness of D3 -/

/-- interpretation used in the examples: no function symbol is defined -/
def F0 : Funs := ⟨fun _ _ => none, fun _ _ _ => none⟩

/-- D3: `a = $b*2`, `b = $c+1`, `c = 3`, declared in this order, nothing computed yet -/
def d3 : List Param :=
  [ { label := "a", value := none, expr := some (.mul (.ref "b") (.lit 2)), vary := false },
    { label := "b", value := none, expr := some (.add (.ref "c") (.lit 1)), vary := false },
    { label := "c", value := some 3 } ]

example : WF d3 := by unfold WF labels; decide
example : Acyclic d3 := by
  refine ⟨["b", "a"], by decide, ?_, ?_⟩
  · intro p hp he
    simp only [d3, List.mem_cons, List.mem_nil_iff, or_false] at hp
    rcases hp with rfl | rfl | rfl <;> simp_all
  · intro p hp e he l hl hx
    simp only [d3, List.mem_cons, List.mem_nil_iff, or_false] at hp
    rcases hp with rfl | rfl | rfl
    · cases he; simp [Expr.refs] at hl; subst hl; decide
    · cases he; simp [Expr.refs] at hl; subst hl
      obtain ⟨q, hq, h1, h2⟩ := hx
      simp only [d3, List.mem_cons, List.mem_nil_iff, or_false] at hq
      rcases hq with rfl | rfl | rfl <;> simp_all
    · cases he

example : Acyclic d3 :=
  acyclic_of_rank d3 (fun l => if l = "a" then 2 else if l = "b" then 1 else 0) (by
    intro p hp e he l hl _
    simp only [d3, List.mem_cons, List.mem_nil_iff, or_false] at hp
    rcases hp with rfl | rfl | rfl
    · cases he; simp [Expr.refs] at hl; subst hl; decide
    · cases he; simp [Expr.refs] at hl; subst hl; decide
    · cases he)

/-- regression (D3): the single pass of the unfixed code leaves `a` stale (NaN) … -/
example : (passOnce F0 d3).toOption = some
    [ { label := "a", value := none, expr := some (.mul (.ref "b") (.lit 2)), vary := false },
      { label := "b", value := some 4, expr := some (.add (.ref "c") (.lit 1)), vary := false },
      { label := "c", value := some 3 } ] := by decide +kernel

/-- … the fixed update does not: a = 8, b = 4, c = 3, and a second update changes nothing. -/
example : (update F0 d3).toOption = some
    [ { label := "a", value := some 8, expr := some (.mul (.ref "b") (.lit 2)), vary := false },
      { label := "b", value := some 4, expr := some (.add (.ref "c") (.lit 1)), vary := false },
      { label := "c", value := some 3 } ] := by decide +kernel

example : ∀ ps', update F0 d3 = .ok ps' → update F0 ps' = .ok ps' :=
  fun ps' h => update_idempotent F0 d3 ps' (by unfold WF labels; decide) (by
    refine ⟨["b", "a"], by decide, ?_, ?_⟩
    · intro p hp he
      simp only [d3, List.mem_cons, List.mem_nil_iff, or_false] at hp
      rcases hp with rfl | rfl | rfl <;> simp_all
    · intro p hp e he l hl hx
      simp only [d3, List.mem_cons, List.mem_nil_iff, or_false] at hp
      rcases hp with rfl | rfl | rfl
      · cases he; simp [Expr.refs] at hl; subst hl; decide
      · cases he; simp [Expr.refs] at hl; subst hl
        obtain ⟨q, hq, h1, h2⟩ := hx
        simp only [d3, List.mem_cons, List.mem_nil_iff, or_false] at hq
        rcases hq with rfl | rfl | rfl <;> simp_all
      · cases he) h

/-- the optimiser's step on the D3 parameters: c := 5/2 gives b = 7/2, a = 7 -/
example : (setFromArrays F0 d3 ["c"] [some (5 / 2)]).toOption = some
    [ { label := "a", value := some 7, expr := some (.mul (.ref "b") (.lit 2)), vary := false },
      { label := "b", value := some (7 / 2), expr := some (.add (.ref "c") (.lit 1)), vary := false },
      { label := "c", value := some (5 / 2) } ] := by decide +kernel

/-- construction and copy of the D3 declaration (here `vary` is normalised by the constructor) -/
def d3done : List Param :=
  [ { label := "a", value := some 8, expr := some (.mul (.ref "b") (.lit 2)), vary := false },
    { label := "b", value := some 4, expr := some (.add (.ref "c") (.lit 1)), vary := false },
    { label := "c", value := some 3 } ]
example : (construct F0 d3).toOption = some d3done ∧ (copy F0 d3done).toOption = some d3done ∧
    valueOf d3done "a" = some (some 8) := by decide +kernel

/-- stale values do not matter: the same declaration with a = 100, b = -7 instead of NaN gives the
    same result (hypotheses of `update_ignores_stale_expression_values` are met by `d3`, `d3stale`) -/
def d3stale : List Param :=
  [ { label := "a", value := some 100, expr := some (.mul (.ref "b") (.lit 2)), vary := false },
    { label := "b", value := some (-7), expr := some (.add (.ref "c") (.lit 1)), vary := false },
    { label := "c", value := some 3 } ]
example : Same d3stale d3 ∧ (update F0 d3stale).toOption = some d3done ∧
    (update F0 d3).toOption = some d3done := by
  refine ⟨by unfold Same; decide, by decide +kernel, by decide +kernel⟩
example : ∀ l, ¬ IsExprLabel d3 l → valueOf d3 l = valueOf d3stale l := by
  intro l hl
  have h1 : ¬ "a" = l := fun e => hl ⟨_, List.mem_cons_self, e, rfl⟩
  have h2 : ¬ "b" = l := fun e => hl ⟨_, List.mem_cons_of_mem _ List.mem_cons_self, e, rfl⟩
  simp [valueOf, d3, d3stale, h1, h2]

/-- a cyclic definition is outside the theorems; the loop still terminates (two passes) -/
example : (update F0
    [ { label := "a", value := some 1, expr := some (.add (.ref "b") (.lit 1)) },
      { label := "b", value := some 2, expr := some (.add (.ref "a") (.lit 1)) } ]).toOption = some
    [ { label := "a", value := some 5, expr := some (.add (.ref "b") (.lit 1)) },
      { label := "b", value := some 6, expr := some (.add (.ref "a") (.lit 1)) } ] := by decide +kernel

end Glotaran.C12
