/-
C12 — expression parameters always equal their expression.
Property theorems only (vocabulary `WF`, `Consistent`, `Acyclic`, `IsExprLabel`, `Same`, `skel` and
the helper lemmas: GlotaranProofs/Lemmas/C12.lean).

All statements are about the model of the *fixed* `update_parameter_expression` (passes in
declaration order repeated until nothing changes, at most one per expression parameter), for
every list of parameters of any length in **any declaration order**, every acyclic dependency
graph (expression parameters may reference expression parameters), every interpretation `F` of
the function symbols and every initial value (NaN included).  Success hypotheses
`… = .ok ps'` say that no evaluation raised.

Further down: what the bounded loop does on *any* graph, cycles included (`update_terminates`,
`cyclic_not_consistent_counterexample`); which values a raising expression leaves behind
(`failed_update_state`, D26); and the `$label` rewriting of `set_transformed_expression`
(`rewrite_spec`, `rewrite_no_prefix_capture`, `labels_of_rewrite`, … over the constants regenerated
from the source).
-/
import GlotaranProofs.Lemmas.C12
import GlotaranProofs.Lemmas.C12Regex
import GlotaranProofs.Lemmas.C12Fail
import GlotaranProofs.Lemmas.C12Gen
namespace Glotaran.C12

/-- **After an update every expression parameter has the value of its expression on the
    current values** — whatever the declaration order. -/
theorem consistent_after_update (F : Funs) (ps ps' : List Param) (hwf : WF ps) (hac : Acyclic ps)
    (h : update F ps = .ok ps') : Consistent F ps' := by
  obtain ⟨order, ht⟩ := hac
  exact loop_consistent F order (exprCount ps) 0 ps ps' hwf ht
    (fun _ _ _ _ hk => absurd hk (Nat.not_lt_zero _)) (by have := ht.1; omega) h

/-- An update touches values only: labels, expressions, `vary`, `non_negative` and the
    declaration order are kept. -/
theorem update_preserves_structure (F : Funs) (ps ps' : List Param) (h : update F ps = .ok ps') :
    ps'.map skel = ps.map skel ∧ labels ps' = labels ps :=
  ⟨(loop_same F _ ps ps' h).2, same_labels (loop_same F _ ps ps' h).1⟩

/-- **Parameters without an expression are not changed by an update** (the very same
    parameter, value included, is still there). -/
theorem update_preserves_non_expression_values (F : Funs) (ps ps' : List Param) (hwf : WF ps)
    (h : update F ps = .ok ps') : ∀ p ∈ ps, p.expr = none → p ∈ ps' ∧ valueOf ps' p.label = some p.value := by
  intro p hp he
  have hk : p ∈ ps' := by
    apply loop_keeps F _ ps ps' h p hp
    intro q hq hqe hlab
    have := eq_of_label_eq hwf hq hp hlab
    rw [this, he] at hqe
    cases hqe
  exact ⟨hk, valueOf_of_mem (same_wf (loop_same F _ ps ps' h).1 hwf) hk⟩

/-- A pass that reports no change is a fixpoint, and a fixpoint is consistent (no acyclicity
    needed): the early exit of the loop is sound. -/
theorem fixpoint_of_quiet_pass (F : Funs) (ps ps' : List Param) (hwf : WF ps)
    (h : pass F ps = .ok (ps', false)) : ps' = ps ∧ Consistent F ps := by
  obtain ⟨_, h2, h3⟩ := passAux_quiet F ps ps false ps' h hwf
  refine ⟨h2, ?_⟩
  intro p hp e he
  obtain ⟨v, hv1, hv2⟩ := h3 p hp e he
  rw [valueOf_of_mem hwf hp] at hv2
  rw [hv1, Option.some.inj hv2]

/-- On a consistent state the update is the identity. -/
theorem update_of_consistent (F : Funs) (ps : List Param) (hwf : WF ps) (hc : Consistent F ps) :
    update F ps = .ok ps :=
  loop_of_consistent F hwf hc _

/-- **Updating twice changes nothing.** -/
theorem update_idempotent (F : Funs) (ps ps' : List Param) (hwf : WF ps) (hac : Acyclic ps)
    (h : update F ps = .ok ps') : update F ps' = .ok ps' :=
  update_of_consistent F ps' (same_wf (loop_same F _ ps ps' h).1 hwf)
    (consistent_after_update F ps ps' hwf hac h)

/-- **After `set_from_label_and_value_arrays`** (any labels, any values — the optimiser's
    steps) the expression parameters are consistent again. -/
theorem consistent_after_setFromArrays (F : Funs) (ps ps' : List Param) (ls : List String)
    (vs : List Val) (hwf : WF ps) (hac : Acyclic ps)
    (h : setFromArrays F ps ls vs = .ok ps') : Consistent F ps' := by
  unfold setFromArrays at h
  split at h
  · cases h
  · split at h
    · cases h
    · rename_i ps1 hset
      have hs := setAll_same F _ _ _ hset
      obtain ⟨order, ht⟩ := hac
      exact consistent_after_update F ps1 ps' (same_wf hs hwf) ⟨order, same_topo hs ht⟩ h

/-- … and the free parameters hold the values they were given: a label that is listed once
    and carries no expression ends up with `fromOptimization` of its value. -/
theorem setFromArrays_sets_free_values (F : Funs) (ps ps' : List Param) (ls : List String)
    (vs : List Val) (hwf : WF ps) (hnd : ls.Nodup)
    (h : setFromArrays F ps ls vs = .ok ps') :
    ∀ l v, (l, v) ∈ ls.zip vs → ¬ IsExprLabel ps l →
      ∃ p ∈ ps, p.label = l ∧ ∃ v', fromOptimization F p v = some v' ∧ valueOf ps' l = some v' := by
  intro l v hmem hne
  unfold setFromArrays at h
  split at h
  · cases h
  · rename_i hlen
    split at h
    · cases h
    · rename_i ps1 hset
      have hs := setAll_same F _ _ _ hset
      have hkeys : ((ls.zip vs).map Prod.fst).Nodup := by
        rw [List.map_fst_zip (by omega)]; exact hnd
      obtain ⟨p, hp, hl, v', hv', hval⟩ := setAll_value F _ _ _ hset hwf hkeys l v hmem
      refine ⟨p, hp, hl, v', hv', ?_⟩
      rw [← hval]
      exact loop_nonexpr F _ ps1 ps' h l (fun hx => hne (same_isExprLabel hs hx))

/-- **After `get_label_value_and_bounds_arrays`** (which updates first). -/
theorem consistent_after_arrays (F : Funs) (ps ps' : List Param) (excl : Bool)
    (out : List (String × Val)) (hwf : WF ps) (hac : Acyclic ps)
    (h : arrays F ps excl = .ok (ps', out)) : Consistent F ps' := by
  unfold arrays at h
  split at h
  · cases h
  · rename_i ps1 hup
    split at h
    · cases h
    · simp only [Except.ok.injEq, Prod.mk.injEq] at h
      rw [← h.1]
      exact consistent_after_update F ps ps1 hwf hac hup

/-- The constructor keeps labels unique (dict semantics), so `WF` is not an extra assumption
    for constructed objects. -/
theorem ofList_labels_nodup (items : List Param) : WF (ofList items) :=
  ofList_wf items

/-- **After construction** (`__init__` behind from_list / from_dict / from_dataframe / the
    yml and csv loaders). -/
theorem consistent_after_construct (F : Funs) (items ps' : List Param) (hac : Acyclic (ofList items))
    (h : construct F items = .ok ps') : Consistent F ps' :=
  consistent_after_update F (ofList items) ps' (ofList_wf items) hac h

/-- **After `copy()`**. -/
theorem consistent_after_copy (F : Funs) (ps ps' : List Param) (hwf : WF ps) (hac : Acyclic ps)
    (h : copy F ps = .ok ps') : Consistent F ps' := by
  have hs : Same (ofList ps) ps := by
    rw [ofList_of_wf ps hwf]; exact map_normalize_same ps
  obtain ⟨order, ht⟩ := hac
  exact consistent_after_update F (ofList ps) ps' (ofList_wf ps) ⟨order, same_topo hs ht⟩ h

/-- **The consistent values are unique**: two states with the same labels and expressions that
    agree on everything that is not an expression parameter and are both consistent agree on
    every value.  So "the value of its expression" is well defined — it does not depend on
    how (in which order, from which stale values) it was reached. -/
theorem consistent_unique (F : Funs) (a b : List Param) (hwa : WF a) (hac : Acyclic a)
    (hs : Same b a) (hca : Consistent F a) (hcb : Consistent F b)
    (hfree : ∀ l, ¬ IsExprLabel a l → valueOf a l = valueOf b l) :
    ∀ l, valueOf a l = valueOf b l := by
  obtain ⟨order, ht⟩ := hac
  have hwb : WF b := same_wf hs hwa
  have key : ∀ n l, order.idxOf l = n → IsExprLabel a l → valueOf a l = valueOf b l := by
    intro n
    induction n using Nat.strongRecOn with
    | _ n ih =>
      intro l hn hx
      obtain ⟨p, hp, hpl, hpe⟩ := hx
      obtain ⟨e, he⟩ := Option.isSome_iff_exists.mp hpe
      obtain ⟨q, hq, hql, hqe⟩ := same_mem (same_symm hs) hp
      have hcongr : eval F a e = eval F b e := by
        apply eval_congr
        intro r hr
        by_cases hrx : IsExprLabel a r
        · have hlt := ht.2.2 p hp e he r hr hrx
          rw [hpl, hn] at hlt
          exact ih _ hlt r rfl hrx
        · exact hfree r hrx
      have h1 := hca p hp e he
      have h2 := hcb q hq e (by rw [hqe]; exact he)
      rw [hcongr, h2] at h1
      have hv : q.value = p.value := Except.ok.inj h1
      rw [← hpl, valueOf_of_mem hwa hp, ← hql, valueOf_of_mem hwb hq, hv]
  intro l
  by_cases hx : IsExprLabel a l
  · exact key _ l rfl hx
  · exact hfree l hx

/-- **Stale values do not matter**: the result of an update depends only on the values of the
    parameters without expression — not on what the expression parameters held before (NaN, an
    old value, anything). -/
theorem update_ignores_stale_expression_values (F : Funs) (a b a' b' : List Param) (hwa : WF a)
    (hac : Acyclic a) (hs : Same b a)
    (hfree : ∀ l, ¬ IsExprLabel a l → valueOf a l = valueOf b l)
    (ha : update F a = .ok a') (hb : update F b = .ok b') : ∀ l, valueOf a' l = valueOf b' l := by
  have hwb : WF b := same_wf hs hwa
  obtain ⟨order, ht⟩ := hac
  have hsa := (loop_same F _ a a' ha).1
  have hsb := (loop_same F _ b b' hb).1
  apply consistent_unique F a' b' (same_wf hsa hwa) ⟨order, same_topo hsa ht⟩
    (same_trans hsb (same_trans hs (same_symm hsa)))
    (consistent_after_update F a a' hwa ⟨order, ht⟩ ha)
    (consistent_after_update F b b' hwb ⟨order, same_topo hs ht⟩ hb)
  intro l hl
  have hla : ¬ IsExprLabel a l := fun hx => hl (same_isExprLabel (same_symm hsa) hx)
  have hlb : ¬ IsExprLabel b l := fun hx => hla (same_isExprLabel hs hx)
  rw [loop_nonexpr F _ a a' ha l hla, loop_nonexpr F _ b b' hb l hlb]
  exact hfree l hla

/-- **`Acyclic` is the usual notion**: any rank (depth) function that strictly decreases along
    references between expression parameters yields a topological order — so the hypothesis of
    the theorems above holds for every dependency graph without a cycle. -/
theorem acyclic_of_rank (ps : List Param) (r : String → Nat)
    (h : ∀ p ∈ ps, ∀ e, p.expr = some e → ∀ l ∈ e.refs, IsExprLabel ps l → r l < r p.label) :
    Acyclic ps := by
  let el := (ps.filter (fun p => p.expr.isSome)).map (·.label)
  let order := el.mergeSort (fun a b => decide (r a ≤ r b))
  have hsorted : order.Pairwise (fun a b => r a ≤ r b) := by
    have := List.pairwise_mergeSort (le := fun a b => decide (r a ≤ r b))
      (by intro a b c h1 h2; simp at h1 h2 ⊢; omega)
      (by intro a b; simp; omega) el
    simpa using this
  have hmem : ∀ l, l ∈ order ↔ IsExprLabel ps l := by
    intro l
    simp only [order, el, List.mem_mergeSort, List.mem_map, List.mem_filter]
    constructor
    · rintro ⟨p, ⟨hp, he⟩, hl⟩; exact ⟨p, hp, hl, he⟩
    · rintro ⟨p, hp, hl, he⟩; exact ⟨p, ⟨hp, he⟩, hl⟩
  refine ⟨order, ?_, ?_, ?_⟩
  · simp [order, el, exprCount, List.length_mergeSort]
  · intro p hp he; exact (hmem _).mpr ⟨p, hp, rfl, he⟩
  · intro p hp e he l hl hx
    have hlt := h p hp e he l hl hx
    have hpo : p.label ∈ order := (hmem _).mpr ⟨p, hp, rfl, by simp [he]⟩
    have hlo : l ∈ order := (hmem _).mpr hx
    apply Nat.lt_of_not_le
    intro hle
    have := rank_le_of_idxOf_le r order hsorted p.label l hpo hlo hle
    omega
/-! ### non-vacuity and the regression witness of D3 -/

/-- interpretation used in the examples: no function symbol is defined -/
def F0 : Funs := ⟨fun _ _ => none, fun _ _ _ => none⟩

/-- D3: `a = $b*2`, `b = $c+1`, `c = 3`, declared in this order, nothing computed yet -/
def d3 : List Param :=
  [ { label := "a", value := none, expr := some (.mul (.ref "b") (.lit 2)), vary := false },
    { label := "b", value := none, expr := some (.add (.ref "c") (.lit 1)), vary := false },
    { label := "c", value := some 3 } ]

example : WF d3 := by unfold WF labels; decide
example : Acyclic d3 := by
  refine ⟨["b", "a"], by decide, ?_, ?_⟩
  · intro p hp he
    simp only [d3, List.mem_cons, List.mem_nil_iff, or_false] at hp
    rcases hp with rfl | rfl | rfl <;> simp_all
  · intro p hp e he l hl hx
    simp only [d3, List.mem_cons, List.mem_nil_iff, or_false] at hp
    rcases hp with rfl | rfl | rfl
    · cases he; simp [Expr.refs] at hl; subst hl; decide
    · cases he; simp [Expr.refs] at hl; subst hl
      obtain ⟨q, hq, h1, h2⟩ := hx
      simp only [d3, List.mem_cons, List.mem_nil_iff, or_false] at hq
      rcases hq with rfl | rfl | rfl <;> simp_all
    · cases he

example : Acyclic d3 :=
  acyclic_of_rank d3 (fun l => if l = "a" then 2 else if l = "b" then 1 else 0) (by
    intro p hp e he l hl _
    simp only [d3, List.mem_cons, List.mem_nil_iff, or_false] at hp
    rcases hp with rfl | rfl | rfl
    · cases he; simp [Expr.refs] at hl; subst hl; decide
    · cases he; simp [Expr.refs] at hl; subst hl; decide
    · cases he)

/-- regression (D3): the single pass of the unfixed code leaves `a` stale (NaN) … -/
example : (passOnce F0 d3).toOption = some
    [ { label := "a", value := none, expr := some (.mul (.ref "b") (.lit 2)), vary := false },
      { label := "b", value := some 4, expr := some (.add (.ref "c") (.lit 1)), vary := false },
      { label := "c", value := some 3 } ] := by decide +kernel

/-- … the fixed update does not: a = 8, b = 4, c = 3, and a second update changes nothing. -/
example : (update F0 d3).toOption = some
    [ { label := "a", value := some 8, expr := some (.mul (.ref "b") (.lit 2)), vary := false },
      { label := "b", value := some 4, expr := some (.add (.ref "c") (.lit 1)), vary := false },
      { label := "c", value := some 3 } ] := by decide +kernel

example : ∀ ps', update F0 d3 = .ok ps' → update F0 ps' = .ok ps' :=
  fun ps' h => update_idempotent F0 d3 ps' (by unfold WF labels; decide) (by
    refine ⟨["b", "a"], by decide, ?_, ?_⟩
    · intro p hp he
      simp only [d3, List.mem_cons, List.mem_nil_iff, or_false] at hp
      rcases hp with rfl | rfl | rfl <;> simp_all
    · intro p hp e he l hl hx
      simp only [d3, List.mem_cons, List.mem_nil_iff, or_false] at hp
      rcases hp with rfl | rfl | rfl
      · cases he; simp [Expr.refs] at hl; subst hl; decide
      · cases he; simp [Expr.refs] at hl; subst hl
        obtain ⟨q, hq, h1, h2⟩ := hx
        simp only [d3, List.mem_cons, List.mem_nil_iff, or_false] at hq
        rcases hq with rfl | rfl | rfl <;> simp_all
      · cases he) h

/-- the optimiser's step on the D3 parameters: c := 5/2 gives b = 7/2, a = 7 -/
example : (setFromArrays F0 d3 ["c"] [some (5 / 2)]).toOption = some
    [ { label := "a", value := some 7, expr := some (.mul (.ref "b") (.lit 2)), vary := false },
      { label := "b", value := some (7 / 2), expr := some (.add (.ref "c") (.lit 1)), vary := false },
      { label := "c", value := some (5 / 2) } ] := by decide +kernel

/-- construction and copy of the D3 declaration (here `vary` is normalised by the constructor) -/
def d3done : List Param :=
  [ { label := "a", value := some 8, expr := some (.mul (.ref "b") (.lit 2)), vary := false },
    { label := "b", value := some 4, expr := some (.add (.ref "c") (.lit 1)), vary := false },
    { label := "c", value := some 3 } ]
example : (construct F0 d3).toOption = some d3done ∧ (copy F0 d3done).toOption = some d3done ∧
    valueOf d3done "a" = some (some 8) := by decide +kernel

/-- stale values do not matter: the same declaration with a = 100, b = -7 instead of NaN gives the
    same result (hypotheses of `update_ignores_stale_expression_values` are met by `d3`, `d3stale`) -/
def d3stale : List Param :=
  [ { label := "a", value := some 100, expr := some (.mul (.ref "b") (.lit 2)), vary := false },
    { label := "b", value := some (-7), expr := some (.add (.ref "c") (.lit 1)), vary := false },
    { label := "c", value := some 3 } ]
example : Same d3stale d3 ∧ (update F0 d3stale).toOption = some d3done ∧
    (update F0 d3).toOption = some d3done := by
  refine ⟨by unfold Same; decide, by decide +kernel, by decide +kernel⟩
example : ∀ l, ¬ IsExprLabel d3 l → valueOf d3 l = valueOf d3stale l := by
  intro l hl
  have h1 : ¬ "a" = l := fun e => hl ⟨_, List.mem_cons_self, e, rfl⟩
  have h2 : ¬ "b" = l := fun e => hl ⟨_, List.mem_cons_of_mem _ List.mem_cons_self, e, rfl⟩
  simp [valueOf, d3, d3stale, h1, h2]

/-- a cyclic definition is outside the theorems; the loop still terminates (two passes) -/
example : (update F0
    [ { label := "a", value := some 1, expr := some (.add (.ref "b") (.lit 1)) },
      { label := "b", value := some 2, expr := some (.add (.ref "a") (.lit 1)) } ]).toOption = some
    [ { label := "a", value := some 5, expr := some (.add (.ref "b") (.lit 1)) },
      { label := "b", value := some 6, expr := some (.add (.ref "a") (.lit 1)) } ] := by decide +kernel

/-! ## any dependency graph: what the bounded loop amounts to (cycles included) -/

/-- **`update_terminates`** — no assumption on the dependency graph: the loop of
    `update_parameter_expression` makes `k` passes for some `k` that is at most the number of
    expression parameters, the resulting values are those of exactly these `k` passes in
    declaration order, and the loop stopped before the bound only on a consistent state. -/
theorem update_terminates (F : Funs) (ps ps' : List Param) (hwf : WF ps) (h : update F ps = .ok ps') :
    ∃ k, k ≤ exprCount ps ∧ passes F k ps = .ok ps' ∧ (Consistent F ps' ∨ k = exprCount ps) :=
  loop_passes F (exprCount ps) ps ps' hwf h

/-- `a = $b + 1`, `b = $a + 1` with a = 1, b = 2 -/
def cyc2 : List Param :=
  [ { label := "a", value := some 1, expr := some (.add (.ref "b") (.lit 1)), vary := false },
    { label := "b", value := some 2, expr := some (.add (.ref "a") (.lit 1)), vary := false } ]

/-- what two passes make of it: a = 5, b = 6 -/
def cyc2done : List Param :=
  [ { label := "a", value := some 5, expr := some (.add (.ref "b") (.lit 1)), vary := false },
    { label := "b", value := some 6, expr := some (.add (.ref "a") (.lit 1)), vary := false } ]

example : ∃ k, k ≤ exprCount cyc2 ∧ passes F0 k cyc2 = .ok cyc2done ∧ (Consistent F0 cyc2done ∨ k = exprCount cyc2) :=
  update_terminates F0 cyc2 cyc2done (by unfold WF labels; decide) (by decide +kernel)

/-- **`cyclic_not_consistent_counterexample`** — `consistent_after_update` and `update_idempotent`
    need the acyclicity hypothesis: on the 2-cycle `a = $b + 1`, `b = $a + 1` the loop ends after
    two passes (the bound) with a = 5, b = 6, which is not consistent, and a second update changes
    the values again (a = 9, b = 10).  The harness replays this witness on the real code. -/
theorem cyclic_not_consistent_counterexample :
    WF cyc2 ∧ ¬ Acyclic cyc2 ∧ update F0 cyc2 = .ok cyc2done ∧ passes F0 2 cyc2 = .ok cyc2done ∧
    ¬ Consistent F0 cyc2done ∧ update F0 cyc2done ≠ .ok cyc2done := by
  refine ⟨by unfold WF labels; decide, ?_, by decide +kernel, by decide +kernel, ?_, by decide +kernel⟩
  · rintro ⟨order, _, _, h3⟩
    have hb : IsExprLabel cyc2 "b" := ⟨_, List.mem_cons_of_mem _ List.mem_cons_self, rfl, rfl⟩
    have ha : IsExprLabel cyc2 "a" := ⟨_, List.mem_cons_self, rfl, rfl⟩
    have h1 := h3 _ List.mem_cons_self _ rfl "b" (by simp [Expr.refs]) hb
    have h2 := h3 _ (List.mem_cons_of_mem _ List.mem_cons_self) _ rfl "a" (by simp [Expr.refs]) ha
    simp only at h1 h2
    omega
  · intro hc
    have := hc _ List.mem_cons_self _ rfl
    revert this
    decide +kernel

/-! ## a raising expression: which values are left (D26) -/

/-- **`failed_update_state`** — when `update_parameter_expression` raises, the object is left in
    the state reached so far: `k` complete passes were made (`k` below the bound), and in pass
    `k + 1` the expression of the parameter `p` raised; the state left behind is the state `mid`
    after the `k` passes in which exactly the expression parameters *declared before `p`* have been
    re-evaluated and stored as in a complete pass (`passAux … pre`), while `p` itself and every
    parameter declared after it are literally untouched — the expression parameters among them
    still hold the values of pass `k`. -/
theorem failed_update_state (F : Funs) (ps : List Param) (e : Err) (left : List Param) (hwf : WF ps)
    (h : update F ps = .error (e, left)) :
    ∃ k mid pre p post ex why ch pre',
      k < exprCount ps ∧ passes F k ps = .ok mid ∧ mid = pre ++ p :: post ∧
      p.expr = some ex ∧ e = .expr p.label why ∧
      passAux F pre mid false = .ok (left, ch) ∧ eval F left ex = .error why ∧
      left = pre' ++ p :: post ∧ pre'.map skel = pre.map skel := by
  obtain ⟨k, mid, hk, hpass, herr⟩ := loop_error F _ ps e left h
  obtain ⟨pre, p, post, ex, why, ch, h1, h2, h3, h4, h5⟩ := passAux_error_split F mid mid false e left herr
  have hwm : WF mid := same_wf (passes_same F k ps mid hpass).1 hwf
  have hdis : ∀ q ∈ pre, q.label ∉ labels (p :: post) := by
    intro q hq hmem
    have hnd : (labels pre ++ labels (p :: post)).Nodup := by
      have : labels mid = labels pre ++ labels (p :: post) := by rw [h1]; simp [labels]
      rw [← this]; exact hwm
    exact (List.nodup_append.mp hnd).2.2 q.label (List.mem_map.mpr ⟨q, hq, rfl⟩) q.label hmem rfl
  have h3' := h3
  rw [h1] at h3'
  obtain ⟨pre', hl, hsk⟩ := passAux_tail F pre pre (p :: post) false left ch hdis (by rw [← h1] at h3' ⊢; exact h3)
  exact ⟨k, mid, pre, p, post, ex, why, ch, pre', hk, hpass, h1, h2, h5, h3, h4, hl, hsk⟩

/-- D26: `a = 2 + 1/$b` declared before `b = $c - 1`; consistent for c = 2 (a = 3, b = 1), then c := 1 -/
def d26 : List Param :=
  [ { label := "a", value := some 3, expr := some (.add (.lit 2) (.div (.lit 1) (.ref "b"))), vary := false },
    { label := "b", value := some 1, expr := some (.sub (.ref "c") (.lit 1)), vary := false },
    { label := "c", value := some 1 } ]

/-- the first pass stores a = 3 (from the stale b = 1) and b = 0, the second raises at `a`:
    a keeps 3, b = 0 stays behind -/
def d26left : List Param :=
  [ { label := "a", value := some 3, expr := some (.add (.lit 2) (.div (.lit 1) (.ref "b"))), vary := false },
    { label := "b", value := some 0, expr := some (.sub (.ref "c") (.lit 1)), vary := false },
    { label := "c", value := some 1 } ]

example : WF d26 ∧ update F0 d26 = .error (.expr "a" .divZero, d26left) ∧ passes F0 1 d26 = .ok d26left :=
  ⟨by unfold WF labels; decide, by decide +kernel, by decide +kernel⟩

/-- **what is left is stale** — the state a raising update leaves behind is in general not
    consistent, and it matters: from it, the values c = 2 (for which every expression is defined:
    a fresh object gives a = 3, b = 1) raise as well, because the first pass evaluates `a` with the
    b = 0 left behind.  (This is D26, recorded under C10.) -/
theorem failed_update_leaves_stale_counterexample :
    update F0 d26 = .error (.expr "a" .divZero, d26left) ∧ ¬ Consistent F0 d26left ∧
    setFromArrays F0 d26left ["c"] [some 2] = .error (.expr "a" .divZero, setValue d26left "c" (some 2)) ∧
    setFromArrays F0 d26 ["c"] [some 2] = .ok (setValue d26 "c" (some 2)) := by
  refine ⟨by decide +kernel, ?_, by decide +kernel, by decide +kernel⟩
  intro hc
  have := hc _ List.mem_cons_self _ rfl
  revert this
  decide +kernel

section Rewriting
open Generated
/-! ## the `$label` rewriting (`PARAMETER_EXPRESSION_REGEX`, `set_transformed_expression`) -/

/-- (regenerated constants) the pattern in the source still has the shape the scanner models — a
    literal sigil, one capture group with a greedy `class+`, optionally the trailer
    `((?!class+)|$)` — and the sigil is not a class character. -/
theorem source_regex_has_modelled_shape :
    (shape = "sigil-class+-trailer" ∨ shape = "sigil-class+") ∧ isTok sigil = false := by decide

/-- (regenerated constants) on ASCII the class of the pattern is exactly the set of characters a
    valid parameter label is made of (`[A-Za-z0-9_.]`): every declared label is a run of class
    characters, and `)`, operators, `,`, blanks end it. -/
theorem class_on_ascii_is_label_chars : ∀ n, n < 128 → isTokN n = labelCharN n := by decide

/-- (regenerated constants) the replacement wraps the label in one pair of quote characters that
    occur nowhere else in it, and the quote is not a class character. -/
theorem template_wellformed :
    templatePrefix = templatePrefix.dropLast ++ [quoteChar] ∧ quoteChar ∉ templatePrefix.dropLast ∧
    templateSuffix = quoteChar :: templateSuffix.tail ∧ quoteChar ∉ templateSuffix.tail ∧
    isTok quoteChar = false := by decide

/-- **The engine never backtracks**: a match attempt succeeds iff the sigil is followed by a class
    character, and then the group is the *maximal* run — with or without the trailer. -/
theorem matchAt_is_maximal_munch (c : Char) (r : List Char) :
    matchAt (c :: r) =
      if c = sigil ∧ headTok r = true then some (r.takeWhile isTok, r.dropWhile isTok) else none :=
  matchAt_eq c r

example : matchAt [sigil, 'a', '.', '1', ')', 'b'] = some (['a', '.', '1'], [')', 'b']) ∧
    matchAt [sigil, ')'] = none ∧ matchAt ['a', 'b'] = none := by decide +kernel

/-- every text has exactly one tokenisation in the declarative sense, the one `finditer` finds -/
theorem tokenisation_exists_unique (s : List Char) :
    Tokenises s (scan s) ∧ ∀ segs, Tokenises s segs → segs = scan s :=
  ⟨tokenises_scan s.length s (Nat.le_refl _), fun _ h => tokenises_unique h⟩

/-- **`rewrite_spec`** — every maximal `$`+label token is replaced by the lookup text of exactly
    that label, every other character is copied; `findall` returns exactly these labels; the
    segments spell the original text. -/
theorem rewrite_spec (s : List Char) (segs : List Seg) (h : Tokenises s segs) :
    rewriteL s = segs.flatMap Seg.out ∧ labelsOf s = segs.filterMap Seg.label? ∧
    segs.flatMap Seg.src = s := by
  have := tokenises_unique h
  subst this
  exact ⟨rfl, rfl, tokenises_src h⟩

/-- `$b.1*$b` -/
def demoText : List Char := [sigil, 'b', '.', '1', '*', sigil, 'b']

example : Tokenises demoText [.var ['b', '.', '1'], .plain '*', .var ['b']] :=
  .var (l := ['b', '.', '1']) (r := ['*', sigil, 'b']) (by decide) (by decide) (by decide)
    (.plain (by decide) (.var (l := ['b']) (r := []) (by decide) (by decide) (by decide) .nil))

/-- with the template of the source at the time of writing this is
    `parameters.get('b.1').value*parameters.get('b').value` -/
example : rewriteL demoText = lookupText ['b', '.', '1'] ++ '*' :: lookupText ['b'] ∧
    labelsOf demoText = [['b', '.', '1'], ['b']] := by decide +kernel

/-- the rewriting is compositional at every place where the continuation does not start with a
    class character (in particular in front of every sigil) -/
theorem rewrite_append (pre y : List Char) (hy : headTok y = false) :
    rewriteL (pre ++ y) = rewriteL pre ++ rewriteL y ∧ labelsOf (pre ++ y) = labelsOf pre ++ labelsOf y := by
  unfold rewriteL labelsOf
  rw [scan_append pre y hy]
  simp

example : rewriteL ([sigil, 'a'] ++ [')', sigil, 'b']) = rewriteL [sigil, 'a'] ++ rewriteL [')', sigil, 'b'] :=
  (rewrite_append [sigil, 'a'] [')', sigil, 'b'] (by decide)).1

/-- **`rewrite_no_prefix_capture`** — a label `l₁` that is a proper prefix of the label `l₁ ++ l₂`
    is never matched inside the longer one: wherever `$l₁l₂` stands (any text in front, anything
    that does not continue the label behind), exactly the longer label is found and looked up, and
    the text produced there is not the lookup of the shorter label followed by something. -/
theorem rewrite_no_prefix_capture (pre l₁ l₂ post : List Char) (h2 : l₂ ≠ [])
    (ht1 : ∀ c ∈ l₁, isTok c = true) (ht2 : ∀ c ∈ l₂, isTok c = true) (hp : headTok post = false) :
    rewriteL (pre ++ sigil :: (l₁ ++ l₂ ++ post)) = rewriteL pre ++ lookupText (l₁ ++ l₂) ++ rewriteL post ∧
    labelsOf (pre ++ sigil :: (l₁ ++ l₂ ++ post)) = labelsOf pre ++ (l₁ ++ l₂) :: labelsOf post ∧
    ¬ (lookupText l₁ <+: lookupText (l₁ ++ l₂) ++ rewriteL post) := by
  have hsig : headTok (sigil :: (l₁ ++ l₂ ++ post)) = false := source_regex_has_modelled_shape.2
  have hne : l₁ ++ l₂ ≠ [] := by simp [h2]
  have hall : ∀ c ∈ l₁ ++ l₂, isTok c = true := by
    intro c hc
    rcases List.mem_append.mp hc with h | h
    · exact ht1 c h
    · exact ht2 c h
  have htok := scan_token hne hall hp
  obtain ⟨ha1, ha2⟩ := rewrite_append pre _ hsig
  refine ⟨?_, ?_, ?_⟩
  · rw [ha1]; unfold rewriteL; rw [htok]; simp [Seg.out]
  · rw [ha2]; unfold labelsOf; rw [htok]; simp [Seg.label?]
  · intro hpre
    obtain ⟨_, _, hs, _, hq⟩ := template_wellformed
    unfold lookupText at hpre
    rw [List.append_assoc, List.append_assoc, List.append_assoc, List.append_assoc,
      List.prefix_append_right_inj, List.prefix_append_right_inj] at hpre
    cases l₂ with
    | nil => exact h2 rfl
    | cons d l₂ =>
      rw [hs] at hpre
      have hd : quoteChar = d := by
        obtain ⟨t, ht⟩ := hpre
        simp only [List.cons_append, List.cons.injEq] at ht
        exact ht.1
      have := ht2 d List.mem_cons_self
      rw [← hd, hq] at this
      cases this

example : labelsOf ([sigil, 'k', '1', '0', '+', sigil, 'k', '1']) = [['k', '1', '0'], ['k', '1']] := by decide +kernel

/-- `$k1 * $k10`: the hypotheses are met by `l₁ = k1`, `l₂ = 0`, nothing behind -/
example : labelsOf ([sigil, 'k', '1', ' ', '*', ' '] ++ sigil :: (['k', '1'] ++ ['0'] ++ [])) =
    labelsOf [sigil, 'k', '1', ' ', '*', ' '] ++ (['k', '1'] ++ ['0']) :: labelsOf [] :=
  (rewrite_no_prefix_capture [sigil, 'k', '1', ' ', '*', ' '] ['k', '1'] ['0'] [] (by decide) (by decide) (by decide)
    (by decide)).2.1

/-- `sub` with the template is `sub` with the function `label ↦ lookup text` -/
theorem rewriteL_eq_substL (s : List Char) : rewriteL s = substL lookupText s := by
  have h : Seg.out = Seg.outWith lookupText := by
    funext seg
    cases seg <;> rfl
  unfold rewriteL substL
  rw [h]

/-- **`subst_spec`** — substitution by any function of the label (`Parameter.markdown`, as fixed)
    replaces exactly the tokens of the declarative reading. -/
theorem subst_spec (f : List Char → List Char) (s : List Char) (segs : List Seg) (h : Tokenises s segs) :
    substL f s = segs.flatMap (Seg.outWith f) := by
  have := tokenises_unique h
  subst this
  rfl

/-- … and never the beginning of a longer label: at `$l₁l₂` the function is applied to `l₁ ++ l₂`.
    (Before the fix `Parameter.markdown` used `str.replace("$l₁", …)`, which rewrote `$l₁` inside
    `$l₁l₂`: for `$b + $b1` it printed the value of `b` twice.) -/
theorem subst_no_prefix_capture (f : List Char → List Char) (pre l₁ l₂ post : List Char) (h2 : l₂ ≠ [])
    (ht1 : ∀ c ∈ l₁, isTok c = true) (ht2 : ∀ c ∈ l₂, isTok c = true) (hp : headTok post = false) :
    substL f (pre ++ sigil :: (l₁ ++ l₂ ++ post)) = substL f pre ++ f (l₁ ++ l₂) ++ substL f post := by
  have hsig : headTok (sigil :: (l₁ ++ l₂ ++ post)) = false := source_regex_has_modelled_shape.2
  have hne : l₁ ++ l₂ ≠ [] := by simp [h2]
  have hall : ∀ c ∈ l₁ ++ l₂, isTok c = true := by
    intro c hc
    rcases List.mem_append.mp hc with h | h
    · exact ht1 c h
    · exact ht2 c h
  unfold substL
  rw [scan_append pre _ hsig, scan_token hne hall hp]
  simp [Seg.outWith]

/-- the regression witness of the markdown defect: `$b + $b1` with `b ↦ B`, `b1 ↦ X` -/
example : substL (fun l => if l = ['b'] then ['B'] else ['X']) [sigil, 'b', ' ', '+', ' ', sigil, 'b', '1'] =
    ['B', ' ', '+', ' ', 'X'] := by decide +kernel

/-- **every declared label can be referenced, nested labels included**: a valid label behind the
    sigil, followed by the end of the text or anything that is not a class character (`)`, an
    operator, a blank, a comma), is found and looked up as a whole. -/
theorem rewrite_valid_label (pre l post : List Char) (hl : ValidLabel l) (hp : headTok post = false) :
    rewriteL (pre ++ sigil :: (l ++ post)) = rewriteL pre ++ lookupText l ++ rewriteL post ∧
    labelsOf (pre ++ sigil :: (l ++ post)) = labelsOf pre ++ l :: labelsOf post := by
  have hall : ∀ c ∈ l, isTok c = true := by
    intro c hc
    obtain ⟨h1, h2⟩ := hl.2 c hc
    unfold isTok
    rw [class_on_ascii_is_label_chars _ h1]; exact h2
  have hsig : headTok (sigil :: (l ++ post)) = false := source_regex_has_modelled_shape.2
  have htok := scan_token hl.1 hall hp
  obtain ⟨ha1, ha2⟩ := rewrite_append pre _ hsig
  refine ⟨?_, ?_⟩
  · rw [ha1]; unfold rewriteL; rw [htok]; simp [Seg.out]
  · rw [ha2]; unfold labelsOf; rw [htok]; simp [Seg.label?]

example : ValidLabel ['r', 'a', 't', 'e', 's', '.', 'k', '.', '1'] := by
  refine ⟨by decide, ?_⟩
  decide

/-- a text without the sigil is left as it is and references nothing -/
theorem rewrite_without_sigil (s : List Char) (h : sigil ∉ s) : rewriteL s = s ∧ labelsOf s = [] := by
  induction s with
  | nil => exact ⟨rfl, rfl⟩
  | cons c r ih =>
    have hc : c ≠ sigil := fun e => h (by simp [e])
    have hr := ih (fun e => h (List.mem_cons_of_mem _ e))
    have hplain : ¬ (c = sigil ∧ headTok r = true) := fun e => hc e.1
    unfold rewriteL labelsOf at hr ⊢
    rw [scan_cons_plain hplain]
    refine ⟨?_, ?_⟩
    · simp [Seg.out, hr.1]
    · rw [List.filterMap_cons]
      simp only [Seg.label?]
      exact hr.2

example : sigil ∉ ['1', '+', 'a', '.', 'b'] ∧ rewriteL ['1', '+', 'a', '.', 'b'] = ['1', '+', 'a', '.', 'b'] :=
  ⟨by decide, (rewrite_without_sigil _ (by decide)).1⟩

/-- **`labels_of_rewrite`** — the labels a transformed expression looks up (the quoted arguments
    of its `parameters.get('…')`, read back from the produced text) are exactly the tokens the
    pattern finds in the expression, in order and with multiplicity — provided the expression does
    not contain the quote character itself. -/
theorem labels_of_rewrite (s : List Char) (h : quoteChar ∉ s) : quoted (rewriteL s) = labelsOf s := by
  obtain ⟨hp, hpn, hs, hsn, hq⟩ := template_wellformed
  have hmem := tokenises_members (tokenises_scan s.length s (Nat.le_refl _))
  have key : ∀ segs : List Seg, (∀ c, Seg.plain c ∈ segs → c ≠ quoteChar) →
      (∀ l, Seg.var l ∈ segs → quoteChar ∉ l) →
      quotedAux quoteChar (segs.flatMap Seg.out) none = segs.filterMap Seg.label? := by
    intro segs
    induction segs with
    | nil => intro _ _; rfl
    | cons seg rest ih =>
      intro h1 h2
      have ihr := ih (fun c hc => h1 c (List.mem_cons_of_mem _ hc)) (fun l hl => h2 l (List.mem_cons_of_mem _ hl))
      cases seg with
      | plain c =>
        have hc := h1 c List.mem_cons_self
        simp only [List.flatMap_cons, Seg.out, List.cons_append, List.nil_append, quotedAux, hc, if_false,
          List.filterMap_cons, Seg.label?]
        exact ihr
      | var l =>
        have hl := h2 l List.mem_cons_self
        simp only [List.flatMap_cons, Seg.out, lookupText, List.filterMap_cons, Seg.label?]
        rw [hp, hs]
        simp only [List.append_assoc, List.cons_append, List.nil_append]
        rw [quotedAux_skip _ _ _ hpn]
        simp only [quotedAux, if_true]
        rw [quotedAux_close _ _ _ _ hl, quotedAux_skip _ _ _ hsn, ihr]
        simp
  unfold quoted rewriteL labelsOf
  apply key
  · intro c hc e
    exact h (e ▸ hmem.1 c hc)
  · intro l hl e
    have := (hmem.2 l hl).2 _ e
    rw [hq] at this; cases this

example : quoteChar ∉ demoText ∧ quoted (rewriteL demoText) = [['b', '.', '1'], ['b']] := by decide +kernel

/-- the hypothesis is needed: an expression that spells a lookup itself (`parameters.get('c').value`)
    depends on a parameter the pattern does not find -/
example : labelsOf (lookupText ['c']) = [] ∧ quoted (rewriteL (lookupText ['c'])) = [['c']] := by decide +kernel

end Rewriting

section GeneratedFunctions
open Py
/-! ## the functions regenerated from the source (GlotaranModel/Generated/C12Fns.lean)

The definitions `Gen.*` are the translator's statement-by-statement transcription of
`Parameters.update_parameter_expression`, `Parameters.__init__`, `Parameters.copy`, `Parameters.all`,
`Parameter.copy` and `set_transformed_expression` over the Python-level objects of `C12Py.lean`
(expression *texts*, bounds, the dict keyed by label).  `absAll P` is the model's view of such a dict
(`P` = asteval's reading of a transformed text, a parameter). -/

/-- **`generated_update_eq_model`** — the translated loop of `update_parameter_expression` (list of
    expression parameters taken once, one outer iteration per expression parameter, inner pass in
    declaration order storing every value at once, `!=` change detection, `break` on a quiet pass,
    `ValueError` when asteval hands back `None`) is the model's `update` — for every dict of any
    size, any declaration order, any dependency graph (cycles included: same bound on the number of
    passes), any bounds / flags, and also when an evaluation fails (same error, same state left). -/
theorem generated_update_eq_model (F : Funs) (P : Parser) (self : Dict) :
    absRes P (Gen.update_parameter_expression F P self) = update F (absAll P self) :=
  update_eq F P self

/-- reading of the example texts: `"B"` ↦ `$b*2`, `"C"` ↦ `$c+1` (any other text: the literal 0) -/
def P0 : Parser := ⟨fun t =>
  if t = some "B" then .mul (.ref "b") (.lit 2) else if t = some "C" then .add (.ref "c") (.lit 1) else .lit 0⟩

/-- D3 as Python-level objects; `a` carries bounds its value will violate -/
def d3py : Dict :=
  [ { label := "a", value := none, expression := some "$b*2", transformed_expression := some "B", vary := false,
      minimum := some 0, maximum := some 1 },
    { label := "b", value := none, expression := some "$c+1", transformed_expression := some "C", vary := false },
    { label := "c", value := some 3 } ]

example : absAll P0 d3py = d3 := by decide +kernel
example : (Gen.update_parameter_expression F0 P0 d3py).toOption.map (·.map (·.value)) = some [some 8, some 4, some 3] := by
  decide +kernel

/-- **`generated_init_eq_model`** — `Parameters.__init__` stores the dict, binds the interpreter's
    symbol (the very identifier the replacement template starts with) to the object itself and runs
    exactly one update: on the dict built from `items` it is the model's `construct`. -/
theorem generated_init_eq_model (F : Funs) (P : Parser) (d : Dict) (items : List Param)
    (h : absAll P d = ofList items) :
    absRes P (Gen.Parameters_init F P d) = construct F items ∧ Gen.Parameters_evaluator_symbols = [templateRoot] := by
  refine ⟨?_, by decide⟩
  unfold construct
  rw [← h]
  exact init_eq F P d

example : absAll P0 d3py = ofList d3 := by decide +kernel

/-- **`generated_set_transformed_expression_eq_model`** — the validator of `expression`: for a truthy
    text the parameter stops varying and the transformed text is the model's `rewrite` of the text
    (`PARAMETER_EXPRESSION_REGEX.sub` with the template of the source, group reference expanded);
    otherwise nothing happens.  On the model's view this is `normalize`. -/
theorem generated_set_transformed_expression_eq_model (P : Parser) (p : Py.Parameter) (e : Option String) :
    Gen.set_transformed_expression p () e =
      (if Py.truthy e then { p with vary := false, transformed_expression := e.map rewrite } else p) ∧
    (e ≠ some "" →
      (Gen.set_transformed_expression { p with expression := e, transformed_expression := none } () e).abs P =
        normalize (({ p with expression := e, transformed_expression := e.map rewrite } : Py.Parameter).abs P) ∧
      Synced (Gen.set_transformed_expression { p with expression := e, transformed_expression := none } () e)) := by
  refine ⟨ste_eq p e, ?_⟩
  intro hne
  rw [ste_eq]
  cases e with
  | none => simp [Py.truthy, Parameter.abs, normalize, Synced]
  | some s =>
    have hs : s ≠ "" := fun h => hne (by rw [h])
    have ht : Py.truthy (some s) = true := by simp [Py.truthy, hs]
    simp [ht, Parameter.abs, normalize, Synced]

example : (Gen.set_transformed_expression { label := "a", value := none } () (some "$b.1*2")).transformed_expression =
    some "parameters.get('b.1').value*2" := by decide +kernel

/-- **`generated_copy_eq_model`** — `Parameters.copy`: every parameter is re-created by
    `attrs.evolve` (the validator runs again: transformed text recomputed, `vary` cleared), the new
    dict is keyed and ordered like the old one, and `__init__` **re-evaluates** every expression — the
    model's `copy`.  Hypotheses: the objects are as their constructor leaves them (`Synced`) and no
    expression is the empty text. -/
theorem generated_copy_eq_model (F : Funs) (P : Parser) (self : Dict)
    (h : ∀ p ∈ self, Synced p ∧ NoEmptyExpr p) :
    absRes P (Gen.Parameters_copy F P self) = copy F (absAll P self) := by
  unfold Gen.Parameters_copy copy construct ofList Py.dictOf
  rw [init_eq, absAll_dictOf_copy P self [] h]
  rfl

/-- the copy of a consistent-or-not object is consistent: the copy re-evaluates -/
theorem generated_copy_consistent (F : Funs) (P : Parser) (self new : Dict)
    (h : ∀ p ∈ self, Synced p ∧ NoEmptyExpr p) (hwf : WF (absAll P self)) (hac : Acyclic (absAll P self))
    (hc : Gen.Parameters_copy F P self = .ok new) : Consistent F (absAll P new) := by
  have := generated_copy_eq_model F P self h
  rw [hc] at this
  exact consistent_after_copy F _ _ hwf hac this.symm

/-- the same objects with the transformed texts the validator really produces -/
def d3real : Dict :=
  [ { label := "a", value := some 100, expression := some "$b*2", transformed_expression := some "parameters.get('b').value*2",
      vary := false },
    { label := "b", value := none, expression := some "$c+1", transformed_expression := some "parameters.get('c').value+1",
      vary := false },
    { label := "c", value := some 3 } ]

def P1 : Parser := ⟨fun t =>
  if t = some "parameters.get('b').value*2" then .mul (.ref "b") (.lit 2)
  else if t = some "parameters.get('c').value+1" then .add (.ref "c") (.lit 1) else .lit 0⟩

example : ∀ p ∈ d3real, Synced p ∧ NoEmptyExpr p := by
  intro p hp
  simp only [d3real, List.mem_cons, List.mem_nil_iff, or_false] at hp
  rcases hp with rfl | rfl | rfl <;> refine ⟨by unfold Synced; decide +kernel, by unfold NoEmptyExpr; decide⟩

/-- a stale `a = 100` is replaced by 8 in the copy -/
example : (Gen.Parameters_copy F0 P1 d3real).toOption.map (·.map (·.value)) = some [some 8, some 4, some 3] := by
  decide +kernel

/-- a reading under which asteval called with `None` yields `None` (an undefined call) -/
def PNone : Parser := ⟨fun t => if t = none then .call1 "None" (.lit 0) else .lit 0⟩

/-- **the empty expression text** is outside `generated_copy_eq_model`: `expression = ""` is not `None`
    (so `update_parameter_expression` evaluates the parameter) but falsy (so the validator leaves
    `vary` and the transformed text alone): asteval is called with `None`, and construction raises. -/
theorem empty_expression_text_counterexample :
    let p : Py.Parameter := { label := "a", value := some 1, expression := some "" }
    Gen.set_transformed_expression p () p.expression = p ∧ ¬ NoEmptyExpr p ∧
    (Gen.Parameter_copy p).abs PNone ≠ normalize (p.abs PNone) ∧
    Gen.Parameters_init F0 PNone [p] = .error (.expr "a" (.call "None" [some 0]), [p]) := by
  refine ⟨by decide +kernel, by unfold NoEmptyExpr; decide, by decide +kernel, by decide +kernel⟩

/-- **`generated_default_value_is_nan`** — a parameter declared without a number starts as NaN
    (`value: float = ib(default=np.nan …)`), and it does not matter: the values after construction do
    not depend on what the expression parameters held before (`update_ignores_stale_expression_values`). -/
theorem generated_default_value_is_nan (F : Funs) (P : Parser) (a b a' b' : Dict)
    (hwa : WF (absAll P a)) (hac : Acyclic (absAll P a)) (hs : Same (absAll P b) (absAll P a))
    (hfree : ∀ l, ¬ IsExprLabel (absAll P a) l → valueOf (absAll P a) l = valueOf (absAll P b) l)
    (ha : Gen.Parameters_init F P a = .ok a') (hb : Gen.Parameters_init F P b = .ok b') :
    Gen.Parameter_value_default = (none : Val) ∧ ∀ l, valueOf (absAll P a') l = valueOf (absAll P b') l := by
  refine ⟨rfl, ?_⟩
  have h1 := init_eq F P a
  have h2 := init_eq F P b
  rw [ha] at h1
  rw [hb] at h2
  exact update_ignores_stale_expression_values F _ _ _ _ hwa hac hs hfree h1.symm h2.symm

/-! ### bounds, flags, short labels, exported values -/

/-- **`expression_value_ignores_bounds`** — the value of an expression parameter is its expression
    value whatever its bounds (and `non_negative`, `vary`) say: the translated code never looks at
    `minimum` / `maximum`, so after a successful update of an acyclic dict every expression parameter
    holds exactly the value of its expression on the current values, and any dict that differs only
    in what the model's view forgets (the bounds) gets the same values. -/
theorem expression_value_ignores_bounds (F : Funs) (P : Parser) (a a' : Dict) (hwf : WF (absAll P a))
    (hac : Acyclic (absAll P a)) (h : Gen.update_parameter_expression F P a = .ok a') :
    (∀ p ∈ a', p.expression.isSome → eval F (absAll P a') (P.parse p.transformed_expression) = .ok p.value) ∧
    (∀ b, absAll P b = absAll P a → absRes P (Gen.update_parameter_expression F P b) = .ok (absAll P a')) := by
  have hm := generated_update_eq_model F P a
  rw [h] at hm
  have hc := consistent_after_update F _ _ hwf hac hm.symm
  refine ⟨?_, ?_⟩
  · intro p hp he
    obtain ⟨s, hs⟩ := Option.isSome_iff_exists.mp he
    exact hc (p.abs P) (List.mem_map_of_mem hp) (P.parse p.transformed_expression) (by simp [Parameter.abs, hs])
  · intro b hb
    rw [generated_update_eq_model, hb]; exact hm.symm

/-- `a = $b*2` with `maximum = 1` ends at 8 — outside its bounds -/
example : ((Gen.update_parameter_expression F0 P0 d3py).toOption.bind (·.head?)).map (fun p => (p.value, p.maximum)) =
    some (some 8, some 1) := by decide +kernel

/-- the part of a label behind its last dot (`Parameter.label_short`) -/
def shortLabel (l : String) : String := String.ofList (l.toList.reverse.takeWhile (· ≠ '.')).reverse

/-- **`short_label_irrelevant`** — evaluation looks parameters up by their *whole* label: changing the
    value of any parameter that the expression does not reference by its full label — in particular
    one that shares the last component (`rates.k.1` / `irf.c.1`) — does not change the value of the
    expression.  (With `rewrite_valid_label`: the whole nested label is what the rewriting looks up.) -/
theorem short_label_irrelevant (F : Funs) (env : List Param) (e : Expr) (l : String) (v : Val)
    (h : l ∉ e.refs) : eval F (setValue env l v) e = eval F env e := by
  apply eval_congr
  intro r hr
  have hne : r ≠ l := fun e' => h (e' ▸ hr)
  rw [valueOf_setValue]
  simp [hne]

/-- two groups with the same short labels: `x.1 = $rates.k.1 * 2`, `y.1 = $irf.c.1 + 1` -/
def shortDemo : List Param :=
  [ { label := "x.1", value := none, expr := some (.mul (.ref "rates.k.1") (.lit 2)) },
    { label := "y.1", value := none, expr := some (.add (.ref "irf.c.1") (.lit 1)) },
    { label := "rates.k.1", value := some 3 }, { label := "irf.c.1", value := some 10 } ]

example : shortLabel "rates.k.1" = shortLabel "irf.c.1" ∧ shortLabel "x.1" = "1" ∧
    ((update F0 shortDemo).toOption.map (·.map (·.value))) = some [some 6, some 11, some 3, some 10] ∧
    "irf.c.1" ∉ (Expr.mul (.ref "rates.k.1") (.lit 2)).refs := by decide +kernel

/-- the rows an export without update shows (`to_dataframe`, `to_parameter_dict_list`, `copy` of
    the objects): label and stored value of every parameter, in declaration order -/
def exported (ps : List Param) : List (String × Val) := ps.map (fun p => (p.label, p.value))

/-- **`exported_values_settled`** — every API that hands values out shows settled values: after
    construction, `set_from_label_and_value_arrays`, `get_label_value_and_bounds_arrays` (what a
    history row is made of) or `copy`, each exported row of an expression parameter is the value of
    its expression on the exported rows themselves. -/
theorem exported_values_settled (F : Funs) (ps : List Param) (hc : Consistent F ps) :
    ∀ p ∈ ps, ∀ e, p.expr = some e →
      (p.label, p.value) ∈ exported ps ∧
      eval F (ps.map (fun q => ({ label := q.label, value := q.value } : Param))) e = .ok p.value := by
  intro p hp e he
  refine ⟨List.mem_map_of_mem (f := fun p => (p.label, p.value)) hp, ?_⟩
  rw [← hc p hp e he]
  apply eval_congr
  intro l _
  clear hc hp
  induction ps with
  | nil => rfl
  | cons q rest ih => simp only [List.map_cons, valueOf]; split <;> simp_all

example : Consistent F0 d3done ∧ exported d3done = [("a", some 8), ("b", some 4), ("c", some 3)] := by
  refine ⟨?_, by decide +kernel⟩
  intro p hp e he
  simp only [d3done, List.mem_cons, List.mem_nil_iff, or_false] at hp
  rcases hp with rfl | rfl | rfl
  · cases he; decide +kernel
  · cases he; decide +kernel
  · cases he

end GeneratedFunctions

end Glotaran.C12
