/-
C13 — fit statistics are consistent with each other and with the reported data.
Property theorems about `Glotaran.C13` (lean/GlotaranModel/C13.lean), which is built on the C02 model of
the objective (`objective`, `groupPenaltyParts`, `unlinkedProblems`, `linkedProblems`), the C03 model of the
result datasets (`groupResults`) and the C11 model of the standard-error loop (`seValue`).
Helper lemmas: GlotaranProofs/Lemmas/C13.lean (sums, labels), C13Linked.lean (linked groups, legacy layout), C13Own.lean
(alignment tables via C09, own-order layout of the repaired code, full-model shapes), C13Cov.lean (matrices).
Result datasets are `C03.resultsOwn` / `C03.groupResultsOwn` — the layout of the code after fix D27, the one the
drivers of C03 and C13 execute.
-/
import GlotaranProofs.Lemmas.C13
import GlotaranProofs.Lemmas.C13Cov
import GlotaranProofs.Lemmas.C13Linked
import GlotaranProofs.Lemmas.C13Own
import GlotaranProofs.Lemmas.C11
import GlotaranProofs.Lemmas.C13Gen
import GlotaranModel.Generated.C13Fns
import Mathlib.Analysis.Real.Sqrt
namespace Glotaran.C13
open Glotaran.LinAlg Glotaran.C02 Matrix

/-! ### 1. number of residuals -/

/-- **`number_of_residuals` = Σ over groups (entries of the residual part + number of penalties)**, the penalties
    being exactly the ones reported as `additional_penalty`. -/
theorem residual_count (mi : ModelItems) (gs : List Group) (k : Nat) (st : Stats)
    (h : createStats mi gs k = some st) :
    ∃ parts, gs.mapM (groupPenaltyParts mi) = some parts ∧
      additionalPenalty mi gs = some (parts.map (·.2)) ∧
      st.nResiduals = (parts.map (fun p => p.1.length)).sum + (parts.map (fun p => p.2.length)).sum := by
  obtain ⟨f, c, hf, _, rfl⟩ := createStats_some mi gs k st h
  obtain ⟨parts, hparts, rfl⟩ := objective_parts mi gs f hf
  refine ⟨parts, hparts, by simp [additionalPenalty, hparts], ?_⟩
  rw [stats_n, List.length_flatten, List.map_map]
  clear hparts hf h
  induction parts with
  | nil => rfl
  | cons p ps ih => simp only [List.map_cons, List.sum_cons, Function.comp, List.length_append, ih]; omega

/-- **every data point counts once**: unlinked groups of shape-consistent datasets — with or without a global model
    (`GlobalOK`: every global megacomplex matrix is 2-D with a row per global index) —
    `number_of_residuals` = Σ_datasets |model axis| · |global axis| + number of penalties. -/
theorem residual_count_unlinked (mi : ModelItems) (gs : List Group) (k : Nat) (st : Stats)
    (hl : ∀ g ∈ gs, g.linked = false) (hg : ∀ g ∈ gs, ∀ d ∈ g.datasets, GlobalOK d)
    (hwf : ∀ g ∈ gs, ∀ d ∈ g.datasets, d.WF)
    (h : createStats mi gs k = some st) :
    ∃ pens, additionalPenalty mi gs = some pens ∧
      st.nResiduals = (gs.map (fun g => (g.datasets.map (fun d => d.nModel * d.nGlobal)).sum)).sum
        + (pens.map List.length).sum := by
  obtain ⟨parts, hparts, hadd, hn⟩ := residual_count mi gs k st h
  refine ⟨parts.map (·.2), hadd, ?_⟩
  rw [hn, List.map_map]
  congr 1
  have := Length.mapM_option_map_eq (groupPenaltyParts mi) (fun p : Vec × Vec => p.1.length)
    (fun g : Group => (g.datasets.map (fun d => d.nModel * d.nGlobal)).sum) gs parts hparts
    (fun g hgm p hp => unlinkedGroup_length_all mi g p.1 p.2 (hl g hgm) (fun d hd => (hwf g hgm d hd).weak)
      (hg g hgm) hp)
  rw [this]

example : (∀ d ∈ Length.exampleGroup.datasets, d.WF) ∧
    (createStats {} [Length.exampleGroup] 1).map (·.nResiduals) = some 4 :=
  ⟨fun d hd => by
      have : d = Length.exampleDataset := by simpa [Length.exampleGroup] using hd
      rw [this]; exact Length.exampleDataset_wf,
   by decide +kernel⟩

/-! ### 2. chi-square, cost -/

/-- **χ² = Σ over groups (Σ residual part² + Σ penalties²)** with the penalties reported as `additional_penalty` -/
theorem chi_square_decomposes (mi : ModelItems) (gs : List Group) (k : Nat) (st : Stats)
    (h : createStats mi gs k = some st) :
    ∃ parts, gs.mapM (groupPenaltyParts mi) = some parts ∧
      additionalPenalty mi gs = some (parts.map (·.2)) ∧
      st.chiSquare = (parts.map (fun p => sumOfSquares p.1)).sum + (parts.map (fun p => sumOfSquares p.2)).sum := by
  obtain ⟨f, c, hf, _, rfl⟩ := createStats_some mi gs k st h
  obtain ⟨parts, hparts, rfl⟩ := objective_parts mi gs f hf
  refine ⟨parts, hparts, by simp [additionalPenalty, hparts], ?_⟩
  rw [stats_chi, sumOfSquares_flatten, List.map_map, ← sum_map_add]
  congr 1
  apply List.map_congr_left
  intro p _
  simp [sumOfSquares_append]

/-- **full model: the shape condition on the global matrix, proved for `datasetMatrix d.gmcs`** — if every global
    megacomplex matrix is index independent with (at least) a row per point of the global axis (`GlobalOK`), so is their
    combination … -/
theorem global_matrix_shape (d : Dataset) (gm : LMat) (hG : GlobalOK d) (h : datasetMatrix d.gmcs = some gm) :
    ∃ G, gm.body = .d2 G ∧ d.nGlobal ≤ G.length :=
  globalMatrix_shape d gm hG h

/-- … and then **the full matrix has a row per data point**: the flattened data has `|model axis| · |global axis|`
    entries and the (weighted) Kronecker matrix at least as many rows, so the solver's residual keeps every data point. -/
theorem full_matrix_has_row_per_data_point (d : Dataset) (a : Mat) (y : Vec) (hwf : d.WF) (hG : GlobalOK d)
    (h : fullModelProblem d = some (a, y)) : y.length = d.nModel * d.nGlobal ∧ y.length ≤ a.length :=
  fullModelProblem_rows d a y hwf.weak hG h

/-- 2 × 3 weighted data, one compartment, two global compartments -/
private def exFull : Group :=
  { linked := false, solver := .vp, tol := 0, method := .nearest,
    datasets := [
      { label := "f", globalAxis := [0, 1, 2], data := [[1, 2, 3], [4, 5, 7]], weight := some [[1, 1, 2], [1, 3, 1]],
        scale := none, mcs := [⟨⟨["s1"], .d2 [[1], [3]]⟩, none⟩],
        gmcs := [⟨⟨["g1", "g2"], .d2 [[1, 0], [1, 1], [2, 5]]⟩, none⟩] }] }

private theorem exFull_ok : (∀ d ∈ exFull.datasets, d.WF) ∧ (∀ d ∈ exFull.datasets, GlobalOK d) := by
  constructor
  · intro d hd
    simp only [exFull, List.mem_cons, List.not_mem_nil, or_false] at hd
    subst hd
    refine ⟨(by intro w hw; cases hw; rfl), ?_⟩
    intro o ho
    simp only [List.mem_cons, List.not_mem_nil, or_false] at ho
    subst ho; rfl
  · intro d hd
    simp only [exFull, List.mem_cons, List.not_mem_nil, or_false] at hd
    subst hd
    intro o ho
    simp only [List.mem_cons, List.not_mem_nil, or_false] at ho
    subst ho
    show (3 : Nat) ≤ 3
    decide

/-- the hypotheses hold on `exFull`; its full matrix is 6 × 2 for 6 data points -/
example : (∀ d ∈ exFull.datasets, d.WF) ∧ (∀ d ∈ exFull.datasets, GlobalOK d) ∧
    (exFull.datasets.map (fun d => (fullModelProblem d).map (fun ay => (ay.1.length, ay.2.length)))) = [some (6, 6)] :=
  ⟨exFull_ok.1, exFull_ok.2, by decide +kernel⟩

/-- **the residual part of an unlinked group is the weighted residuals of its result datasets**: for an
    unlinked group of shape-consistent datasets — without global model, or with one whose global megacomplex matrices
    are 2-D with a row per global index (`GlobalOK`) — Σ residual part² = Σ_datasets Σ weighted_residual²
    (`weighted_residual` if the dataset has one, else `residual`): the result matrix is the residual block laid out as
    columns. -/
theorem chi_square_decomposes_datasets_unlinked (mi : ModelItems) (g : Group) (res pens : Vec)
    (rs : List C03.DsResult)
    (hl : g.linked = false) (hwf : ∀ d ∈ g.datasets, d.WF) (hG : ∀ d ∈ g.datasets, GlobalOK d)
    (h1 : groupPenaltyParts mi g = some (res, pens)) (h2 : C03.groupResultsOwn mi g = some rs) :
    sumOfSquares res = (rs.map (fun r => matSumSq (weightedResidual r))).sum := by
  have h2' : C03.groupResults mi g = some rs := by
    unfold C03.groupResultsOwn at h2
    unfold C03.groupResults
    simpa [hl] using h2
  exact unlinkedGroup_sumsq_global mi g res pens rs hl (fun d hd => (hwf d hd).weak) hG h1 h2'

example : (groupPenaltyParts {} exFull).isSome = true ∧
    (groupPenaltyParts {} exFull).map (fun p => sumOfSquares p.1) =
      (C03.groupResultsOwn {} exFull).map (fun rs => (rs.map (fun r => matSumSq (weightedResidual r))).sum) := by
  refine ⟨by decide +kernel, by decide +kernel⟩

/-- **the same for a linked group, for the result datasets the repaired code reports** (`C03.groupResultsOwn`: every
    dataset on its own global index order, fix D27): the stacked residual of every aligned value is cut into the member
    datasets' blocks without loss or overlap and every dataset collects exactly the blocks of its own global indices
    (dataset labels pairwise different, shape-consistent datasets, the first dataset's global axis without repeated
    value — later datasets: the alignment refuses), so Σ residual part² = Σ_datasets Σ weighted_residual². -/
theorem chi_square_decomposes_datasets_linked (mi : ModelItems) (g : Group) (res pens : Vec)
    (rs : List C03.DsResult)
    (hl : g.linked = true) (hwf : ∀ d ∈ g.datasets, d.WF) (hlab : (g.datasets.map (·.label)).Nodup)
    (h0 : ∀ d, g.datasets.head? = some d → d.globalAxis.Nodup)
    (h1 : groupPenaltyParts mi g = some (res, pens)) (h2 : C03.groupResultsOwn mi g = some rs) :
    sumOfSquares res = (rs.map (fun r => matSumSq (weightedResidual r))).sum :=
  linkedGroup_sumsq_own mi g res pens rs hl (fun d hd => (hwf d hd).weak) hlab h0 h1 h2

/-- two linked datasets (2 × 2 unweighted on the *descending* axis [1, 0]; 3 × 2 weighted and scaled on [1, 2]) sharing
    the aligned value 1: the own-order layout differs from the aligned-axis-order one -/
private def exLinked : Group :=
  { linked := true, solver := .vp, tol := 0, method := .nearest,
    datasets := [
      { label := "a", globalAxis := [1, 0], data := [[1, 2], [2, 3]], weight := none, scale := none,
        mcs := [⟨⟨["c"], .d2 [[1], [1]]⟩, none⟩], gmcs := [] },
      { label := "b", globalAxis := [1, 2], data := [[4, 1], [6, 1], [9, 2]],
        weight := some [[1, 2], [1, 1], [2, 1]], scale := some 2,
        mcs := [⟨⟨["c", "e"], .d2 [[1, 0], [1, 1], [1, 2]]⟩, none⟩], gmcs := [] }] }

private theorem exLinked_wf : ∀ d ∈ exLinked.datasets, d.WF := by
  intro d hd
  simp only [exLinked, List.mem_cons, List.not_mem_nil, or_false] at hd
  rcases hd with rfl | rfl
  · refine ⟨(by intro w hw; cases hw), ?_⟩
    intro o ho
    simp only [List.mem_cons, List.not_mem_nil, or_false] at ho
    subst ho; rfl
  · refine ⟨(by intro w hw; cases hw; rfl), ?_⟩
    intro o ho
    simp only [List.mem_cons, List.not_mem_nil, or_false] at ho
    subst ho; rfl

private theorem exLinked_head : ∀ d, exLinked.datasets.head? = some d → d.globalAxis.Nodup := by
  intro d hd
  simp only [exLinked, List.head?_cons, Option.some.injEq] at hd
  subst hd
  decide +kernel

example : (∀ d ∈ exLinked.datasets, d.WF) ∧ (exLinked.datasets.map (·.label)).Nodup ∧
    (∀ d, exLinked.datasets.head? = some d → d.globalAxis.Nodup) ∧
    (groupPenaltyParts {} exLinked).isSome = true ∧ (C03.groupResultsOwn {} exLinked).isSome = true ∧
    (C03.groupResultsOwn {} exLinked).map (List.map (·.residual)) ≠ (C03.groupResults {} exLinked).map (List.map (·.residual)) ∧
    (groupPenaltyParts {} exLinked).map (fun p => sumOfSquares p.1) =
      (C03.groupResultsOwn {} exLinked).map (fun rs => (rs.map (fun r => matSumSq (weightedResidual r))).sum) :=
  ⟨exLinked_wf, by decide, exLinked_head, by decide +kernel, by decide +kernel, by decide +kernel, by decide +kernel⟩

/-- **number of residual entries of a linked group = number of data points**: every global index of every dataset
    belongs to exactly one aligned value (C09: `c02_every_column_once`, here through `TablesOK`), so every dataset
    contributes its model axis once per global index.  (Shape-consistent datasets; the first dataset's global axis
    without repeated value.) -/
theorem residual_count_linked (mi : ModelItems) (g : Group) (res pens : Vec)
    (hl : g.linked = true) (hwf : ∀ d ∈ g.datasets, d.WF)
    (h0 : ∀ d, g.datasets.head? = some d → d.globalAxis.Nodup)
    (h1 : groupPenaltyParts mi g = some (res, pens)) :
    res.length = (g.datasets.map (fun d => d.nModel * d.nGlobal)).sum :=
  linkedGroup_length_points mi g res pens hl (fun d hd => (hwf d hd).weak) h0 h1

example : (groupPenaltyParts {} exLinked).map (·.1.length) = some (2 * 2 + 3 * 2) := by decide +kernel

/-- the general form, without the hypothesis on the first axis: every dataset contributes its model axis once for every
    aligned value it is a member of (`aligned` = the datasets' axes after alignment, `axis` = their sorted union) -/
theorem residual_count_linked_members (mi : ModelItems) (g : Group) (res pens : Vec) (aligned : List (List Rat))
    (axis : List Rat) (ps : List IndexProblem)
    (hl : g.linked = true) (hwf : ∀ d ∈ g.datasets, d.WF)
    (hal : alignAxes (g.datasets.map (·.globalAxis)) g.tol g.method = some aligned)
    (hlp : linkedProblems mi g = some (axis, ps))
    (h1 : groupPenaltyParts mi g = some (res, pens)) :
    res.length = ((g.datasets.zip aligned).map
      (fun dk => dk.1.nModel * (axis.filter (fun v => dk.2.contains v)).length)).sum :=
  linkedGroup_length mi g res pens aligned axis ps hl (fun d hd => (hwf d hd).weak) hal hlp h1

/-- **the hypothesis on the first dataset's axis is necessary** (for `residual_count_linked` and
    `chi_square_decomposes_datasets_linked`): a first dataset whose global axis repeats a value (2 × 2 on [1, 1]) — the
    alignment does not refuse it, only the first of the two columns is stacked: 2 residual entries for 4 data points, and
    the result dataset repeats that column.  (The real code does not get this far: it raises while building the linked
    data provider — a repeated coordinate cannot be indexed / aligned; replayed by the harness on every run.) -/
theorem residual_count_linked_counterexample :
    let g : Group :=
      { linked := true, solver := .vp, tol := 0, method := .nearest,
        datasets := [
          { label := "a", globalAxis := [1, 1], data := [[1, 2], [2, 4]], weight := none, scale := none,
            mcs := [⟨⟨["c"], .d2 [[1], [1]]⟩, none⟩], gmcs := [] }] }
    (∀ d ∈ g.datasets, d.WF) ∧ ¬ (∀ d, g.datasets.head? = some d → d.globalAxis.Nodup) ∧
    (groupPenaltyParts {} g).map (·.1.length) = some 2 ∧
    (g.datasets.map (fun d => d.nModel * d.nGlobal)).sum = 4 ∧
    (groupPenaltyParts {} g).map (fun p => sumOfSquares p.1) = some (1 / 2) ∧
    (C03.groupResultsOwn {} g).map (fun rs => (rs.map (fun r => matSumSq (weightedResidual r))).sum) = some 1 := by
  intro g
  refine ⟨?_, ?_, by decide +kernel, by decide +kernel, by decide +kernel, by decide +kernel⟩
  · intro d hd
    simp only [g, List.mem_cons, List.not_mem_nil, or_false] at hd
    subst hd
    refine ⟨(by intro w hw; cases hw), ?_⟩
    intro o ho
    simp only [List.mem_cons, List.not_mem_nil, or_false] at ho
    subst ho; rfl
  · intro h
    have := h _ rfl
    revert this
    decide +kernel

/-- a 2 × 2 weighted dataset: χ² of the residual part and of the result dataset agree -/
example :
    (groupPenaltyParts {} Length.exampleGroup).map (fun p => sumOfSquares p.1) =
      (C03.groupResultsOwn {} Length.exampleGroup).map (fun rs => (rs.map (fun r => matSumSq (weightedResidual r))).sum) := by
  decide +kernel

/-- **cost = χ² / 2**: `0.5 · np.dot(f, f)` and `np.sum(f**2) / 2` are the same number -/
theorem cost_eq_half_chi (f : Vec) (nFree nClps : Nat) :
    (stats f nFree nClps).cost = (stats f nFree nClps).chiSquare / 2 := by
  rw [stats_cost, stats_chi, dot_self_eq]; ring

/-- **cost, χ² and N are those of the objective at the optimised parameters** -/
theorem stats_from_objective (mi : ModelItems) (gs : List Group) (k : Nat) (st : Stats)
    (h : createStats mi gs k = some st) :
    ∃ f, objective mi gs = some f ∧ st.nResiduals = f.length ∧ st.chiSquare = sumOfSquares f ∧
      st.cost = (1 / 2) * dot f f ∧ st.cost = st.chiSquare / 2 ∧ 0 ≤ st.chiSquare := by
  obtain ⟨f, c, hf, _, rfl⟩ := createStats_some mi gs k st h
  exact ⟨f, hf, rfl, rfl, rfl, cost_eq_half_chi f k c, sumOfSquares_nonneg f⟩

example : (stats [3, 4] 1 0).chiSquare = 25 ∧ (stats [3, 4] 1 0).cost = 25 / 2 := by decide +kernel

/-! ### 2b. all groups together: the statement of the property -/

/-- what the two theorems below assume of a group: shape-consistent datasets; unlinked: global megacomplex matrices 2-D
    with a row per global index; linked: pairwise different dataset labels, first global axis without repeated value -/
structure GroupOK (g : Group) : Prop where
  wf : ∀ d ∈ g.datasets, d.WF
  glob : g.linked = false → ∀ d ∈ g.datasets, GlobalOK d
  labels : g.linked = true → (g.datasets.map (·.label)).Nodup
  axis : g.linked = true → ∀ d, g.datasets.head? = some d → d.globalAxis.Nodup

/-- **`number_of_residuals` counts every data point once plus one entry per penalty** — any mixture of linked and
    unlinked groups, datasets with and without a global model -/
theorem residual_count_every_point (mi : ModelItems) (gs : List Group) (k : Nat) (st : Stats)
    (hok : ∀ g ∈ gs, GroupOK g) (h : createStats mi gs k = some st) :
    ∃ pens, additionalPenalty mi gs = some pens ∧
      st.nResiduals = (gs.map (fun g => (g.datasets.map (fun d => d.nModel * d.nGlobal)).sum)).sum
        + (pens.map List.length).sum := by
  obtain ⟨parts, hparts, hadd, hn⟩ := residual_count mi gs k st h
  refine ⟨parts.map (·.2), hadd, ?_⟩
  rw [hn, List.map_map]
  congr 1
  have hlen : ∀ g ∈ gs, ∀ p : Vec × Vec, groupPenaltyParts mi g = some p →
      p.1.length = (g.datasets.map (fun d => d.nModel * d.nGlobal)).sum := by
    intro g hgm p hp
    cases hl : g.linked with
    | true => exact residual_count_linked mi g p.1 p.2 hl (hok g hgm).wf ((hok g hgm).axis hl) hp
    | false =>
      have hw : ∀ d ∈ g.datasets, d.WFWeak := fun d hd => ((hok g hgm).wf d hd).weak
      exact unlinkedGroup_length_all mi g p.1 p.2 hl hw ((hok g hgm).glob hl) hp
  have := Length.mapM_option_map_eq (groupPenaltyParts mi) (fun p : Vec × Vec => p.1.length)
    (fun g : Group => (g.datasets.map (fun d => d.nModel * d.nGlobal)).sum) gs parts hparts hlen
  rw [this]

/-- **χ² = Σ over all result datasets Σ weighted_residual² + Σ penalties²**, the result datasets being those of
    `C03.resultsOwn` (what the repaired code reports) and the penalties those of `additional_penalty` -/
theorem chi_square_over_result_datasets (mi : ModelItems) (gs : List Group) (k : Nat) (st : Stats)
    (rs : List C03.DsResult) (hok : ∀ g ∈ gs, GroupOK g)
    (h : createStats mi gs k = some st) (hr : C03.resultsOwn mi gs = some rs) :
    ∃ pens, additionalPenalty mi gs = some pens ∧
      st.chiSquare = (rs.map (fun r => matSumSq (weightedResidual r))).sum + (pens.map sumOfSquares).sum ∧
      st.cost = st.chiSquare / 2 := by
  -- group by group
  have key : ∀ (gs : List Group) (parts : List (Vec × Vec)) (rss : List (List C03.DsResult)),
      (∀ g ∈ gs, GroupOK g) → gs.mapM (groupPenaltyParts mi) = some parts →
      gs.mapM (C03.groupResultsOwn mi) = some rss →
      (parts.map (fun p => sumOfSquares p.1)).sum =
        (rss.map (fun rs => (rs.map (fun r => matSumSq (weightedResidual r))).sum)).sum := by
    intro gs
    induction gs with
    | nil =>
      intro parts rss _ hparts hrss
      simp only [List.mapM_nil] at hparts hrss
      cases hparts; cases hrss; rfl
    | cons g gs ih =>
      intro parts rss hok hparts hrss
      rw [List.mapM_cons] at hparts hrss
      cases hp : groupPenaltyParts mi g with
      | none => simp [hp] at hparts
      | some p =>
        cases hq : C03.groupResultsOwn mi g with
        | none => simp [hq] at hrss
        | some r =>
          cases hps : gs.mapM (groupPenaltyParts mi) with
          | none => simp [hp, hps] at hparts
          | some parts' =>
            cases hrs : gs.mapM (C03.groupResultsOwn mi) with
            | none => simp [hq, hrs] at hrss
            | some rss' =>
              simp [hp, hps] at hparts
              simp [hq, hrs] at hrss
              subst hparts hrss
              have hg := hok g List.mem_cons_self
              have h1 : sumOfSquares p.1 = (r.map (fun r => matSumSq (weightedResidual r))).sum := by
                cases hl : g.linked with
                | true =>
                  exact chi_square_decomposes_datasets_linked mi g p.1 p.2 r hl hg.wf (hg.labels hl) (hg.axis hl) hp hq
                | false =>
                  exact chi_square_decomposes_datasets_unlinked mi g p.1 p.2 r hl hg.wf (hg.glob hl) hp hq
              simp only [List.map_cons, List.sum_cons]
              rw [h1, ih parts' rss' (fun g' hg' => hok g' (List.mem_cons_of_mem _ hg')) hps hrs]
  obtain ⟨parts, hparts, hadd, hchi⟩ := chi_square_decomposes mi gs k st h
  obtain ⟨f, _, _, _, _, hcost, _⟩ := stats_from_objective mi gs k st h
  refine ⟨parts.map (·.2), hadd, ?_, hcost⟩
  rw [hchi, List.map_map]
  congr 1
  unfold C03.resultsOwn at hr
  obtain ⟨rss, hrss, rfl⟩ := Option.map_eq_some_iff.mp hr
  rw [List.map_flatten, List.sum_flatten, List.map_map]
  exact key gs parts rss hok hparts hrss

private theorem exLinked_ok : GroupOK exLinked :=
  ⟨exLinked_wf, fun h => absurd h (by decide), fun _ => by decide, fun _ => exLinked_head⟩

private theorem exFull_groupOK : GroupOK exFull :=
  ⟨exFull_ok.1, fun _ => exFull_ok.2, fun h => absurd h (by decide), fun h => absurd h (by decide)⟩

/-- an equal-area penalty between the compartments `c` and `e` on [0, 2] -/
private def exMi : ModelItems := { penalties := [⟨"c", [⟨.fin 0, .fin 2⟩], "e", [⟨.fin 0, .fin 2⟩], 1, 2⟩] }

/-- a linked group (descending first axis) and a group with a full model, one penalty: 10 + 6 data points + 1 penalty;
    χ² = the three result datasets' Σ weighted_residual² + the squared penalty -/
example : (∀ g ∈ [exLinked, exFull], GroupOK g) ∧
    (createStats exMi [exLinked, exFull] 1).map (·.nResiduals) = some (10 + 6 + 1) ∧
    additionalPenalty exMi [exLinked, exFull] = some [[7936 / 1239], []] ∧
    (C03.resultsOwn exMi [exLinked, exFull]).map (fun rs => rs.map (fun r => matSumSq (weightedResidual r))) =
      some [4059 / 3481, 32761 / 73101, 1837 / 427] ∧
    (createStats exMi [exLinked, exFull] 1).map (·.chiSquare) =
      some (4059 / 3481 + 32761 / 73101 + 1837 / 427 + 7936 / 1239 * (7936 / 1239)) := by
  refine ⟨?_, by decide +kernel, by decide +kernel, by decide +kernel, by decide +kernel⟩
  intro g hg
  simp only [List.mem_cons, List.not_mem_nil, or_false] at hg
  rcases hg with rfl | rfl
  · exact exLinked_ok
  · exact exFull_groupOK

/-! ### 3. degrees of freedom, reduced χ², RMSE -/

/-- **dof = N − free parameters − clps** (an integer: it may be zero or negative) -/
theorem dof_formula (f : Vec) (nFree nClps : Nat) :
    (stats f nFree nClps).dof = ((stats f nFree nClps).nResiduals : Int) - nFree - nClps ∧
    (stats f nFree nClps).dof + nFree + nClps = f.length := by
  constructor
  · rfl
  · rw [stats_dof]; omega

/-- **reduced χ² · dof = χ²**; it does not exist exactly when dof = 0 (the code raises ZeroDivisionError);
    it is non-negative — so that RMSE = √(reduced χ²) is a real number — when dof > 0. -/
theorem reduced_chi_square_formula (f : Vec) (nFree nClps : Nat) :
    ((stats f nFree nClps).dof = 0 → (stats f nFree nClps).reducedChiSquare = none) ∧
    ((stats f nFree nClps).dof ≠ 0 → ∃ r, (stats f nFree nClps).reducedChiSquare = some r ∧
        (stats f nFree nClps).rmseSq = some r ∧
        r * ((stats f nFree nClps).dof : Rat) = (stats f nFree nClps).chiSquare ∧
        (0 < (stats f nFree nClps).dof → 0 ≤ r)) := by
  constructor
  · intro h
    simp only [stats] at h ⊢
    simp [h]
  · intro h
    have hne : (((stats f nFree nClps).dof : Int) : Rat) ≠ 0 := by exact_mod_cast h
    refine ⟨(stats f nFree nClps).chiSquare / ((stats f nFree nClps).dof : Rat), ?_, ?_, ?_, ?_⟩
    · simp only [stats] at h ⊢; simp [h]
    · simp only [Stats.rmseSq, stats] at h ⊢; simp [h]
    · field_simp
    · intro hpos
      have : (0 : Rat) < ((stats f nFree nClps).dof : Rat) := by exact_mod_cast hpos
      exact div_nonneg (by rw [stats_chi]; exact sumOfSquares_nonneg f) (le_of_lt this)

example : (stats [3, 4, 0] 1 1).dof = 1 ∧ (stats [3, 4, 0] 1 1).reducedChiSquare = some 25 ∧
    (stats [3, 4] 1 1).reducedChiSquare = none ∧ (stats [3, 4] 2 1).reducedChiSquare = some (-25) := by
  decide +kernel

/-! ### 4. number of clps -/

/-- **linked group** (each megacomplex with a duplicate-free label list): `number_of_clps` = Σ over the aligned
    global axis of the number of labels that remain at that axis value — `remaining mi x L`: labels of the stacked
    label list `L` that are not the target of a relation applying at `x` with both ends in `L`, nor (then) the
    target of a constraint applying at `x`. -/
theorem nclp_counts_reduced (mi : ModelItems) (g : Group) (axis : List Rat) (ps : List IndexProblem)
    (hl : g.linked = true) (h : linkedProblems mi g = some (axis, ps))
    (hm : ∀ d ∈ g.datasets, ∀ o ∈ d.mcs, o.out.labels.Nodup) :
    ps.map (·.x) = axis ∧
    groupClps mi g = some ((ps.map (fun p => (remaining mi p.x p.fullLabels).length)).sum) := by
  obtain ⟨hx, hlab⟩ := linkedProblems_labels mi g axis ps h
  have hN := linkedProblems_fullLabels_nodup mi g axis ps hm h
  refine ⟨hx, ?_⟩
  unfold groupClps
  simp only [hl, if_true, h, Option.map_some]
  congr 2
  apply List.map_congr_left
  intro p hp
  rw [hlab p hp (hN p hp)]

/-- **linked group, any tolerance and method — the count in terms of the inputs alone**: `number_of_clps` = Σ over the
    aligned axis (`alignedAxisOf aligned`, the sorted union of the aligned axes) of the number of labels that remain
    **at the aligned value `v`** — not at the datasets' own coordinates that were merged into `v` — of
    `memberLabelsAt … v`, the union (first-occurrence order) of the clp labels of the datasets that have a global index
    aligned to `v`.  Which own coordinate is aligned to which value is C09's subject (`c02_alignIndex_spec`). -/
theorem nclp_linked_at_aligned_values (mi : ModelItems) (g : Group) (aligned : List (List Rat)) (k : Nat)
    (hl : g.linked = true) (hwf : ∀ d ∈ g.datasets, d.WF)
    (hm : ∀ d ∈ g.datasets, ∀ o ∈ d.mcs, o.out.labels.Nodup)
    (hal : alignAxes (g.datasets.map (·.globalAxis)) g.tol g.method = some aligned)
    (h : groupClps mi g = some k) :
    k = ((alignedAxisOf aligned).map (fun v => (remaining mi v (memberLabelsAt g.datasets aligned v)).length)).sum := by
  cases hlp : linkedProblems mi g with
  | none => simp [groupClps, hl, hlp] at h
  | some ap =>
    obtain ⟨axis, ps⟩ := ap
    obtain ⟨hx, hk⟩ := nclp_counts_reduced mi g axis ps hl hlp hm
    rw [h] at hk
    have hax := linkedProblems_axis mi g aligned axis ps hal hlp
    have hu := linkedProblems_fullLabels_union mi g aligned axis ps (fun d hd => (hwf d hd).weak) hal hlp
    rw [Option.some.inj hk]
    have : alignedAxisOf aligned = ps.map (·.x) := by rw [hx, hax]; rfl
    rw [this, List.map_map]
    congr 1
    apply List.map_congr_left
    intro p hp
    simp only [Function.comp, hu p hp]

/-- tolerance 1/5, axes (1, 2, 3) and (2.1, 2.9, 4): 2.1 ↦ 2, 2.9 ↦ 3.  `s2` is zero on [1.95, 2.95]: at the aligned
    value 2 it is removed; at the aligned value 3 it stays although the own coordinate 2.9 of the second dataset lies
    inside the interval -/
private def exTol : Group :=
  { linked := true, solver := .vp, tol := 1/5, method := .nearest,
    datasets := [
      { label := "a", globalAxis := [1, 2, 3], data := [[1, 2, 0], [2, 3, 1]], weight := none, scale := none,
        mcs := [⟨⟨["s1", "s2"], .d2 [[1, 0], [1, 1]]⟩, none⟩], gmcs := [] },
      { label := "b", globalAxis := [21/10, 29/10, 4], data := [[4, 1, 2], [6, 1, 0], [9, 2, 1]],
        weight := none, scale := none,
        mcs := [⟨⟨["s2", "s3"], .d2 [[1, 0], [1, 1], [1, 2]]⟩, none⟩], gmcs := [] }] }

private def exTolMi : ModelItems := { constraints := [⟨false, "s2", some [⟨.fin (39/20), .fin (59/20)⟩]⟩] }

example : alignAxes (exTol.datasets.map (·.globalAxis)) exTol.tol exTol.method = some [[1, 2, 3], [2, 3, 4]] ∧
    (∀ d ∈ exTol.datasets, d.WF) ∧ (∀ d ∈ exTol.datasets, ∀ o ∈ d.mcs, o.out.labels.Nodup) ∧
    groupClps exTolMi exTol = some 9 ∧
    (alignedAxisOf [[1, 2, 3], [2, 3, 4]]).map (fun v => remaining exTolMi v (memberLabelsAt exTol.datasets [[1, 2, 3], [2, 3, 4]] v)) =
      [["s1", "s2"], ["s1", "s3"], ["s1", "s2", "s3"], ["s2", "s3"]] := by
  refine ⟨by decide +kernel, ?_, ?_, by decide +kernel, by decide +kernel⟩
  · intro d hd
    simp only [exTol, List.mem_cons, List.not_mem_nil, or_false] at hd
    rcases hd with rfl | rfl
    · refine ⟨(by intro w hw; cases hw), ?_⟩
      intro o ho
      simp only [List.mem_cons, List.not_mem_nil, or_false] at ho
      subst ho; rfl
    · refine ⟨(by intro w hw; cases hw), ?_⟩
      intro o ho
      simp only [List.mem_cons, List.not_mem_nil, or_false] at ho
      subst ho; rfl
  · intro d hd o ho
    simp only [exTol, List.mem_cons, List.not_mem_nil, or_false] at hd
    rcases hd with rfl | rfl
    · simp only [List.mem_cons, List.not_mem_nil, or_false] at ho
      subst ho; decide
    · simp only [List.mem_cons, List.not_mem_nil, or_false] at ho
      subst ho; decide

/-- **unlinked dataset without global model**: its term of `number_of_clps` = Σ over its global axis of the number
    of labels of its (combined) matrix that remain at that axis value. -/
theorem nclp_counts_remaining_labels (mi : ModelItems) (d : Dataset) (lm : LMat)
    (hg : d.gmcs = []) (hwf : d.WF) (hlm : datasetMatrix d.mcs = some lm)
    (hm : ∀ o ∈ d.mcs, o.out.labels.Nodup) :
    datasetClps mi d = some ((d.globalAxis.map (fun x => (remaining mi x lm.labels).length)).sum) := by
  have hN : lm.labels.Nodup := datasetMatrix_labels_nodup d.mcs lm hm hlm
  unfold datasetClps
  simp only [hg, List.isEmpty_nil, Bool.not_true, Bool.false_eq_true, if_false]
  have hps : ∃ ps, unlinkedProblems mi d = some ps := by
    unfold unlinkedProblems; simp [hlm]
  obtain ⟨ps, hps⟩ := hps
  obtain ⟨hx, hlab⟩ := unlinkedProblems_labels mi d ps lm hwf.weak hlm hN hps
  rw [hps, Option.map_some, ← hx, List.map_map]
  congr 2
  apply List.map_congr_left
  intro p hp
  simp only [Function.comp, (hlab p hp).2]

/-- **full model** (dataset with global megacomplexes): |model clp labels| · |global clp labels| -/
theorem nclp_full_model_product (mi : ModelItems) (d : Dataset) (lm gm : LMat)
    (hg : d.gmcs ≠ []) (hlm : datasetMatrix d.mcs = some lm) (hgm : datasetMatrix d.gmcs = some gm) :
    datasetClps mi d = some (lm.labels.length * gm.labels.length) := by
  unfold datasetClps
  have : d.gmcs.isEmpty = false := by
    cases hd : d.gmcs with
    | nil => exact absurd hd hg
    | cons _ _ => rfl
  simp [this, hlm, hgm]

/-- **groups add up** (and an unlinked group is the sum of its datasets) -/
theorem nclp_append (mi : ModelItems) (g₁ g₂ : List Group) :
    numberOfClps mi (g₁ ++ g₂) =
      (match numberOfClps mi g₁, numberOfClps mi g₂ with
       | some a, some b => some (a + b)
       | _, _ => none) := by
  unfold numberOfClps
  rw [List.mapM_append]
  cases h₁ : g₁.mapM (groupClps mi) <;> cases h₂ : g₂.mapM (groupClps mi) <;> simp [List.sum_append]

/-- s2 = 3·s1 on [1, 2] only, s3 zero outside [2, 3] ("only"): the count varies along the axis: 2 + 1 + 2 + 2 -/
example :
    let mi : ModelItems := { relations := [⟨"s1", "s2", 3, some [⟨.fin 1, .fin 2⟩]⟩],
                             constraints := [⟨true, "s3", some [⟨.fin 2, .fin 3⟩]⟩] }
    [(1 : Rat), 2, 3, 4].map (fun x => remaining mi x ["s1", "s2", "s3"]) =
      [["s1"], ["s1", "s3"], ["s1", "s2", "s3"], ["s1", "s2"]] := by
  decide +kernel

example : Length.exampleDataset.WF ∧
    (datasetClps {} Length.exampleDataset).isSome = true := ⟨Length.exampleDataset_wf, by decide +kernel⟩

/-! ### 5. per-dataset RMSE -/

/-- **per-dataset RMSE² · size = Σ residual²** and **weighted RMSE² · size = Σ weighted_residual²**
    (equal to the RMSE when the dataset has no weight) -/
theorem dataset_rmse_formula (r : C03.DsResult) (hs : (datasetStats r).size ≠ 0) :
    (datasetStats r).size = r.residual.length * ncols r.residual ∧
    (datasetStats r).rmseSq * ((datasetStats r).size : Rat) = matSumSq r.residual ∧
    (datasetStats r).wrmseSq * ((datasetStats r).size : Rat) = matSumSq (weightedResidual r) ∧
    (r.weighted = none → (datasetStats r).wrmseSq = (datasetStats r).rmseSq) ∧
    0 ≤ (datasetStats r).rmseSq ∧ 0 ≤ (datasetStats r).wrmseSq := by
  have hne : (((datasetStats r).size : Nat) : Rat) ≠ 0 := by exact_mod_cast hs
  have hpos : (0 : Rat) ≤ ((datasetStats r).size : Rat) := Nat.cast_nonneg _
  refine ⟨rfl, ?_, ?_, ?_, ?_, ?_⟩
  · simp only [datasetStats] at hne ⊢; field_simp
  · cases hw : r.weighted with
    | none => simp only [datasetStats, weightedResidual, hw] at hne ⊢; field_simp
    | some w => simp only [datasetStats, weightedResidual, hw] at hne ⊢; field_simp
  · intro hw; simp [datasetStats, hw]
  · simp only [datasetStats]; exact div_nonneg (sumOfSquares_nonneg _) hpos
  · cases hw : r.weighted with
    | none => simp only [datasetStats, hw]; exact div_nonneg (sumOfSquares_nonneg _) hpos
    | some w => simp only [datasetStats, hw]; exact div_nonneg (sumOfSquares_nonneg _) hpos

example : datasetStats ⟨"a", ["c"], [], [[1, 2], [3, 4]], some [[2, 4], [6, 8]], []⟩ = ⟨"a", 4, 30 / 4, 120 / 4⟩ := by
  decide +kernel

/-! ### 6. covariance matrix

`covMatrix sv vt m n` is the model's covariance matrix (of an `m × n` Jacobian whose thin SVD has singular values
`sv` and right singular vectors `vt`) read as a Mathlib matrix; `vtMatrix`, `sigmaFn` (Lemmas/C13Cov.lean) read
`vt` and `sv` the same way.  `sandwich V a = Vᵀ · diag(a) · V`. -/

/-- the model's covariance matrix as a `Matrix` -/
def covMatrix (sv : Vec) (vt : Mat) (m n : Nat) : Matrix (Fin n) (Fin n) ℚ :=
  fun i j => ((covariance sv vt m n).getD i []).getD j 0

/-- the mask of the code: `s > eps · max(m, n) · s_max` -/
def kept (sv : Vec) (m n : Nat) (s : ℚ) : Bool := decide (s > threshold sv m n)

/-- **what the code computes is `Vᵀ · diag(mask / s²) · V`** -/
theorem covariance_eq_sandwich (sv : Vec) (vt : Mat) (m n : Nat) :
    covMatrix sv vt m n = sandwich (vtMatrix sv vt n) (fun k => cw (kept sv m n) (sigmaFn sv vt k)) := by
  ext i j
  exact covarianceWith_entry _ sv vt n i j

/-- **symmetric** — for any input whatsoever -/
theorem covariance_symm (sv : Vec) (vt : Mat) (m n : Nat) :
    (covMatrix sv vt m n)ᵀ = covMatrix sv vt m n := by
  rw [covariance_eq_sandwich, sandwich_transpose]

/-- **positive semi-definite** — for any input whatsoever: `xᵀ C x ≥ 0`; in particular the diagonal is ≥ 0 -/
theorem covariance_psd (sv : Vec) (vt : Mat) (m n : Nat) (x : Fin n → ℚ) :
    0 ≤ x ⬝ᵥ (covMatrix sv vt m n *ᵥ x) := by
  rw [covariance_eq_sandwich]
  exact sandwich_psd _ _ (fun k => cw_nonneg _ _) x

theorem covariance_diag_nonneg (sv : Vec) (vt : Mat) (m n : Nat) (i : Fin n) :
    0 ≤ covMatrix sv vt m n i i := by
  have := covariance_psd sv vt m n (fun j => if j = i then 1 else 0)
  simpa [Matrix.mulVec, dotProduct] using this

/-- **`J = U·diag(s)·Vt` with `UᵀU = 1` gives `JᵀJ = Vtᵀ·diag(s²)·Vt`** -/
theorem jtj_of_svd {mm : Nat} (sv : Vec) (vt : Mat) (n : Nat)
    (U : Matrix (Fin mm) (Fin (sv.zip vt).length) ℚ) (hU : Uᵀ * U = 1) :
    (U * diagonal (sigmaFn sv vt) * vtMatrix sv vt n)ᵀ * (U * diagonal (sigmaFn sv vt) * vtMatrix sv vt n) =
      sandwich (vtMatrix sv vt n) (fun k => sigmaFn sv vt k * sigmaFn sv vt k) :=
  jtj_sandwich U _ _ hU

/-- **the covariance matrix is the Moore–Penrose pseudo-inverse of the truncated `JᵀJ`** (singular values that do
    not pass the mask replaced by 0), given only that the rows of `Vt` are orthonormal -/
theorem covariance_is_pinv_of_truncation (sv : Vec) (vt : Mat) (m n : Nat)
    (hV : vtMatrix sv vt n * (vtMatrix sv vt n)ᵀ = 1) :
    IsPinv (sandwich (vtMatrix sv vt n) (fun k => tw (kept sv m n) (sigmaFn sv vt k))) (covMatrix sv vt m n) := by
  rw [covariance_eq_sandwich]
  exact sandwich_isPinv _ hV _ _ (fun k hk => kept_ne_zero sv m n _ hk)

/-- **the covariance matrix is the (symmetric, positive semi-definite) pseudo-inverse of `JᵀJ`** when the SVD is an
    SVD (`UᵀU = 1`, `Vt·Vtᵀ = 1`, `J = U·diag(s)·Vt`) and every non-zero singular value passes the mask -/
theorem covariance_is_pinv {mm : Nat} (sv : Vec) (vt : Mat) (m n : Nat)
    (U : Matrix (Fin mm) (Fin (sv.zip vt).length) ℚ) (J : Matrix (Fin mm) (Fin n) ℚ)
    (hU : Uᵀ * U = 1) (hV : vtMatrix sv vt n * (vtMatrix sv vt n)ᵀ = 1)
    (hJ : J = U * diagonal (sigmaFn sv vt) * vtMatrix sv vt n)
    (hall : ∀ k, sigmaFn sv vt k ≠ 0 → kept sv m n (sigmaFn sv vt k) = true) :
    IsPinv (Jᵀ * J) (covMatrix sv vt m n) := by
  rw [hJ, jtj_of_svd sv vt n U hU, ← tw_eq_sq (sigmaFn sv vt) (kept sv m n) hall]
  exact covariance_is_pinv_of_truncation sv vt m n hV

/-- **the hypothesis on the mask is necessary**: with orthonormal rows of `Vt`, the first Penrose condition holds
    *iff* every non-zero singular value passes the mask -/
theorem covariance_is_pinv_iff (sv : Vec) (vt : Mat) (m n : Nat)
    (hV : vtMatrix sv vt n * (vtMatrix sv vt n)ᵀ = 1) :
    IsPinv (sandwich (vtMatrix sv vt n) (fun k => sigmaFn sv vt k * sigmaFn sv vt k)) (covMatrix sv vt m n) ↔
      ∀ k, sigmaFn sv vt k ≠ 0 → kept sv m n (sigmaFn sv vt k) = true := by
  constructor
  · intro h k hk
    by_contra hnot
    have h1 := h.1
    rw [covariance_eq_sandwich, sandwich_mul _ hV, sandwich_mul _ hV] at h1
    have := congrFun (sandwich_injective _ hV _ _ h1) k
    simp only [cw, hnot] at this
    simp at this
    exact hk this
  · intro hall
    rw [← tw_eq_sq (sigmaFn sv vt) (kept sv m n) hall]
    exact covariance_is_pinv_of_truncation sv vt m n hV

/-! non-vacuity of `covariance_is_pinv` / `covariance_is_pinv_of_truncation` / `covariance_is_pinv_iff`: a 4 × 3
Jacobian of rank 2 (the third parameter has no influence): s = (2, 1), `Vt` = two orthonormal rows, `U` = the first
two columns of the 4 × 4 identity -/
private def exSv : Vec := [2, 1]
private def exVt : Mat := [[3/5, 4/5, 0], [-4/5, 3/5, 0]]
private def exU : Matrix (Fin 4) (Fin (exSv.zip exVt).length) ℚ := fun i k => if (i : Nat) = (k : Nat) then 1 else 0

private theorem exU_orth : exUᵀ * exU = 1 := by
  ext i j
  fin_cases i <;> fin_cases j <;> decide +kernel

private theorem exV_orth : vtMatrix exSv exVt 3 * (vtMatrix exSv exVt 3)ᵀ = 1 := by
  ext i j
  fin_cases i <;> fin_cases j <;> decide +kernel

private theorem ex_kept : ∀ k, sigmaFn exSv exVt k ≠ 0 → kept exSv 4 3 (sigmaFn exSv exVt k) = true := by
  intro k _
  fin_cases k <;> decide +kernel

example : IsPinv ((exU * diagonal (sigmaFn exSv exVt) * vtMatrix exSv exVt 3)ᵀ *
      (exU * diagonal (sigmaFn exSv exVt) * vtMatrix exSv exVt 3)) (covMatrix exSv exVt 4 3) :=
  covariance_is_pinv exSv exVt 4 3 exU _ exU_orth exV_orth rfl ex_kept

example : covariance exSv exVt 4 3 = [[73/100, -9/25, 0], [-9/25, 13/25, 0], [0, 0, 0]] := by decide +kernel

/-- **the pseudo-inverse is unique**: any matrix satisfying the four Penrose conditions w.r.t. `A` is the
    covariance matrix -/
theorem penrose_unique {n : Nat} (A B C : Matrix (Fin n) (Fin n) ℚ) (hB : IsPinv A B) (hC : IsPinv A C) : B = C :=
  isPinv_unique A B C hB hC

/-- **scale invariance**: multiplying the Jacobian (the data) by `c > 0` divides the covariance matrix by `c²` —
    the mask is relative to the largest singular value -/
theorem covariance_scale_invariant (c : ℚ) (hc : 0 < c) (sv : Vec) (vt : Mat) (m n : Nat) :
    covariance (sv.map (c * ·)) vt m n =
      (covariance sv vt m n).map (fun row => row.map (fun x => 1 / (c * c) * x)) :=
  covariance_scale c hc sv vt m n

/-- regression (fix C13-relative-sv-cutoff): a 1 × 1 Jacobian `[[1e-9]]` — the former absolute cut-off `s² > eps` returned `[[0]]` -/
example : covariance [1 / 1000000000] [[1]] 1 1 = [[1000000000000000000]] := by decide +kernel

/-- s = (1, 2⁻⁶⁰), `Vt` = identity: the second singular value is below `eps·2·1` and is dropped -/
example : covariance [1, 1 / 1152921504606846976] [[1, 0], [0, 1]] 2 2 = [[1, 0], [0, 0]] ∧
    kept [1, 1 / 1152921504606846976] 2 2 (1 / 1152921504606846976) = false := by decide +kernel

/-- rotated `Vt` = (1/5)·[[3, 4], [−4, 3]], s = (2, 1) -/
example : covariance [2, 1] [[3/5, 4/5], [-4/5, 3/5]] 3 2 = [[73/100, -9/25], [-9/25, 13/25]] := by decide +kernel

/-! ### 7. standard errors -/

/-- entry `i` of the radicands: `rmse² · Cᵢᵢ` -/
theorem errSq_entry (r : Rat) (cov : Mat) (i : Nat) (hi : i < cov.length) :
    (errSq r cov)[i]? = some (r * (cov.getD i []).getD i 0) := by
  simp [errSq, hi]

/-- **standard error in optimiser space = RMSE · √Cᵢᵢ**: the radicand `rmse² · Cᵢᵢ` the model returns is
    non-negative for the model's covariance matrix and `rmse² ≥ 0`, and its real square root factors. -/
theorem stderr_formula (sv : Vec) (vt : Mat) (m n : Nat) (i : Fin n) (r : ℚ) (hr : 0 ≤ r) :
    0 ≤ r * covMatrix sv vt m n i i ∧
    Real.sqrt ((r * covMatrix sv vt m n i i : ℚ) : ℝ) =
      Real.sqrt (r : ℝ) * Real.sqrt ((covMatrix sv vt m n i i : ℚ) : ℝ) := by
  have hc := covariance_diag_nonneg sv vt m n i
  refine ⟨mul_nonneg hr hc, ?_⟩
  rw [Rat.cast_mul, Real.sqrt_mul (by exact_mod_cast hr)]

open Glotaran.C11 in
/-- **what is stored**: a parameter that is not non-negative gets the error itself; a non-negative one (optimised as
    `log v`) gets `v·(eᵉ − 1)` if `e < |log v|` and `|v|` otherwise (`_log_value(1)` uses `1 + 1e-10`). -/
theorem stderr_stored (p : C11.Parameter ℝ) (v e : ℝ) (hv : p.value = .fin v) :
    C11.seValue p e =
      if p.nonNeg then
        .fin (if e < |Real.log (if v = 1 then v + 1 / 10000000000 else v)| then v * (Real.exp e - 1) else |v|)
      else .fin e := by
  unfold C11.seValue
  by_cases h : p.nonNeg = true
  · simp only [h, if_true, hv, C11.logFin_real]
    simp only [Num.ifLt, Num.abs, Num.mul, Num.sub, Num.exp, Num.ofRat]
    simp
  · simp [h]

/-- **mapped back from log space**: for `v > 0` the stored value `v·(eᵉ − 1)` is the distance from `v = exp(log v)` to
    `exp(log v + e)`, i.e. the image of the one-sigma step `e` in optimiser space -/
theorem stderr_log_space (v e : ℝ) (hv : 0 < v) :
    v * (Real.exp e - 1) = Real.exp (Real.log v + e) - Real.exp (Real.log v) := by
  rw [Real.exp_add, Real.exp_log hv]; ring

/-- **standard errors are non-negative** whenever the optimiser-space error is (it is a square root) and the
    non-negative parameter's value is (it is an exponential) -/
theorem stderr_nonneg (p : C11.Parameter ℝ) (v e : ℝ) (hv : p.value = .fin v) (he : 0 ≤ e)
    (hpos : p.nonNeg = true → 0 ≤ v) :
    ∃ s, C11.seValue p e = .fin s ∧ 0 ≤ s := by
  rw [stderr_stored p v e hv]
  by_cases h : p.nonNeg = true
  · simp only [h, if_true]
    refine ⟨_, rfl, ?_⟩
    generalize |Real.log (if v = 1 then v + 1 / 10000000000 else v)| = L
    by_cases hlt : e < L
    · rw [if_pos hlt]
      exact mul_nonneg (hpos h) (by linarith [Real.one_le_exp he])
    · rw [if_neg hlt]
      exact abs_nonneg v
  · simp only [h]
    exact ⟨e, by simp, he⟩

/-- value e³ (log-space value 3), error 1 < 3: the log branch -/
example : C11.seValue (⟨"k", .fin (Real.exp 3), .ninf, .pinf, true, true, none, .nan⟩ : C11.Parameter ℝ) 1 =
    .fin (Real.exp 3 * (Real.exp 1 - 1)) := by
  rw [stderr_stored _ (Real.exp 3) 1 rfl]
  have hne : Real.exp 3 ≠ 1 := by
    intro h
    have := Real.exp_eq_one_iff 3 |>.mp h
    norm_num at this
  simp [hne]

/-- value 2, error 5 ≥ |log 2|: the cap `|v|` -/
example : C11.seValue (⟨"k", .fin 2, .ninf, .pinf, true, true, none, .nan⟩ : C11.Parameter ℝ) 5 = .fin 2 := by
  rw [stderr_stored _ 2 5 rfl]
  have h1 : Real.log 2 ≤ 2 - 1 := Real.log_le_sub_one_of_pos (by norm_num)
  have h0 : 0 ≤ Real.log 2 := Real.log_nonneg (by norm_num)
  have h : ¬ (5 : ℝ) < |Real.log 2| := by rw [abs_of_nonneg h0]; linarith
  simp [h]

/-! ### 8. the source, function by function: `GlotaranModel/Generated/C13Fns.lean` = the hand-written model

`Generated.*` is regenerated from the source text of the statistics code on every run (harness/props/_c13_translate.py):
one definition per assignment, the body being the Python expression in the vocabulary of `GlotaranModel/C13Py.lean`.
The theorems below say that every generated definition computes what the hand-written definition — the one the
theorems of sections 1–7 are about — computes, for all inputs.  The proofs unfold whatever definitions the generated
file contains (`c13_unfold_generated`, itself generated), rewrite the numpy vocabulary into the model's operations
(`c13_py_norm`) and finish with `ring` / `omega`: an edit of the source that keeps the value keeps them, an edit that
changes the value breaks them. -/

/-- the numpy vocabulary in terms of the model's operations -/
macro "c13_py_norm" : tactic =>
  `(tactic| simp only [Py.size_eq, Py.len_eq, Py.sumInt_eq, Py.sumVec_powVec_two, Py.npdot_self, Py.npdot_eq_dot,
      Py.sumMat_powMat_two, Py.maxInitial_zero, Py.finfoEps_eq, Py.pydiv_intCast, Py.idx_shapeMat_zero,
      Py.idx_shapeMat_one, sqrtRat_eq, Py.maxInt_pair, dot_self_eq])

/-- closes an equation between two spellings of the same number -/
macro "c13_close" : tactic =>
  `(tactic| first
    | rfl
    | omega
    | (push_cast <;> ring)
    | (split_ifs <;> first | rfl | (exfalso; omega) | (simp only [Option.some.injEq] <;> push_cast <;> ring)))

section
variable {γ : Type}

/-- **`create_result`, integer statistics**: the generated `number_of_residuals`, `number_of_free_parameters`,
    `number_of_clps` and `degrees_of_freedom` are the fields of `stats` (fed with `fun`, `x.size` and the sum of the
    groups' clp counts). -/
theorem generated_counts_eq_model (i : Py.CreateResultIn γ) (nClps : Nat)
    (hc : (i.groups.map i.number_of_clps).sum = (nClps : Int)) :
    Generated.cr_number_of_residuals i = ((stats i.res_fun i.res_x.length nClps).nResiduals : Int) ∧
    Generated.cr_number_of_free_parameters i = ((stats i.res_fun i.res_x.length nClps).nFree : Int) ∧
    Generated.cr_number_of_clps i = ((stats i.res_fun i.res_x.length nClps).nClps : Int) ∧
    Generated.cr_degrees_of_freedom i = (stats i.res_fun i.res_x.length nClps).dof := by
  refine ⟨?_, ?_, ?_, ?_⟩ <;>
  · c13_unfold_generated
    try c13_py_norm
    simp only [stats, hc]
    try c13_close

/-- **`create_result`, χ², reduced χ², cost**: the generated definitions are the fields of `stats`; `reduced_chi_square`
    is undefined (`ZeroDivisionError`) exactly when the model's is `none`.  The cost is computed from a second
    evaluation of the objective (`self.calculate_penalty()`): it is the model's cost when that evaluation returns the
    optimiser's `fun` (purity of the objective: C10). -/
theorem generated_statistics_eq_model (i : Py.CreateResultIn γ) (nClps : Nat)
    (hc : (i.groups.map i.number_of_clps).sum = (nClps : Int)) :
    Generated.cr_chi_square i = (stats i.res_fun i.res_x.length nClps).chiSquare ∧
    Generated.cr_reduced_chi_square i = (stats i.res_fun i.res_x.length nClps).reducedChiSquare ∧
    (i.calculate_penalty = i.res_fun → Generated.cr_cost i = (stats i.res_fun i.res_x.length nClps).cost) := by
  refine ⟨?_, ?_, ?_⟩
  · c13_unfold_generated
    try c13_py_norm
    simp only [stats]
    try c13_close
  · c13_unfold_generated
    try c13_py_norm
    simp only [stats, hc]
    try c13_close
  · intro hpen
    c13_unfold_generated
    try c13_py_norm
    simp only [stats, hpen, dot_self_eq]
    try c13_close

/-- **`root_mean_square_error = √(reduced χ²)`** in every number class (`none` = no reduced χ²) -/
theorem generated_rmse_eq_model {α : Type} [SNum α] (i : Py.CreateResultIn γ) (nClps : Nat)
    (hc : (i.groups.map i.number_of_clps).sum = (nClps : Int)) :
    Generated.cr_root_mean_square_error (α := α) i = (stats i.res_fun i.res_x.length nClps).rmse := by
  have hred := (generated_statistics_eq_model i nClps hc).2.1
  unfold Generated.cr_root_mean_square_error
  try simp only [hred]
  try c13_unfold_generated
  try c13_py_norm
  simp only [Stats.rmse, Stats.rmseSq]
  cases (stats i.res_fun i.res_x.length nClps).reducedChiSquare <;> rfl

end

private theorem natCast_sum_int (l : List Nat) : ((l.map (fun (c : Nat) => (c : Int))).sum) = ((l.sum : Nat) : Int) := by
  induction l with
  | nil => rfl
  | cons a l ih => simp only [List.map_cons, List.sum_cons, ih]; omega

/-- **`create_result` on the scheme model**: fed with the objective of C02 as `fun`, the groups of the scheme and
    their `groupClps` as `number_of_clps`, the generated statistics are the fields of `createStats` — the record the
    theorems of sections 1–3 are about. -/
theorem generated_create_result_eq_createStats (mi : ModelItems) (gs : List Group) (st : Stats)
    (i : Py.CreateResultIn Group)
    (h : createStats mi gs i.res_x.length = some st)
    (hfun : objective mi gs = some i.res_fun) (hg : i.groups = gs)
    (hn : ∀ g ∈ gs, ∀ c, groupClps mi g = some c → i.number_of_clps g = (c : Int))
    (hpen : i.calculate_penalty = i.res_fun) :
    Generated.cr_number_of_residuals i = (st.nResiduals : Int) ∧
    Generated.cr_number_of_free_parameters i = (st.nFree : Int) ∧
    Generated.cr_number_of_clps i = (st.nClps : Int) ∧
    Generated.cr_degrees_of_freedom i = st.dof ∧
    Generated.cr_chi_square i = st.chiSquare ∧
    Generated.cr_reduced_chi_square i = st.reducedChiSquare ∧
    Generated.cr_cost i = st.cost := by
  obtain ⟨f, c, hf, hcl, rfl⟩ := createStats_some mi gs _ st h
  rw [hfun] at hf
  cases Option.some.inj hf
  have hc : (i.groups.map i.number_of_clps).sum = (c : Int) := by
    unfold numberOfClps at hcl
    obtain ⟨per, hper, rfl⟩ := Option.map_eq_some_iff.mp hcl
    rw [hg, ← Length.mapM_option_map_eq (groupClps mi) (fun (c : Nat) => (c : Int)) i.number_of_clps gs per hper
      (fun g hgm c hc => (hn g hgm c hc).symm)]
    exact natCast_sum_int per
  obtain ⟨h1, h2, h3, h4⟩ := generated_counts_eq_model i c hc
  obtain ⟨h5, h6, h7⟩ := generated_statistics_eq_model i c hc
  exact ⟨h1, h2, h3, h4, h5, h6, h7 hpen⟩

/-- the hypotheses of `generated_create_result_eq_createStats` are satisfiable: the 2 × 2 weighted example group has an
    objective, a clp count and statistics -/
example : (objective {} [Length.exampleGroup]).isSome = true ∧ (groupClps {} Length.exampleGroup).isSome = true ∧
    (createStats {} [Length.exampleGroup] 1).isSome = true := by decide +kernel

/-- non-vacuity: residuals (3, 4, 0), one free parameter, two groups with 1 + 0 clps: dof = 1, χ² = 25, cost = 25/2 -/
example :
    let i : Py.CreateResultIn Nat := ⟨[3, 4, 0], [7], [1, 0], fun g => (g : Int), [3, 4, 0]⟩
    (i.groups.map i.number_of_clps).sum = ((1 : Nat) : Int) ∧ i.calculate_penalty = i.res_fun ∧
    Generated.cr_degrees_of_freedom i = 1 ∧ Generated.cr_chi_square i = 25 ∧
    Generated.cr_reduced_chi_square i = some 25 ∧ Generated.cr_cost i = 25 / 2 := by
  decide +kernel

/-! the covariance function -/

section
variable {α : Type} [SNum α]

/-- **the cut-off**: the generated `jacobian_sv_square`, `threshold` and `mask` are `s²`, the model's *relative*
    `threshold` (`eps · max(shape) · s_max`) and the model's mask `s > threshold` -/
theorem generated_cutoff_eq_model (i : Py.CovarianceIn α) (sv : Vec) (m n : Nat)
    (hs : i.svd_s = sv) (hshape : i.jacobian_shape = [(m : Int), (n : Int)]) :
    Generated.cov_jacobian_sv_square i = sv.map (fun s => s * s) ∧
    Generated.cov_threshold i = threshold sv m n ∧
    Generated.cov_mask i = svMask sv m n := by
  have hthr : Generated.cov_threshold i = threshold sv m n := by
    c13_unfold_generated
    simp only [hs, hshape]
    try c13_py_norm
    simp only [threshold]
    try c13_close
  refine ⟨?_, hthr, ?_⟩
  · c13_unfold_generated
    simp only [hs]
    try c13_py_norm
    try simp only [Py.powVec_two]
  · unfold Generated.cov_mask
    try simp only [hthr]
    try c13_unfold_generated
    simp only [hs]
    try c13_py_norm
    first
    | rfl
    | exact Py.gtScalar_threshold sv m n

/-- **the covariance matrix**: what the function returns, read as a matrix, is the model's `covariance` of the
    singular values and right singular vectors (`Vt` with `n` columns and a row per singular value) -/
theorem generated_covariance_eq_model (i : Py.CovarianceIn α) (sv : Vec) (vt : Mat) (m n : Nat)
    (hs : i.svd_s = sv) (hvt : i.svd_vt = Py.Arr.ofMat n vt) (hshape : i.jacobian_shape = [(m : Int), (n : Int)])
    (hlen : vt.length = sv.length) :
    (Generated.cov_returned i).toMat = covariance sv vt m n := by
  obtain ⟨hsq, _, hmask⟩ := generated_cutoff_eq_model i sv m n hs hshape
  c13_unfold_generated at hsq hmask
  c13_unfold_generated
  simp only [hsq, hmask, hvt]
  exact Py.covariance_pipeline sv vt n _ hlen

/-- **optimiser-space standard errors**: the generated `standard_errors` are `rmse · √(diag C)` of the model's
    covariance matrix -/
theorem generated_standard_errors_eq_model (i : Py.CovarianceIn α) (sv : Vec) (vt : Mat) (m n : Nat)
    (hs : i.svd_s = sv) (hvt : i.svd_vt = Py.Arr.ofMat n vt) (hshape : i.jacobian_shape = [(m : Int), (n : Int)])
    (hlen : vt.length = sv.length) :
    Generated.cov_standard_errors i = standardErrors i.root_mean_square_error (covariance sv vt m n) := by
  have hcov := generated_covariance_eq_model i sv vt m n hs hvt hshape hlen
  have hshape' : (Generated.cov_covariance_matrix i).rows.length = n ∧ (Generated.cov_covariance_matrix i).cols = n := by
    c13_unfold_generated
    simp only [hvt]
    exact Py.pipeline_shape vt n _ _
  unfold Generated.cov_standard_errors
  rw [Py.diag_of_toMat _ n hshape'.1 hshape'.2]
  unfold Generated.cov_returned at hcov
  rw [hcov]
  simp only [standardErrors, Py.scaleVec, Py.sqrtVec, List.map_map]
  rfl

/-- **the value stored in `parameter.standard_error`** by one pass of the loop body is C11's `seValue` -/
theorem generated_stored_standard_error_eq_model (p : C11.Parameter α) (v e : α) (hv : p.value = .fin v) :
    C11.seValue p e = .fin (Generated.se_stored ⟨p.nonNeg, v, e⟩) := by
  unfold C11.seValue
  c13_unfold_generated
  simp only [hv]
  cases p.nonNeg <;> rfl

end

/-- **`rmse · √Cᵢᵢ` over ℝ is the square root of the radicand `rmse² · Cᵢᵢ`** the rational model returns (`errSq`) -/
theorem standard_errors_sqrt_of_radicands (r : ℚ) (hr : 0 ≤ r) (cov : Mat) :
    standardErrors (Real.sqrt (r : ℝ)) cov = (errSq r cov).map (fun q => Real.sqrt ((q : ℚ) : ℝ)) := by
  simp only [standardErrors, errSq, List.map_map]
  apply List.map_congr_left
  intro k _
  simp only [Function.comp]
  show Real.sqrt (r : ℝ) * Real.sqrt (((cov.getD k []).getD k 0 : ℚ) : ℝ) = _
  rw [Rat.cast_mul, Real.sqrt_mul (by exact_mod_cast hr)]

/-- non-vacuity: J with s = (2, 1), rotated `Vt`, 3 × 2 — the generated pipeline gives the matrix of section 6 -/
example :
    let i : Py.CovarianceIn ℝ := ⟨[3, 2], [2, 1], Py.Arr.ofMat 2 [[3/5, 4/5], [-4/5, 3/5]], 1⟩
    (Generated.cov_returned i).toMat = [[73/100, -9/25], [-9/25, 13/25]] := by
  decide +kernel

/-! the RMSE attributes of a result dataset -/

/-- **per-dataset RMSE**: the generated `size`, `root_mean_square_error` and `weighted_root_mean_square_error` are the
    model's `datasetStats` (square roots of its radicands) -/
theorem generated_dataset_rmse_eq_model {α : Type} [SNum α] (r : C03.DsResult) :
    Generated.ds_size ⟨r.residual, r.weighted⟩ = ((datasetStats r).size : Int) ∧
    Generated.ds_root_mean_square_error (α := α) ⟨r.residual, r.weighted⟩ = (datasetStats r).rmse ∧
    Generated.ds_weighted_root_mean_square_error (α := α) ⟨r.residual, r.weighted⟩ = (datasetStats r).wrmse := by
  have hsize : Generated.ds_size ⟨r.residual, r.weighted⟩ = ((datasetStats r).size : Int) := by
    c13_unfold_generated
    try c13_py_norm
    simp only [datasetStats]
    try c13_close
  have hrm : Generated.ds_root_mean_square_error (α := α) ⟨r.residual, r.weighted⟩ = (datasetStats r).rmse := by
    unfold Generated.ds_root_mean_square_error
    try simp only [hsize]
    try c13_unfold_generated
    try c13_py_norm
    simp only [DsStats.rmse, datasetStats]
    try (congr 1 <;> c13_close)
  refine ⟨hsize, hrm, ?_⟩
  unfold Generated.ds_weighted_root_mean_square_error
  try simp only [hsize, hrm]
  try c13_unfold_generated
  try c13_py_norm
  cases hw : r.weighted with
  | none => simp only [DsStats.wrmse, DsStats.rmse, datasetStats, hw]
  | some w =>
    simp only [DsStats.wrmse, datasetStats, hw]
    try (congr 1 <;> c13_close)

example : Generated.ds_size ⟨[[1, 2], [3, 4]], some [[2, 4], [6, 8]]⟩ = 4 := by decide +kernel

/-! `number_of_clps` of the matrix providers -/

private theorem natCast_map_sum {β : Type} (l : List β) (f : β → Nat) :
    (l.map (fun p => ((f p : Nat) : Int))).sum = (((l.map f).sum : Nat) : Int) := by
  rw [← natCast_sum_int, List.map_map]; rfl

private theorem foldl_add_map {β : Type} (l : List β) (f : β → Int) (a : Int) :
    l.foldl (fun acc d => acc + f d) a = a + (l.map f).sum := by
  induction l generalizing a with
  | nil => simp
  | cons x xs ih => simp only [List.foldl_cons, List.map_cons, List.sum_cons, ih]; omega

/-- **`MatrixProviderLinked.number_of_clps`**: the generated sum over `range(len(aligned_global_axis))` of the label
    counts of the aligned matrix containers is the model's `groupClps` of a linked group (the container at index `k`
    being the model's reduced problem at the `k`-th aligned value) -/
theorem generated_linked_number_of_clps_eq_model (mi : ModelItems) (g : Group) (axis : List Rat) (ps : List IndexProblem)
    (hl : g.linked = true) (h : linkedProblems mi g = some (axis, ps))
    (i : Py.LinkedClpsIn) (hax : i.aligned_global_axis = axis)
    (hlab : ∀ (k : Nat) (hk : k < ps.length), i.aligned_clp_labels (k : Int) = ps[k].reduced.labels) :
    (groupClps mi g).map (fun (c : Nat) => (c : Int)) = some (Generated.linked_number_of_clps i) := by
  obtain ⟨hx, _⟩ := linkedProblems_labels mi g axis ps h
  have hlen : Py.len axis = Py.len ps := by rw [← hx]; simp [Py.len]
  unfold groupClps
  simp only [hl, if_true, h, Option.map_some]
  c13_unfold_generated
  rw [Py.sumInt_eq, hax, hlen,
    Py.sum_range_len ps _ (fun p => ((p.reduced.labels.length : Nat) : Int))
      (fun k hk => by rw [hlab k hk]; rfl)]
  rw [natCast_map_sum]

/-- **`MatrixProviderUnlinked.number_of_clps`**: the generated loop (`|model labels| · |global labels|` for a dataset
    with a global model, else the sum over its global axis of the label counts of the prepared containers) is the
    model's `groupClps` of an unlinked group -/
theorem generated_unlinked_number_of_clps_eq_model (mi : ModelItems) (g : Group) (c : Nat)
    (hl : g.linked = false) (h : groupClps mi g = some c)
    (i : Py.UnlinkedClpsIn Dataset) (hd : i.dataset_models = g.datasets)
    (hglob : ∀ d ∈ g.datasets, i.has_global_model d = !d.gmcs.isEmpty)
    (hfull : ∀ d ∈ g.datasets, ∀ lm gm, datasetMatrix d.mcs = some lm → datasetMatrix d.gmcs = some gm →
      i.model_clp_labels d = lm.labels ∧ i.global_clp_labels d = gm.labels)
    (hidx : ∀ d ∈ g.datasets, ∀ ps, unlinkedProblems mi d = some ps →
      (i.global_axis d).length = ps.length ∧
      ∀ (k : Nat) (hk : k < ps.length), i.prepared_clp_labels d (k : Int) = ps[k].reduced.labels) :
    Generated.unlinked_number_of_clps i = (c : Int) := by
  unfold groupClps at h
  simp only [hl, Bool.false_eq_true, if_false] at h
  obtain ⟨per, hper, rfl⟩ := Option.map_eq_some_iff.mp h
  c13_unfold_generated
  simp only [← add_ite, foldl_add_map, hd, Int.zero_add]
  rw [← natCast_sum_int, ← Length.mapM_option_map_eq (datasetClps mi) (fun (k : Nat) => (k : Int)) _ g.datasets per hper]
  intro d hdm k hk
  unfold datasetClps at hk
  rw [hglob d hdm]
  cases hg : d.gmcs.isEmpty with
  | false =>
    simp only [hg, Bool.not_false, if_true] at hk ⊢
    cases hlm : datasetMatrix d.mcs with
    | none => simp [hlm] at hk
    | some lm =>
      cases hgm : datasetMatrix d.gmcs with
      | none => simp [hlm, hgm] at hk
      | some gm =>
        simp only [hlm, hgm, Option.some.injEq] at hk
        obtain ⟨h1, h2⟩ := hfull d hdm lm gm hlm hgm
        rw [h1, h2, ← hk]
        simp [Py.len]
  | true =>
    simp only [hg, Bool.not_true, Bool.false_eq_true, if_false] at hk ⊢
    obtain ⟨ps, hps, rfl⟩ := Option.map_eq_some_iff.mp hk
    obtain ⟨hlen, hlab⟩ := hidx d hdm ps hps
    have hlen' : Py.len (i.global_axis d) = Py.len ps := by simp [Py.len, hlen]
    rw [Py.sumInt_eq, hlen',
      Py.sum_range_len ps _ (fun p => ((p.reduced.labels.length : Nat) : Int))
        (fun k hk => by rw [hlab k hk]; rfl)]
    rw [natCast_map_sum]

/-- the hypotheses of the two theorems are satisfiable: the linked example group has aligned problems, the unlinked one a count -/
example : (linkedProblems {} exLinked).isSome = true ∧ exLinked.linked = true ∧
    (groupClps {} Length.exampleGroup).isSome = true ∧ Length.exampleGroup.linked = false := by decide +kernel

/-- non-vacuity: two datasets, the first with a global model (2 · 3 labels), the second with 2 + 1 labels on two indices -/
example :
    let i : Py.UnlinkedClpsIn Nat :=
      ⟨[0, 1], fun d => d == 0, fun _ => ["a", "b"], fun _ => ["g1", "g2", "g3"], fun _ => [5, 6],
       fun _ k => if k = 0 then ["a", "b"] else ["a"]⟩
    Generated.unlinked_number_of_clps i = 2 * 3 + (2 + 1) := by decide +kernel

example :
    let i : Py.LinkedClpsIn := ⟨[1, 2, 3], fun k => if k = 1 then ["a"] else ["a", "b"]⟩
    Generated.linked_number_of_clps i = 2 + 1 + 2 := by decide +kernel

/-! ### 9. what a user reads off a `Result`: per-dataset RMSE and the global χ² -/

/-- **χ² from the per-dataset weighted RMSEs**: for any mixture of linked and unlinked groups (`GroupOK`), weighted or
    not, χ² = Σ_datasets size_d · (weighted RMSE_d)² + Σ penalties² — `size_d` = |model axis| · |global axis| of the
    result dataset, the weighted RMSE being the attribute `weighted_root_mean_square_error` (equal to
    `root_mean_square_error` for a dataset without weight).  Hence reduced χ² · dof and RMSE² · dof are the same sum.
    If no dataset has a weight the same holds with the unweighted `root_mean_square_error`. -/
theorem chi_square_from_dataset_rmse (mi : ModelItems) (gs : List Group) (k : Nat) (st : Stats)
    (rs : List C03.DsResult) (hok : ∀ g ∈ gs, GroupOK g)
    (h : createStats mi gs k = some st) (hr : C03.resultsOwn mi gs = some rs)
    (hs : ∀ r ∈ rs, (datasetStats r).size ≠ 0) :
    ∃ pens, additionalPenalty mi gs = some pens ∧
      st.chiSquare = (rs.map (fun r => ((datasetStats r).size : Rat) * (datasetStats r).wrmseSq)).sum
        + (pens.map sumOfSquares).sum ∧
      ((∀ r ∈ rs, r.weighted = none) →
        st.chiSquare = (rs.map (fun r => ((datasetStats r).size : Rat) * (datasetStats r).rmseSq)).sum
          + (pens.map sumOfSquares).sum) ∧
      (∀ red, st.reducedChiSquare = some red →
        red * (st.dof : Rat) = (rs.map (fun r => ((datasetStats r).size : Rat) * (datasetStats r).wrmseSq)).sum
          + (pens.map sumOfSquares).sum) := by
  obtain ⟨pens, hadd, hchi, _⟩ := chi_square_over_result_datasets mi gs k st rs hok h hr
  have hw : (rs.map (fun r => matSumSq (weightedResidual r))) =
      rs.map (fun r => ((datasetStats r).size : Rat) * (datasetStats r).wrmseSq) := by
    apply List.map_congr_left
    intro r hrm
    rw [← (dataset_rmse_formula r (hs r hrm)).2.2.1]; ring
  have hchi' : st.chiSquare = (rs.map (fun r => ((datasetStats r).size : Rat) * (datasetStats r).wrmseSq)).sum
      + (pens.map sumOfSquares).sum := by rw [hchi, hw]
  refine ⟨pens, hadd, hchi', ?_, ?_⟩
  · intro hnone
    rw [hchi']
    congr 2
    apply List.map_congr_left
    intro r hrm
    rw [(dataset_rmse_formula r (hs r hrm)).2.2.2.1 (hnone r hrm)]
  · intro red hred
    obtain ⟨f, c, _, _, rfl⟩ := createStats_some mi gs k st h
    rw [← hchi']
    by_cases hd : (stats f k c).dof = 0
    · rw [(reduced_chi_square_formula f k c).1 hd] at hred; cases hred
    · obtain ⟨r', hr', _, hmul, _⟩ := (reduced_chi_square_formula f k c).2 hd
      rw [hr'] at hred; cases hred; exact hmul

/-- the linked group and the full-model group of section 2b with the penalty: χ² from the three datasets' sizes and
    weighted RMSE radicands -/
example :
    (C03.resultsOwn exMi [exLinked, exFull]).map (fun rs => rs.map (fun r => ((datasetStats r).size, (datasetStats r).wrmseSq))) =
      some [(4, 4059 / 3481 / 4), (6, 32761 / 73101 / 6), (6, 1837 / 427 / 6)] ∧
    (createStats exMi [exLinked, exFull] 1).map (·.chiSquare) =
      some (4 * (4059 / 3481 / 4) + 6 * (32761 / 73101 / 6) + 6 * (1837 / 427 / 6) + 7936 / 1239 * (7936 / 1239)) := by
  refine ⟨by decide +kernel, by decide +kernel⟩

/-- **the unweighted RMSE of a weighted dataset does not add up to χ²** (it is the RMSE of `weighted_residual / weight`):
    residual [[1, 2], [3, 4]], weight 2 — Σ weighted_residual² = 120 but size · RMSE² = 30 -/
theorem unweighted_rmse_not_chi_square_counterexample :
    let r : C03.DsResult := ⟨"a", ["c"], [], [[1, 2], [3, 4]], some [[2, 4], [6, 8]], []⟩
    matSumSq (weightedResidual r) = 120 ∧ ((datasetStats r).size : Rat) * (datasetStats r).wrmseSq = 120 ∧
    ((datasetStats r).size : Rat) * (datasetStats r).rmseSq = 30 := by
  decide +kernel

/-! ### 10. edge cases the property quantifies over -/

/-- **the statistics are total**: whatever the sizes — no residuals, no free parameter (empty Jacobian), more
    parameters and clps than points — `stats` has a value; the only undefined quantity is reduced χ² (and with it the
    RMSE and the standard errors) at dof = 0, where the code raises `ZeroDivisionError` and no `Result` exists. -/
theorem stats_total (f : Vec) (nFree nClps : Nat) :
    ((stats f nFree nClps).reducedChiSquare = none ↔ f.length = nFree + nClps) ∧
    ((stats f nFree nClps).reducedChiSquare.isSome ↔ f.length ≠ nFree + nClps) := by
  have hd : (stats f nFree nClps).dof = 0 ↔ f.length = nFree + nClps := by rw [stats_dof]; omega
  constructor
  · constructor
    · intro h
      by_contra hne
      obtain ⟨r, hr, _⟩ := (reduced_chi_square_formula f nFree nClps).2 (fun h0 => hne (hd.mp h0))
      rw [h] at hr; cases hr
    · intro h; exact (reduced_chi_square_formula f nFree nClps).1 (hd.mpr h)
  · constructor
    · intro h hne
      rw [(reduced_chi_square_formula f nFree nClps).1 (hd.mpr hne)] at h; cases h
    · intro h
      obtain ⟨r, hr, _⟩ := (reduced_chi_square_formula f nFree nClps).2 (fun h0 => h (hd.mp h0))
      rw [hr]; rfl

/-- **more parameters and clps than points: no RMSE** — with a non-zero residual the reduced χ² is negative, so no
    real number is its square root (numpy reports `nan` for the RMSE and for every standard error; the report shows
    `nan`).  The formula `RMSE = √(reduced χ²)` has no value there; the property's quantifier (a fit with noise) has
    dof > 0. -/
theorem negative_dof_has_no_rmse (f : Vec) (nFree nClps : Nat) (hneg : (stats f nFree nClps).dof < 0)
    (hf : sumOfSquares f ≠ 0) :
    ∃ r, (stats f nFree nClps).rmseSq = some r ∧ r < 0 ∧ ∀ x : ℝ, x * x ≠ (r : ℝ) := by
  obtain ⟨r, _, hr, hmul, _⟩ := (reduced_chi_square_formula f nFree nClps).2 (ne_of_lt hneg)
  have hchi : 0 < (stats f nFree nClps).chiSquare := by
    rw [stats_chi]; exact lt_of_le_of_ne (sumOfSquares_nonneg f) (Ne.symm hf)
  have hd : ((stats f nFree nClps).dof : Rat) < 0 := by exact_mod_cast hneg
  have hr0 : r < 0 := by
    by_contra hge
    have : r * ((stats f nFree nClps).dof : Rat) ≤ 0 := mul_nonpos_of_nonneg_of_nonpos (not_lt.mp hge) (le_of_lt hd)
    rw [hmul] at this
    exact absurd hchi (not_lt.mpr this)
  refine ⟨r, hr, hr0, ?_⟩
  intro x hx
  have : (0 : ℝ) ≤ x * x := mul_self_nonneg x
  rw [hx] at this
  have : (r : ℝ) < 0 := by exact_mod_cast hr0
  linarith

example : (stats [3, 4] 2 1).dof = -1 ∧ (stats [3, 4] 2 1).rmseSq = some (-25) := by decide +kernel

/-- **a parameter the model does not depend on** (its column of the Jacobian is zero — a singular direction): its row
    and column of the covariance matrix are zero, so its optimiser-space standard error `rmse · √Cⱼⱼ` is 0 — not
    `inf`, not `nan` (and a non-negative parameter then stores `v · (e⁰ − 1) = 0` as well).  Needs only `UᵀU = 1` and
    `J = U·diag(s)·Vt`. -/
theorem stderr_of_singular_direction {mm : Nat} (sv : Vec) (vt : Mat) (m n : Nat)
    (U : Matrix (Fin mm) (Fin (sv.zip vt).length) ℚ) (J : Matrix (Fin mm) (Fin n) ℚ)
    (hU : Uᵀ * U = 1) (hJ : J = U * diagonal (sigmaFn sv vt) * vtMatrix sv vt n)
    (j : Fin n) (hcol : ∀ i, J i j = 0) (r : ℚ) :
    (∀ l, covMatrix sv vt m n j l = 0) ∧ (∀ l, covMatrix sv vt m n l j = 0) ∧ r * covMatrix sv vt m n j j = 0 := by
  have key : ∀ k, sigmaFn sv vt k * vtMatrix sv vt n k j = 0 := by
    intro k
    have h1 : (Uᵀ * J) k j = 0 := by
      rw [Matrix.mul_apply]
      exact Finset.sum_eq_zero (fun i _ => by rw [hcol i]; ring)
    have h2 : Uᵀ * J = diagonal (sigmaFn sv vt) * vtMatrix sv vt n := by
      rw [hJ, ← Matrix.mul_assoc, ← Matrix.mul_assoc, hU, Matrix.one_mul]
    rw [h2, Matrix.diagonal_mul] at h1
    exact h1
  have zero : ∀ k, vtMatrix sv vt n k j * cw (kept sv m n) (sigmaFn sv vt k) = 0 := by
    intro k
    unfold cw
    by_cases hk : kept sv m n (sigmaFn sv vt k) = true
    · have hne := kept_ne_zero sv m n _ hk
      rcases mul_eq_zero.mp (key k) with h | h
      · exact absurd h hne
      · rw [h]; ring
    · simp [hk]
  have row : ∀ l, covMatrix sv vt m n j l = 0 := by
    intro l
    rw [covariance_eq_sandwich, sandwich_apply]
    exact Finset.sum_eq_zero (fun k _ => by rw [zero k]; ring)
  have col : ∀ l, covMatrix sv vt m n l j = 0 := by
    intro l
    have := congrFun (congrFun (covariance_symm sv vt m n) j) l
    rw [Matrix.transpose_apply] at this
    rw [this]; exact row l
  exact ⟨row, col, by rw [row j]; ring⟩

/-- the rank-2 Jacobian of section 6 (its third column is zero): third row and column of the covariance vanish -/
example : (∀ l, covMatrix exSv exVt 4 3 2 l = 0) ∧ (covariance exSv exVt 4 3).getD 2 [] = [0, 0, 0] := by
  refine ⟨(stderr_of_singular_direction exSv exVt 4 3 exU _ exU_orth rfl 2 ?_ 1).1, by decide +kernel⟩
  intro i
  fin_cases i <;> decide +kernel

/-! ### 11. the report -/

/-- what the report has to show: row label ↦ field of the `Result` -/
def reportSpec : List (String × String) :=
  [("Number of residuals", "number_of_residuals"), ("Number of free parameters", "number_of_free_parameters"),
   ("Number of conditionally linear parameters", "number_of_clps"), ("Degrees of freedom", "degrees_of_freedom"),
   ("Chi Square", "chi_square"), ("Reduced Chi Square", "reduced_chi_square"),
   ("Root Mean Square Error (RMSE)", "root_mean_square_error")]

/-- **`Result.markdown` shows the statistics of the Result** (table regenerated from the source of `markdown`): every
    statistic has its row, the row reads the field of that name, and a number — zero included — is shown as that number;
    the per-dataset table puts `weighted_root_mean_square_error` under "weighted" and `root_mean_square_error` under
    "unweighted". -/
theorem report_shows_the_statistics :
    (∀ lf ∈ reportSpec, lf ∈ Generated.reportRows.map (fun r => (r.1, r.2.1))) ∧
    (∀ r ∈ Generated.reportRows, ∀ x : Rat, shownValue r.2.2 (some x) = some x) ∧
    Generated.rmseColumns = [("weighted", "weighted_root_mean_square_error"), ("unweighted", "root_mean_square_error")] ∧
    Generated.rmseFloatFmt = ".2e" := by
  refine ⟨by decide, ?_, by decide, by decide⟩
  intro r hr x
  have hk : r.2.2 = "plain" ∨ r.2.2 = "none-to-nan:.2e" := by
    revert r
    decide
  rcases hk with h | h <;> simp [shownValue, h]

/-- regression (fix C13-report-zero-statistics): `x or np.nan` showed a statistic that is exactly 0 as "nan" -/
example : shownValue "falsy-to-nan:.2e" (some 0) = none ∧ shownValue "none-to-nan:.2e" (some 0) = some 0 := by decide

end Glotaran.C13
