/-
C10 — the objective is pure and deterministic; `optimize()` leaves its inputs unchanged.
Property theorems only (vocabulary and helper lemmas: GlotaranProofs/Lemmas/C10*.lean).

Model: GlotaranModel/C10.lean (containers of `Optimizer` / `OptimizationGroup` / providers as a store machine, one
evaluation = a list of micro-steps in code order, an exception may interrupt it after ANY micro-step) and
GlotaranModel/C10Kernels.lean (numba kernels: loop nests and array accesses regenerated from the source, a shared
memory machine with arbitrary interleavings).  All statements hold for every scheme structure (any number of groups,
datasets, axis points, aligned points; linked / unlinked; full models; weights), every interpretation `fn` of the
numerical computations, every history of operations and every fault position — no bounds.
-/
import GlotaranProofs.Lemmas.C10Params
import GlotaranProofs.Lemmas.C10Machine
import GlotaranProofs.Lemmas.C10Race
import GlotaranProofs.Lemmas.C10Steps
import GlotaranProofs.Lemmas.C10Outputs
import GlotaranModel.Generated.C10
import GlotaranModel.Generated.C10Steps
namespace Glotaran.C10

variable {P X M D V : Type}

/-! ## 1. purity of the objective -/

/-- **The invariant behind history independence: every container is overwritten before it is read.**  In one
    evaluation (`calculate_penalty`) no micro-step reads — or appends to — a container that has not been overwritten
    (assigned or cleared) by an earlier micro-step of the SAME evaluation; the only thing read from outside is the value
    of the parameters.  For every scheme structure. -/
theorem containers_overwritten_before_read (spec : Spec) (hwf : Spec.WF spec) :
    wellDefined [Loc.params] (calculatePenalty spec) = true :=
  wd_calculatePenalty spec hwf [Loc.params] (List.mem_singleton.mpr rfl)

example : Spec.WF [⟨true, [⟨"d1", 3, 1, 0, false⟩, ⟨"d2", 2, 2, 0, true⟩], [["d1"], ["d1", "d2"], ["d2"]]⟩,
                   ⟨false, [⟨"d3", 2, 1, 1, true⟩, ⟨"d4", 4, 1, 0, true⟩], []⟩] := by
  intro gs hgs ds hds l hl
  simp only [List.mem_cons, List.mem_nil_iff, or_false] at hgs
  rcases hgs with rfl | rfl
  · simp only [List.mem_cons, List.mem_nil_iff, or_false] at hds
    rcases hds with rfl | rfl | rfl <;>
      (simp only [List.mem_cons, List.mem_nil_iff, or_false] at hl; rcases hl with rfl | rfl <;> simp)
  · simp at hds

/-- the check is not vacuous: an estimation that forgets `self._clps[label].clear()` is rejected … -/
example : wellDefined [Loc.params, .prepared 0 "d", .matrix 0 "d", .groupParams 0, .clps 0 "d"]
    [.clear (.residuals 0 "d"), .append (.clps 0 "d") "retrieve_clps" [.prepared 0 "d"]] = true ∧
  wellDefined [Loc.params, .prepared 0 "d", .matrix 0 "d", .groupParams 0]
    [.clear (.residuals 0 "d"), .append (.clps 0 "d") "retrieve_clps" [.prepared 0 "d"]] = false := by decide
/-- … and so is a `get_full_penalty` that reads a penalty list no step of the evaluation has reset. -/
example : wellDefined [Loc.params, .residuals 0 "d"]
    [.assign (.groupPenalty 0) "concatenate" [.residuals 0 "d", .clpPenalty 0]] = false := by decide

/-! ### the micro-step list is what the source says (translator, DESIGN §5.2) -/

/-- **The hand-written micro-step list of one evaluation IS the one the source gives**: the interpretation of the steps
    table regenerated from optimizer.py / optimization_group.py / matrix_provider.py / estimation_provider.py /
    data_provider.py / dataset_group.py on every run (every overwrite, clear, append and in-place update of a container
    with the containers the written value is computed from, every method call, loops and branches, in program order) is
    EQUAL to `calculatePenalty spec`, for every scheme structure.  A step the translator cannot place (unknown container,
    `if key not in cache`, an in-place update, a store under a foreign subscript …) is interpreted as a micro-step the model
    does not have, so this theorem stops compiling when the source changes its data flow. -/
theorem generated_steps_eq_model (spec : Spec) :
    interpret Generated.stepBlock Generated.penaltyBlock spec = calculatePenalty spec :=
  (show interpret Generated.stepBlock Generated.penaltyBlock spec = sourceProgram spec from rfl).trans
    (calculatePenalty_eq_sourceProgram spec).symm

/-- `objective_function` in the source = what `Machine.eval` does: update the private parameters in place, then
    `calculate_penalty()` -/
theorem generated_objective_eq_model :
    objectiveSteps Generated.stepBlock Generated.objectiveBlock Generated.penaltyBlock = evalSteps := by decide

/-- **"Overwritten before read" for the program the source gives now.** -/
theorem source_containers_overwritten_before_read (spec : Spec) (hwf : Spec.WF spec) :
    wellDefined [Loc.params] (interpret Generated.stepBlock Generated.penaltyBlock spec) = true := by
  rw [generated_steps_eq_model]
  exact containers_overwritten_before_read spec hwf

/-- the interpretation of the regenerated table on a linked + an unlinked group (with a full model and weights): 44
    micro-steps, the first ones being `set_parameters` of group 0 (non-vacuity) -/
example :
    let spec : Spec := [⟨true, [⟨"d1", 2, 1, 0, false⟩], [["d1"], ["d1"]]⟩,
                        ⟨false, [⟨"d2", 2, 1, 1, true⟩, ⟨"d3", 2, 2, 0, true⟩], []⟩]
    let p := interpret Generated.stepBlock Generated.penaltyBlock spec
    p.take 3 = [.alias (.groupParams 0) "parameters" .params, .alias (.datasetModel 0 "d1") "fill_item" .params,
                .mark .matrix 1] ∧
    Instr.clear (.clps 1 "d3") ∈ p ∧ Instr.clear (.clps 1 "d2") ∉ p ∧ p.length = 44 := by decide +kernel

/-- the interpreter is not blind: a table in which `calculate_estimation` appends without `self._clps[label].clear()`,
    one with a `if label not in self._matrix_containers` guard and one with a `*=` into a stored matrix are all rejected -/
example :
    let t : Nat → List Steps.Step := fun
      | 0 => [.loop .groups 1]
      | 1 => [.write ⟨.groupParameters, .whole⟩ "parameters" [⟨.parameters, .whole⟩] true, .loop .datasets 2]
      | 2 => [.write ⟨.preparedMatrixContainer, .cur⟩ "m" [⟨.groupParameters, .whole⟩] false,
              .append ⟨.clps, .cur⟩ "retrieve_clps" [⟨.preparedMatrixContainer, .cur⟩]]
      | 3 => [.loop .groups 4]
      | 4 => [.loop .datasets 5]
      | 5 => [.branch (.unknown "label not in self._matrix_containers") 6 7]
      | 6 => [.write ⟨.matrixContainers, .cur⟩ "m" [] false]
      | 8 => [.inplace ⟨.matrixContainers, .cur⟩ "*="]
      | _ => []
    let spec : Spec := [⟨false, [⟨"d", 2, 1, 0, false⟩], []⟩]
    wellDefined [Loc.params] (interpret t 0 spec) = false ∧
    interpret t 3 spec = poison "steps under a condition the translator cannot classify: label not in self._matrix_containers" ∧
    interpret t 8 spec = poison "in-place update: *=" := by decide +kernel

/-- **History independence of the objective** (partial: the hypotheses `hq`, `hq₀` say that
    `set_from_label_and_value_arrays` succeeds at `x` both after the history and in the reference state — see
    `objective_history_independent_counterexample` for what happens otherwise).

    `m₀` is ANY state of the optimiser (in particular the freshly constructed one, see
    `objective_equals_fresh_optimizer_partial`), `h` ANY history of `objective_function` / `calculate_penalty` calls,
    each of which may have been interrupted by an exception after any micro-step or may have failed while setting the
    parameters.  Then `objective_function(x)` returns after `h` exactly what it returns in `m₀`, and leaves the same
    contents in every container an evaluation overwrites. -/
theorem objective_history_independent_partial (ops : ParamOps P X V) (fn : String → List V → V) (spec : Spec)
    (hwf : Spec.WF spec) (I : P → Prop) (hI : ParamInv ops I) (m₀ : Machine P M D V) (h0 : I m₀.params)
    (hs : StoreOK m₀.store) (h : List (Op X)) (x : X) (q q₀ : P)
    (hq : ops.set (m₀.run ops fn spec h).params x = .ok q) (hq₀ : ops.set m₀.params x = .ok q₀) :
    ((m₀.run ops fn spec h).eval ops fn spec x .none).2 = (m₀.eval ops fn spec x .none).2 ∧
    ∀ l, l ∈ defs (calculatePenalty spec) →
      ((m₀.run ops fn spec h).eval ops fn spec x .none).1.store.get fn l =
        (m₀.eval ops fn spec x .none).1.store.get fn l := by
  have hIh := run_inv ops fn spec I hI h m₀ h0
  have hsh := run_storeOK ops fn spec hwf h m₀ hs
  have hv : ops.val q = ops.val q₀ := hI.indep _ _ _ _ _ hIh h0 hq hq₀
  simp only [Machine.eval, hq, hq₀]
  exact penalty_agree ops fn spec hwf _ _ (storeOK_set hsh _ _) (storeOK_set hs _ _)
    (hI.settled _ _ _ hIh hq) (hI.settled _ _ _ h0 hq₀) (get_set_same fn _ _ _) (get_set_same fn _ _ _) hv

/-- … in particular: after any history the objective equals that of a FRESH optimiser for the same scheme. -/
theorem objective_equals_fresh_optimizer_partial (ops : ParamOps P X V) (fn : String → List V → V) (spec : Spec)
    (hwf : Spec.WF spec) (I : P → Prop) (hI : ParamInv ops I) (copy : P → P) (c : Caller P M D)
    (h0 : I (copy c.parameters)) (h : List (Op X)) (x : X) (q q₀ : P)
    (hq : ops.set ((Machine.init (V := V) ops fn spec copy c).run ops fn spec h).params x = .ok q)
    (hq₀ : ops.set (copy c.parameters) x = .ok q₀) :
    (((Machine.init ops fn spec copy c).run ops fn spec h).eval ops fn spec x .none).2 =
      ((Machine.init (V := V) ops fn spec copy c).eval ops fn spec x .none).2 :=
  (objective_history_independent_partial ops fn spec hwf I hI (Machine.init ops fn spec copy c) h0
    (init_storeOK ops fn spec copy c) h x q q₀ hq hq₀).1

/-- a parameter object whose `set` forgets the past trivially satisfies the hypotheses (non-vacuity; this is the
    object the driver runs) -/
example : ParamInv driverOps (fun _ => True) :=
  ⟨fun _ _ _ _ _ => trivial, fun _ _ _ _ _ => trivial, fun _ _ _ _ => trivial, fun _ _ _ _ => trivial, by
    intro p p' x q q' _ _ h1 h2
    simp only [driverOps] at h1 h2
    split at h1
    · cases h1
    · rename_i hb
      simp only [hb] at h2
      cases h1; cases h2; rfl, by
    intro p x q _ h
    simp only [driverOps] at h ⊢
    split at h
    · cases h
    · cases h; rfl⟩

/-- a walk with an interrupted evaluation on a linked + an unlinked group, returned to the first point: the penalty
    only carries the id of the current vector (non-vacuity of the theorem on the driver's machine) -/
example :
    let spec : Spec := [⟨true, [⟨"d1", 2, 1, 0, false⟩], [["d1"], ["d1"]]⟩, ⟨false, [⟨"d2", 2, 1, 0, true⟩], []⟩]
    let m₀ : DMachine := Machine.init driverOps provFn spec (fun p => p) ⟨⟨[0], false⟩, (), [], false⟩
    let h : List (Op (Nat × Bool)) := [.eval (1, false) .none, .eval (2, false) (.residualCall 3), .eval (3, false) (.step 7)]
    ((m₀.run driverOps provFn spec h).eval driverOps provFn spec (1, false) .none).2 = .value [[1]] ∧
    ((m₀.run driverOps provFn spec h).store.get provFn (.residuals 1 "d2")) = [] ∧
    ((m₀.run driverOps provFn spec h).store.get provFn (.lresiduals 0 1)) = [[2]] ∧
    ((m₀.run driverOps provFn spec h).store.get provFn (.matrix 0 "d1")) = [[3]] ∧
    ((m₀.run driverOps provFn spec h).store.get provFn (.matrix 1 "d2")) = [[2]] ∧
    -- the filled dataset models are references to the parameter object: they show the vector set last
    ((m₀.run driverOps provFn spec h).store.get provFn (.datasetModel 1 "d2")) = [[3]] := by decide +kernel

/-- **The parameter object of C12 satisfies the hypotheses**: for well-formed, acyclic parameters and distinct free
    labels, every outcome of `set_from_label_and_value_arrays` keeps the structure and the fixed values, and two
    successful calls at the same vector end with the same value for every label (free, fixed and expression
    parameters) — stale expression values left by earlier or interrupted evaluations do not matter. -/
theorem c12_parameters_history_independent (F : C12.Funs) (p₀ : List C12.Param) (free : List String)
    (hwf : C12.WF p₀) (hac : C12.Acyclic p₀) (hnd : free.Nodup) :
    ParamInv (c12Ops F free) (C12Inv p₀ free) := by
  refine ⟨?_, ?_, ?_, ?_, ?_, ?_⟩
  · intro p x q hp h
    simp only [c12Ops] at h
    split at h
    · rename_i q' hs; cases h; exact (c12_set_preserves F p₀ free p x hp).1 _ hs
    · cases h
  · intro p x q hp h
    simp only [c12Ops] at h
    split at h
    · cases h
    · rename_i e hs
      cases h
      obtain ⟨e1, e2⟩ := e
      exact (c12_set_preserves F p₀ free p x hp).2 _ _ hs
  · intro p q hp h
    simp only [c12Ops] at h
    split at h
    · rename_i q' hs; cases h; exact (c12_refresh_preserves F p₀ free p hp).1 _ hs
    · cases h
  · intro p q hp h
    simp only [c12Ops] at h
    split at h
    · cases h
    · rename_i e hs
      cases h
      obtain ⟨e1, e2⟩ := e
      exact (c12_refresh_preserves F p₀ free p hp).2 _ _ hs
  · intro p p' x q q' hp hp' h h'
    simp only [c12Ops] at h h'
    split at h
    · rename_i a hs
      split at h'
      · rename_i b hs'
        cases h; cases h'
        funext l
        exact c12_set_independent F p₀ free hwf hac hnd p p' x _ _ hp hp' hs hs' l
      · cases h'
    · cases h
  · intro p x q hp h
    simp only [c12Ops] at h ⊢
    split at h
    · rename_i q' hs
      cases h
      rw [c12_settled F p₀ free hwf hac p x q hp hs]
    · cases h

/-- **History independence with the parameters of C12** (partial for the same reason). -/
theorem objective_history_independent_c12_partial (F : C12.Funs) (fn : String → List (String → Option C12.Val) → (String → Option C12.Val))
    (spec : Spec) (hwf : Spec.WF spec) (free : List String) (hnd : free.Nodup)
    (m₀ : Machine (List C12.Param) M D (String → Option C12.Val)) (hwp : C12.WF m₀.params) (hac : C12.Acyclic m₀.params)
    (hs : StoreOK m₀.store) (h : List (Op (List C12.Val))) (x : List C12.Val) (q q₀ : List C12.Param)
    (hq : (c12Ops F free).set (m₀.run (c12Ops F free) fn spec h).params x = .ok q)
    (hq₀ : (c12Ops F free).set m₀.params x = .ok q₀) :
    ((m₀.run (c12Ops F free) fn spec h).eval (c12Ops F free) fn spec x .none).2 =
      (m₀.eval (c12Ops F free) fn spec x .none).2 :=
  (objective_history_independent_partial (c12Ops F free) fn spec hwf (C12Inv m₀.params free)
    (c12_parameters_history_independent F m₀.params free hwp hac hnd) m₀ (c12Inv_refl _ _) hs h x q q₀ hq hq₀).1

/-- did the operation fail while setting the parameters -/
def Outcome.isSetFailed : Outcome V → Bool
  | .setFailed => true
  | _ => false

/-- D26: `a = 1/$b`, `b = $c - 1` (declared in this order), `c` free, consistent initial values (c = 4) -/
def d23 : List C12.Param :=
  [ { label := "a", value := some (1 / 3), expr := some (.div (.lit 1) (.ref "b")), vary := false },
    { label := "b", value := some 3, expr := some (.sub (.ref "c") (.lit 1)), vary := false },
    { label := "c", value := some 4 } ]

/-- **Counter-example to the unrestricted statement (D26, recorded finding).**  With forward-referencing expressions
    the refresh of `set_from_label_and_value_arrays` evaluates `a = 1/$b` with the STALE `b`: after an evaluation at
    c = 1 (which raises: 1/0, leaving b = 0 behind) the evaluation at c = 2 raises as well — and every later one —,
    while the same evaluation in a fresh optimiser succeeds.  Whether `objective_function(x)` raises depends on the
    history. -/
theorem objective_history_independent_counterexample :
    let ops := c12Ops C12.F0 ["c"]
    let fn : String → List (String → Option C12.Val) → (String → Option C12.Val) := fun _ _ => fun _ => none
    let m₀ : Machine (List C12.Param) Unit Unit (String → Option C12.Val) :=
      ⟨⟨d23, (), [], false⟩, d23, Store.empty⟩
    C12.WF d23 ∧
    (m₀.eval ops fn [] [some 2] .none).2.isSetFailed = false ∧
    (m₀.eval ops fn [] [some 1] .none).2.isSetFailed = true ∧
    ((m₀.run ops fn [] [.eval [some 1] .none]).eval ops fn [] [some 2] .none).2.isSetFailed = true ∧
    ((m₀.run ops fn [] [.eval [some 1] .none, .eval [some 2] .none, .eval [some 3] .none]).eval ops fn []
        [some 2] .none).2.isSetFailed = true := by
  refine ⟨by unfold C12.WF C12.labels; decide, ?_, ?_, ?_, ?_⟩ <;> decide +kernel

/-! ## 1b. outputs: copies and live references -/

/-- the statement that does NOT hold: no object handed out is a live reference to an object that a later evaluation on the
    same `Optimizer` updates in place — `∀ spec f, aliased spec f = false`; see `outputs_not_aliased_counterexample` -/
def OutputsNotAliased : Prop := ∀ (spec : Spec) (f : OutField), aliased spec f = false

/-- **Outputs that are not live references into accumulators are safe**: the penalty vector, `initial_parameters`, the
    matrices, clps and residuals of the result datasets, the Jacobian and the covariance matrix are either copies or views of
    objects that later evaluations replace rather than update. -/
theorem outputs_not_aliased_partial (spec : Spec) (f : OutField)
    (h1 : f ≠ .optimizedParameters) (h2 : f ≠ .parameterHistory) (h3 : ∀ g, f ≠ .additionalPenalty g) :
    aliased spec f = false := by
  cases f <;> simp only [aliased, provenance, decide_eq_false_iff_not] <;> try rfl
  all_goals first
    | exact absurd rfl h1
    | exact absurd rfl h2
    | exact absurd rfl (h3 _)
    | (intro hm
       rcases evalInPlace_accumulator spec _ hm with h | h
       · cases h
       · simp [Loc.isAccumulator] at h)

/-- the hypotheses of the partial theorem are satisfiable and its conclusion is not trivial: the matrix of a result dataset
    IS a live view (of an object that is replaced, not updated) -/
example : provenance [] (.dataMatrix 0 "d") = .live (.matrix 0 "d") ∧
    aliased [⟨false, [⟨"d", 2, 1, 0, false⟩], []⟩] (.dataMatrix 0 "d") = false := by decide

/-- **Counter-example to `OutputsNotAliased` (recorded observation, outside the property text — see MANIFEST)**:
    `Result.optimized_parameters` IS `Optimizer._parameters`, `Result.parameter_history` IS `Optimizer._parameter_history`
    and, for an unlinked group, `Result.additional_penalty[g]` IS the list `_clp_penalty` that `estimate()` clears and
    refills; for a linked group that list is re-assigned, so the one handed out stays.  `optimize()` never evaluates after
    `create_result`, so its results are not affected; code that keeps the `Optimizer` and evaluates again is. -/
theorem outputs_not_aliased_counterexample :
    let spec : Spec := [⟨false, [⟨"d1", 2, 1, 0, false⟩], []⟩, ⟨true, [⟨"d2", 2, 1, 0, false⟩], [["d2"], ["d2"]]⟩]
    aliased spec .optimizedParameters = true ∧ aliased spec .parameterHistory = true ∧
    aliased spec (.additionalPenalty 0) = true ∧ aliased spec (.additionalPenalty 1) = false ∧
    aliased spec (.dataMatrix 0 "d1") = false ∧ aliased spec .penalty = false ∧ ¬ OutputsNotAliased := by
  refine ⟨by decide +kernel, by decide +kernel, by decide +kernel, by decide +kernel, by decide +kernel, by decide +kernel, ?_⟩
  intro h
  exact absurd (h [] .optimizedParameters) (by decide)

/-- **The penalty vector handed out is a copy, for the program the source gives now**: the last micro-step of the
    interpretation of the regenerated table stores a NEW value into the returned object (`assign`, not a reference), and
    no micro-step updates that object in place. -/
theorem penalty_output_is_copy (spec : Spec) :
    (interpret Generated.stepBlock Generated.penaltyBlock spec).getLast? =
      some (.assign .out "concatenate" ((List.range spec.length).map Loc.groupPenalty)) ∧
    Loc.out ∉ inPlace (interpret Generated.stepBlock Generated.penaltyBlock spec) := by
  rw [generated_steps_eq_model]
  refine ⟨?_, ?_⟩
  · unfold calculatePenalty collect
    rw [← List.append_assoc, List.getLast?_append]
    simp
  · intro h
    have := mem_inPlace_of_all _ (all_ok_calculatePenalty spec) _ h
    simp [Loc.isAccumulator] at this

/-! ## 2. the caller's inputs -/

/-- **Any history of operations on an optimiser leaves the caller's objects alone**: the parameters object, the model
    and the datasets of the scheme are, after `Optimizer(scheme)` and any sequence of (possibly failing) evaluations,
    what they were — except that `add_svd` has added SVD variables to the datasets; the `data` variable, the labels
    and all existing variables are kept. -/
theorem inputs_unchanged (ops : ParamOps P X V) (fn : String → List V → V) (spec : Spec) (copy : P → P)
    (c : Caller P M D) (h : List (Op X)) :
    let m := (Machine.init ops fn spec copy c).run ops fn spec h
    m.caller.parameters = c.parameters ∧ m.caller.model = c.model ∧
    m.caller.data.map (fun d => (d.label, d.data)) = c.data.map (fun d => (d.label, d.data)) ∧
    (c.addSvd = false → m.caller.data = c.data) ∧
    m.caller.data.length = c.data.length ∧
    ∀ i (hi : i < c.data.length) (hi' : i < m.caller.data.length), ∀ v, v ∈ c.data[i].vars → v ∈ m.caller.data[i].vars := by
  intro m
  have hc : m.caller = _ := (run_caller ops fn spec h _).trans (init_caller ops fn spec copy c)
  rw [hc]
  refine ⟨rfl, rfl, ?_, ?_, ?_, ?_⟩
  · by_cases hs : (c.addSvd && !spec.isEmpty) = true
    · simp only [hs, if_true, List.map_map]
      apply List.map_congr_left
      intro d _
      simp [(addSvd_keeps "data" d).1, (addSvd_keeps "data" d).2.1]
    · simp [hs]
  · intro hf; simp [hf]
  · by_cases hs : (c.addSvd && !spec.isEmpty) = true <;> simp [hs]
  · intro i hi hi' v hv
    by_cases hs : (c.addSvd && !spec.isEmpty) = true
    · simp only [hs, if_true, List.getElem_map]
      exact (addSvd_keeps "data" _).2.2 v hv
    · simp only [hs]; exact hv

/-- **`optimize(scheme)` leaves the caller's objects alone** — for every strategy of the optimiser (any sequence of
    trial vectors, any stopping rule: all three methods) and whether or not an evaluation fails. -/
theorem inputs_unchanged_optimize (ops : ParamOps P X V) (fn : String → List V → V) (spec : Spec) (copy : P → P)
    (strat : Strategy X V) (fuel : Nat) (c : Caller P M D) :
    let c' := (optimizeRun ops fn spec copy strat fuel c).1
    c'.parameters = c.parameters ∧ c'.model = c.model ∧
    c'.data.map (fun d => (d.label, d.data)) = c.data.map (fun d => (d.label, d.data)) ∧
    (c.addSvd = false → c'.data = c.data) := by
  intro c'
  have hc : c' = _ := (optimizeRun_caller ops fn spec copy strat fuel c).trans (init_caller ops fn spec copy c)
  rw [hc]
  refine ⟨rfl, rfl, ?_, ?_⟩
  · by_cases hs : (c.addSvd && !spec.isEmpty) = true
    · simp only [hs, if_true, List.map_map]
      apply List.map_congr_left
      intro d _
      simp [(addSvd_keeps "data" d).1, (addSvd_keeps "data" d).2.1]
    · simp [hs]
  · intro hf; simp [hf]

example : (addSvd "data" (⟨"d1", (), ["data", "weight"]⟩ : CallerData Unit)).vars =
    ["data", "weight", "data_left_singular_vectors", "data_singular_values", "data_right_singular_vectors"] := by
  decide

/-- **Optimising the same scheme twice gives identical results**: the second `optimize` of the scheme object the
    first one has returned (with the SVD variables it may have added) produces the same result, for every
    deterministic optimiser strategy; and it changes the scheme no further. -/
theorem optimize_twice_equal (ops : ParamOps P X V) (fn : String → List V → V) (spec : Spec) (copy : P → P)
    (strat : Strategy X V) (fuel : Nat) (c : Caller P M D) :
    let first := optimizeRun ops fn spec copy strat fuel c
    let second := optimizeRun ops fn spec copy strat fuel first.1
    second = first := by
  intro first second
  have h1 : first.1 = (Machine.init (V := V) ops fn spec copy c).caller := optimizeRun_caller ops fn spec copy strat fuel c
  show optimizeRun ops fn spec copy strat fuel first.1 = optimizeRun ops fn spec copy strat fuel c
  rw [h1]
  simp only [optimizeRun, init_idem]

/-- `optimize` on the driver's machine: trial vectors 1, 2, 1 and result vector 2 (the observed behaviour of
    `least_squares` as strategy): success, parameters at vector 2, history = init, 1, 2, 1 and the row of
    `create_result`'s own evaluation; every container holds values of vector 2 only (non-vacuity) -/
example :
    let spec : Spec := [⟨false, [⟨"d1", 2, 1, 0, false⟩], []⟩]
    let strat : Strategy (Nat × Bool) Prov :=
      { next := fun seen => ([1, 2, 1][seen.length]?).map (fun t => (t, false)), result := fun _ => some (2, false) }
    let r := optimizeRun driverOps provFn spec (fun p => p) strat 4 ⟨⟨[0], false⟩, (), ([] : List (CallerData Unit)), false⟩
    r.2.2.success = true ∧ r.2.2.optimized.cur = [2] ∧ r.2.2.history = [[0], [1], [2], [1], [2]] ∧
    r.2.2.penalty = .value [[2]] ∧ r.2.1.store.get provFn (.residuals 0 "d1") = [[2], [2]] := by decide +kernel

/-! ## 3. the compiled kernels -/

/-- **Every numba kernel of glotaran passes the race-freedom check** (table regenerated from the source on every
    run): under a parallelised `prange` loop every array store carries the loop variable as a bare subscript, every
    other access to that array under the loop carries it at the same position, and no scalar that lives across
    iterations is assigned. -/
theorem kernels_race_free : allRaceFree Generated.kernels = true := by decide +kernel

/-- no kernel call passes two views of one array -/
theorem kernels_no_aliasing : noAliasing Generated.kernels = true := by decide +kernel

/-- the check rejects the Gaussian-IRF kernel if it is compiled with `parallel=True` (accumulation over the IRF
    components `n_i` into `matrix[n_t, n_r]`) … -/
example : raceFree []
    { name := "k", file := "", parallel := true, params := ["matrix"],
      accesses := [⟨"matrix", [.var "n_t", .var "n_r"], true, [⟨"n_i", true⟩, ⟨"n_r", true⟩, ⟨"n_t", true⟩]⟩],
      calls := [] } = false := by decide
/-- … accepts it when the components loop is a plain `range` … -/
example : raceFree []
    { name := "k", file := "", parallel := true, params := ["matrix"],
      accesses := [⟨"matrix", [.var "n_t", .var "n_r"], true, [⟨"n_i", false⟩, ⟨"n_r", true⟩, ⟨"n_t", true⟩]⟩],
      calls := [] } = true := by decide
/-- … rejects a neighbouring-column store, a counter carried across iterations, and a read of another iteration's
    column. -/
example : raceFree []
    { name := "k", file := "", parallel := true, params := ["matrix"],
      accesses := [⟨"matrix", [.var "n_t", .other "n_r + 1"], true, [⟨"n_r", true⟩]⟩], calls := [] } = false := by decide
example : raceFree []
    { name := "k", file := "", parallel := true, params := ["matrix"],
      accesses := [⟨"matrix", [.slice, .var "n_r"], true, [⟨"n_r", true⟩]⟩, ⟨"idx", [], true, [⟨"n_r", true⟩]⟩],
      calls := [] } = false := by decide
example : raceFree []
    { name := "k", file := "", parallel := true, params := ["matrix"],
      accesses := [⟨"matrix", [.slice, .var "n_r"], true, [⟨"n_r", true⟩]⟩,
                   ⟨"matrix", [.slice, .other "0"], false, [⟨"n_r", true⟩]⟩], calls := [] } = false := by decide
/-- the table is not empty and contains kernels with a loop that is distributed over threads -/
example : (Generated.kernels.filter (hasParallelLoop Generated.kernels)).length ≥ 2 := by decide +kernel

/-- **Soundness of the check**: in a kernel that passes it, a cell that an access under the parallel loop over `v`
    writes and that any access under the same loop touches, is touched by one and the same iteration (`env v`). -/
theorem race_free_check_sound (k : Kernel) (eff : List Access) (h : raceFreeAccesses k eff = true)
    (a b : Access) (ha : a ∈ eff) (hb : b ∈ eff) (v : String)
    (hav : parVar k a = some v) (hbv : parVar k b = some v) (haw : a.write = true)
    (env₁ env₂ : String → Nat) (c : Cell) (h1 : touches env₁ a c) (h2 : touches env₂ b c) :
    env₁ v = env₂ v :=
  raceFreeAccesses_sound k eff h a b ha hb v hav hbv haw env₁ env₂ c h1 h2

variable {α : Type}

/-- **Under disjoint writes the result does not depend on the schedule, and it is what each iteration computes
    alone**: for ANY interleaving that lets every iteration finish, every cell written by iteration `i` ends with the
    value the sequential execution of iteration `i` alone (on the initial memory) gives it, every other cell keeps its
    initial value. -/
theorem schedule_result_is_solo (iters : List (List (Step α))) (hd : DisjointWrites iters) (m₀ : Mem α)
    (s : List Nat) (hs : Complete iters s) (c : Cell) :
    (∀ i, c ∈ writesOf (iterOf iters i) → (runSchedule iters s (m₀, fun _ => 0)).1 c = runSolo (iterOf iters i) m₀ c) ∧
    ((∀ i, c ∉ writesOf (iterOf iters i)) → (runSchedule iters s (m₀, fun _ => 0)).1 c = m₀ c) := by
  have hinv := inv_runSchedule iters hd m₀ s _ (inv_init iters m₀)
  refine ⟨?_, hinv.rest c⟩
  intro i hc
  have hpc := pc_runSchedule iters s m₀ (fun _ => 0) (fun _ => Nat.zero_le _) i
  have hlen : i < iters.length := by
    apply Classical.byContradiction
    intro hn
    have : iterOf iters i = [] := by simp [iterOf, List.getD, List.getElem?_eq_none (Nat.le_of_not_lt hn)]
    rw [this] at hc; simp [writesOf] at hc
  have hcount := hs i hlen
  have hfull : (runSchedule iters s (m₀, fun _ => 0)).2 i = (iterOf iters i).length := by
    rw [hpc]; simp only [Nat.zero_add]; exact Nat.min_eq_right hcount
  have := hinv.own i c (List.mem_append_left _ hc)
  rw [this, hfull, List.take_length]

/-- **Schedule independence** (the statement of DESIGN §8): disjoint writes ⇒ all complete schedules agree. -/
theorem disjoint_writes_schedule_independent (iters : List (List (Step α))) (hd : DisjointWrites iters) (m₀ : Mem α)
    (s₁ s₂ : List Nat) (h₁ : Complete iters s₁) (h₂ : Complete iters s₂) :
    (runSchedule iters s₁ (m₀, fun _ => 0)).1 = (runSchedule iters s₂ (m₀, fun _ => 0)).1 := by
  funext c
  by_cases hw : ∃ i, c ∈ writesOf (iterOf iters i)
  · obtain ⟨i, hi⟩ := hw
    rw [(schedule_result_is_solo iters hd m₀ s₁ h₁ c).1 i hi, (schedule_result_is_solo iters hd m₀ s₂ h₂ c).1 i hi]
  · have hn : ∀ i, c ∉ writesOf (iterOf iters i) := fun i hi => hw ⟨i, hi⟩
    rw [(schedule_result_is_solo iters hd m₀ s₁ h₁ c).2 hn, (schedule_result_is_solo iters hd m₀ s₂ h₂ c).2 hn]

/-- **From the table to the schedules**: if the iterations of the parallel loop over `v` do what the accesses of a
    kernel that passes the check allow, every interleaving of them gives the same memory. -/
theorem kernel_schedule_independent (k : Kernel) (eff : List Access) (h : raceFreeAccesses k eff = true) (v : String)
    (iters : List (List (Step α))) (hc : Conforms k eff v iters) (m₀ : Mem α)
    (s₁ s₂ : List Nat) (h₁ : Complete iters s₁) (h₂ : Complete iters s₂) :
    (runSchedule iters s₁ (m₀, fun _ => 0)).1 = (runSchedule iters s₂ (m₀, fun _ => 0)).1 :=
  disjoint_writes_schedule_independent iters (conforms_disjoint k eff h v iters hc) m₀ s₁ s₂ h₁ h₂

/-- two iterations writing their own cell from a shared input: forwards, backwards and interleaved schedules agree;
    with a shared output cell (no disjointness) they do not (non-vacuity) -/
example :
    let it (i : Nat) : List (Step Nat) := [⟨[("rates", [i])], ("matrix", [0, i]), fun v => v.sum + 1⟩,
                                           ⟨[("matrix", [0, i])], ("matrix", [1, i]), fun v => 2 * v.sum⟩]
    let iters := [it 0, it 1]
    let m₀ : Mem Nat := fun c => if c.1 = "rates" then 10 * (c.2.sum + 1) else 0
    (runSchedule iters [0, 0, 1, 1] (m₀, fun _ => 0)).1 ("matrix", [1, 1]) = 42 ∧
    (runSchedule iters [1, 0, 1, 0] (m₀, fun _ => 0)).1 ("matrix", [1, 1]) = 42 ∧
    (runSchedule iters [1, 1, 0, 0] (m₀, fun _ => 0)).1 ("matrix", [1, 0]) = 22 := by decide +kernel
example :
    let it (i : Nat) : List (Step Nat) := [⟨[("acc", [])], ("tmp", [i]), fun v => v.sum + i + 1⟩,
                                           ⟨[("tmp", [i])], ("acc", []), fun v => v.sum⟩]
    let iters := [it 0, it 1]
    let m₀ : Mem Nat := fun _ => 0
    (runSchedule iters [0, 0, 1, 1] (m₀, fun _ => 0)).1 ("acc", []) = 3 ∧
    (runSchedule iters [0, 1, 0, 1] (m₀, fun _ => 0)).1 ("acc", []) = 2 := by decide +kernel

end Glotaran.C10
