/-
C18 — saving never destroys existing files unless asked; project results accumulate.
Property theorems only (helper lemmas: GlotaranProofs/Lemmas/C18.lean, C18FS.lean).

Part (a) is about `protect`, `runSave` (interpreting the effect lists regenerated from the source,
`Generated.saveFns`) and `guardedWrite`; the io plugin is an arbitrary function.
Part (b) is about `previous`, `createRunName`, `save`, `fallback`, `getLatest`, `loadResult` on every
directory listing and every history of `Project.optimize` calls (no bound on the number of names, on the
length of the history or on the run numbers: since the run-10000 fix run numbers may have any number of digits).
-/
import GlotaranProofs.Lemmas.C18
import GlotaranProofs.Lemmas.C18FS
import GlotaranProofs.Lemmas.C18Plugin
import GlotaranProofs.Lemmas.C18Tree
import GlotaranModel.Generated.C18
namespace Glotaran.C18

/-! ## (a) overwrite protection -/

/-- **refusal before writing**: an existing file or a non-empty folder and no `allow_overwrite`:
    `protect_from_overwrite` raises `FileExistsError` and the file system is exactly what it was -/
theorem protect_refuses (fs : FS) (p : Path) (hwf : WF fs) (hex : TargetExists fs p) :
    protect fs p false = (fs, some .fileExists) :=
  protect_refuses' fs p hwf hex

def exFS : FS := [(["d"], .dir), (["d", "out.yml"], .file "old"), (["keep.txt"], .file "keep"),
  (["r"], .dir), (["r", "x"], .dir)]

example : WF exFS ∧ TargetExists exFS ["d", "out.yml"] ∧ TargetExists exFS ["r"] :=
  ⟨WF_of_check _ (by decide), by decide, by decide⟩

/-- whatever the target and the flag: no existing file is created, removed or changed by the check
    (it creates missing parent folders, nothing else) -/
theorem protect_keeps_files (fs : FS) (p : Path) (allow : Bool) (q : Path) (c : String) :
    get (protect fs p allow).1 q = some (.file c) ↔ get fs q = some (.file c) :=
  (protect_grew fs p allow).file_iff q c

theorem protect_only_adds_dirs (fs : FS) (p : Path) (allow : Bool) (q : Path) :
    get (protect fs p allow).1 q = get fs q ∨ (get fs q = none ∧ get (protect fs p allow).1 q = some .dir) :=
  protect_grew fs p allow q

example : (protect exFS ["new1", "new2", "out.yml"] false).1
    = (["new1", "new2"], .dir) :: (["new1"], .dir) :: exFS := by decide

/-- the check lets the call through when overwriting is allowed or the target is absent (and no
    file is in the way of the parent folders): it does not refuse everything -/
theorem protect_passes (fs : FS) (p : Path) (allow : Bool) (hp : p ≠ [])
    (h : allow = true ∨ get fs p = none) (hno : NoFileAbove fs p) : (protect fs p allow).2 = none :=
  protect_passes' fs p allow hp h hno

example : NoFileAbove exFS ["d", "new.yml"] ∧ get exFS ["d", "new.yml"] = none ∧
    (protect exFS ["d", "out.yml"] true).2 = none ∧ (protect exFS ["keep.txt", "x"] false).2 = none :=
  ⟨NoFileAbove_of_check _ _ (by decide), by decide, by decide, by decide⟩

/-- **the check comes first** (regenerated table): in every `save_*` function the first effect is
    the unconditional `protect_from_overwrite(<path>, allow_overwrite=<allow_overwrite>)`, the
    default is not to overwrite, and the only decorator converts `NotImplementedError` -/
theorem protect_first : ∀ f ∈ Generated.saveFns, protectFirst f = true := by decide

/-- (regenerated table) between the check and the plugin lookup there are only format inference
    and pure calls, and the plugin is called right after the lookup -/
theorem lookup_before_write : ∀ f ∈ Generated.saveFns, lookupBeforeWrite f = true ∧ pluginAfterLookup f = true := by
  decide

example : Generated.saveFns.map (·.name) = ["save_model", "save_parameters", "save_scheme", "save_result", "save_dataset"] := by
  decide

private theorem protectFirst_spec (f : SaveFn) (h : protectFirst f = true) :
    firstEffect f.steps = some ⟨.protect (.param f.pathParam) (.param f.allowParam), .always⟩ := by
  simp only [protectFirst, Bool.and_eq_true, decide_eq_true_eq] at h
  exact h.1.1

private theorem runSave_start_err (f : SaveFn) (h : protectFirst f = true) (env : Env) (fs fs' : FS) (e : Err)
    (hp : protect fs env.path env.allow = (fs', some e)) : runSteps f env f.steps fs none = (fs', some e) := by
  rw [runSteps_firstEffect f env f.steps _ fs none (protectFirst_spec f h)]
  simp [runSteps, condHolds, resolvePath, resolveBool, hp]

private theorem runSave_start_ok (f : SaveFn) (h : protectFirst f = true) (env : Env) (fs fs' : FS)
    (hp : protect fs env.path env.allow = (fs', none)) :
    runSteps f env f.steps fs none = runSteps f env (afterFirst f.steps) fs' none := by
  rw [runSteps_firstEffect f env f.steps _ fs none (protectFirst_spec f h)]
  simp [runSteps, condHolds, resolvePath, resolveBool, hp]

/-- **saving never destroys**: for every save function of the table, every plugin (any effect, any
    failure, or none registered), every format name: if the target exists and `allow_overwrite` is
    not set, the call ends with `FileExistsError` and the file system is unchanged — nothing,
    not even the plugin lookup, happens before the check -/
theorem save_never_destroys : ∀ f ∈ Generated.saveFns, ∀ (env : Env) (fs : FS),
    WF fs → env.allow = false → TargetExists fs env.path →
    runSave f env fs = (fs, some .fileExists) := by
  intro f hf env fs hwf hallow hex
  have h := protect_first f hf
  unfold runSave
  rw [runSave_start_err f h env fs fs .fileExists (by rw [hallow]; exact protect_refuses fs env.path hwf hex)]
  simp [decorate_fileExists]

/-- a plugin that would overwrite everything and then fail -/
def hostileEnv (p : Path) : Env :=
  { path := p, allow := false, formatName := some "nope", known := [],
    plugin := fun _ _ => ([], some (.other "boom")), unknown := fun _ _ => ([], none),
    maybeHolds := fun _ => true, otherBool := fun _ => true, otherPath := fun _ => [] }

example : ∀ f ∈ Generated.saveFns, runSave f (hostileEnv ["d", "out.yml"]) exFS = (exFS, some .fileExists) := by
  decide

/-- up to the moment a plugin (or a call the extractor could not classify) is entered, a `save_*`
    call of **any** shape changes no existing file and creates no file — it can only create the
    parent folders; in particular an unknown format or an unsupported method leaves all files alone -/
theorem save_keeps_files_until_plugin (f : SaveFn) (env : Env) (fs : FS)
    (hplugin : ∀ m fs, (env.plugin m fs).1 = fs) (hunknown : ∀ n fs, (env.unknown n fs).1 = fs)
    (q : Path) (c : String) :
    get (runSave f env fs).1 q = some (.file c) ↔ get fs q = some (.file c) :=
  (runSteps_grew f env hplugin hunknown f.steps fs none).file_iff q c

/-- a plugin that raises at once (the spy of the harness) -/
def spyEnv (p : Path) : Env :=
  { path := p, allow := false, formatName := some "fk", known := ["fk"],
    plugin := fun _ fs => (fs, some (.other "entered")), unknown := fun _ fs => (fs, none),
    maybeHolds := fun _ => true, otherBool := fun _ => true, otherPath := fun _ => [] }

/-- the theorem applies to it: `keep.txt` survives, the only new entries are the parent folders -/
example : (∀ m fs, ((spyEnv ["n1", "n2", "out.yml"]).plugin m fs).1 = fs) ∧
    (∀ n fs, ((spyEnv ["n1", "n2", "out.yml"]).unknown n fs).1 = fs) ∧
    ∀ f ∈ Generated.saveFns, runSave f (spyEnv ["n1", "n2", "out.yml"]) exFS
      = ((["n1", "n2"], .dir) :: (["n1"], .dir) :: exFS, some (.other "entered")) :=
  ⟨fun _ _ => rfl, fun _ _ => rfl, by decide⟩

/-- **unknown format**: when `format_name` names no registered plugin, no plugin is ever entered:
    the outcome is that of the check, else `ValueError`, and the file system is what the check left -/
theorem save_unknown_format : ∀ f ∈ Generated.saveFns, ∀ (env : Env) (fs : FS),
    truthy env.formatName = true → env.known.contains (env.formatName.getD "") = false →
    runSave f env fs =
      ((protect fs env.path env.allow).1,
        match (protect fs env.path env.allow).2 with
        | some e => some e
        | none => some .valueError) := by
  intro f hf env fs ht hk
  have h1 := protect_first f hf
  have h2 := (lookup_before_write f hf).1
  unfold runSave
  cases hp : protect fs env.path env.allow with
  | mk fs' e =>
    cases e with
    | some e =>
      rw [runSave_start_err f h1 env fs fs' e hp]
      -- the check raises FileExistsError or an error of mkdir, never NotImplementedError
      have hd : decorate f.decorators (some e) = some e := by
        rcases protect_error fs env.path env.allow e (by rw [hp]) with rfl | rfl
        · exact decorate_fileExists _
        · exact decorate_notADirectory _
      simp [hd]
    | none =>
      rw [runSave_start_ok f h1 env fs fs' hp, runSteps_lookup f env ht _ fs' none h2, hk]
      simp [decorate_valueError]

example : ∀ f ∈ Generated.saveFns, runSave f (hostileEnv ["d", "new.yml"]) exFS = (exFS, some .valueError) := by decide

/-- **the plugin is reached** when the check passes and the format is registered: the function
    does not refuse everything, and the plugin sees exactly the file system the check left -/
theorem save_reaches_plugin : ∀ f ∈ Generated.saveFns, ∀ (env : Env) (fs : FS) (e : String),
    (protect fs env.path env.allow).2 = none →
    truthy env.formatName = true → env.known.contains (env.formatName.getD "") = true →
    (∀ m fs, env.plugin m fs = (fs, some (.other e))) →
    runSave f env fs = ((protect fs env.path env.allow).1, some (.other e)) := by
  intro f hf env fs e hpass ht hk hplug
  have h1 := protect_first f hf
  have h2 := lookup_before_write f hf
  unfold runSave
  cases hp : protect fs env.path env.allow with
  | mk fs' r =>
    rw [hp] at hpass
    simp only at hpass
    subst hpass
    rw [runSave_start_ok f h1 env fs fs' hp, runSteps_lookup f env ht _ fs' none h2.1, hk]
    simp only [if_true]
    rw [runSteps_callsPlugin f env (.other e) hplug _ fs' none h2.2]
    simp [decorate_other]

example : ∀ f ∈ Generated.saveFns,
    (runSave f { hostileEnv ["d", "new.yml"] with formatName := some "fk", known := ["fk"] } exFS).2
      = some (.other "boom") := by decide

/-- **project-level writers**: `Project.create`, `generate_model`, `generate_parameters` and
    `import_data` never change anything when the target exists and `allow_overwrite` is not set —
    they skip (`ignore_existing`) or refuse, in every combination of the two flags -/
theorem guarded_write_never_destroys (k : GuardKind) (fs : FS) (p : Path) (ignore : Bool) (content : String)
    (hwf : WF fs) (hex : get fs p ≠ none) :
    (guardedWrite k fs p false ignore content).1 = fs ∧ (guardedWrite k fs p false ignore content).2 ≠ .written := by
  have hpe : pathExists fs p = true := by
    unfold pathExists
    cases h : get fs p with
    | none => exact absurd h hex
    | some n => simp
  cases k with
  | projectCreate =>
    simp [guardedWrite, mkdirP_parent_noop fs p hwf hex, hpe]
  | generateModel =>
    cases ignore <;> simp [guardedWrite, hpe]
  | generateParameters =>
    cases ignore <;> simp [guardedWrite, hpe]
  | importData =>
    cases ignore with
    | true => simp [guardedWrite, hpe]
    | false =>
      have h1 := protect_fst_of_exists fs p false hwf hex
      simp only [guardedWrite, hpe, Bool.and_false, Bool.not_false, Bool.and_true]
      cases hp : protect fs p false with
      | mk fs' e =>
        rw [hp] at h1
        simp only at h1
        subst h1
        cases e with
        | some e => cases e <;> simp
        | none =>
          -- the check passed although the target exists: it is an empty folder, nothing can be written
          have hdir : isDir fs' p = true := by
            have h2 : (protect fs' p false).2 = none := by rw [hp]
            rw [protect_eq, mkdirP_parent_noop fs' p hwf hex] at h2
            simp only [ite_self] at h2
            cases hg : get fs' p with
            | none => exact absurd hg hex
            | some n =>
              cases n with
              | dir => simp [isDir, hg]
              | file c => simp [isFile, hg] at h2
          simp [hdir]

example : guardedWrite .importData exFS ["keep.txt"] false false "new" = (exFS, .refused) ∧
    guardedWrite .importData exFS ["keep.txt"] false true "new" = (exFS, .skipped) ∧
    guardedWrite .generateModel exFS ["keep.txt"] true true "new" = (exFS, .skipped) ∧
    (guardedWrite .generateModel exFS ["keep.txt"] true false "new").2 = .written ∧
    guardedWrite .projectCreate exFS ["d", "out.yml"] false false "new" = (exFS, .refused) := by decide

/-! ## (a') the builtin result plugins after entry: which files `save_result` writes

`runResultPlugin Generated.resultPlugins o w fmt p` interprets the step lists regenerated from
`YmlProjectIo.save_result` / `FolderProjectIo.save_result`; the writers of the single files are the
parameters `w` (any content, any of them may raise before or after writing). -/

/-- (regenerated table) every step of the yml and of the folder plugin is classified (no call the
    extractor does not know), unconditional up to `saving_options.report` and the loop over the dataset
    labels, and points to a file directly inside the result folder (or to the result file); the nested
    `save_result(…, format_name="folder")` goes to the result folder itself and to a plugin without nesting -/
theorem result_plugins_well_placed :
    ∀ pl ∈ Generated.resultPlugins, wellPlaced Generated.resultPlugins pl = true := by decide

private theorem wellPlaced_of_find (fmt : String) (pl : ResultPlugin)
    (h : findPlugin Generated.resultPlugins fmt = some pl) : wellPlaced Generated.resultPlugins pl = true :=
  result_plugins_well_placed pl (List.mem_of_find?_eq_some h)

example : (Generated.resultPlugins.map (·.cls)) = ["YmlProjectIo", "FolderProjectIo"] ∧
    (findPlugin Generated.resultPlugins "yml").isSome ∧ (findPlugin Generated.resultPlugins "folder").isSome := by decide

def exOpts : SaveOpts := { labels := ["dataset_1", "d.2"], paramFormat := "csv", dataFormat := "nc", report := true }

/-- the documented files are among those the table lists, the dataset files carry the labels -/
example : ["run", "result.yml"] ∈ resultFiles Generated.resultPlugins exOpts "yml" ["run", "result.yml"] ∧
    ["run", "model.yml"] ∈ resultFiles Generated.resultPlugins exOpts "yml" ["run", "result.yml"] ∧
    ["run", "d.2.nc"] ∈ resultFiles Generated.resultPlugins exOpts "yml" ["run"] ∧
    ["run", "optimized_parameters.csv"] ∈ resultFiles Generated.resultPlugins exOpts "folder" ["run"] ∧
    (resultFiles Generated.resultPlugins exOpts "yml" ["run", "result.yml"]).length = 10 := by decide

/-- **a result plugin changes only its result files**: whatever the single-file writers put into the
    files and wherever one of them raises, every entry of the tree is afterwards what it was, or a newly
    created folder, or one of the files the table lists -/
theorem save_result_changes_only_result_files (o : SaveOpts) (w : World) (fmt : String) (p : Path) (fs : FS) (q : Path) :
    get (runResultPlugin Generated.resultPlugins o w fmt p fs).1 q = get fs q ∨
    (get fs q = none ∧ get (runResultPlugin Generated.resultPlugins o w fmt p fs).1 q = some .dir) ∨
    q ∈ resultFiles Generated.resultPlugins o fmt p :=
  runResultPlugin_changed Generated.resultPlugins o w fmt p fs (wellPlaced_of_find fmt) q

/-- all those files are direct children of the result folder (the folder of `result.yml`, or the given
    folder) — for every list of dataset labels and every format name (single path components) -/
theorem result_files_are_children_of_result_folder (o : SaveOpts) (fmt : String) (p : Path) (pl : ResultPlugin)
    (hf : findPlugin Generated.resultPlugins fmt = some pl) :
    ∀ q ∈ resultFiles Generated.resultPlugins o fmt p, ∃ x, q = resultFolderOf pl p ++ [x] :=
  resultFiles_children Generated.resultPlugins o fmt p pl hf (wellPlaced_of_find fmt pl hf)

/-- **`save_result` writes only inside the target folder**: an entry outside the result folder is left
    alone (at most a missing folder on the way to the result folder is created); in particular no file
    outside the folder is created, changed or removed — by any of the builtin yml / folder plugins, for any
    result, any saving options and any failure of a writer -/
theorem save_result_writes_only_inside_target_folder (o : SaveOpts) (w : World) (fmt : String) (p : Path) (fs : FS)
    (pl : ResultPlugin) (hf : findPlugin Generated.resultPlugins fmt = some pl)
    (q : Path) (hq : ¬ resultFolderOf pl p <+: q) :
    (get (runResultPlugin Generated.resultPlugins o w fmt p fs).1 q = get fs q ∨
      (get fs q = none ∧ get (runResultPlugin Generated.resultPlugins o w fmt p fs).1 q = some .dir)) ∧
    ∀ c, get (runResultPlugin Generated.resultPlugins o w fmt p fs).1 q = some (.file c) ↔ get fs q = some (.file c) := by
  have hnot : q ∉ resultFiles Generated.resultPlugins o fmt p := by
    intro hmem
    obtain ⟨x, hx⟩ := result_files_are_children_of_result_folder o fmt p pl hf q hmem
    exact hq ⟨[x], hx.symm⟩
  have hch := runResultPlugin_changed Generated.resultPlugins o w fmt p fs (wellPlaced_of_find fmt)
  refine ⟨?_, fun c => hch.file_iff q hnot c⟩
  rcases hch q with h | h | h
  · exact Or.inl h
  · exact Or.inr h
  · exact absurd h hnot

/-- a world in which every writer succeeds and writes "W" -/
def exWorld : World := { content := fun _ => "W", fail := fun _ => none, unknown := fun _ fs => (fs, none) }

/-- non-vacuity: the yml plugin on `exFS` writes into `d/run` only, `keep.txt` and `d/out.yml` stay -/
example : findPlugin Generated.resultPlugins "yml" = some (Generated.resultPlugins.head!) ∧
    resultFolderOf Generated.resultPlugins.head! ["d", "run", "result.yml"] = ["d", "run"] ∧
    (runResultPlugin Generated.resultPlugins exOpts exWorld "yml" ["d", "run", "result.yml"] exFS).2 = none ∧
    get (runResultPlugin Generated.resultPlugins exOpts exWorld "yml" ["d", "run", "result.yml"] exFS).1 ["d", "run", "scheme.yml"]
      = some (.file "W") ∧
    get (runResultPlugin Generated.resultPlugins exOpts exWorld "yml" ["d", "run", "result.yml"] exFS).1 ["keep.txt"]
      = some (.file "keep") := by decide

/-- a writer that raises midway: the files written before stay, nothing outside the folder is touched -/
example : (runResultPlugin Generated.resultPlugins exOpts
      { exWorld with fail := fun q => if q = ["d", "run", "parameter_history.csv"] then some (.isADirectory, false) else none }
      "yml" ["d", "run"] exFS) =
    ((["d", "run", "optimized_parameters.csv"], .file "W") :: (["d", "run", "initial_parameters.csv"], .file "W") ::
      (["d", "run", "result.md"], .file "W") :: (["d", "run"], .dir) :: exFS, some .isADirectory) := by decide

/-- `save_result` with the builtin plugin behind the entry of the regenerated table -/
def withBuiltinPlugin (env : Env) (o : SaveOpts) (w : World) (fmt : String) : Env :=
  { env with plugin := fun _ fs => runResultPlugin Generated.resultPlugins o w fmt env.path fs }

/-- the whole call — check, plugin lookup, builtin plugin — changes only the result files (and creates
    missing folders) -/
theorem save_result_entry_changes_only_result_files (f : SaveFn) (env : Env) (o : SaveOpts) (w : World) (fmt : String)
    (fs : FS) (hunknown : ∀ n fs, (env.unknown n fs).1 = fs) (q : Path) :
    get (runSave f (withBuiltinPlugin env o w fmt) fs).1 q = get fs q ∨
    (get fs q = none ∧ get (runSave f (withBuiltinPlugin env o w fmt) fs).1 q = some .dir) ∨
    q ∈ resultFiles Generated.resultPlugins o fmt env.path := by
  have := runSteps_changedIn f (withBuiltinPlugin env o w fmt) (· ∈ resultFiles Generated.resultPlugins o fmt env.path)
    (fun _ fs => runResultPlugin_changed Generated.resultPlugins o w fmt env.path fs (wellPlaced_of_find fmt))
    (fun n fs => by
      have h : ((withBuiltinPlugin env o w fmt).unknown n fs).1 = fs := hunknown n fs
      rw [h]; exact ChangedIn.refl _ _)
    f.steps fs none
  exact this q

/-- **a run saved into a fresh folder destroys nothing**: when the result folder does not exist yet (as for
    every run of `ProjectResultRegistry.save`: `run_name_fresh`), every file of the tree is byte-identical
    afterwards — although the builtin plugins write their files with `allow_overwrite=True` -/
theorem save_result_into_absent_folder_keeps_every_file (f : SaveFn) (env : Env) (o : SaveOpts) (w : World)
    (fmt : String) (fs : FS) (pl : ResultPlugin) (hf : findPlugin Generated.resultPlugins fmt = some pl)
    (hunknown : ∀ n fs, (env.unknown n fs).1 = fs) (hwf : WF fs)
    (hne : resultFolderOf pl env.path ≠ []) (habs : get fs (resultFolderOf pl env.path) = none)
    (q : Path) (c : String) (hq : get fs q = some (.file c)) :
    get (runSave f (withBuiltinPlugin env o w fmt) fs).1 q = some (.file c) := by
  rcases save_result_entry_changes_only_result_files f env o w fmt fs hunknown q with h | ⟨h, _⟩ | h
  · rw [h]; exact hq
  · rw [hq] at h; cases h
  · obtain ⟨x, hx⟩ := result_files_are_children_of_result_folder o fmt env.path pl hf q h
    have := hwf.nothing_below_missing _ x hne habs
    rw [← hx, hq] at this
    cases this

def exEnv (p : Path) : Env :=
  { path := p, allow := false, formatName := none, known := ["yml", "yaml", "folder"],
    plugin := fun _ fs => (fs, none), unknown := fun _ fs => (fs, none),
    maybeHolds := fun _ => true, otherBool := fun _ => false, otherPath := fun _ => [] }

/-- non-vacuity: `d/run` is absent in `exFS`; and what the observation "siblings are overwritten" means:
    with `d/run2/model.yml` present but no `result.yml`, the check passes and `model.yml` is rewritten -/
example : get exFS ["d", "run"] = none ∧
    (∀ f ∈ Generated.saveFns, f.name = "save_result" →
      (runSave f (withBuiltinPlugin (exEnv ["d", "run", "result.yml"]) exOpts exWorld "yaml") exFS).2 = none) ∧
    (∀ f ∈ Generated.saveFns, f.name = "save_result" →
      get (runSave f (withBuiltinPlugin (exEnv ["d", "run2", "result.yml"]) exOpts exWorld "yaml")
        ((["d", "run2", "model.yml"], .file "old") :: (["d", "run2"], .dir) :: exFS)).1 ["d", "run2", "model.yml"]
        = some (.file "W")) := by decide

/-- (regenerated table of call sites) a project result run is saved with the default
    `allow_overwrite=False`: an existing run can only be refused, never overwritten -/
theorem registry_save_uses_default_allow :
    (∃ c ∈ Generated.callSites, c.caller = "ProjectResultRegistry.save") ∧
    ∀ c ∈ Generated.callSites, c.caller = "ProjectResultRegistry.save" →
      c.callee = "save_result" ∧ c.allow = .absent := by decide

/-- (regenerated table of call sites) the project-level writers hand their own `allow_overwrite`
    to the save function, nothing else -/
theorem project_writers_pass_allow_through :
    (∃ c ∈ Generated.callSites, c.caller = "ProjectDataRegistry.import_data") ∧
    (∃ c ∈ Generated.callSites, c.caller = "ProjectParameterRegistry.generate_parameters") ∧
    ∀ c ∈ Generated.callSites,
      (c.caller = "ProjectDataRegistry.import_data" ∨ c.caller = "ProjectParameterRegistry.generate_parameters") →
      c.allow = .param "allow_overwrite" := by decide

/-- (regenerated constants) the regular expressions and f-strings of the source are the ones
    `hasRunSuffix`, `endsWithRunSpecifier`, `isRunOf`, `runName` model (after the run-10000 fix:
    four *or more* digits everywhere; after result-name-subfolder: the run prefix `f"{base}_run_"` is read as a
    path and its last component, escaped, is followed by the digits) -/
theorem source_patterns_are_the_modelled_ones :
    Generated.classPatterns = [("result_pattern", ".+_run_\\d{4,}$"), ("run_specifier_pattern", "_run_\\d{4,}$")] ∧
    Generated.previousFilter = [["{}", "_run_"], ["{re.escape()}", "(\\d{4,})"]] ∧
    (∀ fmt ∈ Generated.runNameFormats, fmt = ["{}", "_run_0000"] ∨ fmt = ["{}", "_run_", "{:04}"]) ∧
    Generated.runNameFormats.length = 2 ∧
    Generated.latestSubPatterns = [("get_latest_result_path", "run_specifier_pattern"),
      ("load_latest_result", "run_specifier_pattern")] := by decide

/-! ## (b) result runs -/

/-- a history of `Project.optimize` calls: (result name, identity of the result) -/
abbrev History := List (Name × Nat)

def exec (d : Dir) (hist : History) : Dir := hist.foldl (fun d x => (save d x.1 x.2).1) d

def countSaves (base : Name) (hist : History) : Nat := (hist.filter (fun x => x.1 = base)).length

/-- the results stored under `base`, in order -/
def payloads (base : Name) (hist : History) : List Nat := (hist.filter (fun x => x.1 = base)).map (·.2)

/-- **fresh run number**: the folder of the next run of `base` does not exist yet — whatever the
    results folder holds (any number of earlier runs, runs of other names that extend `base`, foreign
    files, run numbers with more than four digits or with leading zeros, …) -/
theorem run_name_fresh (d : Dir) (base : Name) : createRunName d base ∉ names d :=
  createRunName_fresh d base

/-- a folder that holds run 9999 and run 10000: the next run is 10001 -/
def exDirBeyond : Dir := [⟨"a_run_9999".toList, .run 1⟩, ⟨"a_run_10000".toList, .run 2⟩,
  ⟨"a_run_b_run_0000".toList, .run 3⟩]

example : createRunName exDirBeyond "a".toList = "a_run_10001".toList ∧
    previous exDirBeyond "a".toList = ["a_run_9999".toList, "a_run_10000".toList] := by decide

/-- **strictly increasing**: the next run is a run of `base` whose number exceeds every earlier one -/
theorem run_number_increases (d : Dir) (base : Name) :
    isRunOf base (createRunName d base) = true ∧
    ∀ l ∈ previous d base, runNumber base l < runNumber base (createRunName d base) := by
  obtain ⟨k, he, hlt⟩ := createRunName_spec d base
  rw [he, runNumber_runName base k]
  exact ⟨isRunOf_runName base k, hlt⟩

example : createRunName [⟨"a_run_0000".toList, .run 1⟩, ⟨"a_run_0007".toList, .file⟩,
    ⟨"a_run_b_run_0042".toList, .run 2⟩, ⟨"a_run_00003".toList, .emptyDir⟩] "a".toList = "a_run_0008".toList := by decide

/-- regression (run-10000), the code before the fix: runs were the folders with *exactly* four digits,
    ordered as strings -/
def legacyIsRunOf (base n : Name) : Bool :=
  match stripPrefix (base ++ runInfix) n with
  | some ds => ds.length == 4 && ds.all isDigit
  | none => false

def legacyCreateRunName (d : Dir) (base : Name) : Name :=
  match (isort ((names d).filter (legacyIsRunOf base))).getLast? with
  | none => runName base 0
  | some l => runName base (runNumber base l + 1)

/-- the old numbering repeated itself after run 10000 (the second `a_run_10000` was then refused by the
    overwrite protection: the optimisation result was lost); the fixed one continues with 10001 -/
example : legacyCreateRunName exDirBeyond "a".toList = "a_run_10000".toList ∧
    "a_run_10000".toList ∈ names exDirBeyond ∧
    createRunName exDirBeyond "a".toList ∉ names exDirBeyond := by decide

/-- **exactly that name** (D13): storing a run of `base` changes neither the runs nor the next run
    name of any other result name, however the two names overlap -/
theorem other_names_unaffected (d : Dir) (base base' : Name) (payload : Nat) (hne : base' ≠ base) :
    previous (save d base payload).1 base' = previous d base' ∧
    createRunName (save d base payload).1 base' = createRunName d base' := by
  have h := previous_save_other d base base' payload hne
  exact ⟨h, by unfold createRunName; rw [h]⟩

/-- regression D13: `a`, `a`, `a_run_b`, `a` -/
example : (exec [] [("a".toList, 1), ("a".toList, 2), ("a_run_b".toList, 3), ("a".toList, 4)]).map (·.name)
    = ["a_run_0002".toList, "a_run_b_run_0000".toList, "a_run_0001".toList, "a_run_0000".toList] := by decide

private theorem exec_snoc (d : Dir) (hist : History) (x : Name × Nat) :
    exec d (hist ++ [x]) = (save (exec d hist) x.1 x.2).1 := by
  simp [exec, List.foldl_append]

/-- **earlier runs stay unchanged**: no history of later runs touches a stored run -/
theorem earlier_runs_unchanged (d : Dir) (hist : History) (n : Name) (p : Nat)
    (h : kindOf d n = some (.run p)) : kindOf (exec d hist) n = some (.run p) := by
  induction hist generalizing d with
  | nil => exact h
  | cons x xs ih => exact ih (save d x.1 x.2).1 (kindOf_save_run d x.1 n x.2 p h)

/-- **earlier runs stay loadable**: `load_result("<name>_run_NNNN")` returns that very run, without
    warning, after any history of later runs -/
theorem earlier_runs_loadable (d : Dir) (hist : History) (n : Name) (p : Nat) (latest : Bool)
    (h : kindOf d n = some (.run p)) (hs : hasRunSuffix n = true) :
    loadResult (exec d hist) n latest = .loaded n p false := by
  have hk := earlier_runs_unchanged d hist n p h
  simp [loadResult, fallback, hs, isDirEntry, hk, loadFound]

example : kindOf [⟨"a_run_0000".toList, .run 7⟩] "a_run_0000".toList = some (.run 7) ∧
    loadResult (exec [⟨"a_run_0000".toList, .run 7⟩] [("a".toList, 8), ("a_run_0000".toList, 9), ("a".toList, 10)])
      "a_run_0000".toList false = .loaded "a_run_0000".toList 7 false := by decide

example : hasRunSuffix "a.b_run_0000".toList = true ∧ hasRunSuffix "a_run_b".toList = false ∧
    hasRunSuffix "_run_0000".toList = false ∧ hasRunSuffix "a_run_10000".toList = true ∧
    hasRunSuffix "a_run_000".toList = false := by decide

/-- every stored run name is accepted as a run name by `load_result` (`result_pattern` matches it)
    when the result name is not empty — also beyond run 9999 -/
theorem run_names_have_run_suffix (base : Name) (k : Nat) (hb : base ≠ []) : hasRunSuffix (runName base k) = true := by
  unfold runName
  rw [hasRunSuffix_run base (fmt4 k) (fmt4_length k) (fmt4_digits k)]
  simp [hb]

example : hasRunSuffix (runName "a".toList 123456) = true := by decide

/-- **latest is the most recent run of exactly that name**: right after storing a run of `base`
    the latest-lookups of `base` resolve to it and load it -/
theorem latest_after_save (d : Dir) (base : Name) (payload : Nat) (hs : hasRunSuffix base = false) :
    fallback (save d base payload).1 base true = .found (createRunName d base) false ∧
    loadResult (save d base payload).1 base true = .loaded (createRunName d base) payload false := by
  have hp := previous_save_self d base payload
  have hk : kindOf (save d base payload).1 (createRunName d base) = some (.run payload) := by
    rw [save_eq d base payload]; exact kindOf_setEntry_self _ _ _
  have hf : fallback (save d base payload).1 base true = .found (createRunName d base) false := by
    simp [fallback, hs, hp, isDirEntry, hk]
  exact ⟨hf, by simp [loadResult, hf, loadFound, hk]⟩

example : loadResult (save [⟨"a_run_0000".toList, .run 1⟩, ⟨"a_run_b_run_0003".toList, .run 2⟩] "a".toList 5).1 "a".toList true
    = .loaded "a_run_0001".toList 5 false := by decide

example : loadResult (save exDirBeyond "a".toList 5).1 "a".toList true = .loaded "a_run_10001".toList 5 false := by decide

/-- a run specifier on the name is removed by the latest-lookups, and nothing else — for every run number -/
theorem latest_accepts_run_specifier (d : Dir) (base : Name) (k : Nat) :
    getLatest d (runName base k) = fallback d base true := by
  unfold getLatest runName
  rw [(endsWithRunSpecifier_run base (fmt4 k) (fmt4_length k) (fmt4_digits k)).2]

/-- regression (latest-run-specifier): `get_latest_result_path("a_run_0000")` is the latest run of `a` -/
example : getLatest (exec [] [("a".toList, 1), ("a".toList, 2)]) "a_run_0000".toList
    = .found "a_run_0001".toList false := by decide

/-- **result names that themselves end in a run specifier** (`r = b_run_<four or more digits>`), stated
    instead of excluded.  (1) `get_latest_result_path(r)` / `load_latest_result(r)` remove the specifier:
    they are the latest-lookups of the *other* name `b`.  (2) `get_result_path(r, latest=…)` /
    `load_result(r, latest=…)` take `r` as the name of a run folder: they return the folder `r` itself
    (a run of `b`, if it exists) and never look at the runs `r_run_NNNN` of the result `r`.
    (3) For `b = ""` the name does not match `result_pattern`; it is then an ordinary result name for
    `get_result_path`, while the latest-lookups ask for the result `""`. -/
theorem latest_of_run_suffixed_name_spec (d : Dir) (b ds : Name) (hl : 4 ≤ ds.length) (hd : ds.all isDigit = true) :
    getLatest d (b ++ runInfix ++ ds) = fallback d b true ∧
    loadLatest d (b ++ runInfix ++ ds) = loadResult d b true ∧
    (b ≠ [] → ∀ latest, fallback d (b ++ runInfix ++ ds) latest =
      if isDirEntry d (b ++ runInfix ++ ds) then .found (b ++ runInfix ++ ds) false
      else .notFound (b ++ runInfix ++ ds) false) ∧
    (b = [] → hasRunSuffix (b ++ runInfix ++ ds) = false) := by
  have hstrip := (endsWithRunSpecifier_run b ds hl hd).2
  have hsuf := hasRunSuffix_run b ds hl hd
  refine ⟨by unfold getLatest; rw [hstrip], by unfold loadLatest loadResult getLatest; rw [hstrip], ?_, ?_⟩
  · intro hb latest
    have hs : hasRunSuffix (b ++ runInfix ++ ds) = true := by rw [hsuf]; simp [hb]
    simp only [fallback, hs, ↓reduceIte]
  · intro hb
    rw [hsuf]; simp [hb]

example : getLatest (exec [] [("a".toList, 1), ("a_run_0000".toList, 2), ("a".toList, 3)]) "a_run_0000".toList
      = .found "a_run_0001".toList false ∧
    fallback (exec [] [("a".toList, 1), ("a_run_0000".toList, 2), ("a".toList, 3)]) "a_run_0000".toList true
      = .found "a_run_0000".toList false ∧
    getLatest (exec [] [("_run_0000".toList, 1)]) "_run_0000".toList = .found [] false := by decide

/-! ### whole histories, starting from an empty results folder -/

private theorem countSaves_snoc (base : Name) (hist : History) (x : Name × Nat) :
    countSaves base (hist ++ [x]) = countSaves base hist + (if x.1 = base then 1 else 0) := by
  unfold countSaves
  rw [List.filter_append, List.length_append]
  by_cases h : x.1 = base <;> simp [h]

private theorem payloads_snoc (base : Name) (hist : History) (x : Name × Nat) :
    payloads base (hist ++ [x]) = payloads base hist ++ (if x.1 = base then [x.2] else []) := by
  unfold payloads
  rw [List.filter_append, List.map_append]
  by_cases h : x.1 = base <;> simp [h]

private theorem payloads_length (base : Name) (hist : History) : (payloads base hist).length = countSaves base hist := by
  simp [payloads, countSaves]

private theorem getLast?_runs (base : Name) (c : Nat) :
    ((List.range c).map (runName base)).getLast? = if c = 0 then none else some (runName base (c - 1)) := by
  cases c with
  | zero => rfl
  | succ n => simp [List.range_succ, List.map_append]

/-- what holds after every history of optimisations -/
private def HistInv (hist : History) : Prop :=
  (∀ base, previous (exec [] hist) base = (List.range (countSaves base hist)).map (runName base)) ∧
  (∀ base k p, (payloads base hist)[k]? = some p → kindOf (exec [] hist) (runName base k) = some (.run p)) ∧
  (∀ n ∈ names (exec [] hist), ∃ base k, n = runName base k)

private theorem histInv_rev (l : History) : HistInv l.reverse := by
  induction l with
  | nil =>
    refine ⟨fun base => by simp [exec, previous, names, isortBy, countSaves], ?_, by simp [exec, names]⟩
    intro base k p h
    simp [payloads] at h
  | cons x l ih =>
    obtain ⟨ihN, ihP, ihR⟩ := ih
    rw [List.reverse_cons]
    obtain ⟨b, q⟩ := x
    -- the next run name is the count
    have hname : createRunName (exec [] l.reverse) b = runName b (countSaves b l.reverse) := by
      unfold createRunName
      rw [ihN b, getLast?_runs]
      by_cases h0 : countSaves b l.reverse = 0
      · simp [h0]
      · simp only [h0, if_false]
        rw [runNumber_runName b _]
        congr 1; omega
    refine ⟨?_, ?_, ?_⟩
    · intro base
      rw [exec_snoc, countSaves_snoc]
      by_cases hb : b = base
      · subst hb
        simp only [if_true]
        rw [previous_save_self _ _ _, ihN b, hname, List.range_succ, List.map_append]
        rfl
      · have hb' : base ≠ b := fun h => hb h.symm
        simp only [hb, if_false, Nat.add_zero]
        rw [previous_save_other _ b base q hb', ihN base]
    · intro base k p h
      rw [exec_snoc]
      rw [payloads_snoc] at h
      by_cases hb : b = base
      · subst hb
        simp only [if_true] at h
        rw [List.getElem?_append] at h
        split at h
        · exact kindOf_save_run _ _ _ _ _ (ihP b k p h)
        · rename_i hk
          rw [payloads_length] at hk h
          rw [List.getElem?_singleton] at h
          split at h
          · rename_i hk0
            cases h
            have : k = countSaves b l.reverse := by omega
            subst this
            rw [save_eq _ _ _, hname]
            exact kindOf_setEntry_self _ _ _
          · cases h
      · simp only [hb, if_false, List.append_nil] at h
        exact kindOf_save_run _ _ _ _ _ (ihP base k p h)
    · intro n hn
      rw [exec_snoc, save_eq, names_setEntry] at hn
      rcases List.mem_cons.mp hn with rfl | hn
      · exact ⟨b, _, hname⟩
      · exact ihR n (List.mem_filter.mp hn).1

private theorem histInv (hist : History) : HistInv hist := by
  have := histInv_rev hist.reverse
  rwa [List.reverse_reverse] at this

/-- **every history**: after any sequence of optimisations of any length (any names: prefixes of each
    other, containing `_run_`, dots, …) the runs of `base` are exactly numbered 0, 1, 2, … in the order
    in which they were stored -/
theorem history_numbering (hist : History) (base : Name) :
    previous (exec [] hist) base = (List.range (countSaves base hist)).map (runName base) :=
  (histInv hist).1 base

example : previous (exec [] [("a".toList, 1), ("a_run_b".toList, 2), ("a".toList, 3), ("a.b".toList, 4), ("a".toList, 5)]) "a".toList
    = ["a_run_0000".toList, "a_run_0001".toList, "a_run_0002".toList] := by decide

/-- the numbering does not stop at 9999: from a folder holding run 9998 the next four runs are
    9999, 10000, 10001, 10002, in this order -/
example : previous (exec [⟨"a_run_9998".toList, .run 0⟩] [("a".toList, 1), ("a".toList, 2), ("a".toList, 3), ("a".toList, 4)]) "a".toList
    = ["a_run_9998".toList, "a_run_9999".toList, "a_run_10000".toList, "a_run_10001".toList, "a_run_10002".toList] := by
  decide

/-- the k-th run of `base` holds the k-th result stored under `base` -/
theorem history_payloads (hist : History) (base : Name) (k p : Nat)
    (h : (payloads base hist)[k]? = some p) :
    kindOf (exec [] hist) (runName base k) = some (.run p) :=
  (histInv hist).2.1 base k p h

/-- the results folder holds nothing but the stored runs -/
theorem history_only_runs (hist : History) (n : Name) (h : n ∈ names (exec [] hist)) :
    ∃ base k, n = runName base k ∧ k < countSaves base hist := by
  obtain ⟨base, k, rfl⟩ := (histInv hist).2.2 n h
  refine ⟨base, k, rfl, ?_⟩
  have hm : runName base k ∈ previous (exec [] hist) base := (mem_previous _ _ _).mpr ⟨h, isRunOf_runName base k⟩
  rw [history_numbering] at hm
  obtain ⟨j, hj, he⟩ := List.mem_map.mp hm
  rw [← runName_inj base j k he]
  exact List.mem_range.mp hj

example : names (exec [] [("a".toList, 1), ("b".toList, 2)]) = ["b_run_0000".toList, "a_run_0000".toList] := by decide

/-- the full statement "the latest-lookups of a result name load the most recent run of exactly that
    name" — false for the code as it is, see `history_latest_counterexample` -/
def LatestIsMostRecentOfThatName : Prop :=
  ∀ (hist : History) (base : Name) (p : Nat), (payloads base hist).getLast? = some p →
    loadLatest (exec [] hist) base = .loaded (runName base (countSaves base hist - 1)) p false

/-- (partial: names that do not end in a run specifier) the latest-lookups of `base` resolve to the
    last run stored under `base` and load its result -/
theorem history_latest (hist : History) (base : Name) (p : Nat)
    (hs : endsWithRunSpecifier base = false) (hp : (payloads base hist).getLast? = some p) :
    getLatest (exec [] hist) base = .found (runName base (countSaves base hist - 1)) false ∧
    loadLatest (exec [] hist) base = .loaded (runName base (countSaves base hist - 1)) p false := by
  have hpos : countSaves base hist ≠ 0 := by
    intro h0
    have : payloads base hist = [] := List.length_eq_zero_iff.mp (by rw [payloads_length]; exact h0)
    rw [this] at hp; cases hp
  have hidx : (payloads base hist)[countSaves base hist - 1]? = some p := by
    rw [List.getLast?_eq_getElem?, payloads_length] at hp; exact hp
  have hk := history_payloads hist base _ p hidx
  have hsuf : hasRunSuffix base = false := by simp [hasRunSuffix, hs]
  have hlast : (previous (exec [] hist) base).getLast? = some (runName base (countSaves base hist - 1)) := by
    rw [history_numbering hist base, getLast?_runs]; simp [hpos]
  have hf : getLatest (exec [] hist) base = .found (runName base (countSaves base hist - 1)) false := by
    simp [getLatest, stripRunSpecifier, hs, fallback, hsuf, hlast, isDirEntry, hk]
  exact ⟨hf, by simp [loadLatest, hf, loadFound, hk]⟩

example : (payloads "a".toList [("a".toList, 7), ("a_run_b".toList, 8), ("a".toList, 9)]).getLast? = some 9 ∧
    endsWithRunSpecifier "a".toList = false ∧
    loadLatest (exec [] [("a".toList, 7), ("a_run_b".toList, 8), ("a".toList, 9)]) "a".toList
      = .loaded "a_run_0001".toList 9 false := by decide

/-- the hypothesis of `history_latest` is needed: for the result name `a_run_0000` the latest-lookups
    load run 0 of the result `a`, not the run `a_run_0000_run_0000` that was just stored
    (replayed on the real code by the harness: known finding `latest-run-suffixed-name`) -/
theorem history_latest_counterexample : ¬ LatestIsMostRecentOfThatName := by
  intro h
  have h1 := h [("a".toList, 1), ("a_run_0000".toList, 2)] "a_run_0000".toList 2 (by decide)
  revert h1
  decide

/-- what they load instead, for every history: the latest-lookups of `r = b_run_<digits>` (where `b`
    does not end in a run specifier) load the most recent run of `b` … -/
theorem history_latest_of_run_suffixed_name (hist : History) (b ds : Name) (p : Nat)
    (hl : 4 ≤ ds.length) (hd : ds.all isDigit = true)
    (hb : endsWithRunSpecifier b = false) (hp : (payloads b hist).getLast? = some p) :
    getLatest (exec [] hist) (b ++ runInfix ++ ds) = .found (runName b (countSaves b hist - 1)) false ∧
    loadLatest (exec [] hist) (b ++ runInfix ++ ds) = .loaded (runName b (countSaves b hist - 1)) p false := by
  obtain ⟨h1, h2, _, _⟩ := latest_of_run_suffixed_name_spec (exec [] hist) b ds hl hd
  obtain ⟨g1, g2⟩ := history_latest hist b p hb hp
  have hstrip : stripRunSpecifier b = b := by simp [stripRunSpecifier, hb]
  constructor
  · rw [h1, ← g1]; unfold getLatest; rw [hstrip]
  · rw [h2, ← g2]; unfold loadLatest loadResult getLatest; rw [hstrip]

/-- … and when no run of `b` was ever stored they fail with "Result 'b' does not exist" — however many
    runs of `r` itself there are (for `b = ""` they return the results folder itself) -/
theorem history_latest_of_run_suffixed_name_no_runs (hist : History) (b ds : Name)
    (hl : 4 ≤ ds.length) (hd : ds.all isDigit = true)
    (hb : endsWithRunSpecifier b = false) (h0 : countSaves b hist = 0) :
    getLatest (exec [] hist) (b ++ runInfix ++ ds) = if b = [] then .found [] false else .notFound b false := by
  obtain ⟨h1, _, _, _⟩ := latest_of_run_suffixed_name_spec (exec [] hist) b ds hl hd
  rw [h1]
  have hsuf : hasRunSuffix b = false := by simp [hasRunSuffix, hb]
  have hprev : previous (exec [] hist) b = [] := by rw [history_numbering, h0]; rfl
  have hnot : b ∉ names (exec [] hist) := by
    intro hmem
    obtain ⟨base, k, he, _⟩ := history_only_runs hist b hmem
    have := (endsWithRunSpecifier_run base (fmt4 k) (fmt4_length k) (fmt4_digits k)).1
    rw [he] at hb
    unfold runName at hb
    rw [this] at hb
    cases hb
  have hk := (kindOf_none_iff _ _).mpr hnot
  by_cases hbe : b = []
  · subst hbe; simp [fallback, hsuf, hprev, isDirEntry]
  · have : b.isEmpty = false := by cases b <;> simp_all
    simp [fallback, hsuf, hprev, isDirEntry, hk, hbe, this]

example : getLatest (exec [] [("a_run_0000".toList, 1), ("a_run_0000".toList, 2)]) "a_run_0000".toList
    = .notFound "a".toList false := by decide

/-- `Project.results` lists every result folder under its own name, once, without warning — when no
    folder name contains a dot (with a dot `Path.stem` cuts the name: modelled bug for bug) -/
theorem results_lists_every_run (d : Dir) (hnd : (names d).Nodup)
    (hdot : ∀ n ∈ names d, n.contains '.' = false) :
    items d = ((isort ((names d).filter (isDirEntry d))).map (fun n => (n, n)), 0) := by
  have hL : (isort ((names d).filter (isDirEntry d))).Nodup := nodup_isort _ (hnd.filter _)
  have hS := strictSorted_of _ (sorted_isort ((names d).filter (isDirEntry d))) hL
  have hdotL : ∀ n ∈ isort ((names d).filter (isDirEntry d)), n.contains '.' = false := by
    intro n hn
    exact hdot n (List.mem_filter.mp ((mem_isort _ n).mp hn)).1
  have hloop := itemsLoop_no_dots (isort ((names d).filter (isDirEntry d))) [] 0 hdotL hL (by simp)
  simp only [List.map_nil, List.nil_append] at hloop
  unfold items
  simp only [hloop]
  have hkeys : (List.map (fun n => (n, n)) (isort ((names d).filter (isDirEntry d)))).map (·.1)
      = isort ((names d).filter (isDirEntry d)) := by simp [Function.comp_def]
  rw [hkeys, isort_of_strictSorted _ hS]
  congr 1
  generalize isort ((names d).filter (isDirEntry d)) = L
  have : ∀ (M : List Name), (∀ k ∈ M, k ∈ L) →
      M.filterMap (fun k => (lookupKey (L.map (fun n => (n, n))) k).map (fun v => (k, v))) = M.map (fun n => (n, n)) := by
    intro M hM
    induction M with
    | nil => rfl
    | cons k ks ih =>
      have ih' := ih (fun k' hk' => hM k' (List.mem_cons_of_mem _ hk'))
      simp only [lookupKey_map_self] at ih' ⊢
      simp only [List.filterMap_cons, hM k (by simp), if_true, Option.map_some, List.map_cons, ih']
  exact this L (fun _ h => h)

example : items [⟨"a_run_0001".toList, .run 2⟩, ⟨"a_run_0000".toList, .run 1⟩, ⟨"junk".toList, .file⟩]
    = ([("a_run_0000".toList, "a_run_0000".toList), ("a_run_0001".toList, "a_run_0001".toList)], 0) := by decide

/-- with a dot in the name the key is cut (`Path.stem`) -/
example : items [⟨"a.b_run_0000".toList, .run 1⟩] = ([("a".toList, "a.b_run_0000".toList)], 0) := by decide


/-! ## (b') result names with path separators (`Project.optimize("sub/model")`), aborted saves

`RTree` is everything below `results/`; a result name is read the way pathlib reads `f"{name}_run_"`
(`folderOf`, `leafOf`; absolute names and names with a `..` part are rejected with ValueError — `nameRejected`).
`WFTree`: every entry lies inside a folder (true for the empty results folder and kept by every operation:
`tree_wf_kept`). -/

/-- the empty results folder is well-formed and every `save` / aborted save keeps it so: the hypothesis
    `WFTree` of the theorems below holds along every history -/
theorem tree_wf_kept : WFTree [] ∧
    (∀ (t : RTree) (base : Name) (payload : Nat), WFTree t → WFTree (saveT t base payload).1) ∧
    (∀ (t : RTree) (base : Name), WFTree t → WFTree (saveAbortedT t base).1) :=
  ⟨wfTree_nil, fun t base payload h => saveT_wf t h base payload, fun t base h => saveAbortedT_wf t h base⟩

def exTree : RTree := [(["sub".toList, "m_run_0000".toList], .run 1), (["sub".toList], .emptyDir),
  (["m_run_0003".toList], .run 2), (["blocker".toList], .file)]

example : WFTree exTree := wfTree_of_check exTree (by decide)

/-- **fresh, strictly increasing run numbers for every result name the code accepts** — names with `/`, with a
    trailing `/`, with `.` or empty components included: the folder of the next run does not exist, its name is
    `f"{leaf}_run_{k:04}"` inside the sub folder the name points to, `create_result_run_name` returns the text
    `f"{name}_run_{k:04}"` with the same `k`, and `k` exceeds the number of every earlier run of that name. -/
theorem run_numbers_fresh (t : RTree) (hwf : WFTree t) (base : Name) (hacc : nameRejected base = false) :
    kindAt t (nextRunPath t base) = none ∧
    ∃ k, createRunNameT t base = some (runName base k) ∧
      nextRunPath t base = folderOf base ++ [runName (leafOf base) k] ∧
      ∀ ps, previousT t base = some ps → ∀ p ∈ ps, ∃ l, p = folderOf base ++ [l] ∧ isRunOf (leafOf base) l = true ∧
        runNumber (leafOf base) l < k := by
  refine ⟨nextRunPath_absent t hwf base, nextRunNumber t base, ?_, ?_, ?_⟩
  · simp [createRunNameT, hacc]
  · simp [nextRunPath, nextRunLeaf_eq]
  · intro ps hps p hp
    simp only [previousT, hacc, Bool.false_eq_true, if_false, Option.some.injEq] at hps
    subst hps
    obtain ⟨l, hl, rfl⟩ := List.mem_map.mp hp
    refine ⟨l, rfl, ((mem_previous _ _ _).mp hl).2, ?_⟩
    obtain ⟨j, hj, hlt⟩ := createRunName_spec (listingAt t (folderOf base)) (leafOf base)
    have hj' : nextRunLeaf t base = runName (leafOf base) j := hj
    rw [nextRunLeaf_eq] at hj'
    rw [runName_inj _ _ _ hj']
    exact hlt l hl

/-- the reported history: `sub/m` is optimised for the second time -/
example : nameRejected "sub/m".toList = false ∧ folderOf "sub/m".toList = ["sub".toList] ∧ leafOf "sub/m".toList = "m".toList ∧
    createRunNameT exTree "sub/m".toList = some "sub/m_run_0001".toList ∧
    nextRunPath exTree "sub/m".toList = ["sub".toList, "m_run_0001".toList] ∧
    createRunNameT exTree "m".toList = some "m_run_0004".toList ∧
    createRunNameT exTree "sub/".toList = some "sub/_run_0000".toList ∧
    createRunNameT exTree "./sub//m".toList = some "./sub//m_run_0001".toList ∧
    createRunNameT exTree "../m".toList = none ∧ createRunNameT exTree "/m".toList = none ∧
    createRunNameT exTree "sub/../m".toList = none ∧ createRunNameT exTree "..".toList = some ".._run_0000".toList := by decide

/-- regression (result-name-subfolder), the code before the fix: the runs of every name were looked for at the top
    level of `results/` under the full text of the name, so a name with a sub folder never found its runs -/
def legacyNextRunPath (t : RTree) (base : Name) : RPath :=
  folderOf base ++ [runName (leafOf base) (match (previous (listing t []) base).getLast? with
    | none => 0
    | some l => runNumber base l + 1)]

example : legacyNextRunPath exTree "sub/m".toList = ["sub".toList, "m_run_0000".toList] ∧
    kindAt exTree (legacyNextRunPath exTree "sub/m".toList) = some (.run 1) := by decide

/-- **every optimize run is stored** (the defect: the second run of `sub/m` was refused with FileExistsError):
    on a well-formed tree `save` never ends in the refusal of the overwrite protection; it rejects exactly the names
    that leave the results folder, is blocked exactly when a plain file is in the way of the sub folder (both leave
    the tree as it is), and otherwise stores the run in the fresh folder. -/
theorem optimize_stores_run (t : RTree) (hwf : WFTree t) (base : Name) (payload : Nat) :
    (∀ p, (saveT t base payload).2 ≠ .fileExists p) ∧
    ((nameRejected base = true ∧ saveT t base payload = (t, .rejected)) ∨
     (nameRejected base = false ∧ mkdirsT t [] (folderOf base) = none ∧
        saveT t base payload = (t, .blocked (nextRunPath t base))) ∨
     (nameRejected base = false ∧ (saveT t base payload).2 = .saved (nextRunPath t base) ∧
        kindAt (saveT t base payload).1 (nextRunPath t base) = some (.run payload))) := by
  by_cases hacc : nameRejected base = false
  · rw [saveT_eq t hwf base payload hacc]
    cases hm : mkdirsT t [] (folderOf base) with
    | none => exact ⟨by intro p h; simp at h, Or.inr (Or.inl ⟨hacc, rfl, rfl⟩)⟩
    | some t1 => exact ⟨by intro p h; simp at h, Or.inr (Or.inr ⟨hacc, rfl, kindAt_setAt_self _ _ _⟩)⟩
  · simp only [Bool.not_eq_false] at hacc
    have : saveT t base payload = (t, .rejected) := by simp [saveT, hacc]
    exact ⟨by intro p h; rw [this] at h; simp at h, Or.inl ⟨hacc, this⟩⟩

example : saveT exTree "sub/m".toList 9 = (setAt exTree ["sub".toList, "m_run_0001".toList] (.run 9),
      .saved ["sub".toList, "m_run_0001".toList]) ∧
    (saveT exTree "new/deeper/m".toList 9).2 = .saved ["new".toList, "deeper".toList, "m_run_0000".toList] ∧
    (saveT exTree "blocker/m".toList 9) = (exTree, .blocked ["blocker".toList, "m_run_0000".toList]) ∧
    (saveT exTree "../m".toList 9) = (exTree, .rejected) := by decide

/-- **earlier runs stay unchanged** in the tree: storing a run (of any name, in any sub folder) changes no existing
    entry — a run folder may gain a sub folder (`a_run_0000/b`), its own kind and result stay -/
theorem earlier_runs_unchanged_tree (t : RTree) (hwf : WFTree t) (base : Name) (payload : Nat) (p : RPath) (k : Kind)
    (h : kindAt t p = some k) : kindAt (saveT t base payload).1 p = some k := by
  rcases (optimize_stores_run t hwf base payload).2 with ⟨_, he⟩ | ⟨_, _, he⟩ | ⟨hacc, _, _⟩
  · rw [he]; exact h
  · rw [he]; exact h
  · rw [saveT_eq t hwf base payload hacc]
    cases hm : mkdirsT t [] (folderOf base) with
    | none => exact h
    | some t1 =>
      simp only
      rw [kindAt_setAt_ne]
      · exact mkdirsT_keeps t t1 [] _ hm p k h
      · intro hp; subst hp; rw [nextRunPath_absent t hwf base] at h; simp at h

example : kindAt (saveT exTree "sub/m_run_0000/x".toList 9).1 ["sub".toList, "m_run_0000".toList] = some (.run 1) := by decide

/-- **inside its folder the registry is the flat registry of part (b)**: the listing of the sub folder after the
    run was stored is `save` applied to the listing before — so every theorem of part (b) about one results folder
    (`other_names_unaffected`, `latest_after_save`, …) holds for the names that share a sub folder -/
theorem folder_listing_after_save (t : RTree) (hwf : WFTree t) (base : Name) (payload : Nat)
    (hacc : nameRejected base = false) (hfree : mkdirsT t [] (folderOf base) ≠ none) :
    isDirAt (saveT t base payload).1 (folderOf base) = true ∧
    listing (saveT t base payload).1 (folderOf base) = (save (listingAt t (folderOf base)) (leafOf base) payload).1 := by
  cases hm : mkdirsT t [] (folderOf base) with
  | none => exact absurd hm hfree
  | some t1 => exact ⟨isDirAt_saveT t hwf base payload hacc t1 hm, listing_saveT t hwf base payload hacc t1 hm⟩

/-- **latest is the most recent run of exactly that name**, sub folder included: right after a run of `base` was
    stored, `get_result_path(base, latest=True)` / `load_result(base, latest=True)` resolve to it -/
theorem latest_after_save_tree (t : RTree) (hwf : WFTree t) (base : Name) (payload : Nat)
    (hacc : nameRejected base = false) (hfree : mkdirsT t [] (folderOf base) ≠ none) (hs : hasRunSuffix base = false) :
    fallbackT (saveT t base payload).1 base true = .found (nextRunPath t base) false ∧
    loadResultT (saveT t base payload).1 base true = .loaded (nextRunPath t base) payload false := by
  obtain ⟨hd, hl⟩ := folder_listing_after_save t hwf base payload hacc hfree
  have hk : kindAt (saveT t base payload).1 (nextRunPath t base) = some (.run payload) := by
    rcases (optimize_stores_run t hwf base payload).2 with ⟨h, _⟩ | ⟨_, h, _⟩ | ⟨_, _, h⟩
    · rw [hacc] at h; simp at h
    · exact absurd h hfree
    · exact h
  have hla : listingAt (saveT t base payload).1 (folderOf base)
      = (save (listingAt t (folderOf base)) (leafOf base) payload).1 := by
    unfold listingAt; rw [hd]; simp only [if_true]
    have := hl; unfold listingAt at this; exact this
  have hdir : isDirAt (saveT t base payload).1 (nextRunPath t base) = true := by
    unfold isDirAt nextRunPath
    rw [dirChain_append]
    have : dirChain (saveT t base payload).1 [] (folderOf base) = true := hd
    rw [this]
    simp only [dirChain, List.nil_append, Bool.and_true, Bool.true_and]
    have hk' := hk; unfold nextRunPath at hk'
    rw [hk']; rfl
  have hf : fallbackT (saveT t base payload).1 base true = .found (nextRunPath t base) false := by
    unfold fallbackT
    simp only [hs, Bool.false_eq_true, if_false, hacc, hla, previous_save_self]
    simp only [List.getLast?_append, List.getLast?_singleton, Option.some_or, Bool.not_true, lookupAt]
    have : folderOf base ++ [createRunName (listingAt t (folderOf base)) (leafOf base)] = nextRunPath t base := rfl
    rw [this, hdir]; rfl
  exact ⟨hf, by simp [loadResultT, hf, loadFoundT, hk]⟩

example : loadResultT (saveT exTree "sub/m".toList 9).1 "sub/m".toList true
    = .loaded ["sub".toList, "m_run_0001".toList] 9 false := by decide

/-- **an aborted save is never reused and never deleted**: a plugin fault in the middle of `save_result` leaves the
    run folder without `result.yml`; the next optimisation of that name gets a strictly larger run number, is stored
    in another folder, and the partial folder stays as it is -/
theorem partial_run_never_reused (t : RTree) (hwf : WFTree t) (base : Name) (payload : Nat)
    (hacc : nameRejected base = false) (hfree : mkdirsT t [] (folderOf base) ≠ none) :
    let t' := (saveAbortedT t base).1
    kindAt t' (nextRunPath t base) = some .emptyDir ∧
    nextRunNumber t base < nextRunNumber t' base ∧
    nextRunPath t' base ≠ nextRunPath t base ∧
    (saveT t' base payload).2 = .saved (nextRunPath t' base) ∧
    kindAt (saveT t' base payload).1 (nextRunPath t base) = some .emptyDir := by
  cases hm : mkdirsT t [] (folderOf base) with
  | none => exact absurd hm hfree
  | some t1 =>
    have hwf' := saveAbortedT_wf t hwf base
    rw [saveAbortedT_eq t hwf base hacc, hm] at hwf' ⊢
    simp only at hwf' ⊢
    have hk := kindAt_setAt_self t1 (nextRunPath t base) .emptyDir
    have hlt := nextRunNumber_after t t1 hwf base .emptyDir hm
    have hne' : ∀ T' : RTree, nextRunNumber t base < nextRunNumber T' base → nextRunPath T' base ≠ nextRunPath t base := by
      intro T' hlt' h
      simp only [nextRunPath, nextRunLeaf_eq, List.append_cancel_left_eq, List.cons.injEq, and_true] at h
      have := runName_inj _ _ _ h
      omega
    have hne := hne' _ hlt
    have hd := isDirAt_after t t1 base .emptyDir hm
    have hsaved : (saveT (setAt t1 (nextRunPath t base) .emptyDir) base payload).2
        = .saved (nextRunPath (setAt t1 (nextRunPath t base) .emptyDir) base) := by
      rcases (optimize_stores_run _ hwf' base payload).2 with ⟨h, _⟩ | ⟨_, h, _⟩ | ⟨_, h, _⟩
      · rw [hacc] at h; simp at h
      · rw [mkdirsT_of_dirChain _ [] _ hd] at h; simp at h
      · exact h
    exact ⟨hk, hlt, hne, hsaved, earlier_runs_unchanged_tree _ hwf' base payload _ _ hk⟩

/-- the fault strikes the second optimisation of `sub/m`: `sub/m_run_0001` stays without result, the next run is 0002 -/
example : (saveAbortedT exTree "sub/m".toList).2 = .blocked ["sub".toList, "m_run_0001".toList] ∧
    kindAt (saveAbortedT exTree "sub/m".toList).1 ["sub".toList, "m_run_0001".toList] = some .emptyDir ∧
    (saveT (saveAbortedT exTree "sub/m".toList).1 "sub/m".toList 9).2 = .saved ["sub".toList, "m_run_0002".toList] := by decide


/-- the full statement "the latest-lookups load the most recent *stored* run" next to an aborted save: -/
def LatestSkipsAbortedSaves : Prop :=
  ∀ (t : RTree) (base : Name), WFTree t → loadResultT (saveAbortedT t base).1 base true = loadResultT t base true

/-- it is false for the code (known finding `latest-after-aborted-save`): the latest-lookups take the newest run *folder*;
    after an aborted save that is the partial folder, `get_latest_result_path` returns it and `load_latest_result` fails
    until the next run is stored (`partial_run_never_reused`: that run gets a new folder, `latest_after_save_tree`: the
    lookups then resolve to it) -/
theorem latest_after_aborted_save_counterexample : ¬ LatestSkipsAbortedSaves := by
  intro h
  have := h exTree "sub/m".toList (wfTree_of_check exTree (by decide))
  revert this
  decide

example : loadResultT exTree "sub/m".toList true = .loaded ["sub".toList, "m_run_0000".toList] 1 false ∧
    loadResultT (saveAbortedT exTree "sub/m".toList).1 "sub/m".toList true = .broken ["sub".toList, "m_run_0001".toList] false ∧
    fallbackT (saveAbortedT exTree "sub/m".toList).1 "sub/m".toList true = .found ["sub".toList, "m_run_0001".toList] false := by decide

end Glotaran.C18
