/-
C18 — saving never destroys existing files unless asked; project results accumulate.
Property theorems only (helper lemmas: GlotaranProofs/Lemmas/C18.lean, C18FS.lean).

Part (a) is about `protect`, `runSave` (interpreting the effect lists regenerated from the source,
`Generated.saveFns`) and `guardedWrite`; the io plugin is an arbitrary function.
Part (b) is about `previous`, `createRunName`, `save`, `fallback`, `getLatest`, `loadResult` on every
directory listing and every history of `Project.optimize` calls (no bound on the number of names;
at most 10 000 runs per name, see `RoomFor`).
-/
import GlotaranProofs.Lemmas.C18
import GlotaranProofs.Lemmas.C18FS
import GlotaranModel.Generated.C18
namespace Glotaran.C18

/-! ## (a) overwrite protection -/

/-- **refusal before writing**: an existing file or a non-empty folder and no `allow_overwrite`:
    `protect_from_overwrite` raises `FileExistsError` and the file system is exactly what it was -/
theorem protect_refuses (fs : FS) (p : Path) (hwf : WF fs) (hex : TargetExists fs p) :
    protect fs p false = (fs, some .fileExists) :=
  protect_refuses' fs p hwf hex

def exFS : FS := [(["d"], .dir), (["d", "out.yml"], .file "old"), (["keep.txt"], .file "keep"),
  (["r"], .dir), (["r", "x"], .dir)]

example : WF exFS ∧ TargetExists exFS ["d", "out.yml"] ∧ TargetExists exFS ["r"] :=
  ⟨WF_of_check _ (by decide), by decide, by decide⟩

/-- whatever the target and the flag: no existing file is created, removed or changed by the check
    (it creates missing parent folders, nothing else) -/
theorem protect_keeps_files (fs : FS) (p : Path) (allow : Bool) (q : Path) (c : String) :
    get (protect fs p allow).1 q = some (.file c) ↔ get fs q = some (.file c) :=
  (protect_grew fs p allow).file_iff q c

theorem protect_only_adds_dirs (fs : FS) (p : Path) (allow : Bool) (q : Path) :
    get (protect fs p allow).1 q = get fs q ∨ (get fs q = none ∧ get (protect fs p allow).1 q = some .dir) :=
  protect_grew fs p allow q

example : (protect exFS ["new1", "new2", "out.yml"] false).1
    = (["new1", "new2"], .dir) :: (["new1"], .dir) :: exFS := by decide

/-- the check lets the call through when overwriting is allowed or the target is absent (and no
    file is in the way of the parent folders): it does not refuse everything -/
theorem protect_passes (fs : FS) (p : Path) (allow : Bool) (hp : p ≠ [])
    (h : allow = true ∨ get fs p = none) (hno : NoFileAbove fs p) : (protect fs p allow).2 = none :=
  protect_passes' fs p allow hp h hno

example : NoFileAbove exFS ["d", "new.yml"] ∧ get exFS ["d", "new.yml"] = none ∧
    (protect exFS ["d", "out.yml"] true).2 = none ∧ (protect exFS ["keep.txt", "x"] false).2 = none :=
  ⟨NoFileAbove_of_check _ _ (by decide), by decide, by decide, by decide⟩

/-- **the check comes first** (regenerated table): in every `save_*` function the first effect is
    the unconditional `protect_from_overwrite(<path>, allow_overwrite=<allow_overwrite>)`, the
    default is not to overwrite, and the only decorator converts `NotImplementedError` -/
theorem protect_first : ∀ f ∈ Generated.saveFns, protectFirst f = true := by decide

/-- (regenerated table) between the check and the plugin lookup there are only format inference
    and pure calls, and the plugin is called right after the lookup -/
theorem lookup_before_write : ∀ f ∈ Generated.saveFns, lookupBeforeWrite f = true ∧ pluginAfterLookup f = true := by
  decide

example : Generated.saveFns.map (·.name) = ["save_model", "save_parameters", "save_scheme", "save_result", "save_dataset"] := by
  decide

private theorem protectFirst_spec (f : SaveFn) (h : protectFirst f = true) :
    firstEffect f.steps = some ⟨.protect (.param f.pathParam) (.param f.allowParam), .always⟩ := by
  simp only [protectFirst, Bool.and_eq_true, decide_eq_true_eq] at h
  exact h.1.1

private theorem runSave_start_err (f : SaveFn) (h : protectFirst f = true) (env : Env) (fs fs' : FS) (e : Err)
    (hp : protect fs env.path env.allow = (fs', some e)) : runSteps f env f.steps fs none = (fs', some e) := by
  rw [runSteps_firstEffect f env f.steps _ fs none (protectFirst_spec f h)]
  simp [runSteps, condHolds, resolvePath, resolveBool, hp]

private theorem runSave_start_ok (f : SaveFn) (h : protectFirst f = true) (env : Env) (fs fs' : FS)
    (hp : protect fs env.path env.allow = (fs', none)) :
    runSteps f env f.steps fs none = runSteps f env (afterFirst f.steps) fs' none := by
  rw [runSteps_firstEffect f env f.steps _ fs none (protectFirst_spec f h)]
  simp [runSteps, condHolds, resolvePath, resolveBool, hp]

/-- **saving never destroys**: for every save function of the table, every plugin (any effect, any
    failure, or none registered), every format name: if the target exists and `allow_overwrite` is
    not set, the call ends with `FileExistsError` and the file system is unchanged — nothing,
    not even the plugin lookup, happens before the check -/
theorem save_never_destroys : ∀ f ∈ Generated.saveFns, ∀ (env : Env) (fs : FS),
    WF fs → env.allow = false → TargetExists fs env.path →
    runSave f env fs = (fs, some .fileExists) := by
  intro f hf env fs hwf hallow hex
  have h := protect_first f hf
  unfold runSave
  rw [runSave_start_err f h env fs fs .fileExists (by rw [hallow]; exact protect_refuses fs env.path hwf hex)]
  simp [decorate_fileExists]

/-- a plugin that would overwrite everything and then fail -/
def hostileEnv (p : Path) : Env :=
  { path := p, allow := false, formatName := some "nope", known := [],
    plugin := fun _ _ => ([], some (.other "boom")), unknown := fun _ _ => ([], none),
    maybeHolds := fun _ => true, otherBool := fun _ => true, otherPath := fun _ => [] }

example : ∀ f ∈ Generated.saveFns, runSave f (hostileEnv ["d", "out.yml"]) exFS = (exFS, some .fileExists) := by
  decide

/-- up to the moment a plugin (or a call the extractor could not classify) is entered, a `save_*`
    call of **any** shape changes no existing file and creates no file — it can only create the
    parent folders; in particular an unknown format or an unsupported method leaves all files alone -/
theorem save_keeps_files_until_plugin (f : SaveFn) (env : Env) (fs : FS)
    (hplugin : ∀ m fs, (env.plugin m fs).1 = fs) (hunknown : ∀ n fs, (env.unknown n fs).1 = fs)
    (q : Path) (c : String) :
    get (runSave f env fs).1 q = some (.file c) ↔ get fs q = some (.file c) :=
  (runSteps_grew f env hplugin hunknown f.steps fs none).file_iff q c

/-- a plugin that raises at once (the spy of the harness) -/
def spyEnv (p : Path) : Env :=
  { path := p, allow := false, formatName := some "fk", known := ["fk"],
    plugin := fun _ fs => (fs, some (.other "entered")), unknown := fun _ fs => (fs, none),
    maybeHolds := fun _ => true, otherBool := fun _ => true, otherPath := fun _ => [] }

/-- the theorem applies to it: `keep.txt` survives, the only new entries are the parent folders -/
example : (∀ m fs, ((spyEnv ["n1", "n2", "out.yml"]).plugin m fs).1 = fs) ∧
    (∀ n fs, ((spyEnv ["n1", "n2", "out.yml"]).unknown n fs).1 = fs) ∧
    ∀ f ∈ Generated.saveFns, runSave f (spyEnv ["n1", "n2", "out.yml"]) exFS
      = ((["n1", "n2"], .dir) :: (["n1"], .dir) :: exFS, some (.other "entered")) :=
  ⟨fun _ _ => rfl, fun _ _ => rfl, by decide⟩

/-- **unknown format**: when `format_name` names no registered plugin, no plugin is ever entered:
    the outcome is that of the check, else `ValueError`, and the file system is what the check left -/
theorem save_unknown_format : ∀ f ∈ Generated.saveFns, ∀ (env : Env) (fs : FS),
    truthy env.formatName = true → env.known.contains (env.formatName.getD "") = false →
    runSave f env fs =
      ((protect fs env.path env.allow).1,
        match (protect fs env.path env.allow).2 with
        | some e => some e
        | none => some .valueError) := by
  intro f hf env fs ht hk
  have h1 := protect_first f hf
  have h2 := (lookup_before_write f hf).1
  unfold runSave
  cases hp : protect fs env.path env.allow with
  | mk fs' e =>
    cases e with
    | some e =>
      rw [runSave_start_err f h1 env fs fs' e hp]
      -- the check raises FileExistsError or an error of mkdir, never NotImplementedError
      have hd : decorate f.decorators (some e) = some e := by
        rcases protect_error fs env.path env.allow e (by rw [hp]) with rfl | rfl
        · exact decorate_fileExists _
        · exact decorate_notADirectory _
      simp [hd]
    | none =>
      rw [runSave_start_ok f h1 env fs fs' hp, runSteps_lookup f env ht _ fs' none h2, hk]
      simp [decorate_valueError]

example : ∀ f ∈ Generated.saveFns, runSave f (hostileEnv ["d", "new.yml"]) exFS = (exFS, some .valueError) := by decide

/-- **the plugin is reached** when the check passes and the format is registered: the function
    does not refuse everything, and the plugin sees exactly the file system the check left -/
theorem save_reaches_plugin : ∀ f ∈ Generated.saveFns, ∀ (env : Env) (fs : FS) (e : String),
    (protect fs env.path env.allow).2 = none →
    truthy env.formatName = true → env.known.contains (env.formatName.getD "") = true →
    (∀ m fs, env.plugin m fs = (fs, some (.other e))) →
    runSave f env fs = ((protect fs env.path env.allow).1, some (.other e)) := by
  intro f hf env fs e hpass ht hk hplug
  have h1 := protect_first f hf
  have h2 := lookup_before_write f hf
  unfold runSave
  cases hp : protect fs env.path env.allow with
  | mk fs' r =>
    rw [hp] at hpass
    simp only at hpass
    subst hpass
    rw [runSave_start_ok f h1 env fs fs' hp, runSteps_lookup f env ht _ fs' none h2.1, hk]
    simp only [if_true]
    rw [runSteps_callsPlugin f env (.other e) hplug _ fs' none h2.2]
    simp [decorate_other]

example : ∀ f ∈ Generated.saveFns,
    (runSave f { hostileEnv ["d", "new.yml"] with formatName := some "fk", known := ["fk"] } exFS).2
      = some (.other "boom") := by decide

/-- **project-level writers**: `Project.create`, `generate_model`, `generate_parameters` and
    `import_data` never change anything when the target exists and `allow_overwrite` is not set —
    they skip (`ignore_existing`) or refuse, in every combination of the two flags -/
theorem guarded_write_never_destroys (k : GuardKind) (fs : FS) (p : Path) (ignore : Bool) (content : String)
    (hwf : WF fs) (hex : get fs p ≠ none) :
    (guardedWrite k fs p false ignore content).1 = fs ∧ (guardedWrite k fs p false ignore content).2 ≠ .written := by
  have hpe : pathExists fs p = true := by
    unfold pathExists
    cases h : get fs p with
    | none => exact absurd h hex
    | some n => simp
  cases k with
  | projectCreate =>
    simp [guardedWrite, mkdirP_parent_noop fs p hwf hex, hpe]
  | generateModel =>
    cases ignore <;> simp [guardedWrite, hpe]
  | generateParameters =>
    cases ignore <;> simp [guardedWrite, hpe]
  | importData =>
    cases ignore with
    | true => simp [guardedWrite, hpe]
    | false =>
      have h1 := protect_fst_of_exists fs p false hwf hex
      simp only [guardedWrite, hpe, Bool.and_false, Bool.not_false, Bool.and_true]
      cases hp : protect fs p false with
      | mk fs' e =>
        rw [hp] at h1
        simp only at h1
        subst h1
        cases e with
        | some e => cases e <;> simp
        | none =>
          -- the check passed although the target exists: it is an empty folder, nothing can be written
          have hdir : isDir fs' p = true := by
            have h2 : (protect fs' p false).2 = none := by rw [hp]
            rw [protect_eq, mkdirP_parent_noop fs' p hwf hex] at h2
            simp only [ite_self] at h2
            cases hg : get fs' p with
            | none => exact absurd hg hex
            | some n =>
              cases n with
              | dir => simp [isDir, hg]
              | file c => simp [isFile, hg] at h2
          simp [hdir]

example : guardedWrite .importData exFS ["keep.txt"] false false "new" = (exFS, .refused) ∧
    guardedWrite .importData exFS ["keep.txt"] false true "new" = (exFS, .skipped) ∧
    guardedWrite .generateModel exFS ["keep.txt"] true true "new" = (exFS, .skipped) ∧
    (guardedWrite .generateModel exFS ["keep.txt"] true false "new").2 = .written ∧
    guardedWrite .projectCreate exFS ["d", "out.yml"] false false "new" = (exFS, .refused) := by decide

/-- (regenerated table of call sites) a project result run is saved with the default
    `allow_overwrite=False`: an existing run can only be refused, never overwritten -/
theorem registry_save_uses_default_allow :
    (∃ c ∈ Generated.callSites, c.caller = "ProjectResultRegistry.save") ∧
    ∀ c ∈ Generated.callSites, c.caller = "ProjectResultRegistry.save" →
      c.callee = "save_result" ∧ c.allow = .absent := by decide

/-- (regenerated table of call sites) the project-level writers hand their own `allow_overwrite`
    to the save function, nothing else -/
theorem project_writers_pass_allow_through :
    (∃ c ∈ Generated.callSites, c.caller = "ProjectDataRegistry.import_data") ∧
    (∃ c ∈ Generated.callSites, c.caller = "ProjectParameterRegistry.generate_parameters") ∧
    ∀ c ∈ Generated.callSites,
      (c.caller = "ProjectDataRegistry.import_data" ∨ c.caller = "ProjectParameterRegistry.generate_parameters") →
      c.allow = .param "allow_overwrite" := by decide

/-- (regenerated constants) the regular expressions and f-strings of the source are the ones
    `hasRunSuffix`, `endsWithRunSpecifier`, `isRunOf`, `runName` model -/
theorem source_patterns_are_the_modelled_ones :
    Generated.classPatterns = [("result_pattern", ".+_run_\\d{4}$"), ("run_specifier_pattern", "_run_\\d{4}$")] ∧
    Generated.previousFilter = [["{re.escape()}", "_run_\\d{4}"]] ∧
    (∀ fmt ∈ Generated.runNameFormats, fmt = ["{}", "_run_0000"] ∨ fmt = ["{}", "_run_", "{:04}"]) ∧
    Generated.runNameFormats.length = 2 ∧
    Generated.latestSubPatterns = [("get_latest_result_path", "run_specifier_pattern"),
      ("load_latest_result", "run_specifier_pattern")] := by decide

/-! ## (b) result runs -/

/-- a history of `Project.optimize` calls: (result name, identity of the result) -/
abbrev History := List (Name × Nat)

def exec (d : Dir) (hist : History) : Dir := hist.foldl (fun d x => (save d x.1 x.2).1) d

def countSaves (base : Name) (hist : History) : Nat := (hist.filter (fun x => x.1 = base)).length

/-- the results stored under `base`, in order -/
def payloads (base : Name) (hist : History) : List Nat := (hist.filter (fun x => x.1 = base)).map (·.2)

/-- **fresh run number**: the folder of the next run of `base` does not exist yet — whatever else
    the results folder holds (runs of other names that extend `base`, foreign files, …) -/
theorem run_name_fresh (d : Dir) (base : Name) (hb : RoomFor d base) : createRunName d base ∉ names d :=
  createRunName_fresh d base hb

example : RoomFor [⟨"a_run_0000".toList, .run 1⟩, ⟨"a_run_b_run_0000".toList, .run 2⟩] "a".toList := by
  intro l hl
  have : l = "a_run_0000".toList := by
    have h : previous [⟨"a_run_0000".toList, .run 1⟩, ⟨"a_run_b_run_0000".toList, .run 2⟩] "a".toList
        = ["a_run_0000".toList] := by decide
    rw [h] at hl; simpa using hl
  subst this; decide

/-- **strictly increasing**: the next run is a run of `base` whose number exceeds every earlier one -/
theorem run_number_increases (d : Dir) (base : Name) (hb : RoomFor d base) :
    isRunOf base (createRunName d base) = true ∧
    ∀ l ∈ previous d base, runNumber base l < runNumber base (createRunName d base) := by
  obtain ⟨k, hk, he, hlt, _⟩ := createRunName_spec d base hb
  rw [he, runNumber_runName base k hk]
  exact ⟨isRunOf_runName base k hk, hlt⟩

example : createRunName [⟨"a_run_0000".toList, .run 1⟩, ⟨"a_run_0007".toList, .file⟩,
    ⟨"a_run_b_run_0042".toList, .run 2⟩] "a".toList = "a_run_0008".toList := by decide

/-- **exactly that name** (D13): storing a run of `base` changes neither the runs nor the next run
    name of any other result name, however the two names overlap -/
theorem other_names_unaffected (d : Dir) (base base' : Name) (payload : Nat) (hb : RoomFor d base)
    (hne : base' ≠ base) :
    previous (save d base payload).1 base' = previous d base' ∧
    createRunName (save d base payload).1 base' = createRunName d base' := by
  have h := previous_save_other d base base' payload hb hne
  exact ⟨h, by unfold createRunName; rw [h]⟩

/-- regression D13: `a`, `a`, `a_run_b`, `a` -/
example : (exec [] [("a".toList, 1), ("a".toList, 2), ("a_run_b".toList, 3), ("a".toList, 4)]).map (·.name)
    = ["a_run_0002".toList, "a_run_b_run_0000".toList, "a_run_0001".toList, "a_run_0000".toList] := by decide

private theorem exec_snoc (d : Dir) (hist : History) (x : Name × Nat) :
    exec d (hist ++ [x]) = (save (exec d hist) x.1 x.2).1 := by
  simp [exec, List.foldl_append]

/-- **earlier runs stay unchanged**: no history of later runs touches a stored run -/
theorem earlier_runs_unchanged (d : Dir) (hist : History) (n : Name) (p : Nat)
    (h : kindOf d n = some (.run p)) : kindOf (exec d hist) n = some (.run p) := by
  induction hist generalizing d with
  | nil => exact h
  | cons x xs ih => exact ih (save d x.1 x.2).1 (kindOf_save_run d x.1 n x.2 p h)

/-- **earlier runs stay loadable**: `load_result("<name>_run_NNNN")` returns that very run, without
    warning, after any history of later runs -/
theorem earlier_runs_loadable (d : Dir) (hist : History) (n : Name) (p : Nat) (latest : Bool)
    (h : kindOf d n = some (.run p)) (hs : hasRunSuffix n = true) :
    loadResult (exec d hist) n latest = .loaded n p false := by
  have hk := earlier_runs_unchanged d hist n p h
  simp [loadResult, fallback, hs, isDirEntry, hk, loadFound]

example : kindOf [⟨"a_run_0000".toList, .run 7⟩] "a_run_0000".toList = some (.run 7) ∧
    loadResult (exec [⟨"a_run_0000".toList, .run 7⟩] [("a".toList, 8), ("a_run_0000".toList, 9), ("a".toList, 10)])
      "a_run_0000".toList false = .loaded "a_run_0000".toList 7 false := by decide

example : hasRunSuffix "a.b_run_0000".toList = true ∧ hasRunSuffix "a_run_b".toList = false ∧
    hasRunSuffix "_run_0000".toList = false := by decide

/-- **latest is the most recent run of exactly that name**: right after storing a run of `base`
    the latest-lookups of `base` resolve to it and load it -/
theorem latest_after_save (d : Dir) (base : Name) (payload : Nat) (hb : RoomFor d base)
    (hs : hasRunSuffix base = false) :
    fallback (save d base payload).1 base true = .found (createRunName d base) false ∧
    loadResult (save d base payload).1 base true = .loaded (createRunName d base) payload false := by
  have hp := previous_save_self d base payload hb
  have hk : kindOf (save d base payload).1 (createRunName d base) = some (.run payload) := by
    rw [save_eq d base payload hb]; exact kindOf_setEntry_self _ _ _
  have hf : fallback (save d base payload).1 base true = .found (createRunName d base) false := by
    simp [fallback, hs, hp, isDirEntry, hk]
  exact ⟨hf, by simp [loadResult, hf, loadFound, hk]⟩

example : loadResult (save [⟨"a_run_0000".toList, .run 1⟩, ⟨"a_run_b_run_0003".toList, .run 2⟩] "a".toList 5).1 "a".toList true
    = .loaded "a_run_0001".toList 5 false := by decide

/-- a run specifier on the name is removed by the latest-lookups, and nothing else -/
theorem latest_accepts_run_specifier (d : Dir) (base : Name) (k : Nat) (hk : k < 10000) :
    getLatest d (runName base k) = fallback d base true := by
  have hl : (runName base k).length = base.length + 9 := by
    simp [runName, runInfix_length, fmt4_length k hk]
  have hdrop : (runName base k).drop ((runName base k).length - 9) = runInfix ++ fmt4 k := by
    have : (runName base k).length - 9 = base.length := by omega
    rw [this]; unfold runName; rw [List.append_assoc, List.drop_left]
  have htake : (runName base k).take ((runName base k).length - 9) = base := by
    have : (runName base k).length - 9 = base.length := by omega
    rw [this]; unfold runName; rw [List.append_assoc, List.take_left]
  have hends : endsWithRunSpecifier (runName base k) = true := by
    unfold endsWithRunSpecifier
    simp only [hdrop]
    have h5 : (runInfix ++ fmt4 k).take 5 = runInfix := by
      have : (5 : Nat) = runInfix.length := rfl
      rw [this, List.take_left]
    have h5' : (runInfix ++ fmt4 k).drop 5 = fmt4 k := by
      have : (5 : Nat) = runInfix.length := rfl
      rw [this, List.drop_left]
    simp [h5, h5', fmt4_digits k hk, hl]
  simp [getLatest, stripRunSpecifier, hends, htake]

/-- regression (latest-run-specifier): `get_latest_result_path("a_run_0000")` is the latest run of `a` -/
example : getLatest (exec [] [("a".toList, 1), ("a".toList, 2)]) "a_run_0000".toList
    = .found "a_run_0001".toList false := by decide

/-! ### whole histories, starting from an empty results folder -/

private theorem countSaves_snoc (base : Name) (hist : History) (x : Name × Nat) :
    countSaves base (hist ++ [x]) = countSaves base hist + (if x.1 = base then 1 else 0) := by
  unfold countSaves
  rw [List.filter_append, List.length_append]
  by_cases h : x.1 = base <;> simp [h]

private theorem payloads_snoc (base : Name) (hist : History) (x : Name × Nat) :
    payloads base (hist ++ [x]) = payloads base hist ++ (if x.1 = base then [x.2] else []) := by
  unfold payloads
  rw [List.filter_append, List.map_append]
  by_cases h : x.1 = base <;> simp [h]

private theorem countSaves_le (base : Name) (hist : History) : countSaves base hist ≤ hist.length :=
  List.length_filter_le _ _

private theorem payloads_length (base : Name) (hist : History) : (payloads base hist).length = countSaves base hist := by
  simp [payloads, countSaves]

private theorem getLast?_runs (base : Name) (c : Nat) :
    ((List.range c).map (runName base)).getLast? = if c = 0 then none else some (runName base (c - 1)) := by
  cases c with
  | zero => rfl
  | succ n => simp [List.range_succ, List.map_append]

/-- what holds after every history of at most 10 000 optimisations -/
private def HistInv (hist : History) : Prop :=
  (∀ base, previous (exec [] hist) base = (List.range (countSaves base hist)).map (runName base)) ∧
  (∀ base k p, (payloads base hist)[k]? = some p → kindOf (exec [] hist) (runName base k) = some (.run p))

private theorem histInv_rev (l : History) (hlen : l.length ≤ 10000) : HistInv l.reverse := by
  induction l with
  | nil =>
    refine ⟨fun base => by simp [exec, previous, names, isort, countSaves], ?_⟩
    intro base k p h
    simp [payloads] at h
  | cons x l ih =>
    have hl : l.length ≤ 9999 := by simp at hlen; omega
    obtain ⟨ihN, ihP⟩ := ih (by omega)
    rw [List.reverse_cons]
    obtain ⟨b, q⟩ := x
    have hc : countSaves b l.reverse ≤ 9999 := by
      have := countSaves_le b l.reverse; simp at this; omega
    -- room for one more run of `b`
    have hroom : RoomFor (exec [] l.reverse) b := by
      intro r hr
      rw [ihN b] at hr
      obtain ⟨j, hj, rfl⟩ := List.mem_map.mp hr
      have hj' : j < countSaves b l.reverse := List.mem_range.mp hj
      rw [runNumber_runName b j (by omega)]; omega
    -- the next run name is the count
    have hname : createRunName (exec [] l.reverse) b = runName b (countSaves b l.reverse) := by
      unfold createRunName
      rw [ihN b, getLast?_runs]
      by_cases h0 : countSaves b l.reverse = 0
      · simp [h0]
      · simp only [h0, if_false]
        rw [runNumber_runName b _ (by omega)]
        congr 1; omega
    constructor
    · intro base
      rw [exec_snoc, countSaves_snoc]
      by_cases hb : b = base
      · subst hb
        simp only [if_true]
        rw [previous_save_self _ _ _ hroom, ihN b, hname, List.range_succ, List.map_append]
        rfl
      · have hb' : base ≠ b := fun h => hb h.symm
        simp only [hb, if_false, Nat.add_zero]
        rw [previous_save_other _ b base q hroom hb', ihN base]
    · intro base k p h
      rw [exec_snoc]
      rw [payloads_snoc] at h
      by_cases hb : b = base
      · subst hb
        simp only [if_true] at h
        rw [List.getElem?_append] at h
        split at h
        · exact kindOf_save_run _ _ _ _ _ (ihP b k p h)
        · rename_i hk
          rw [payloads_length] at hk h
          rw [List.getElem?_singleton] at h
          split at h
          · rename_i hk0
            cases h
            have : k = countSaves b l.reverse := by omega
            subst this
            rw [save_eq _ _ _ hroom, hname]
            exact kindOf_setEntry_self _ _ _
          · cases h
      · simp only [hb, if_false, List.append_nil] at h
        exact kindOf_save_run _ _ _ _ _ (ihP base k p h)

private theorem histInv (hist : History) (hlen : hist.length ≤ 10000) : HistInv hist := by
  have := histInv_rev hist.reverse (by simpa using hlen)
  rwa [List.reverse_reverse] at this

/-- **every history**: after any sequence of optimisations (any names: prefixes of each other,
    containing `_run_`, dots, …) the runs of `base` are exactly numbered 0, 1, 2, … in the order
    in which they were stored -/
theorem history_numbering (hist : History) (hlen : hist.length ≤ 10000) (base : Name) :
    previous (exec [] hist) base = (List.range (countSaves base hist)).map (runName base) :=
  (histInv hist hlen).1 base

example : previous (exec [] [("a".toList, 1), ("a_run_b".toList, 2), ("a".toList, 3), ("a.b".toList, 4), ("a".toList, 5)]) "a".toList
    = ["a_run_0000".toList, "a_run_0001".toList, "a_run_0002".toList] := by decide

/-- the k-th run of `base` holds the k-th result stored under `base` -/
theorem history_payloads (hist : History) (hlen : hist.length ≤ 10000) (base : Name) (k p : Nat)
    (h : (payloads base hist)[k]? = some p) :
    kindOf (exec [] hist) (runName base k) = some (.run p) :=
  (histInv hist hlen).2 base k p h

/-- the latest-lookups of `base` resolve to the last run stored under `base` and load its result -/
theorem history_latest (hist : History) (hlen : hist.length ≤ 10000) (base : Name) (p : Nat)
    (hs : endsWithRunSpecifier base = false) (hp : (payloads base hist).getLast? = some p) :
    getLatest (exec [] hist) base = .found (runName base (countSaves base hist - 1)) false ∧
    loadLatest (exec [] hist) base = .loaded (runName base (countSaves base hist - 1)) p false := by
  have hpos : countSaves base hist ≠ 0 := by
    intro h0
    have : payloads base hist = [] := List.length_eq_zero_iff.mp (by rw [payloads_length]; exact h0)
    rw [this] at hp; cases hp
  have hidx : (payloads base hist)[countSaves base hist - 1]? = some p := by
    rw [List.getLast?_eq_getElem?, payloads_length] at hp; exact hp
  have hk := history_payloads hist hlen base _ p hidx
  have hsuf : hasRunSuffix base = false := by simp [hasRunSuffix, hs]
  have hlast : (previous (exec [] hist) base).getLast? = some (runName base (countSaves base hist - 1)) := by
    rw [history_numbering hist hlen base, getLast?_runs]; simp [hpos]
  have hf : getLatest (exec [] hist) base = .found (runName base (countSaves base hist - 1)) false := by
    simp [getLatest, stripRunSpecifier, hs, fallback, hsuf, hlast, isDirEntry, hk]
  exact ⟨hf, by simp [loadLatest, hf, loadFound, hk]⟩

example : (payloads "a".toList [("a".toList, 7), ("a_run_b".toList, 8), ("a".toList, 9)]).getLast? = some 9 ∧
    endsWithRunSpecifier "a".toList = false ∧
    loadLatest (exec [] [("a".toList, 7), ("a_run_b".toList, 8), ("a".toList, 9)]) "a".toList
      = .loaded "a_run_0001".toList 9 false := by decide

/-- `Project.results` lists every result folder under its own name, once, without warning — when no
    folder name contains a dot (with a dot `Path.stem` cuts the name: modelled bug for bug) -/
theorem results_lists_every_run (d : Dir) (hnd : (names d).Nodup)
    (hdot : ∀ n ∈ names d, n.contains '.' = false) :
    items d = ((isort ((names d).filter (isDirEntry d))).map (fun n => (n, n)), 0) := by
  have hL : (isort ((names d).filter (isDirEntry d))).Nodup := nodup_isort _ (hnd.filter _)
  have hS := strictSorted_of _ (sorted_isort ((names d).filter (isDirEntry d))) hL
  have hdotL : ∀ n ∈ isort ((names d).filter (isDirEntry d)), n.contains '.' = false := by
    intro n hn
    exact hdot n (List.mem_filter.mp ((mem_isort _ n).mp hn)).1
  have hloop := itemsLoop_no_dots (isort ((names d).filter (isDirEntry d))) [] 0 hdotL hL (by simp)
  simp only [List.map_nil, List.nil_append] at hloop
  unfold items
  simp only [hloop]
  have hkeys : (List.map (fun n => (n, n)) (isort ((names d).filter (isDirEntry d)))).map (·.1)
      = isort ((names d).filter (isDirEntry d)) := by simp [Function.comp_def]
  rw [hkeys, isort_of_strictSorted _ hS]
  congr 1
  generalize isort ((names d).filter (isDirEntry d)) = L
  have : ∀ (M : List Name), (∀ k ∈ M, k ∈ L) →
      M.filterMap (fun k => (lookupKey (L.map (fun n => (n, n))) k).map (fun v => (k, v))) = M.map (fun n => (n, n)) := by
    intro M hM
    induction M with
    | nil => rfl
    | cons k ks ih =>
      have ih' := ih (fun k' hk' => hM k' (List.mem_cons_of_mem _ hk'))
      simp only [lookupKey_map_self] at ih' ⊢
      simp only [List.filterMap_cons, hM k (by simp), if_true, Option.map_some, List.map_cons, ih']
  exact this L (fun _ h => h)

example : items [⟨"a_run_0001".toList, .run 2⟩, ⟨"a_run_0000".toList, .run 1⟩, ⟨"junk".toList, .file⟩]
    = ([("a_run_0000".toList, "a_run_0000".toList), ("a_run_0001".toList, "a_run_0001".toList)], 0) := by decide

/-- with a dot in the name the key is cut (`Path.stem`) -/
example : items [⟨"a.b_run_0000".toList, .run 1⟩] = ([("a".toList, "a.b_run_0000".toList)], 0) := by decide

/-- the bound is needed: the 10 001st run of a name gets a five-digit number that the run pattern
    does not recognise, so the numbering repeats (the overwrite protection then refuses the save) -/
theorem run_name_fresh_counterexample :
    ¬ (∀ d base, createRunName d base ∉ names d) := by
  intro h
  exact h [⟨"a_run_9999".toList, .run 1⟩, ⟨"a_run_10000".toList, .run 2⟩] "a".toList (by decide)

end Glotaran.C18
