/-
C01 — the linear sub-problem is solved optimally (variable projection and NNLS).
Property theorems.  Part A: the mathematics over any ordered field (ℚ, ℝ) with Mathlib's `Matrix`.
Part B: the same statements about the executable definitions the driver runs
(`Glotaran.LinAlg.isNormalSol / isKKT / lsExact / nnlsExact`, `Glotaran.C01.residualVP /
residualNNLS / dispatch`), obtained by transporting lists to `Matrix (Fin m) (Fin n) ℚ`.
Helper lemmas: Lemmas/C01Abs.lean, Lemmas/C01.lean.
-/
import GlotaranProofs.Lemmas.C01
import Mathlib.Data.Real.Basic
import Mathlib.LinearAlgebra.Matrix.Notation
namespace Glotaran.C01
open Glotaran.LinAlg
open scoped Matrix

/-! ## Part A — least squares over an ordered field -/
section A
variable {m n : Type*} [Fintype m] [Fintype n]
variable {K : Type*} [Field K] [LinearOrder K] [IsStrictOrderedRing K]

/-- **Orthogonality ⇒ optimality.**  If the residual `y − A c` is orthogonal to every column of `A`
    then `c` minimises `‖y − A c'‖²` over all `c'`. -/
theorem ls_optimal_of_orthogonal (A : Matrix m n K) (y : m → K) (c : n → K)
    (h : Aᵀ *ᵥ (y - A *ᵥ c) = 0) (c' : n → K) :
    (y - A *ᵥ c) ⬝ᵥ (y - A *ᵥ c) ≤ (y - A *ᵥ c') ⬝ᵥ (y - A *ᵥ c') :=
  Abs.ls_optimal_of_orthogonal A y c h c'

/-- **Optimality ⇒ orthogonality** (so the two formulations of the property are equivalent). -/
theorem ls_orthogonal_of_optimal (A : Matrix m n K) (y : m → K) (c : n → K)
    (h : ∀ c', (y - A *ᵥ c) ⬝ᵥ (y - A *ᵥ c) ≤ (y - A *ᵥ c') ⬝ᵥ (y - A *ᵥ c')) :
    Aᵀ *ᵥ (y - A *ᵥ c) = 0 :=
  Abs.ls_orthogonal_of_optimal A y c h

/-- **Uniqueness at full column rank**: every other coefficient vector is strictly worse. -/
theorem ls_unique_of_full_rank (A : Matrix m n K) (y : m → K) (c : n → K)
    (h : Aᵀ *ᵥ (y - A *ᵥ c) = 0) (hrank : ∀ d : n → K, A *ᵥ d = 0 → d = 0)
    (c' : n → K) (hne : c' ≠ c) :
    (y - A *ᵥ c) ⬝ᵥ (y - A *ᵥ c) < (y - A *ᵥ c') ⬝ᵥ (y - A *ᵥ c') :=
  Abs.ls_strict_of_injective A y c h hrank c' hne

/-- **KKT ⇒ optimal over the non-negative orthant.** (`0 ≤ c` is feasibility; it is not needed for
    the inequality.) -/
theorem nnls_optimal_of_kkt (A : Matrix m n K) (y : m → K) (c : n → K)
    (hg : ∀ j, (Aᵀ *ᵥ (y - A *ᵥ c)) j ≤ 0) (hcomp : c ⬝ᵥ (Aᵀ *ᵥ (y - A *ᵥ c)) = 0)
    (c' : n → K) (hc' : ∀ j, 0 ≤ c' j) :
    (y - A *ᵥ c) ⬝ᵥ (y - A *ᵥ c) ≤ (y - A *ᵥ c') ⬝ᵥ (y - A *ᵥ c') :=
  Abs.nnls_optimal_of_kkt A y c hg hcomp c' hc'

/-- **Optimal over the non-negative orthant ⇒ KKT.** -/
theorem nnls_kkt_of_optimal [DecidableEq n] (A : Matrix m n K) (y : m → K) (c : n → K)
    (hc : ∀ j, 0 ≤ c j)
    (h : ∀ c' : n → K, (∀ j, 0 ≤ c' j) →
      (y - A *ᵥ c) ⬝ᵥ (y - A *ᵥ c) ≤ (y - A *ᵥ c') ⬝ᵥ (y - A *ᵥ c')) :
    (∀ j, (Aᵀ *ᵥ (y - A *ᵥ c)) j ≤ 0) ∧ c ⬝ᵥ (Aᵀ *ᵥ (y - A *ᵥ c)) = 0 :=
  Abs.nnls_kkt_of_optimal A y c hc h

/-- **NNLS uniqueness at full column rank.** -/
theorem nnls_unique_of_full_rank (A : Matrix m n K) (y : m → K) (c : n → K)
    (hg : ∀ j, (Aᵀ *ᵥ (y - A *ᵥ c)) j ≤ 0) (hcomp : c ⬝ᵥ (Aᵀ *ᵥ (y - A *ᵥ c)) = 0)
    (hrank : ∀ d : n → K, A *ᵥ d = 0 → d = 0)
    (c' : n → K) (hc' : ∀ j, 0 ≤ c' j) (hne : c' ≠ c) :
    (y - A *ᵥ c) ⬝ᵥ (y - A *ᵥ c) < (y - A *ᵥ c') ⬝ᵥ (y - A *ᵥ c') :=
  Abs.nnls_strict_of_kkt A y c hg hcomp hrank c' hc' hne

/-- **Quantitative form used by the tolerance regime**: for *any* `c` (e.g. a rounded solution) the
    sub-optimality against any competitor is bounded by the gradient term `2 (c' − c)·Aᵀ(y − A c)`. -/
theorem ls_near_optimal (A : Matrix m n K) (y : m → K) (c c' : n → K) :
    (y - A *ᵥ c) ⬝ᵥ (y - A *ᵥ c) ≤
      (y - A *ᵥ c') ⬝ᵥ (y - A *ᵥ c') + 2 * ((c' - c) ⬝ᵥ (Aᵀ *ᵥ (y - A *ᵥ c))) :=
  Abs.near_optimal A y c c'

/-- non-vacuity over ℝ: `A = [[1],[1]]`, `y = (1, 3)`, `c = 2` is orthogonal, hence optimal -/
example : ∀ c' : Fin 1 → ℝ,
    ((![1, 3] : Fin 2 → ℝ) - (!![1; 1] : Matrix (Fin 2) (Fin 1) ℝ) *ᵥ ![2]) ⬝ᵥ
      (![1, 3] - (!![1; 1] : Matrix (Fin 2) (Fin 1) ℝ) *ᵥ ![2]) ≤
    (![1, 3] - (!![1; 1] : Matrix (Fin 2) (Fin 1) ℝ) *ᵥ c') ⬝ᵥ
      (![1, 3] - (!![1; 1] : Matrix (Fin 2) (Fin 1) ℝ) *ᵥ c') := by
  apply ls_optimal_of_orthogonal
  ext j
  fin_cases j
  simp [Matrix.mulVec, dotProduct, Fin.sum_univ_succ]
  norm_num

/-- non-vacuity over ℝ of the uniqueness hypothesis: the same matrix has full column rank -/
example : ∀ d : Fin 1 → ℝ, (!![1; 1] : Matrix (Fin 2) (Fin 1) ℝ) *ᵥ d = 0 → d = 0 := by
  intro d h
  have h0 := congrFun h 0
  ext j
  fin_cases j
  simpa [Matrix.mulVec, dotProduct] using h0

/-- non-vacuity over ℝ of the KKT hypotheses: `A = I₂`, `y = (1, −1)`, `c = (1, 0)` (second
    constraint active with multiplier 1) -/
example :
    (∀ j, (((1 : Matrix (Fin 2) (Fin 2) ℝ))ᵀ *ᵥ ((![1, -1] : Fin 2 → ℝ) - (1 : Matrix (Fin 2) (Fin 2) ℝ) *ᵥ ![1, 0])) j ≤ 0) ∧
    (![1, 0] : Fin 2 → ℝ) ⬝ᵥ (((1 : Matrix (Fin 2) (Fin 2) ℝ))ᵀ *ᵥ ((![1, -1] : Fin 2 → ℝ) - (1 : Matrix (Fin 2) (Fin 2) ℝ) *ᵥ ![1, 0])) = 0 := by
  constructor
  · intro j
    fin_cases j <;> simp
  · simp

end A

/-! ## Part B — the executable definitions -/

/-- **`isNormalSol` is a sound optimality certificate**: if the Boolean checker the driver runs
    accepts `c`, then `c` beats every competitor list `c'` (of any length). -/
theorem isNormalSol_optimal (a : Mat) (y c : Vec) (h : WF a y) (hs : isNormalSol a y c = true)
    (c' : Vec) : sumSq (residual a y c) ≤ sumSq (residual a y c') := by
  rw [sumSq_residual a y c h, sumSq_residual a y c' h]
  apply Abs.ls_optimal_of_orthogonal
  rw [← toV_gradient a y c h]
  simp only [isNormalSol, Bool.and_eq_true] at hs
  exact toV_eq_zero_of_all _ _ hs.2

example : WF [[1], [1]] [1, 3] ∧ isNormalSol [[1], [1]] [1, 3] [2] = true := by
  refine ⟨⟨by decide, by decide⟩, by decide +kernel⟩

/-- **`isKKT` is a sound optimality certificate** over the non-negative competitors. -/
theorem isKKT_optimal (a : Mat) (y c : Vec) (h : WF a y) (hs : isKKT a y c = true)
    (c' : Vec) (hc' : ∀ x ∈ c', 0 ≤ x) : sumSq (residual a y c) ≤ sumSq (residual a y c') := by
  rw [sumSq_residual a y c h, sumSq_residual a y c' h]
  simp only [isKKT, Bool.and_eq_true] at hs
  apply Abs.nnls_optimal_of_kkt
  · intro j
    rw [← toV_gradient a y c h]
    exact toV_nonpos_of_all _ _ hs.1.2 j
  · rw [← toV_gradient a y c h]
    exact dot_zero_of_zipWith _ _ _ hs.2
  · exact toV_nonneg_of_all _ _ hc'

/-- feasibility part of the certificate -/
theorem isKKT_nonneg (a : Mat) (y c : Vec) (hs : isKKT a y c = true) : ∀ x ∈ c, 0 ≤ x := by
  simp only [isKKT, Bool.and_eq_true] at hs
  intro x hx
  simpa using List.all_eq_true.mp hs.1.1.2 x hx

example : WF [[1, 0], [0, 1]] [1, -1] ∧ isKKT [[1, 0], [0, 1]] [1, -1] [1, 0] = true := by
  refine ⟨⟨by decide, by decide⟩, by decide +kernel⟩

/-! ### variable projection (`residual_variable_projection`) -/

/-- common core: whenever `dgeqrf` returns an exact Householder factorisation with a non-singular
    triangle, the model's output is (y − A·clp, a normal-equation solution) -/
private theorem vp_main (dgeqrf : Mat → Mat × Vec) (a : Mat) (y : Vec)
    (hq : isQRof (dgeqrf a).1 (dgeqrf a).2 a = true)
    (hd : diagNonzero (dgeqrf a).1 (ncols a) = true) (hy : y.length = a.length) :
    (residualVP dgeqrf a y).2 = residual a y (residualVP dgeqrf a y).1 ∧
      isNormalSol a y (residualVP dgeqrf a y).1 = true := by
  unfold residualVP
  by_cases hn : ncols a = 0
  · simp only [hn, if_true]
    refine ⟨(residual_nil a y hy).symm, ?_⟩
    simp [isNormalSol, hn, gradient, transpose, mulVec]
  · simp only [hn, if_false]
    obtain ⟨h1, h2, h3⟩ := vp_core (dgeqrf a).1 (dgeqrf a).2 a y (qrData_of_isQRof _ _ _ hq) hd hy
    refine ⟨h1, ?_⟩
    simp only [isNormalSol, Bool.and_eq_true, beq_iff_eq]
    exact ⟨h3, all_zero_of_toV _ _ (gradient_length _ _ _) h2⟩

/-- **The residual that enters the fit is exactly `data − matrix·clp`.** -/
theorem vp_residual_eq (dgeqrf : Mat → Mat × Vec) (a : Mat) (y : Vec)
    (hq : isQRof (dgeqrf a).1 (dgeqrf a).2 a = true)
    (hd : diagNonzero (dgeqrf a).1 (ncols a) = true) (hy : y.length = a.length) :
    (residualVP dgeqrf a y).2 = residual a y (residualVP dgeqrf a y).1 :=
  (vp_main dgeqrf a y hq hd hy).1

/-- **The variable-projection residual is orthogonal to every matrix column** (`Aᵀ r = 0`, i.e. the
    returned clp solve the normal equations exactly). -/
theorem vp_orthogonal (dgeqrf : Mat → Mat × Vec) (a : Mat) (y : Vec)
    (hq : isQRof (dgeqrf a).1 (dgeqrf a).2 a = true)
    (hd : diagNonzero (dgeqrf a).1 (ncols a) = true) (hy : y.length = a.length) :
    mulVec (transpose a (ncols a)) (residualVP dgeqrf a y).2 = zeros (ncols a) ∧
      isNormalSol a y (residualVP dgeqrf a y).1 = true := by
  obtain ⟨h1, h2⟩ := vp_main dgeqrf a y hq hd hy
  refine ⟨?_, h2⟩
  rw [h1]
  have h3 : (gradient a y (residualVP dgeqrf a y).1).all (· == 0) = true := by
    simp only [isNormalSol, Bool.and_eq_true] at h2
    exact h2.2
  apply toV_inj _ _ (ncols a) (by simp) (by simp)
  have := toV_eq_zero_of_all _ (ncols a) h3
  rw [toV_zeros]
  exact this

/-- **The clp returned by variable projection minimise `‖data − matrix·clp'‖`** over all `clp'`,
    and the returned residual is the minimal one. -/
theorem vp_optimal (dgeqrf : Mat → Mat × Vec) (a : Mat) (y : Vec)
    (hq : isQRof (dgeqrf a).1 (dgeqrf a).2 a = true)
    (hd : diagNonzero (dgeqrf a).1 (ncols a) = true) (hy : y.length = a.length) (c' : Vec) :
    sumSq (residualVP dgeqrf a y).2 ≤ sumSq (residual a y c') := by
  obtain ⟨h1, h2⟩ := vp_main dgeqrf a y hq hd hy
  have hwf : WF a y := ⟨(qrData_of_isQRof _ _ _ hq).rows, hy⟩
  rw [h1]
  exact isNormalSol_optimal a y _ hwf h2 c'

/-- non-vacuity: a 4×2 matrix with an exact dyadic Householder factorisation
    (`v₁ = (1,1,1,1)`, `τ₁ = 1/2`; `v₂ = (0,1,1,0)`, `τ₂ = 1`; `R = [[2,1],[0,3]]`) -/
example :
    isQRof [[2, 1], [1, 3], [1, 1], [1, 0]] [1/2, 1] [[1, 2], [-1, 1], [-1, -2], [-1, 1]] = true ∧
    diagNonzero [[2, 1], [1, 3], [1, 1], [1, 0]] 2 = true ∧
    residualVP (fun _ => ([[2, 1], [1, 3], [1, 1], [1, 0]], [1/2, 1]))
      [[1, 2], [-1, 1], [-1, -2], [-1, 1]] [1, 2, 3, 4] = ([-7/3, 2/3], [2, -1, 2, 1]) := by
  decide +kernel

/-! ### NNLS (`residual_nnls`) -/

/-- **The NNLS residual is `data − matrix·clp`**, for whatever `scipy.optimize.nnls` returns; the
    clp are the solver's answer for the normalised problem, scaled back. -/
theorem nnls_residual_eq (nnls : Mat → Vec → Option Vec) (a : Mat) (y : Vec) (out : Vec × Vec)
    (h : residualNNLS nnls a y = some out) :
    out.2 = residual a y out.1 ∧
    ∃ x, nnls (scaleColumns a (columnScales a)) (y.map (· / scaleOf y)) = some x ∧
      out.1 = List.zipWith (fun xi ci => xi * (scaleOf y / ci)) x (columnScales a) := by
  unfold residualNNLS at h
  simp only at h
  cases hs : nnls (scaleColumns a (columnScales a)) (y.map (· / scaleOf y)) with
  | none => simp [hs] at h
  | some x =>
    simp only [hs, Option.some.injEq] at h
    subst h
    exact ⟨rfl, x, rfl, rfl⟩

/- Full statement (false for the code as it is, see `nnls_optimal_counterexample`):
     ∀ nnls a y, WF a y → FullRank a → ∃ out, residualNNLS nnls a y = some out ∧ out.1 ≥ 0 ∧ optimal out
   `scipy.optimize.nnls` is a parameter; the statement holds exactly when the solver delivers a KKT
   point, which scipy 1.14's active-set iteration on the normal equations does not always do. -/

/-- **If the solver returns a KKT point of the (normalised) problem it is given, `residual_nnls`
    returns non-negative clp that minimise `‖data − matrix·clp'‖` over all non-negative `clp'`, and
    the minimal residual** — the normalisation by the data and column magnitudes and the scaling back
    are part of the model (`_partial`: the hypothesis excludes the runs in which the external solver
    gives up). -/
theorem nnls_optimal_partial (nnls : Mat → Vec → Option Vec) (a : Mat) (y x : Vec) (h : WF a y)
    (hs : nnls (scaleColumns a (columnScales a)) (y.map (· / scaleOf y)) = some x)
    (hk : isKKT (scaleColumns a (columnScales a)) (y.map (· / scaleOf y)) x = true) :
    ∃ out, residualNNLS nnls a y = some out ∧ out.2 = residual a y out.1 ∧
      isKKT a y out.1 = true ∧ (∀ z ∈ out.1, 0 ≤ z) ∧
      ∀ c' : Vec, (∀ z ∈ c', 0 ≤ z) → sumSq out.2 ≤ sumSq (residual a y c') := by
  have hk' := isKKT_unscale a y x h hk
  refine ⟨(_, residual a y _), ?_, rfl, hk', isKKT_nonneg a y _ hk',
    fun c' hc' => isKKT_optimal a y _ h hk' c' hc'⟩
  simp [residualNNLS, hs, residual]

/-- non-vacuity: data of magnitude 1e-20 (the repaired defect): the normalised problem has the KKT
    point (1/3, 2/3), scaled back it is the KKT point (1e-20, 2e-20) of the original problem -/
example :
    isKKT (scaleColumns [[1, 0], [0, 1], [1, 1]] (columnScales [[1, 0], [0, 1], [1, 1]]))
      ([1/100000000000000000000, 2/100000000000000000000, 3/100000000000000000000].map
        (· / scaleOf [1/100000000000000000000, 2/100000000000000000000, 3/100000000000000000000]))
      [1/3, 2/3] = true ∧
    residualNNLS nnlsExact [[1, 0], [0, 1], [1, 1]]
      [1/100000000000000000000, 2/100000000000000000000, 3/100000000000000000000] =
      some ([1/100000000000000000000, 2/100000000000000000000], [0, 0, 0]) := by
  decide +kernel

/-- the recorded witness (corpus/C01/nnls-maxiter.json): a full-rank 2×2 matrix on which
    scipy 1.14.1's `nnls` raises `RuntimeError("Maximum number of iterations reached.")` -/
def nnlsWitnessA : Mat := [[452901/1048576, -565765/1048576], [473595/1048576, -591616/1048576]]
def nnlsWitnessY : Vec := [0, -15/8]

/-- **Counterexample to the unconditional statement**: the witness matrix has full column rank and
    an exact KKT point exists (`nnlsExact` finds it), but a solver that gives up on it — as the real
    one does, replayed on every run — makes `residual_nnls` return nothing. -/
theorem nnls_optimal_counterexample :
    FullRank nnlsWitnessA ∧ (nnlsExact nnlsWitnessA nnlsWitnessY).isSome = true ∧
    residualNNLS (fun _ _ => none) nnlsWitnessA nnlsWitnessY = none := by
  refine ⟨?_, by decide +kernel, rfl⟩
  intro d hd hz
  match d, hd with
  | [d0, d1], _ =>
    simp only [nnlsWitnessA, mulVec, dot, zeros, List.map_cons, List.map_nil, List.zipWith_cons_cons,
      List.zipWith_nil_right, List.foldl_cons, List.foldl_nil, List.length_cons, List.length_nil,
      List.replicate_succ, List.replicate_zero, List.cons.injEq, and_true] at hz
    obtain ⟨h1, h2⟩ := hz
    have e0 : d0 = 0 := by linarith
    have e1 : d1 = 0 := by linarith
    simp [e0, e1, zeros, ncols, nnlsWitnessA]

/-- the exact reference solvers of the driver return optimal solutions -/
theorem lsExact_optimal (a : Mat) (y c : Vec) (h : WF a y) (hs : lsExact a y = some c) (c' : Vec) :
    sumSq (residual a y c) ≤ sumSq (residual a y c') :=
  isNormalSol_optimal a y c h (lsExact_isNormalSol a y c hs) c'

theorem nnlsExact_optimal (a : Mat) (y c : Vec) (h : WF a y) (hs : nnlsExact a y = some c) :
    (∀ x ∈ c, 0 ≤ x) ∧ ∀ c' : Vec, (∀ x ∈ c', 0 ≤ x) → sumSq (residual a y c) ≤ sumSq (residual a y c') :=
  ⟨isKKT_nonneg a y c (nnlsExact_isKKT a y c hs),
   fun c' hc' => isKKT_optimal a y c h (nnlsExact_isKKT a y c hs) c' hc'⟩

example : nnlsExact [[1, 0], [0, 1]] [1, -1] = some [1, 0] ∧ lsExact [[1], [1]] [1, 3] = some [2] := by
  decide +kernel

/-! ### the tolerance regime: what the exact certificate numbers mean -/

/-- **For any `c` (e.g. the rounded floating-point output) the certificate's gradient bounds the
    sub-optimality against every competitor**: `‖y − A c‖² ≤ ‖y − A c'‖² + 2 (c' − c)·g` with
    `g = (cert a y c r).grad = Aᵀ(y − A c)`. -/
theorem cert_near_optimal (a : Mat) (y c r c' : Vec) (h : WF a y)
    (hc : c.length = ncols a) (hc' : c'.length = ncols a) :
    sumSq (residual a y c) ≤ sumSq (residual a y c') + 2 * dot (vsub c' c) (cert a y c r).grad := by
  rw [sumSq_residual a y c h, sumSq_residual a y c' h]
  have hg : (cert a y c r).grad = gradient a y c := rfl
  rw [hg, dot_eq _ _ (ncols a) (by simp [hc, hc']), toV_vsub _ _ _ hc' hc, toV_gradient a y c h]
  exact Abs.near_optimal _ _ _ _

/-- the certificate's first number is zero exactly when the reported residual is `y − A c` -/
theorem cert_defect_zero_iff (a : Mat) (y c r : Vec) (h : WF a y) (hr : r.length = a.length) :
    (cert a y c r).defectSq = 0 ↔ r = residual a y c := by
  have hl : (residual a y c).length = a.length := by simp [residual, h.ylen]
  have hd : (cert a y c r).defectSq = sumSq (vsub r (residual a y c)) := rfl
  rw [hd, sumSq_eq _ a.length (by simp [hr, hl]), Abs.nsq_eq_zero, toV_vsub _ _ _ hr hl, sub_eq_zero]
  constructor
  · exact toV_inj _ _ _ hr hl
  · intro e; rw [e]

example : (cert [[1], [1]] [1, 3] [2] [-1, 1]).defectSq = 0 ∧ (cert [[1], [1]] [1, 3] [2] [-1, 1]).grad = [0] ∧
    (cert [[1], [1]] [1, 3] [1] [0, 2]).grad = [2] := by
  decide +kernel

/-! ### dispatch (`SUPPORTED_RESIUDAL_FUNCTIONS`, regenerated from the source on every run) -/

/-- the two documented keys select the two kernels (checked against the regenerated table) -/
theorem dispatch_table :
    dispatch Generated.residualFunctions "variable_projection" = .ok .vp ∧
    dispatch Generated.residualFunctions "non_negative_least_squares" = .ok .nnls ∧
    dispatch Generated.residualFunctions Generated.defaultResidualFunction = .ok .vp := by
  decide

/-- every entry of the table is one of the two modelled kernels, and the keys are distinct -/
theorem dispatch_table_modelled :
    (∀ e ∈ Generated.residualFunctions, (kernelOfFunction e.2.1 e.2.2).isSome = true) ∧
    (Generated.residualFunctions.map (·.1)).Nodup := by
  decide

/-- any other key is rejected (`UnsupportedResidualFunctionError`), for any table -/
theorem dispatch_unsupported (table : List (String × String × String)) (key : String)
    (h : key ∉ table.map (·.1)) : dispatch table key = .unsupported := by
  unfold dispatch
  have : table.find? (fun e => e.1 == key) = none := by
    rw [List.find?_eq_none]
    intro e he hk
    apply h
    simp only [List.mem_map]
    exact ⟨e, he, by simpa using hk⟩
  rw [this]

example : dispatch Generated.residualFunctions "nnls" = .unsupported := by decide

/-- **Whatever key a dataset group selects, the dispatched kernel returns the residual
    `data − matrix·clp` of an optimal clp** (over all clp for variable projection, over the
    non-negative ones — and non-negative itself — for NNLS), given an exact factorisation /
    a KKT point from the external routines. -/
theorem dispatched_kernel_optimal (key : String) (k : Kernel)
    (hk : dispatch Generated.residualFunctions key = .ok k)
    (dgeqrf : Mat → Mat × Vec) (nnls : Mat → Vec → Option Vec) (a : Mat) (y x : Vec) (h : WF a y)
    (hq : isQRof (dgeqrf a).1 (dgeqrf a).2 a = true)
    (hd : diagNonzero (dgeqrf a).1 (ncols a) = true)
    (hs : nnls (scaleColumns a (columnScales a)) (y.map (· / scaleOf y)) = some x)
    (hkkt : isKKT (scaleColumns a (columnScales a)) (y.map (· / scaleOf y)) x = true) :
    ∃ out, calculateResidual k dgeqrf nnls a y = some out ∧ out.2 = residual a y out.1 ∧
    (key = "variable_projection" → ∀ c', sumSq out.2 ≤ sumSq (residual a y c')) ∧
    (key = "non_negative_least_squares" →
      (∀ z ∈ out.1, 0 ≤ z) ∧ ∀ c' : Vec, (∀ z ∈ c', 0 ≤ z) → sumSq out.2 ≤ sumSq (residual a y c')) := by
  cases k with
  | vp =>
    refine ⟨residualVP dgeqrf a y, rfl, vp_residual_eq dgeqrf a y hq hd h.ylen,
      fun _ c' => vp_optimal dgeqrf a y hq hd h.ylen c', ?_⟩
    intro hkey
    subst hkey
    have h2 := dispatch_table.2.1
    rw [hk] at h2
    cases h2
  | nnls =>
    obtain ⟨out, h1, h2, _, h4, h5⟩ := nnls_optimal_partial nnls a y x h hs hkkt
    refine ⟨out, h1, h2, ?_, fun _ => ⟨h4, h5⟩⟩
    intro hkey
    subst hkey
    have h6 := dispatch_table.1
    rw [hk] at h6
    cases h6

/-! ### full column rank, uniqueness, independence of the factorisation -/

/-- **A matrix with an exact QR factorisation whose triangle has no zero on the diagonal has full
    column rank** (`A d = 0 ⇒ d = 0`): the hypothesis of the property is what the two Boolean
    tests of the driver establish. -/
theorem full_rank_of_qr (qr : Mat) (tau : Vec) (a : Mat) (hq : isQRof qr tau a = true)
    (hd : diagNonzero qr (ncols a) = true) : FullRank a :=
  fullRank_of_qr qr tau a (qrData_of_isQRof _ _ _ hq) hd

/-- **At full column rank the normal equations have one solution**: any list accepted by
    `isNormalSol` is the clp vector. -/
theorem normal_solution_unique (a : Mat) (y c c' : Vec) (h : WF a y) (hr : FullRank a)
    (hc : isNormalSol a y c = true) (hc' : isNormalSol a y c' = true) : c' = c := by
  simp only [isNormalSol, Bool.and_eq_true, beq_iff_eq] at hc hc'
  apply toV_inj _ _ (ncols a) hc'.1 hc.1
  apply Abs.ls_normal_unique (toM a.length (ncols a) a) (toV a.length y)
  · rw [← toV_gradient a y c h]; exact toV_eq_zero_of_all _ _ hc.2
  · rw [← toV_gradient a y c' h]; exact toV_eq_zero_of_all _ _ hc'.2
  · exact fullRank_abs a h.rows hr

/-- **… and one KKT point.** -/
theorem kkt_point_unique (a : Mat) (y c c' : Vec) (h : WF a y) (hr : FullRank a)
    (hc : isKKT a y c = true) (hc' : isKKT a y c' = true) : c' = c := by
  have hn := isKKT_nonneg a y c hc
  have hn' := isKKT_nonneg a y c' hc'
  simp only [isKKT, Bool.and_eq_true, beq_iff_eq] at hc hc'
  apply toV_inj _ _ (ncols a) hc'.1.1.1 hc.1.1.1
  apply Abs.nnls_kkt_unique (toM a.length (ncols a) a) (toV a.length y)
  · exact toV_nonneg_of_all _ _ hn
  · intro j; rw [← toV_gradient a y c h]; exact toV_nonpos_of_all _ _ hc.1.2 j
  · rw [← toV_gradient a y c h]; exact dot_zero_of_zipWith _ _ _ hc.2
  · exact toV_nonneg_of_all _ _ hn'
  · intro j; rw [← toV_gradient a y c' h]; exact toV_nonpos_of_all _ _ hc'.1.2 j
  · rw [← toV_gradient a y c' h]; exact dot_zero_of_zipWith _ _ _ hc'.2
  · exact fullRank_abs a h.rows hr

/-- **The result of variable projection does not depend on which exact factorisation LAPACK
    returns** (signs, `τ = 0` reflectors, …): two admissible `dgeqrf` give the same clp and residual.
    This is what allows the harness to compare the real code (LAPACK's own factorisation) with the
    model run on a different, exactly representable factorisation of the same matrix. -/
theorem vp_factorisation_independent (d₁ d₂ : Mat → Mat × Vec) (a : Mat) (y : Vec)
    (hq₁ : isQRof (d₁ a).1 (d₁ a).2 a = true) (hd₁ : diagNonzero (d₁ a).1 (ncols a) = true)
    (hq₂ : isQRof (d₂ a).1 (d₂ a).2 a = true) (hd₂ : diagNonzero (d₂ a).1 (ncols a) = true)
    (hy : y.length = a.length) : residualVP d₁ a y = residualVP d₂ a y := by
  have hwf : WF a y := ⟨(qrData_of_isQRof _ _ _ hq₁).rows, hy⟩
  have hr := full_rank_of_qr _ _ a hq₁ hd₁
  obtain ⟨r1, n1⟩ := vp_main d₁ a y hq₁ hd₁ hy
  obtain ⟨r2, n2⟩ := vp_main d₂ a y hq₂ hd₂ hy
  have hc := normal_solution_unique a y _ _ hwf hr n1 n2
  apply Prod.ext
  · exact hc.symm
  · rw [r1, r2, hc]

/-- the clp of variable projection equal the exact normal-equation reference `lsExact` -/
theorem vp_eq_lsExact (dgeqrf : Mat → Mat × Vec) (a : Mat) (y c : Vec)
    (hq : isQRof (dgeqrf a).1 (dgeqrf a).2 a = true)
    (hd : diagNonzero (dgeqrf a).1 (ncols a) = true) (hy : y.length = a.length)
    (hc : lsExact a y = some c) : (residualVP dgeqrf a y).1 = c := by
  have hwf : WF a y := ⟨(qrData_of_isQRof _ _ _ hq).rows, hy⟩
  exact normal_solution_unique a y c _ hwf (full_rank_of_qr _ _ a hq hd)
    (lsExact_isNormalSol a y c hc) (vp_main dgeqrf a y hq hd hy).2

/-- non-vacuity of the independence theorem: the matrix of the example above has a second exact
    factorisation (`r₁₁ = −2`: `v₁ = (1,−⅓,−⅓,−⅓)`, `τ₁ = 3/2`; `v₂ = (0,1,1,−2)`, `τ₂ = 1/3`), and both
    give the same clp and residual -/
example :
    isQRof [[-2, -1], [-1/3, 3], [-1/3, 1], [-1/3, -2]] [3/2, 1/3] [[1, 2], [-1, 1], [-1, -2], [-1, 1]] = true ∧
    diagNonzero [[-2, -1], [-1/3, 3], [-1/3, 1], [-1/3, -2]] 2 = true ∧
    residualVP (fun _ => ([[-2, -1], [-1/3, 3], [-1/3, 1], [-1/3, -2]], [3/2, 1/3]))
      [[1, 2], [-1, 1], [-1, -2], [-1, 1]] [1, 2, 3, 4] =
    residualVP (fun _ => ([[2, 1], [1, 3], [1, 1], [1, 0]], [1/2, 1]))
      [[1, 2], [-1, 1], [-1, -2], [-1, 1]] [1, 2, 3, 4] := by
  decide +kernel

/-! ### outside the property: the rank-deficient branch of the model -/

/-- **What the code does when `R` has an exactly zero diagonal entry** (rank-deficient matrix, outside
    the property): LAPACK's `dtrtrs` reports `info > 0` and leaves its right-hand side untouched, the
    code ignores `info`, so the "clp" are the first `n` entries of `Qᵀ data` (not a least-squares
    solution), while the residual — computed without the clp — is unaffected.  The harness compares
    this branch with the real code as a diagnostic. -/
theorem trtrs_singular (qr : Mat) (n : Nat) (b : Vec) (h : diagNonzero qr n = false) :
    trtrs qr n b = b := by
  have hany : (upperRows qr n).any (fun u => u.headD 0 == 0) = true := by
    simp only [diagNonzero, List.all_eq_false, List.mem_range] at h
    obtain ⟨i, hi, hz⟩ := h
    rw [List.any_eq_true]
    refine ⟨(upperRows qr n).getD i [], ?_, ?_⟩
    · have hl : i < (upperRows qr n).length := by rw [upperRows_length]; exact hi
      rw [List.getD_eq_getElem?_getD, List.getElem?_eq_getElem hl]
      exact List.getElem_mem hl
    · rw [upperRows_head qr n i hi]
      simpa using hz
  unfold trtrs
  simp only [hany, if_true]

example : diagNonzero [[1, 2], [0, 0], [0, 0]] 2 = false ∧
    residualVP (fun _ => ([[1, 2], [0, 0], [0, 0]], [0, 0])) [[1, 2], [0, 0], [0, 0]] [3, 4, 5] =
      ([3, 4], [0, 0, 5]) := by
  decide +kernel

end Glotaran.C01
