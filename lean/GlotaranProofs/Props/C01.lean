/-
C01 — the linear sub-problem is solved optimally (variable projection and NNLS).
Property theorems.  Part A: the mathematics over any ordered field (ℚ, ℝ) with Mathlib's `Matrix`.
Part B: the same statements about the executable definitions the driver runs
(`Glotaran.LinAlg.isNormalSol / isKKT / lsExact / nnlsExact`, `Glotaran.C01.residualVP /
residualNNLS / dispatch`), obtained by transporting lists to `Matrix (Fin m) (Fin n) ℚ`.
Helper lemmas: Lemmas/C01Abs.lean, Lemmas/C01.lean.
-/
import GlotaranProofs.Lemmas.C01
import GlotaranProofs.Lemmas.C01Steps
import GlotaranProofs.Lemmas.C01Bridge
import GlotaranProofs.Lemmas.C01Real
import GlotaranProofs.Lemmas.C01Provider
import Mathlib.Data.Real.Basic
import Mathlib.LinearAlgebra.Matrix.Notation
namespace Glotaran.C01
open Glotaran.LinAlg
open scoped Matrix

/-! ## Part A — least squares over an ordered field -/
section A
variable {m n : Type*} [Fintype m] [Fintype n]
variable {K : Type*} [Field K] [LinearOrder K] [IsStrictOrderedRing K]

/-- **Orthogonality ⇒ optimality.**  If the residual `y − A c` is orthogonal to every column of `A`
    then `c` minimises `‖y − A c'‖²` over all `c'`. -/
theorem ls_optimal_of_orthogonal (A : Matrix m n K) (y : m → K) (c : n → K)
    (h : Aᵀ *ᵥ (y - A *ᵥ c) = 0) (c' : n → K) :
    (y - A *ᵥ c) ⬝ᵥ (y - A *ᵥ c) ≤ (y - A *ᵥ c') ⬝ᵥ (y - A *ᵥ c') :=
  Abs.ls_optimal_of_orthogonal A y c h c'

/-- **Optimality ⇒ orthogonality** (so the two formulations of the property are equivalent). -/
theorem ls_orthogonal_of_optimal (A : Matrix m n K) (y : m → K) (c : n → K)
    (h : ∀ c', (y - A *ᵥ c) ⬝ᵥ (y - A *ᵥ c) ≤ (y - A *ᵥ c') ⬝ᵥ (y - A *ᵥ c')) :
    Aᵀ *ᵥ (y - A *ᵥ c) = 0 :=
  Abs.ls_orthogonal_of_optimal A y c h

/-- **Uniqueness at full column rank**: every other coefficient vector is strictly worse. -/
theorem ls_unique_of_full_rank (A : Matrix m n K) (y : m → K) (c : n → K)
    (h : Aᵀ *ᵥ (y - A *ᵥ c) = 0) (hrank : ∀ d : n → K, A *ᵥ d = 0 → d = 0)
    (c' : n → K) (hne : c' ≠ c) :
    (y - A *ᵥ c) ⬝ᵥ (y - A *ᵥ c) < (y - A *ᵥ c') ⬝ᵥ (y - A *ᵥ c') :=
  Abs.ls_strict_of_injective A y c h hrank c' hne

/-- **KKT ⇒ optimal over the non-negative orthant.** (`0 ≤ c` is feasibility; it is not needed for
    the inequality.) -/
theorem nnls_optimal_of_kkt (A : Matrix m n K) (y : m → K) (c : n → K)
    (hg : ∀ j, (Aᵀ *ᵥ (y - A *ᵥ c)) j ≤ 0) (hcomp : c ⬝ᵥ (Aᵀ *ᵥ (y - A *ᵥ c)) = 0)
    (c' : n → K) (hc' : ∀ j, 0 ≤ c' j) :
    (y - A *ᵥ c) ⬝ᵥ (y - A *ᵥ c) ≤ (y - A *ᵥ c') ⬝ᵥ (y - A *ᵥ c') :=
  Abs.nnls_optimal_of_kkt A y c hg hcomp c' hc'

/-- **Optimal over the non-negative orthant ⇒ KKT.** -/
theorem nnls_kkt_of_optimal [DecidableEq n] (A : Matrix m n K) (y : m → K) (c : n → K)
    (hc : ∀ j, 0 ≤ c j)
    (h : ∀ c' : n → K, (∀ j, 0 ≤ c' j) →
      (y - A *ᵥ c) ⬝ᵥ (y - A *ᵥ c) ≤ (y - A *ᵥ c') ⬝ᵥ (y - A *ᵥ c')) :
    (∀ j, (Aᵀ *ᵥ (y - A *ᵥ c)) j ≤ 0) ∧ c ⬝ᵥ (Aᵀ *ᵥ (y - A *ᵥ c)) = 0 :=
  Abs.nnls_kkt_of_optimal A y c hc h

/-- **NNLS uniqueness at full column rank.** -/
theorem nnls_unique_of_full_rank (A : Matrix m n K) (y : m → K) (c : n → K)
    (hg : ∀ j, (Aᵀ *ᵥ (y - A *ᵥ c)) j ≤ 0) (hcomp : c ⬝ᵥ (Aᵀ *ᵥ (y - A *ᵥ c)) = 0)
    (hrank : ∀ d : n → K, A *ᵥ d = 0 → d = 0)
    (c' : n → K) (hc' : ∀ j, 0 ≤ c' j) (hne : c' ≠ c) :
    (y - A *ᵥ c) ⬝ᵥ (y - A *ᵥ c) < (y - A *ᵥ c') ⬝ᵥ (y - A *ᵥ c') :=
  Abs.nnls_strict_of_kkt A y c hg hcomp hrank c' hc' hne

/-- **Quantitative form used by the tolerance regime**: for *any* `c` (e.g. a rounded solution) the
    sub-optimality against any competitor is bounded by the gradient term `2 (c' − c)·Aᵀ(y − A c)`. -/
theorem ls_near_optimal (A : Matrix m n K) (y : m → K) (c c' : n → K) :
    (y - A *ᵥ c) ⬝ᵥ (y - A *ᵥ c) ≤
      (y - A *ᵥ c') ⬝ᵥ (y - A *ᵥ c') + 2 * ((c' - c) ⬝ᵥ (Aᵀ *ᵥ (y - A *ᵥ c))) :=
  Abs.near_optimal A y c c'

/-- non-vacuity over ℝ: `A = [[1],[1]]`, `y = (1, 3)`, `c = 2` is orthogonal, hence optimal -/
example : ∀ c' : Fin 1 → ℝ,
    ((![1, 3] : Fin 2 → ℝ) - (!![1; 1] : Matrix (Fin 2) (Fin 1) ℝ) *ᵥ ![2]) ⬝ᵥ
      (![1, 3] - (!![1; 1] : Matrix (Fin 2) (Fin 1) ℝ) *ᵥ ![2]) ≤
    (![1, 3] - (!![1; 1] : Matrix (Fin 2) (Fin 1) ℝ) *ᵥ c') ⬝ᵥ
      (![1, 3] - (!![1; 1] : Matrix (Fin 2) (Fin 1) ℝ) *ᵥ c') := by
  apply ls_optimal_of_orthogonal
  ext j
  fin_cases j
  simp [Matrix.mulVec, dotProduct, Fin.sum_univ_succ]
  norm_num

/-- non-vacuity over ℝ of the uniqueness hypothesis: the same matrix has full column rank -/
example : ∀ d : Fin 1 → ℝ, (!![1; 1] : Matrix (Fin 2) (Fin 1) ℝ) *ᵥ d = 0 → d = 0 := by
  intro d h
  have h0 := congrFun h 0
  ext j
  fin_cases j
  simpa [Matrix.mulVec, dotProduct] using h0

/-- non-vacuity over ℝ of the KKT hypotheses: `A = I₂`, `y = (1, −1)`, `c = (1, 0)` (second
    constraint active with multiplier 1) -/
example :
    (∀ j, (((1 : Matrix (Fin 2) (Fin 2) ℝ))ᵀ *ᵥ ((![1, -1] : Fin 2 → ℝ) - (1 : Matrix (Fin 2) (Fin 2) ℝ) *ᵥ ![1, 0])) j ≤ 0) ∧
    (![1, 0] : Fin 2 → ℝ) ⬝ᵥ (((1 : Matrix (Fin 2) (Fin 2) ℝ))ᵀ *ᵥ ((![1, -1] : Fin 2 → ℝ) - (1 : Matrix (Fin 2) (Fin 2) ℝ) *ᵥ ![1, 0])) = 0 := by
  constructor
  · intro j
    fin_cases j <;> simp
  · simp

end A

/-! ## Part B — the executable definitions -/

/-- **`isNormalSol` is a sound optimality certificate**: if the Boolean checker the driver runs
    accepts `c`, then `c` beats every competitor list `c'` (of any length). -/
theorem isNormalSol_optimal (a : Mat) (y c : Vec) (h : WF a y) (hs : isNormalSol a y c = true)
    (c' : Vec) : sumSq (residual a y c) ≤ sumSq (residual a y c') := by
  rw [sumSq_residual a y c h, sumSq_residual a y c' h]
  apply Abs.ls_optimal_of_orthogonal
  rw [← toV_gradient a y c h]
  simp only [isNormalSol, Bool.and_eq_true] at hs
  exact toV_eq_zero_of_all _ _ hs.2

example : WF [[1], [1]] [1, 3] ∧ isNormalSol [[1], [1]] [1, 3] [2] = true := by
  refine ⟨⟨by decide, by decide⟩, by decide +kernel⟩

/-- **`isKKT` is a sound optimality certificate** over the non-negative competitors. -/
theorem isKKT_optimal (a : Mat) (y c : Vec) (h : WF a y) (hs : isKKT a y c = true)
    (c' : Vec) (hc' : ∀ x ∈ c', 0 ≤ x) : sumSq (residual a y c) ≤ sumSq (residual a y c') := by
  rw [sumSq_residual a y c h, sumSq_residual a y c' h]
  simp only [isKKT, Bool.and_eq_true] at hs
  apply Abs.nnls_optimal_of_kkt
  · intro j
    rw [← toV_gradient a y c h]
    exact toV_nonpos_of_all _ _ hs.1.2 j
  · rw [← toV_gradient a y c h]
    exact dot_zero_of_zipWith _ _ _ hs.2
  · exact toV_nonneg_of_all _ _ hc'

/-- feasibility part of the certificate -/
theorem isKKT_nonneg (a : Mat) (y c : Vec) (hs : isKKT a y c = true) : ∀ x ∈ c, 0 ≤ x := by
  simp only [isKKT, Bool.and_eq_true] at hs
  intro x hx
  simpa using List.all_eq_true.mp hs.1.1.2 x hx

example : WF [[1, 0], [0, 1]] [1, -1] ∧ isKKT [[1, 0], [0, 1]] [1, -1] [1, 0] = true := by
  refine ⟨⟨by decide, by decide⟩, by decide +kernel⟩

/-! ### variable projection (`residual_variable_projection`) -/

/-- common core: whenever `dgeqrf` returns an exact Householder factorisation with a non-singular
    triangle, the model's output is (y − A·clp, a normal-equation solution) -/
private theorem vp_main (dgeqrf : Mat → Mat × Vec) (a : Mat) (y : Vec)
    (hq : isQRof (dgeqrf a).1 (dgeqrf a).2 a = true)
    (hd : diagNonzero (dgeqrf a).1 (ncols a) = true) (hy : y.length = a.length) :
    (residualVP dgeqrf a y).2 = residual a y (residualVP dgeqrf a y).1 ∧
      isNormalSol a y (residualVP dgeqrf a y).1 = true := by
  unfold residualVP
  by_cases hn : ncols a = 0
  · simp only [hn, if_true]
    refine ⟨(residual_nil a y hy).symm, ?_⟩
    simp [isNormalSol, hn, gradient, transpose, mulVec]
  · simp only [hn, if_false]
    obtain ⟨h1, h2, h3⟩ := vp_core (dgeqrf a).1 (dgeqrf a).2 a y (qrData_of_isQRof _ _ _ hq) hd hy
    refine ⟨h1, ?_⟩
    simp only [isNormalSol, Bool.and_eq_true, beq_iff_eq]
    exact ⟨h3, all_zero_of_toV _ _ (gradient_length _ _ _) h2⟩

/-- **The residual that enters the fit is exactly `data − matrix·clp`.** -/
theorem vp_residual_eq (dgeqrf : Mat → Mat × Vec) (a : Mat) (y : Vec)
    (hq : isQRof (dgeqrf a).1 (dgeqrf a).2 a = true)
    (hd : diagNonzero (dgeqrf a).1 (ncols a) = true) (hy : y.length = a.length) :
    (residualVP dgeqrf a y).2 = residual a y (residualVP dgeqrf a y).1 :=
  (vp_main dgeqrf a y hq hd hy).1

/-- **The variable-projection residual is orthogonal to every matrix column** (`Aᵀ r = 0`, i.e. the
    returned clp solve the normal equations exactly). -/
theorem vp_orthogonal (dgeqrf : Mat → Mat × Vec) (a : Mat) (y : Vec)
    (hq : isQRof (dgeqrf a).1 (dgeqrf a).2 a = true)
    (hd : diagNonzero (dgeqrf a).1 (ncols a) = true) (hy : y.length = a.length) :
    mulVec (transpose a (ncols a)) (residualVP dgeqrf a y).2 = zeros (ncols a) ∧
      isNormalSol a y (residualVP dgeqrf a y).1 = true := by
  obtain ⟨h1, h2⟩ := vp_main dgeqrf a y hq hd hy
  refine ⟨?_, h2⟩
  rw [h1]
  have h3 : (gradient a y (residualVP dgeqrf a y).1).all (· == 0) = true := by
    simp only [isNormalSol, Bool.and_eq_true] at h2
    exact h2.2
  apply toV_inj _ _ (ncols a) (by simp) (by simp)
  have := toV_eq_zero_of_all _ (ncols a) h3
  rw [toV_zeros]
  exact this

/-- **The clp returned by variable projection minimise `‖data − matrix·clp'‖`** over all `clp'`,
    and the returned residual is the minimal one. -/
theorem vp_optimal (dgeqrf : Mat → Mat × Vec) (a : Mat) (y : Vec)
    (hq : isQRof (dgeqrf a).1 (dgeqrf a).2 a = true)
    (hd : diagNonzero (dgeqrf a).1 (ncols a) = true) (hy : y.length = a.length) (c' : Vec) :
    sumSq (residualVP dgeqrf a y).2 ≤ sumSq (residual a y c') := by
  obtain ⟨h1, h2⟩ := vp_main dgeqrf a y hq hd hy
  have hwf : WF a y := ⟨(qrData_of_isQRof _ _ _ hq).rows, hy⟩
  rw [h1]
  exact isNormalSol_optimal a y _ hwf h2 c'

/-- non-vacuity: a 4×2 matrix with an exact dyadic Householder factorisation
    (`v₁ = (1,1,1,1)`, `τ₁ = 1/2`; `v₂ = (0,1,1,0)`, `τ₂ = 1`; `R = [[2,1],[0,3]]`) -/
example :
    isQRof [[2, 1], [1, 3], [1, 1], [1, 0]] [1/2, 1] [[1, 2], [-1, 1], [-1, -2], [-1, 1]] = true ∧
    diagNonzero [[2, 1], [1, 3], [1, 1], [1, 0]] 2 = true ∧
    residualVP (fun _ => ([[2, 1], [1, 3], [1, 1], [1, 0]], [1/2, 1]))
      [[1, 2], [-1, 1], [-1, -2], [-1, 1]] [1, 2, 3, 4] = ([-7/3, 2/3], [2, -1, 2, 1]) := by
  decide +kernel

/-! ### NNLS (`residual_nnls`) -/

/-- **The NNLS residual is `data − matrix·clp`**, for whatever `scipy.optimize.nnls` returns; the
    clp are the solver's answer for the normalised problem, scaled back. -/
theorem nnls_residual_eq (nnls : Mat → Vec → Option Vec) (a : Mat) (y : Vec) (out : Vec × Vec)
    (h : residualNNLS nnls a y = some out) :
    out.2 = residual a y out.1 ∧
    ∃ x, nnls (scaleColumns a (columnScales a)) (y.map (· / scaleOf y)) = some x ∧
      out.1 = List.zipWith (fun xi ci => xi * (scaleOf y / ci)) x (columnScales a) := by
  unfold residualNNLS at h
  simp only at h
  cases hs : nnls (scaleColumns a (columnScales a)) (y.map (· / scaleOf y)) with
  | none => simp [hs] at h
  | some x =>
    simp only [hs, Option.some.injEq] at h
    subst h
    exact ⟨rfl, x, rfl, rfl⟩

/- Full statement (false for the code as it is, see `nnls_optimal_counterexample`):
     ∀ nnls a y, WF a y → FullRank a → ∃ out, residualNNLS nnls a y = some out ∧ out.1 ≥ 0 ∧ optimal out
   `scipy.optimize.nnls` is a parameter; the statement holds exactly when the solver delivers a KKT
   point, which scipy 1.14's active-set iteration on the normal equations does not always do. -/

/-- **If the solver returns a KKT point of the (normalised) problem it is given, `residual_nnls`
    returns non-negative clp that minimise `‖data − matrix·clp'‖` over all non-negative `clp'`, and
    the minimal residual** — the normalisation by the data and column magnitudes and the scaling back
    are part of the model (`_partial`: the hypothesis excludes the runs in which the external solver
    gives up). -/
theorem nnls_optimal_partial (nnls : Mat → Vec → Option Vec) (a : Mat) (y x : Vec) (h : WF a y)
    (hs : nnls (scaleColumns a (columnScales a)) (y.map (· / scaleOf y)) = some x)
    (hk : isKKT (scaleColumns a (columnScales a)) (y.map (· / scaleOf y)) x = true) :
    ∃ out, residualNNLS nnls a y = some out ∧ out.2 = residual a y out.1 ∧
      isKKT a y out.1 = true ∧ (∀ z ∈ out.1, 0 ≤ z) ∧
      ∀ c' : Vec, (∀ z ∈ c', 0 ≤ z) → sumSq out.2 ≤ sumSq (residual a y c') := by
  have hk' := isKKT_unscale a y x h hk
  refine ⟨(_, residual a y _), ?_, rfl, hk', isKKT_nonneg a y _ hk',
    fun c' hc' => isKKT_optimal a y _ h hk' c' hc'⟩
  simp [residualNNLS, hs, LinAlg.residual]

/-- non-vacuity: data of magnitude 1e-20 (the repaired defect): the normalised problem has the KKT
    point (1/3, 2/3), scaled back it is the KKT point (1e-20, 2e-20) of the original problem -/
example :
    isKKT (scaleColumns [[1, 0], [0, 1], [1, 1]] (columnScales [[1, 0], [0, 1], [1, 1]]))
      ([1/100000000000000000000, 2/100000000000000000000, 3/100000000000000000000].map
        (· / scaleOf [1/100000000000000000000, 2/100000000000000000000, 3/100000000000000000000]))
      [1/3, 2/3] = true ∧
    residualNNLS nnlsExact [[1, 0], [0, 1], [1, 1]]
      [1/100000000000000000000, 2/100000000000000000000, 3/100000000000000000000] =
      some ([1/100000000000000000000, 2/100000000000000000000], [0, 0, 0]) := by
  decide +kernel

/-- the recorded witness (corpus/C01/nnls-maxiter.json): a full-rank 2×2 matrix on which
    scipy 1.14.1's `nnls` raises `RuntimeError("Maximum number of iterations reached.")` -/
def nnlsWitnessA : Mat := [[452901/1048576, -565765/1048576], [473595/1048576, -591616/1048576]]
def nnlsWitnessY : Vec := [0, -15/8]

/-- **Counterexample to the unconditional statement**: the witness matrix has full column rank and
    an exact KKT point exists (`nnlsExact` finds it), but a solver that gives up on it — as the real
    one does, replayed on every run — makes `residual_nnls` return nothing. -/
theorem nnls_optimal_counterexample :
    FullRank nnlsWitnessA ∧ (nnlsExact nnlsWitnessA nnlsWitnessY).isSome = true ∧
    residualNNLS (fun _ _ => none) nnlsWitnessA nnlsWitnessY = none := by
  refine ⟨?_, by decide +kernel, rfl⟩
  intro d hd hz
  match d, hd with
  | [d0, d1], _ =>
    simp only [nnlsWitnessA, mulVec, dot, zeros, List.map_cons, List.map_nil, List.zipWith_cons_cons,
      List.zipWith_nil_right, List.foldl_cons, List.foldl_nil, List.length_cons, List.length_nil,
      List.replicate_succ, List.replicate_zero, List.cons.injEq, and_true] at hz
    obtain ⟨h1, h2⟩ := hz
    have e0 : d0 = 0 := by linarith
    have e1 : d1 = 0 := by linarith
    simp [e0, e1, zeros, ncols, nnlsWitnessA]

/-- the exact reference solvers of the driver return optimal solutions -/
theorem lsExact_optimal (a : Mat) (y c : Vec) (h : WF a y) (hs : lsExact a y = some c) (c' : Vec) :
    sumSq (residual a y c) ≤ sumSq (residual a y c') :=
  isNormalSol_optimal a y c h (lsExact_isNormalSol a y c hs) c'

theorem nnlsExact_optimal (a : Mat) (y c : Vec) (h : WF a y) (hs : nnlsExact a y = some c) :
    (∀ x ∈ c, 0 ≤ x) ∧ ∀ c' : Vec, (∀ x ∈ c', 0 ≤ x) → sumSq (residual a y c) ≤ sumSq (residual a y c') :=
  ⟨isKKT_nonneg a y c (nnlsExact_isKKT a y c hs),
   fun c' hc' => isKKT_optimal a y c h (nnlsExact_isKKT a y c hs) c' hc'⟩

example : nnlsExact [[1, 0], [0, 1]] [1, -1] = some [1, 0] ∧ lsExact [[1], [1]] [1, 3] = some [2] := by
  decide +kernel

/-! ### the tolerance regime: what the exact certificate numbers mean -/

/-- **For any `c` (e.g. the rounded floating-point output) the certificate's gradient bounds the
    sub-optimality against every competitor**: `‖y − A c‖² ≤ ‖y − A c'‖² + 2 (c' − c)·g` with
    `g = (cert a y c r).grad = Aᵀ(y − A c)`. -/
theorem cert_near_optimal (a : Mat) (y c r c' : Vec) (h : WF a y)
    (hc : c.length = ncols a) (hc' : c'.length = ncols a) :
    sumSq (residual a y c) ≤ sumSq (residual a y c') + 2 * dot (vsub c' c) (cert a y c r).grad := by
  rw [sumSq_residual a y c h, sumSq_residual a y c' h]
  have hg : (cert a y c r).grad = gradient a y c := rfl
  rw [hg, dot_eq _ _ (ncols a) (by simp [hc, hc']), toV_vsub _ _ _ hc' hc, toV_gradient a y c h]
  exact Abs.near_optimal _ _ _ _

/-- the certificate's first number is zero exactly when the reported residual is `y − A c` -/
theorem cert_defect_zero_iff (a : Mat) (y c r : Vec) (h : WF a y) (hr : r.length = a.length) :
    (cert a y c r).defectSq = 0 ↔ r = residual a y c := by
  have hl : (residual a y c).length = a.length := by simp [LinAlg.residual, h.ylen]
  have hd : (cert a y c r).defectSq = sumSq (vsub r (residual a y c)) := rfl
  rw [hd, sumSq_eq _ a.length (by simp [hr, hl]), Abs.nsq_eq_zero, toV_vsub _ _ _ hr hl, sub_eq_zero]
  constructor
  · exact toV_inj _ _ _ hr hl
  · intro e; rw [e]

example : (cert [[1], [1]] [1, 3] [2] [-1, 1]).defectSq = 0 ∧ (cert [[1], [1]] [1, 3] [2] [-1, 1]).grad = [0] ∧
    (cert [[1], [1]] [1, 3] [1] [0, 2]).grad = [2] := by
  decide +kernel

/-! ### dispatch (`SUPPORTED_RESIUDAL_FUNCTIONS`, regenerated from the source on every run) -/

/-- the two documented keys select the two kernels (checked against the regenerated table) -/
theorem dispatch_table :
    dispatch Generated.residualFunctions "variable_projection" = .ok .vp ∧
    dispatch Generated.residualFunctions "non_negative_least_squares" = .ok .nnls ∧
    dispatch Generated.residualFunctions Generated.defaultResidualFunction = .ok .vp := by
  decide

/-- every entry of the table is one of the two modelled kernels, and the keys are distinct -/
theorem dispatch_table_modelled :
    (∀ e ∈ Generated.residualFunctions, (kernelOfFunction e.2.1 e.2.2).isSome = true) ∧
    (Generated.residualFunctions.map (·.1)).Nodup := by
  decide

/-- any other key is rejected (`UnsupportedResidualFunctionError`), for any table -/
theorem dispatch_unsupported (table : List (String × String × String)) (key : String)
    (h : key ∉ table.map (·.1)) : dispatch table key = .unsupported := by
  unfold dispatch
  have : table.find? (fun e => e.1 == key) = none := by
    rw [List.find?_eq_none]
    intro e he hk
    apply h
    simp only [List.mem_map]
    exact ⟨e, he, by simpa using hk⟩
  rw [this]

example : dispatch Generated.residualFunctions "nnls" = .unsupported := by decide

/-- **Whatever key a dataset group selects, the dispatched kernel returns the residual
    `data − matrix·clp` of an optimal clp** (over all clp for variable projection, over the
    non-negative ones — and non-negative itself — for NNLS), given an exact factorisation /
    a KKT point from the external routines. -/
theorem dispatched_kernel_optimal (key : String) (k : Kernel)
    (hk : dispatch Generated.residualFunctions key = .ok k)
    (dgeqrf : Mat → Mat × Vec) (nnls : Mat → Vec → Option Vec) (a : Mat) (y x : Vec) (h : WF a y)
    (hq : isQRof (dgeqrf a).1 (dgeqrf a).2 a = true)
    (hd : diagNonzero (dgeqrf a).1 (ncols a) = true)
    (hs : nnls (scaleColumns a (columnScales a)) (y.map (· / scaleOf y)) = some x)
    (hkkt : isKKT (scaleColumns a (columnScales a)) (y.map (· / scaleOf y)) x = true) :
    ∃ out, calculateResidual k dgeqrf nnls a y = some out ∧ out.2 = residual a y out.1 ∧
    (key = "variable_projection" → ∀ c', sumSq out.2 ≤ sumSq (residual a y c')) ∧
    (key = "non_negative_least_squares" →
      (∀ z ∈ out.1, 0 ≤ z) ∧ ∀ c' : Vec, (∀ z ∈ c', 0 ≤ z) → sumSq out.2 ≤ sumSq (residual a y c')) := by
  cases k with
  | vp =>
    refine ⟨residualVP dgeqrf a y, rfl, vp_residual_eq dgeqrf a y hq hd h.ylen,
      fun _ c' => vp_optimal dgeqrf a y hq hd h.ylen c', ?_⟩
    intro hkey
    subst hkey
    have h2 := dispatch_table.2.1
    rw [hk] at h2
    cases h2
  | nnls =>
    obtain ⟨out, h1, h2, _, h4, h5⟩ := nnls_optimal_partial nnls a y x h hs hkkt
    refine ⟨out, h1, h2, ?_, fun _ => ⟨h4, h5⟩⟩
    intro hkey
    subst hkey
    have h6 := dispatch_table.1
    rw [hk] at h6
    cases h6

/-! ### the kernels as the source text says them (programs regenerated on every run) -/
section Generated
open Steps
set_option linter.unusedSimpArgs false

/-- **The call sequence of `residual_variable_projection`, as regenerated from its source, computes
    the hand-written model `residualVP`** (the theorems above are about `residualVP`): which LAPACK
    routine is called on which operands with which `side` / `trans` flags, which block of `temp` is
    zeroed, which slice of `clp` is returned and in which order.  `hshape`: `dgeqrf` returns an array
    with as many columns as its argument (the order of `dtrtrs`'s system is read off `qr`). -/
theorem generated_vp_eq_model (dgeqrf : Mat → Mat × Vec) (a : Mat) (y : Vec)
    (hshape : ncols (dgeqrf a).1 = ncols a) :
    runVP Generated.vpProgram dgeqrf a y =
      .ok [.vec (residualVP dgeqrf a y).1, .vec (residualVP dgeqrf a y).2] := by
  unfold residualVP
  by_cases hn : ncols a = 0
  · simp [runVP, run, Generated.vpProgram, exec, eval, evalSize, evalAll, lookup, Steps.bind, binop, amaxVec, hn, zeros]
  · simp [runVP, run, Generated.vpProgram, exec, eval, evalSize, evalAll, lookup, Steps.bind, binop, amaxVec, hn, hshape,
      zeroRange_zero]

/-- **… and the statements of `residual_nnls`, as regenerated from its source, compute `residualNNLS`**:
    the normalisation of the data and of the columns (`axis` arguments included), what the solver is
    called on, the factor the clp are scaled back by, the residual from the original data and matrix;
    a solver that raises makes the function raise. -/
theorem generated_nnls_eq_model (nnls : Mat → Vec → Option Vec) (a : Mat) (y : Vec) :
    runNNLS Generated.nnlsProgram nnls a y =
      match residualNNLS nnls a y with
      | some out => .ok [.vec out.1, .vec out.2]
      | none => .raised := by
  unfold residualNNLS
  simp [runNNLS, run, Generated.nnlsProgram, exec, eval, evalSize, evalAll, lookup, Steps.bind, binop, amaxVec,
    sequence_map_some, ncols_map_map, col_map_absQ, foldl_max_abs, columnScales, scaleOf, scaleColumns, vsub,
    List.zipWith_map_right, Function.comp_def]
  cases nnls _ _ <;> simp

/-- **Optimality of what the source says now** (variable projection): with an exact factorisation of
    full rank the regenerated program returns a pair `(clp, residual)` with `residual = data − matrix·clp`
    of minimal norm. -/
theorem generated_vp_optimal (dgeqrf : Mat → Mat × Vec) (a : Mat) (y : Vec)
    (hq : isQRof (dgeqrf a).1 (dgeqrf a).2 a = true)
    (hd : diagNonzero (dgeqrf a).1 (ncols a) = true) (hy : y.length = a.length) :
    ∃ c r, runVP Generated.vpProgram dgeqrf a y = .ok [.vec c, .vec r] ∧ r = residual a y c ∧
      isNormalSol a y c = true ∧ ∀ c', sumSq r ≤ sumSq (residual a y c') := by
  by_cases hn : ncols a = 0
  · have hm := vp_main dgeqrf a y hq hd hy
    refine ⟨(residualVP dgeqrf a y).1, (residualVP dgeqrf a y).2, ?_, hm.1, hm.2,
      fun c' => vp_optimal dgeqrf a y hq hd hy c'⟩
    unfold residualVP
    simp [runVP, run, Generated.vpProgram, exec, eval, evalSize, evalAll, lookup, Steps.bind, hn, zeros]
  · have hm := vp_main dgeqrf a y hq hd hy
    exact ⟨_, _, generated_vp_eq_model dgeqrf a y (ncols_qr_of_isQRof _ _ a hq hn), hm.1, hm.2,
      fun c' => vp_optimal dgeqrf a y hq hd hy c'⟩

/-- **Optimality of what the source says now** (NNLS, `_partial` as `nnls_optimal_partial`: the
    external solver is assumed to return a KKT point of the normalised problem it is given). -/
theorem generated_nnls_optimal_partial (nnls : Mat → Vec → Option Vec) (a : Mat) (y x : Vec) (h : WF a y)
    (hs : nnls (scaleColumns a (columnScales a)) (y.map (· / scaleOf y)) = some x)
    (hk : isKKT (scaleColumns a (columnScales a)) (y.map (· / scaleOf y)) x = true) :
    ∃ c r, runNNLS Generated.nnlsProgram nnls a y = .ok [.vec c, .vec r] ∧ r = residual a y c ∧
      isKKT a y c = true ∧ (∀ z ∈ c, 0 ≤ z) ∧
      ∀ c' : Vec, (∀ z ∈ c', 0 ≤ z) → sumSq r ≤ sumSq (residual a y c') := by
  obtain ⟨out, h1, h2, h3, h4, h5⟩ := nnls_optimal_partial nnls a y x h hs hk
  refine ⟨out.1, out.2, ?_, h2, h3, h4, h5⟩
  rw [generated_nnls_eq_model, h1]

/-- non-vacuity: the regenerated programs run on the 4×2 example of `vp_optimal` and on the tiny-data
    example of `nnls_optimal_partial` -/
example :
    runVP Generated.vpProgram (fun _ => ([[2, 1], [1, 3], [1, 1], [1, 0]], [1/2, 1]))
      [[1, 2], [-1, 1], [-1, -2], [-1, 1]] [1, 2, 3, 4] = .ok [.vec [-7/3, 2/3], .vec [2, -1, 2, 1]] ∧
    runNNLS Generated.nnlsProgram nnlsExact [[1, 0], [0, 1], [1, 1]]
      [1/100000000000000000000, 2/100000000000000000000, 3/100000000000000000000] =
      .ok [.vec [1/100000000000000000000, 2/100000000000000000000], .vec [0, 0, 0]] ∧
    runNNLS Generated.nnlsProgram (fun _ _ => none) nnlsWitnessA nnlsWitnessY = .raised := by
  decide +kernel

end Generated

/-! ### full column rank, uniqueness, independence of the factorisation -/

/-- **A matrix with an exact QR factorisation whose triangle has no zero on the diagonal has full
    column rank** (`A d = 0 ⇒ d = 0`): the hypothesis of the property is what the two Boolean
    tests of the driver establish. -/
theorem full_rank_of_qr (qr : Mat) (tau : Vec) (a : Mat) (hq : isQRof qr tau a = true)
    (hd : diagNonzero qr (ncols a) = true) : FullRank a :=
  fullRank_of_qr qr tau a (qrData_of_isQRof _ _ _ hq) hd

/-- **At full column rank the normal equations have one solution**: any list accepted by
    `isNormalSol` is the clp vector. -/
theorem normal_solution_unique (a : Mat) (y c c' : Vec) (h : WF a y) (hr : FullRank a)
    (hc : isNormalSol a y c = true) (hc' : isNormalSol a y c' = true) : c' = c := by
  simp only [isNormalSol, Bool.and_eq_true, beq_iff_eq] at hc hc'
  apply toV_inj _ _ (ncols a) hc'.1 hc.1
  apply Abs.ls_normal_unique (toM a.length (ncols a) a) (toV a.length y)
  · rw [← toV_gradient a y c h]; exact toV_eq_zero_of_all _ _ hc.2
  · rw [← toV_gradient a y c' h]; exact toV_eq_zero_of_all _ _ hc'.2
  · exact fullRank_abs a h.rows hr

/-- **… and one KKT point.** -/
theorem kkt_point_unique (a : Mat) (y c c' : Vec) (h : WF a y) (hr : FullRank a)
    (hc : isKKT a y c = true) (hc' : isKKT a y c' = true) : c' = c := by
  have hn := isKKT_nonneg a y c hc
  have hn' := isKKT_nonneg a y c' hc'
  simp only [isKKT, Bool.and_eq_true, beq_iff_eq] at hc hc'
  apply toV_inj _ _ (ncols a) hc'.1.1.1 hc.1.1.1
  apply Abs.nnls_kkt_unique (toM a.length (ncols a) a) (toV a.length y)
  · exact toV_nonneg_of_all _ _ hn
  · intro j; rw [← toV_gradient a y c h]; exact toV_nonpos_of_all _ _ hc.1.2 j
  · rw [← toV_gradient a y c h]; exact dot_zero_of_zipWith _ _ _ hc.2
  · exact toV_nonneg_of_all _ _ hn'
  · intro j; rw [← toV_gradient a y c' h]; exact toV_nonpos_of_all _ _ hc'.1.2 j
  · rw [← toV_gradient a y c' h]; exact dot_zero_of_zipWith _ _ _ hc'.2
  · exact fullRank_abs a h.rows hr

/-- **The result of variable projection does not depend on which exact factorisation LAPACK
    returns** (signs, `τ = 0` reflectors, …): two admissible `dgeqrf` give the same clp and residual.
    This is what allows the harness to compare the real code (LAPACK's own factorisation) with the
    model run on a different, exactly representable factorisation of the same matrix. -/
theorem vp_factorisation_independent (d₁ d₂ : Mat → Mat × Vec) (a : Mat) (y : Vec)
    (hq₁ : isQRof (d₁ a).1 (d₁ a).2 a = true) (hd₁ : diagNonzero (d₁ a).1 (ncols a) = true)
    (hq₂ : isQRof (d₂ a).1 (d₂ a).2 a = true) (hd₂ : diagNonzero (d₂ a).1 (ncols a) = true)
    (hy : y.length = a.length) : residualVP d₁ a y = residualVP d₂ a y := by
  have hwf : WF a y := ⟨(qrData_of_isQRof _ _ _ hq₁).rows, hy⟩
  have hr := full_rank_of_qr _ _ a hq₁ hd₁
  obtain ⟨r1, n1⟩ := vp_main d₁ a y hq₁ hd₁ hy
  obtain ⟨r2, n2⟩ := vp_main d₂ a y hq₂ hd₂ hy
  have hc := normal_solution_unique a y _ _ hwf hr n1 n2
  apply Prod.ext
  · exact hc.symm
  · rw [r1, r2, hc]

/-- the clp of variable projection equal the exact normal-equation reference `lsExact` -/
theorem vp_eq_lsExact (dgeqrf : Mat → Mat × Vec) (a : Mat) (y c : Vec)
    (hq : isQRof (dgeqrf a).1 (dgeqrf a).2 a = true)
    (hd : diagNonzero (dgeqrf a).1 (ncols a) = true) (hy : y.length = a.length)
    (hc : lsExact a y = some c) : (residualVP dgeqrf a y).1 = c := by
  have hwf : WF a y := ⟨(qrData_of_isQRof _ _ _ hq).rows, hy⟩
  exact normal_solution_unique a y c _ hwf (full_rank_of_qr _ _ a hq hd)
    (lsExact_isNormalSol a y c hc) (vp_main dgeqrf a y hq hd hy).2

/-- non-vacuity of the independence theorem: the matrix of the example above has a second exact
    factorisation (`r₁₁ = −2`: `v₁ = (1,−⅓,−⅓,−⅓)`, `τ₁ = 3/2`; `v₂ = (0,1,1,−2)`, `τ₂ = 1/3`), and both
    give the same clp and residual -/
example :
    isQRof [[-2, -1], [-1/3, 3], [-1/3, 1], [-1/3, -2]] [3/2, 1/3] [[1, 2], [-1, 1], [-1, -2], [-1, 1]] = true ∧
    diagNonzero [[-2, -1], [-1/3, 3], [-1/3, 1], [-1/3, -2]] 2 = true ∧
    residualVP (fun _ => ([[-2, -1], [-1/3, 3], [-1/3, 1], [-1/3, -2]], [3/2, 1/3]))
      [[1, 2], [-1, 1], [-1, -2], [-1, 1]] [1, 2, 3, 4] =
    residualVP (fun _ => ([[2, 1], [1, 3], [1, 1], [1, 0]], [1/2, 1]))
      [[1, 2], [-1, 1], [-1, -2], [-1, 1]] [1, 2, 3, 4] := by
  decide +kernel

/-! ### outside the property: the rank-deficient branch of the model -/

/-- **What the code does when `R` has an exactly zero diagonal entry** (rank-deficient matrix, outside
    the property): LAPACK's `dtrtrs` reports `info > 0` and leaves its right-hand side untouched, the
    code ignores `info`, so the "clp" are the first `n` entries of `Qᵀ data` (not a least-squares
    solution), while the residual — computed without the clp — is unaffected.  The harness compares
    this branch with the real code as a diagnostic. -/
theorem trtrs_singular (qr : Mat) (n : Nat) (b : Vec) (h : diagNonzero qr n = false) :
    trtrs qr n b = b := by
  have hany : (upperRows qr n).any (fun u => u.headD 0 == 0) = true := by
    simp only [diagNonzero, List.all_eq_false, List.mem_range] at h
    obtain ⟨i, hi, hz⟩ := h
    rw [List.any_eq_true]
    refine ⟨(upperRows qr n).getD i [], ?_, ?_⟩
    · have hl : i < (upperRows qr n).length := by rw [upperRows_length]; exact hi
      rw [List.getD_eq_getElem?_getD, List.getElem?_eq_getElem hl]
      exact List.getElem_mem hl
    · rw [upperRows_head qr n i hi]
      simpa using hz
  unfold trtrs
  simp only [hany, if_true]

example : diagNonzero [[1, 2], [0, 0], [0, 0]] 2 = false ∧
    residualVP (fun _ => ([[1, 2], [0, 0], [0, 0]], [0, 0])) [[1, 2], [0, 0], [0, 0]] [3, 4, 5] =
      ([3, 4], [0, 0, 5]) := by
  decide +kernel

/-! ### non-vacuity in general: every real matrix of full column rank has an admissible factorisation

`vp_optimal` assumes that LAPACK returned an exact compact Householder factorisation with a non-zero
diagonal (`isQRof`, `diagNonzero`).  Over ℚ such a factorisation exists only when the column norms
that occur are rational squares; over ℝ it always exists.  `Abs.IsCompactQR` / `Abs.DiagNonzero`
(Lemmas/C01QR.lean) are the two Boolean tests as propositions over any field, `Abs.dgeqr2` is LAPACK's
`dgeqr2` (column by column, reflector from `Real.sqrt`, `τ = 0` for a zero sub-column) as a
noncomputable definition. -/
section QR
open Abs
variable {m n : ℕ}

/-- **The hypotheses of the variable-projection theorems are the instance at `K = ℚ` of the
    field-generic predicates**: what `isQRof` and `diagNonzero` accept is an `IsCompactQR` with
    `DiagNonzero` of the matrix (transported to Mathlib's `Matrix`). -/
theorem isQRof_is_compact_qr (qr : Mat) (tau : Vec) (a : Mat) (hq : isQRof qr tau a = true)
    (hd : diagNonzero qr (ncols a) = true) :
    IsCompactQR (toM a.length (ncols a) a) ((reflectors qr tau).map (toH a.length))
      (toM a.length (ncols a) (rFull qr (ncols a))) ∧
    DiagNonzero (toM a.length (ncols a) (rFull qr (ncols a))) :=
  compactQR_of_isQRof qr tau a hq hd

/-- **One column of `dgeqr2` (LAPACK's `dlarfg`)**: for every real vector `x` and position `k` the
    reflector `householderVec x k` has the compact form (zeros above `k`, 1 on it), is orthogonal,
    annihilates `x` below `k`, leaves it alone above `k`, and produces a non-zero pivot exactly when
    `x` is not zero from `k` on. -/
theorem householder_step_spec (x : Fin m → ℝ) (k : Fin m) :
    (∀ i : Fin m, (i : ℕ) < k → (householderVec x k).1 i = 0) ∧
    (householderVec x k).1 k = 1 ∧
    HOK (householderVec x k) ∧
    (∀ i : Fin m, (k : ℕ) < i → (Hm (householderVec x k) *ᵥ x) i = 0) ∧
    (∀ i : Fin m, (i : ℕ) < k → (Hm (householderVec x k) *ᵥ x) i = x i) ∧
    ((Hm (householderVec x k) *ᵥ x) k ≠ 0 ↔ ∃ i : Fin m, (k : ℕ) ≤ i ∧ x i ≠ 0) :=
  Abs.householder_step_spec x k

/-- the rational instance `x = (3, 4)`: `v = (1, 1/2)`, `τ = 8/5` (and `β = −5`) -/
example : householderVec (![3, 4] : Fin 2 → ℝ) 0 = (![1, 1/2], 8/5) := example_householderVec

/-- **Every real `m × n` matrix with `n ≤ m` has an exact compact Householder factorisation**
    (no rank assumption), namely the one `dgeqr2` computes. -/
theorem exists_compact_qr (A : Matrix (Fin m) (Fin n) ℝ) (hnm : n ≤ m) :
    IsCompactQR A (dgeqr2 A) (QTm (dgeqr2 A) * A) := by
  obtain ⟨h1, h2, h3, h4⟩ := dgeqr2Aux_spec A hnm n (le_refl n)
  exact ⟨h1, h2, h3, rfl, fun i j hji => h4 i j j.2 hji⟩

/-- **The triangle of any compact factorisation has a non-zero diagonal iff the matrix has full
    column rank** (any field). -/
theorem diagNonzero_iff_full_rank {K : Type*} [Field K] (A : Matrix (Fin m) (Fin n) K)
    (hs : List ((Fin m → K) × K)) (B : Matrix (Fin m) (Fin n) K) (h : IsCompactQR A hs B) (hnm : n ≤ m) :
    DiagNonzero B ↔ (∀ d : Fin n → K, A *ᵥ d = 0 → d = 0) :=
  Abs.diagNonzero_iff_full_rank A hs B h hnm

/-- **Every real matrix of full column rank has an admissible factorisation** — the hypotheses of
    `vp_optimal` are satisfiable for every input the property quantifies over, whenever LAPACK is exact. -/
theorem exists_admissible_qr (A : Matrix (Fin m) (Fin n) ℝ)
    (hrank : ∀ d : Fin n → ℝ, A *ᵥ d = 0 → d = 0) :
    ∃ hs B, IsCompactQR A hs B ∧ DiagNonzero B :=
  Abs.exists_admissible_qr A hrank

/-- **… and a rank-deficient matrix has none** (so `diagNonzero` fails exactly outside the property). -/
theorem no_admissible_qr_of_rank_deficient {K : Type*} [Field K] (A : Matrix (Fin m) (Fin n) K)
    (hnm : n ≤ m) (hdef : ∃ d : Fin n → K, d ≠ 0 ∧ A *ᵥ d = 0) :
    ¬ ∃ hs B, IsCompactQR A hs B ∧ DiagNonzero B :=
  Abs.no_admissible_qr_of_rank_deficient A hnm hdef

/-- **With any compact factorisation the steps of `residual_variable_projection` give the
    least-squares minimiser** (any ordered field; matrix form of `vp_residual_eq`, `vp_orthogonal`,
    `vp_optimal`): `c` solves the triangular system (`dtrtrs`), `r = Q·(Qᵀy with its first n entries
    zeroed)`; then `r = y − A c`, `Aᵀ r = 0`, and `‖r‖` is minimal. -/
theorem vp_optimal_of_compact_qr {K : Type*} [Field K] [LinearOrder K] [IsStrictOrderedRing K]
    (A : Matrix (Fin m) (Fin n) K) (hs : List ((Fin m → K) × K)) (B : Matrix (Fin m) (Fin n) K)
    (h : IsCompactQR A hs B) (y : Fin m → K) (c : Fin n → K)
    (hc : ∀ i : Fin m, (i : ℕ) < n → (B *ᵥ c) i = (QTm hs *ᵥ y) i) :
    let r := Qm hs *ᵥ (fun i : Fin m => if (i : ℕ) < n then 0 else (QTm hs *ᵥ y) i)
    r = y - A *ᵥ c ∧ Aᵀ *ᵥ r = 0 ∧ ∀ c' : Fin n → K, r ⬝ᵥ r ≤ (y - A *ᵥ c') ⬝ᵥ (y - A *ᵥ c') :=
  Abs.vp_optimal_of_compact_qr A hs B h y c hc

/-- **Variable projection is optimal for every real least-squares problem of full column rank**:
    the factorisation exists, the triangular system is solvable, and the resulting residual is
    `y − A c`, orthogonal to every column, of minimal norm. -/
theorem vp_optimal_real (A : Matrix (Fin m) (Fin n) ℝ)
    (hrank : ∀ d : Fin n → ℝ, A *ᵥ d = 0 → d = 0) (y : Fin m → ℝ) :
    ∃ (hs : List ((Fin m → ℝ) × ℝ)) (B : Matrix (Fin m) (Fin n) ℝ) (c : Fin n → ℝ),
      IsCompactQR A hs B ∧ DiagNonzero B ∧
      (∀ i : Fin m, (i : ℕ) < n → (B *ᵥ c) i = (QTm hs *ᵥ y) i) ∧
      let r := Qm hs *ᵥ (fun i : Fin m => if (i : ℕ) < n then 0 else (QTm hs *ᵥ y) i)
      r = y - A *ᵥ c ∧ Aᵀ *ᵥ r = 0 ∧
        ∀ c' : Fin n → ℝ, r ⬝ᵥ r ≤ (y - A *ᵥ c') ⬝ᵥ (y - A *ᵥ c') :=
  Abs.vp_optimal_real A hrank y

/-- non-vacuity: a rational instance of `IsCompactQR` / `DiagNonzero` (`A = (3, 4)ᵀ`), and the 4×2
    example of `vp_optimal` satisfies the Boolean tests, hence the predicates -/
example : IsCompactQR (!![3; 4] : Matrix (Fin 2) (Fin 1) ℚ) [(![1, 1/2], 8/5)] !![-5; 0] ∧
    DiagNonzero (!![-5; 0] : Matrix (Fin 2) (Fin 1) ℚ) := ⟨example_isCompactQR, example_diagNonzero⟩

/-- **A rational matrix (every matrix of doubles is one) of full column rank has full column rank over ℝ**,
    hence an admissible real factorisation. -/
theorem exists_admissible_qr_of_fullRank (a : Mat) (hrows : ∀ r ∈ a, r.length = ncols a) (hr : FullRank a) :
    ∃ hs B, IsCompactQR (castM (toM a.length (ncols a) a)) hs B ∧ DiagNonzero B :=
  Abs.exists_admissible_qr _ (fullRank_real_of_rat _ (fullRank_abs a hrows hr))

/-- **Whenever LAPACK is exact, variable projection returns the exact reference the harness compares
    with**: for a rational matrix of full column rank and ANY exact real compact Householder
    factorisation of it, the triangular solve gives the real image of `lsExact`'s clp and the
    back-transformed vector is the real image of `data − matrix·clp`. -/
theorem vp_real_eq_lsExact (a : Mat) (y c : Vec) (h : WF a y) (hr : FullRank a) (hc : lsExact a y = some c)
    (hs : List ((Fin a.length → ℝ) × ℝ)) (B : Matrix (Fin a.length) (Fin (ncols a)) ℝ)
    (hq : IsCompactQR (castM (toM a.length (ncols a) a)) hs B) (c' : Fin (ncols a) → ℝ)
    (hc' : ∀ i : Fin a.length, (i : ℕ) < ncols a → (B *ᵥ c') i = (QTm hs *ᵥ castV (toV a.length y)) i) :
    c' = castV (toV (ncols a) c) ∧
    Qm hs *ᵥ (fun i : Fin a.length => if (i : ℕ) < ncols a then 0 else (QTm hs *ᵥ castV (toV a.length y)) i) =
      castV (toV a.length (LinAlg.residual a y c)) := by
  have hn := lsExact_isNormalSol a y c hc
  simp only [isNormalSol, Bool.and_eq_true, beq_iff_eq] at hn
  have hg : Abs.grad (toM a.length (ncols a) a) (toV a.length y) (toV (ncols a) c) = 0 := by
    rw [← toV_gradient a y c h]; exact toV_eq_zero_of_all _ _ hn.2
  have := vp_real_eq_cast_normal (toM a.length (ncols a) a) (toV a.length y) (toV (ncols a) c)
    (fullRank_abs a h.rows hr) hg hs B hq c' hc'
  rw [toV_residual a y c h]
  exact this

/-- non-vacuity: `A = (3, 4)ᵀ`, `y = (1, 2)` over ℚ has full column rank and `lsExact` solves it -/
example : WF [[3], [4]] [1, 2] ∧ lsExact [[3], [4]] [1, 2] = some [11/25] := by
  refine ⟨⟨by decide, by decide⟩, by decide +kernel⟩

end QR

/-! ### EstimationProvider glue (C01Provider) -/
/- What `EstimationProviderUnlinked.calculate_estimation` / `EstimationProviderLinked.estimate` do around the kernel at
   one global index (`GlotaranModel/C01Provider.lean`): the columns of the labels a constraint removes are dropped
   (`reduceColumns`), matrix and data are weighted (`weightMatrix`, `weightData`), the kernel of the group's key — or of
   the regenerated default — runs on that problem, and `retrieveClps` reports the reduced clp under the full label list.
   Proofs: Lemmas/C01Provider.lean (namespace `Provider`). -/

/-- `retrieve_clps` returns one entry per label of the unreduced matrix -/
theorem retrieve_length (labels reduced : List String) (c : Vec) :
    (retrieveClps true labels reduced c).length = labels.length :=
  Provider.retrieve_length labels reduced c

/-- **The i-th reduced clp is reported under the i-th reduced label** (for distinct reduced labels that are labels) -/
theorem retrieve_kept (labels reduced : List String) (c : Vec)
    (hnd : reduced.Nodup) (hsub : ∀ l ∈ reduced, l ∈ labels) (hlen : c.length = reduced.length)
    (i : Nat) (hi : i < reduced.length) :
    clpOf labels (retrieveClps true labels reduced c) (reduced.getD i "") = c.getD i 0 :=
  Provider.retrieve_kept labels reduced c hnd hsub hlen i hi

/-- **A label that was removed from the matrix reports the clp 0** -/
theorem retrieve_removed (labels reduced : List String) (c : Vec) (l : String)
    (hl : l ∈ labels) (hr : l ∉ reduced) :
    clpOf labels (retrieveClps true labels reduced c) l = 0 :=
  Provider.retrieve_removed labels reduced c l hl hr

/-- the early exit of `retrieve_clps` (model without constraints and relations): the kernel's clp as they are -/
theorem retrieve_unconstrained (labels reduced : List String) (c : Vec) :
    retrieveClps false labels reduced c = c :=
  Provider.retrieve_unconstrained labels reduced c

example : clpOf ["a", "b", "c"] (retrieveClps true ["a", "b", "c"] ["c", "a"] [5, 7]) "c" = 5 ∧
    clpOf ["a", "b", "c"] (retrieveClps true ["a", "b", "c"] ["c", "a"] [5, 7]) "a" = 7 ∧
    clpOf ["a", "b", "c"] (retrieveClps true ["a", "b", "c"] ["c", "a"] [5, 7]) "b" = 0 := by
  decide +kernel

/-- **The labels removed by the constraint reduction are exactly those listed** -/
theorem reduce_labels (labels removed : List String) (matrix : Mat) (l : String) :
    l ∈ (reduceColumns labels removed matrix).1 ↔ l ∈ labels ∧ l ∉ removed :=
  Provider.reduce_labels labels removed matrix l

/-- **Labels and columns stay paired**: the column under a kept label in the reduced matrix is the column under the
    same label in the full matrix -/
theorem reduce_labels_columns (labels removed : List String) (matrix : Mat)
    (hrows : ∀ r ∈ matrix, r.length = labels.length) (l : String) (hl : l ∈ labels) (hk : l ∉ removed) :
    col (reduceColumns labels removed matrix).2 ((reduceColumns labels removed matrix).1.idxOf l) =
      col matrix (labels.idxOf l) :=
  Provider.reduce_labels_columns labels removed matrix hrows l hl hk

example : reduceColumns ["a", "b", "c"] ["b"] [[1, 2, 3], [4, 5, 6]] = (["a", "c"], [[1, 3], [4, 6]]) := by
  decide +kernel

/-- **The property for the full labelled clp vector of one global index.**  Given an exact factorisation / a KKT point
    for the matrix actually handed to the kernel (constraint-reduced, weighted — the hypotheses of
    `dispatched_kernel_optimal` for that matrix), the estimation returns a clp vector under the full labels and a
    residual such that: the residual is `w∘data − (w∘matrix)·clp` for the FULL matrix (removed columns contribute 0),
    removed labels report 0, and the clp minimise `‖w∘data − (w∘matrix)·clp'‖` over all label vectors `clp'` that are 0
    under the removed labels (variable projection), resp. over the non-negative ones, being non-negative themselves
    (NNLS). -/
theorem estimate_optimal (option : Option String) (k : Kernel)
    (hk : dispatch Generated.residualFunctions (groupKey option) = .ok k)
    (hasItems : Bool) (labels removed : List String) (w : Option Vec)
    (dgeqrf : Mat → Mat × Vec) (nnls : Mat → Vec → Option Vec) (matrix : Mat) (data x : Vec)
    (hnd : labels.Nodup) (hrows : ∀ r ∈ matrix, r.length = labels.length)
    (hflag : hasItems = false → removed = [])
    (hne : (preparedMatrix labels removed w matrix).2 ≠ [])
    (hy : (weightData w data).length = (preparedMatrix labels removed w matrix).2.length)
    (hq : isQRof (dgeqrf (preparedMatrix labels removed w matrix).2).1 (dgeqrf (preparedMatrix labels removed w matrix).2).2
      (preparedMatrix labels removed w matrix).2 = true)
    (hd : diagNonzero (dgeqrf (preparedMatrix labels removed w matrix).2).1
      (ncols (preparedMatrix labels removed w matrix).2) = true)
    (hs : nnls (scaleColumns (preparedMatrix labels removed w matrix).2 (columnScales (preparedMatrix labels removed w matrix).2))
      ((weightData w data).map (· / scaleOf (weightData w data))) = some x)
    (hkkt : isKKT (scaleColumns (preparedMatrix labels removed w matrix).2 (columnScales (preparedMatrix labels removed w matrix).2))
      ((weightData w data).map (· / scaleOf (weightData w data))) x = true) :
    ∃ clp res, estimateAt option hasItems labels removed w dgeqrf nnls matrix data = .ok clp res ∧
      res = residual (weightMatrix w matrix) (weightData w data) clp ∧
      (hasItems = true → clp.length = labels.length) ∧
      (∀ l ∈ labels, l ∈ removed → clpOf labels clp l = 0) ∧
      (groupKey option = "variable_projection" → ∀ c' : Vec, c'.length = labels.length →
        (∀ l ∈ labels, l ∈ removed → clpOf labels c' l = 0) →
          sumSq res ≤ sumSq (residual (weightMatrix w matrix) (weightData w data) c')) ∧
      (groupKey option = "non_negative_least_squares" → (∀ z ∈ clp, 0 ≤ z) ∧
        ∀ c' : Vec, c'.length = labels.length → (∀ z ∈ c', 0 ≤ z) →
          (∀ l ∈ labels, l ∈ removed → clpOf labels c' l = 0) →
            sumSq res ≤ sumSq (residual (weightMatrix w matrix) (weightData w data) c')) := by
  have hnc := Provider.prepared_ncols labels removed w matrix hrows hne
  have hwf : WF (preparedMatrix labels removed w matrix).2 (weightData w data) :=
    ⟨fun r hr => by rw [hnc]; exact Provider.prepared_rows labels removed w matrix hrows r hr, hy⟩
  obtain ⟨out, h1, h2, h3, h4⟩ :=
    dispatched_kernel_optimal (groupKey option) k hk dgeqrf nnls _ _ x hwf hq hd hs hkkt
  have hlen : out.1.length = (preparedMatrix labels removed w matrix).1.length := by
    rw [← hnc]
    cases k with
    | vp =>
      simp only [calculateResidual, Option.some.injEq] at h1
      have := (vp_orthogonal dgeqrf _ _ hq hd hy).2
      rw [h1] at this
      simp only [isNormalSol, Bool.and_eq_true, beq_iff_eq] at this
      exact this.1
    | nnls =>
      obtain ⟨out', g1, _, g3, _⟩ := nnls_optimal_partial nnls _ _ x hwf hs hkkt
      simp only [calculateResidual] at h1
      rw [h1] at g1
      cases g1
      simp only [isKKT, Bool.and_eq_true, beq_iff_eq] at g3
      exact g3.1.1.1
  exact Provider.estimate_optimal option k hk hasItems labels removed w dgeqrf nnls matrix data hnd hflag
    ⟨out, h1, h2, hlen, h3, h4⟩

/-- non-vacuity of the hypotheses of `estimate_optimal`: labels `a`, `b` with `b` removed, weights (2, 1, 2): the kernel
    sees the 3×1 matrix (2, 1, 2)ᵀ, which has the exact Householder factorisation `r₁₁ = −3`, `v = (1, 1/5, 2/5)`,
    `τ = 5/3`; the normalised NNLS problem has the KKT point 1 -/
example :
    (preparedMatrix ["a", "b"] ["b"] (some [2, 1, 2]) [[1, 5], [1, 6], [1, 7]]).2 = [[2], [1], [2]] ∧
    weightData (some [2, 1, 2]) [3, 3, 3] = [6, 3, 6] ∧
    isQRof [[-3], [1/5], [2/5]] [5/3] [[2], [1], [2]] = true ∧ diagNonzero [[-3], [1/5], [2/5]] (ncols [[2], [1], [2]]) = true ∧
    nnlsExact (scaleColumns [[2], [1], [2]] (columnScales [[2], [1], [2]])) (([6, 3, 6] : Vec).map (· / scaleOf [6, 3, 6])) = some [1] ∧
    isKKT (scaleColumns [[2], [1], [2]] (columnScales [[2], [1], [2]])) (([6, 3, 6] : Vec).map (· / scaleOf [6, 3, 6])) [1] = true ∧
    estimateAt none true ["a", "b"] ["b"] (some [2, 1, 2]) (fun _ => ([[-3], [1/5], [2/5]], [5/3])) nnlsExact
      [[1, 5], [1, 6], [1, 7]] [3, 3, 3] = .ok [3, 0] [0, 0, 0] := by
  decide +kernel

/-- non-vacuity: three labels, the middle one removed by a constraint, weights (2, 1, 1): the kernel sees the 3×2 matrix
    of the labels `a`, `c`; the clp come back as `(a, 0, c)` -/
example : preparedMatrix ["a", "b", "c"] ["b"] (some [2, 1, 1]) [[1, 5, 0], [0, 7, 1], [1, 9, 1]] =
      (["a", "c"], [[2, 0], [0, 1], [1, 1]]) ∧
    estimateAt (some "non_negative_least_squares") true ["a", "b", "c"] ["b"] (some [2, 1, 1])
      (fun _ => ([], [])) nnlsExact [[1, 5, 0], [0, 7, 1], [1, 9, 1]] [1, 2, 3] = .ok [1, 0, 2] [0, 0, 0] := by
  decide +kernel

/-- **A group that does not set `residual_function` uses the default of `DatasetGroupModel` (regenerated from the
    source), which dispatches to variable projection**: the estimation is the one of the key
    `"variable_projection"`, i.e. `residualVP` on the prepared problem -/
theorem default_key_dispatch (hasItems : Bool) (labels removed : List String) (w : Option Vec)
    (dgeqrf : Mat → Mat × Vec) (nnls : Mat → Vec → Option Vec) (matrix : Mat) (data : Vec) :
    groupKey none = Generated.defaultResidualFunction ∧
    dispatch Generated.residualFunctions (groupKey none) = .ok .vp ∧
    estimateAt none hasItems labels removed w dgeqrf nnls matrix data =
      estimateAt (some "variable_projection") hasItems labels removed w dgeqrf nnls matrix data ∧
    estimateAt none hasItems labels removed w dgeqrf nnls matrix data =
      .ok (retrieveClps hasItems labels (preparedMatrix labels removed w matrix).1
             (residualVP dgeqrf (preparedMatrix labels removed w matrix).2 (weightData w data)).1)
          (residualVP dgeqrf (preparedMatrix labels removed w matrix).2 (weightData w data)).2 :=
  Provider.default_key_dispatch hasItems labels removed w dgeqrf nnls matrix data

example : groupKey none = "variable_projection" ∧ groupKey (some "non_negative_least_squares") = "non_negative_least_squares" := by
  decide
/-! ### end of the EstimationProvider glue -/

end Glotaran.C01
