/-
C17 — models, schemes, datasets and results survive persistence.
Property theorems only (helpers: GlotaranProofs/Lemmas/C17*.lean).  All statements are about the
definitions of GlotaranModel/C17.lean that the protocol driver executes, for all inputs (labels, trees,
interval fields, paths, prior source_path states, table shapes of any size).
-/
import GlotaranProofs.Lemmas.C17
import GlotaranProofs.Lemmas.C17Ascii
import GlotaranProofs.Lemmas.C17Path
import GlotaranProofs.Lemmas.C17Tree
import GlotaranProofs.Lemmas.C17Scheme
namespace Glotaran.C17

/-! ## the text constants: generated from the source, run by the regex machine

`tupleWordMatch`, `wordFindall`, `sciRest`, `renderKey` — the definitions every theorem below and the protocol
driver use — run the patterns of glotaran/utils/regex.py, applied the way glotaran/utils/sanitize.py applies
them, and the f-string of `save_model`, all regenerated from the working tree on every run
(`GlotaranModel/Generated/C17.lean`).  The four theorems of this section pin what these constants compute; an edit
of a pattern (a repeat `+` → `*`, a widened or narrowed class, greedy ↔ lazy, an anchor, `match` ↔ `fullmatch`),
of the template, or anything the translator cannot express (`untranslatable`) breaks them. -/

/-- **`rp.tuple_word.match(s)`** — the generated pattern run by the backtracking engine — holds exactly when `s`
    starts with `(`, one character of `[.\s\w]`, any characters of `[,.\s\w]` and then `)` -/
theorem generated_tuple_word_eq_model (s : Str) : tupleWordMatch s = tupleWordMatchDet s := tupleWordMatch_eq_det s

example : tupleWordMatch "(s1, s2) trailing".toList = true ∧ tupleWordMatch "(s-1, s2)".toList = false ∧
    tupleWordMatch "x(s1, s2)".toList = false ∧ tupleWordMatch "()".toList = false := by
  simp only [generated_tuple_word_eq_model]; decide

/-- **`rp.word.findall(s)`** — the generated pattern scanned over `s` with CPython's `findall` rules — is the list
    of maximal runs of word characters -/
theorem generated_word_eq_model (s : Str) : wordFindall s = wordRunsAux s [] := wordFindall_eq_det s

example : wordFindall "(s1, s_2)x".toList = ["s1".toList, "s_2".toList, "x".toList] ∧ wordFindall "(, )".toList = [] := by
  simp only [generated_word_eq_model]; decide

/-- **`rp.number_scientific.fullmatch(s)`** — the generated pattern, all repeats greedy, with the engine's
    backtracking, accepted only at the end of the string (the way `convert_scientific_to_float` applies it since the
    repair fixes/C17/C17-scientific-fullmatch.patch) — answers `some []` exactly when the whole string is
    sign? digits* (`.`? digits+) `[eE]` sign? digits+ and `none` for every other string (`sciRestDet`); a number-like
    prefix is not a match any more -/
theorem generated_number_scientific_eq_model (s : Str) : sciRest s = sciRestDet s := sciRest_eq_det s

example : sciRest "1e3".toList = some [] ∧ sciRest "-.5E-3".toList = some [] ∧ sciRest "-.5E-3x".toList = none ∧
    sciRest "12.e5".toList = none ∧ sciRest "1.5".toList = none ∧ sciRest "e5".toList = none ∧
    sciRest "12e+5.5".toList = none ∧ sciRest "1e3x".toList = none ∧ sciRest "12.5e+05".toList = some [] := by
  simp only [generated_number_scientific_eq_model]; decide

/-- **The scientific-notation conversion of the loader is total** (the repair): for every string value,
    `convert_scientific_to_float` returns the float when the whole string is a scientific-notation number
    (`sciFullDet`, the closed form of `generated_number_scientific_eq_model`) and the string itself otherwise — it
    never raises, so no string value can make `load_model` fail in `sanity_scientific_notation_conversion`.
    (Before the repair — `match` instead of `fullmatch` — a string with a number-like prefix such as `1e3x`
    reached `float()` and raised ValueError: the branch `some _ => none` of `sciConv`, now unreachable.) -/
theorem scientific_conversion_total (s : Str) :
    sciConv (.str s) = (if sciFullDet s then some (.sci s) else some (.str s)) ∧ sciConv (.str s) ≠ none := by
  refine ⟨sciConv_str s, ?_⟩
  have h := sciConv_str_total s
  intro hn
  rw [hn] at h
  exact absurd h (by decide)

example : sciFullDet "1e3".toList = true ∧ sciFullDet "1e3x".toList = false ∧ sciFullDet "12e+5.5".toList = false := by decide

example : sciConv (.str "1e3x".toList) = some (.str "1e3x".toList) ∧ sciConv (.str "1e3".toList) = some (.sci "1e3".toList) ∧
    sciConv (.str "12e+5.5".toList) = some (.str "12e+5.5".toList) := by
  have h : sciFullDet "1e3".toList = true ∧ sciFullDet "1e3x".toList = false ∧ sciFullDet "12e+5.5".toList = false := by decide
  refine ⟨?_, ?_, ?_⟩
  · rw [(scientific_conversion_total _).1, h.2.1]; rfl
  · rw [(scientific_conversion_total _).1, h.1]; rfl
  · rw [(scientific_conversion_total _).1, h.2.2]; rfl

/-- **the f-string of `save_model`** renders a tuple key by its first two elements as `(a, b)`, a string key by its
    first two characters, and raises (IndexError) on anything shorter -/
theorem generated_render_eq_model (a b : Str) (r : List Str) (x y : Char) (k : Str) :
    renderKey (.t (a :: b :: r)) = some (renderPair a b) ∧
    renderKey (.s (x :: y :: k)) = some (renderPair [x] [y]) ∧
    renderKey (.t [a]) = none ∧ renderKey (.t []) = none ∧ renderKey (.s [x]) = none ∧ renderKey (.s []) = none := by
  refine ⟨renderKey_pair a b r, ?_, ?_, ?_, ?_, ?_⟩ <;>
    simp [renderKey, keyElems, Generated.renderTemplate, Regex.renderWith, renderPair]

example : renderKey (.t ["s1".toList, "s2".toList]) = some "(s1, s2)".toList := by
  rw [(generated_render_eq_model _ _ [] 'x' 'y' []).1]; decide

/-! ## tuple keys: `save_model` renders, `sanitize_dict_keys` parses -/

/-- **A K-matrix key of two labels made of word characters survives `save_model` → `load_model`**:
    the rendered text is recognised as a tuple key and `word.findall` returns exactly the two labels. -/
theorem tuple_key_roundtrip (a b : Str) (ha : IsLabel a) (hb : IsLabel b) :
    (Key.s (renderPair a b)).tupleLike = true ∧ (Key.s (renderPair a b)).sanitized = Key.t [a, b] := by
  exact ⟨tupleWordMatch_render a b ha hb, by simp [Key.sanitized, wordFindall_render a b ha hb]⟩

example : (Key.s (renderPair "s1".toList "species_2".toList)).sanitized = Key.t ["s1".toList, "species_2".toList] := by
  simp only [Key.sanitized, generated_word_eq_model]; decide

/-- **…and only such keys do**: the round trip gives the key back iff both labels are non-empty words.
    (Full statement "every pair of labels round-trips" is false: `tuple_key_roundtrip_counterexample`.) -/
theorem tuple_key_roundtrip_iff (a b : Str) :
    ((Key.s (renderPair a b)).tupleLike = true ∧ (Key.s (renderPair a b)).sanitized = Key.t [a, b])
      ↔ (IsLabel a ∧ IsLabel b) := by
  constructor
  · rintro ⟨_, h⟩
    simp only [Key.sanitized, Key.t.injEq] at h
    have hl := wordFindall_labels (renderPair a b)
    rw [h] at hl
    exact ⟨hl a (by simp), hl b (by simp)⟩
  · rintro ⟨ha, hb⟩
    exact tuple_key_roundtrip a b ha hb

example : IsLabel "s1".toList ∧ IsLabel "9".toList := by decide

/-- the witness replayed on the real code on every run (corpus/C17/tuple-key-dot.json):
    compartments `s.2`, `a` come back as the 3-tuple `('s', '2', 'a')` -/
theorem tuple_key_roundtrip_counterexample :
    (Key.s (renderPair "s.2".toList "a".toList)).tupleLike = true ∧
    (Key.s (renderPair "s.2".toList "a".toList)).sanitized = Key.t ["s".toList, "2".toList, "a".toList] ∧
    (Key.s (renderPair "s-1".toList "a".toList)).tupleLike = false := by
  simp only [Key.sanitized, Key.tupleLike, generated_word_eq_model, generated_tuple_word_eq_model]; decide

/-! ## the whole specification: `save_model` → yml file → `load_model` -/

/-- **A model specification comes back unchanged** (python tuples as lists, which is all the yaml
    transport changes): for every tree of the shape `Model.as_dict()` produces — a dict of collections
    (lists of items or dicts label → item), items with arbitrary nested property values, tuple-keyed dicts
    (K-matrices) of any size as property values — whose tuple keys are pairs of labels, whose string keys
    do not look like tuples and none of whose strings is a scientific-notation number in full
    (`noSci`: `number_scientific.fullmatch` fails — a label `1e3x` or `2e5_data` is fine since the repair
    fixes/C17/C17-scientific-fullmatch.patch, a label `1e3` is not),
    `save_model` succeeds and `sanitize_yaml` of the written file is the original tree.
    (The three excluded input classes are recorded findings; their witnesses:
    `tuple_key_roundtrip_counterexample`, `model_spec_roundtrip_excluded`.  What stays excluded on the
    scientific-notation side is exactly the strings that ARE such numbers in full: `save_model` writes them quoted,
    but the loader converts every string value that fully matches, on purpose — hand-written `1E7` values.) -/
theorem model_spec_roundtrip (m : Y) (hc : cleanModel m = true) (hs : noSci m = true) :
    roundTrip m = some (yamlT m) := by
  match m, hc with
  | .map kvs, hc =>
    obtain ⟨ws, hws, hsan, _⟩ := kv_level saveColl kvs (KV.allB_imp (fun _ hk => hk) restores_cleanColl kvs hc)
    have hsci := sciConv_noSci _ (noSci_yamlT _ hs)
    simp only [yamlT] at hsci
    simp only [roundTrip, saveModel, saveCollsKV_eq, hws, Option.map_some, Option.bind_some, yamlT, loadSpec,
      sanKeys, hsan, hsci]

/-- a small model with a K-matrix, an interval tuple, a nested parameter label, unset optionals -/
def exampleModel : Y :=
  .map (.cons (.s "k_matrix".toList) (.map (.cons (.s "km1".toList) (.map
          (.cons (.s "label".toList) (.str "km1".toList)
          (.cons (.s "matrix".toList) (.map
            (.cons (.t ["s2".toList, "s1".toList]) (.str "kin.rates.1".toList)
            (.cons (.t ["s2".toList, "s2".toList]) (.str "kin.rates.2".toList) .nil))) .nil))) .nil))
       (.cons (.s "clp_constraints".toList) (.seq (.cons (.map
          (.cons (.s "interval".toList) (.tup (.cons (.atom "1".toList) (.cons (.atom "20".toList) .nil)))
          (.cons (.s "target".toList) (.str "s1".toList)
          (.cons (.s "scale".toList) (.atom "None".toList) .nil)))) .nil)) .nil))

example : cleanModel exampleModel = true ∧ noSci exampleModel = true := by decide
example : roundTrip exampleModel = some (yamlT exampleModel) := by rfl

/-- witnesses of the excluded classes (each replayed on the real code on every run): a compartment `1e3` — a
    string that is a scientific-notation number in full, the only kind of string still converted — becomes the
    float 1000.0; a string key `(s5)` of a str-keyed dict becomes the tuple `('s5',)`; a malformed tuple key next
    to a well-formed one is silently dropped.  Regression of the repair (second component): `1e3x`, which made
    the loader raise ValueError before `fullmatch`, is no longer excluded — it is left alone. -/
theorem model_spec_roundtrip_excluded :
    sciConv (.str "1e3".toList) = some (.sci "1e3".toList) ∧
    -- before the repair this raised (`= none`): number_scientific.match accepted the prefix, float("1e3x") failed
    sciConv (.str "1e3x".toList) = some (.str "1e3x".toList) ∧
    sanEntry (.map (.cons (.s "(s5)".toList) (.str "sh1".toList) .nil))
      = .map (.cons (.t ["s5".toList]) (.str "sh1".toList) .nil) ∧
    -- a K-matrix with one well-formed and one malformed key loses the malformed entry
    sanEntry (.map (.cons (.s "(s1, s2)".toList) (.str "k.1".toList) (.cons (.s "(s-1, s2)".toList) (.str "k.2".toList) .nil)))
      = .map (.cons (.t ["s1".toList, "s2".toList]) (.str "k.1".toList) .nil) := by
  refine ⟨?_, ?_, ?_, ?_⟩
  · simp only [sciConv, sciRest_eq_det]; rfl
  · simp only [sciConv, sciRest_eq_det]; rfl
  · simp only [sanEntry, sanKeysKV, newOfKV, newOfAcc, Key.tupleLike, Key.sanitized, tupleWordMatch_eq_det, wordFindall_eq_det]; rfl
  · simp only [sanEntry, sanKeysKV, newOfKV, newOfAcc, Key.tupleLike, Key.sanitized, tupleWordMatch_eq_det, wordFindall_eq_det]; rfl

/-! ## interval fields -/

/-- **An `interval` attribute means the same before and after the yaml round trip** (tuples come back
    as lists), for every python value of the attribute — also malformed ones, where both raise — and
    every index. -/
theorem interval_roundtrip_same_semantics (f : IvField) (i : Option Rat) :
    applies f.toYaml i = applies f i := by
  cases f with
  | none => rfl
  | tup xs =>
    cases i with
    | none => rfl
    | some i => simp [IvField.toYaml, applies, firstIsNum_toYaml, singleApplies_toYaml, anyApplies_toYaml]
  | lst xs =>
    cases i with
    | none => rfl
    | some i => simp [IvField.toYaml, applies, firstIsNum_toYaml, singleApplies_toYaml, anyApplies_toYaml]

/-- regression (D14): before the repair the list form of a single interval raised, the tuple form did not -/
example : appliesOld (IvField.tup [.num (.fin 1), .num (.fin 20)]) (some 3) = some true ∧
          appliesOld (IvField.tup [.num (.fin 1), .num (.fin 20)]).toYaml (some 3) = none ∧
          applies (IvField.tup [.num (.fin 1), .num (.fin 20)]).toYaml (some 3) = some true := by decide

/-- membership in one interval given in either order, with infinite bounds -/
def inInterval (lo hi : EB) (i : Rat) : Bool :=
  (EB.le lo (.fin i) && EB.le (.fin i) hi) || (EB.le hi (.fin i) && EB.le (.fin i) lo)

/-- a well-formed attribute: one pair, or a list of pairs (each pair a tuple or a list) -/
inductive IvField.WellFormed : IvField → List (EB × EB) → Prop
  | single_tup (lo hi) : WellFormed (.tup [.num lo, .num hi]) [(lo, hi)]
  | single_lst (lo hi) : WellFormed (.lst [.num lo, .num hi]) [(lo, hi)]
  | nil : WellFormed (.lst []) []
  | cons_tup (lo hi) {es ps} : WellFormed (.lst es) ps → firstIsNum es = false →
      WellFormed (.lst (.tup [lo, hi] :: es)) ((lo, hi) :: ps)
  | cons_lst (lo hi) {es ps} : WellFormed (.lst es) ps → firstIsNum es = false →
      WellFormed (.lst (.lst [lo, hi] :: es)) ((lo, hi) :: ps)

private theorem containsBounds_spec (lo hi : EB) (i : Rat) :
    containsBounds [lo, hi] i = some (inInterval lo hi i) := by
  cases lo <;> cases hi <;> simp [containsBounds, inInterval, EB.lt, EB.le] <;> grind

private theorem applies_lst_of_not_num (es : List IvElem) (hf : firstIsNum es = false) (i : Rat) :
    applies (.lst es) (some i) = anyApplies es i := by
  simp [applies, hf]

/-- **A well-formed interval attribute never raises and applies exactly to the indices inside one of its
    (unordered) intervals.** -/
theorem interval_wellformed_defined (f : IvField) (ps : List (EB × EB)) (i : Rat) (h : f.WellFormed ps) :
    applies f (some i) = some (ps.any (fun p => inInterval p.1 p.2 i)) := by
  induction h with
  | single_tup lo hi => simp [applies, firstIsNum, singleApplies, containsBounds_spec]
  | single_lst lo hi => simp [applies, firstIsNum, singleApplies, containsBounds_spec]
  | nil => simp [applies, firstIsNum, anyApplies]
  | cons_tup lo hi hw hf ih =>
    rw [applies_lst_of_not_num _ hf] at ih
    rw [applies_lst_of_not_num _ (by rfl)]
    simp only [anyApplies, elemApplies, containsBounds_spec, List.any_cons]
    cases inInterval lo hi i <;> simp [ih]
  | cons_lst lo hi hw hf ih =>
    rw [applies_lst_of_not_num _ hf] at ih
    rw [applies_lst_of_not_num _ (by rfl)]
    simp only [anyApplies, elemApplies, containsBounds_spec, List.any_cons]
    cases inInterval lo hi i <;> simp [ih]

example : (IvField.lst [.tup [.fin 1, .fin 2], .lst [.pinf, .fin 5]]).WellFormed [(.fin 1, .fin 2), (.pinf, .fin 5)] :=
  .cons_tup _ _ (.cons_lst _ _ .nil rfl) rfl

/-! ## paths, result folder, scheme files -/

/-- **A reference computed by `os.path.relpath` leads back to the file**: resolving
    `base / relpath(source, base)` gives the resolved source, for all paths (absolute, relative, with "..")
    and every current directory. -/
theorem relpath_resolves (cwd : List Str) (src base : PPath) :
    resolveP cwd (joinP base (relpath cwd src base)) = resolveP cwd src := by
  have hP := resolveP_noDD cwd src
  obtain ⟨htake, hiS, hiP⟩ := commonPrefixLen_spec (resolveP cwd base) (resolveP cwd src)
  simp only [relpath]
  rw [resolveP_joinP_rel, normStack_append, normStack_ups]
  rw [normStack_noDD _ _ (fun p hp => hP p (List.mem_of_mem_drop hp))]
  generalize hi : commonPrefixLen (resolveP cwd base) (resolveP cwd src) = i at *
  generalize resolveP cwd base = S at *
  generalize resolveP cwd src = P at *
  have h1 : (S.reverse.drop (S.length - i)) = (S.take i).reverse := by
    rw [List.reverse_take]
  rw [h1, htake]
  simp [← List.reverse_append, List.take_append_drop]

example : relativePosixPath ["tmp".toList, "x".toList] "out/run 1/model.yml".toList (some "out/run 1".toList) = "model.yml".toList := by
  decide

/-- **Every reference written by `save_result` into `result.yml` and `scheme.yml` is the plain name of a
    file inside the result folder** — whatever the `source_path` of the components was before (loaded
    from / saved to anywhere, relative or absolute), whatever the current directory and the target
    (relative, absolute, nested, with ".."), with or without data filter and report. -/
theorem refs_relative_to_result_folder (cwd : List Str) (resultPath : Str) (report filtered : Bool)
    (pfmt dfmt : Str) (s : Srcs) (hp : '/' ∉ pfmt)
    (hd : ∀ l ∈ s.data.map Prod.fst, PlainName (dataName dfmt l)) :
    (saveResult cwd resultPath report filtered pfmt dfmt s).resultRefs = canonResultRefs pfmt dfmt (s.data.map Prod.fst) ∧
    (saveResult cwd resultPath report filtered pfmt dfmt s).schemeRefs = canonSchemeRefs pfmt dfmt (s.data.map Prod.fst) := by
  have hf := resultFolder_norm resultPath
  have hrel := fun n hn => rel_inFolder cwd (resultFolder resultPath) n hf hn
  have h1 := hrel (strOf "scheme.yml") (by decide)
  have h2 := hrel (strOf "model.yml") (by decide)
  have h3 := hrel (strOf "parameter_history.csv") (by decide)
  have h4 := hrel (strOf "optimization_history.csv") (by decide)
  have h5 := hrel (strOf "initial_parameters." ++ pfmt) (plain_prefixed _ _ (by decide) hp (by decide))
  have h6 := hrel (strOf "optimized_parameters." ++ pfmt) (plain_prefixed _ _ (by decide) hp (by decide))
  have h7 := map_rel_data cwd (resultFolder resultPath) hf dfmt s.data hd
  simp only [resultFolder] at h1 h2 h3 h4 h5 h6 h7
  simp only [saveResult, canonResultRefs, canonSchemeRefs, h1, h2, h3, h4, h5, h6, h7]
  exact ⟨trivial, trivial⟩

/-- **The references do not depend on the history of the result**: two saves of results with the same
    dataset labels write the same references, whatever was loaded / saved before, wherever, from whatever
    current directory. -/
theorem refs_independent_of_history (cwd cwd' : List Str) (resultPath resultPath' : Str)
    (report report' filtered filtered' : Bool) (pfmt dfmt : Str) (s s' : Srcs) (hp : '/' ∉ pfmt)
    (hl : s.data.map Prod.fst = s'.data.map Prod.fst)
    (hd : ∀ l ∈ s.data.map Prod.fst, PlainName (dataName dfmt l)) :
    (saveResult cwd resultPath report filtered pfmt dfmt s).resultRefs
      = (saveResult cwd' resultPath' report' filtered' pfmt dfmt s').resultRefs ∧
    (saveResult cwd resultPath report filtered pfmt dfmt s).schemeRefs
      = (saveResult cwd' resultPath' report' filtered' pfmt dfmt s').schemeRefs := by
  obtain ⟨a, b⟩ := refs_relative_to_result_folder cwd resultPath report filtered pfmt dfmt s hp hd
  obtain ⟨a', b'⟩ := refs_relative_to_result_folder cwd' resultPath' report' filtered' pfmt dfmt s' hp (hl ▸ hd)
  rw [a, b, a', b', hl]
  exact ⟨rfl, rfl⟩

/-- **The result folder can be moved**: every reference of `result.yml` / `scheme.yml` is a plain name,
    names a file this very `save_result` wrote into the folder, and — resolved against *any* folder
    `F'` from any current directory, as `load_result` does — leads to the entry of that name directly
    inside `F'`. -/
theorem folder_movable (cwd : List Str) (resultPath : Str) (report filtered : Bool)
    (pfmt dfmt : Str) (s : Srcs) (hp : '/' ∉ pfmt)
    (hd : ∀ l ∈ s.data.map Prod.fst, PlainName (dataName dfmt l)) :
    ∀ fr ∈ (saveResult cwd resultPath report filtered pfmt dfmt s).resultRefs
            ++ (saveResult cwd resultPath report filtered pfmt dfmt s).schemeRefs,
      PlainName fr.2 ∧
      (∃ tag, (inFolder (resultFolder resultPath) fr.2, tag) ∈ (saveResult cwd resultPath report filtered pfmt dfmt s).files) ∧
      ∀ (cwd' : List Str) (F' : Str), refTarget cwd' F' fr.2 = resolveP cwd' (parsePath F') ++ [fr.2] := by
  obtain ⟨a, b⟩ := refs_relative_to_result_folder cwd resultPath report filtered pfmt dfmt s hp hd
  rw [a, b]
  have hI : PlainName (strOf "initial_parameters." ++ pfmt) := plain_prefixed _ _ (by decide) hp (by decide)
  have hO : PlainName (strOf "optimized_parameters." ++ pfmt) := plain_prefixed _ _ (by decide) hp (by decide)
  have key : ∀ name, PlainName name →
      (∃ tag, (inFolder (resultFolder resultPath) name, tag) ∈ (saveResult cwd resultPath report filtered pfmt dfmt s).files) →
      PlainName name ∧
      (∃ tag, (inFolder (resultFolder resultPath) name, tag) ∈ (saveResult cwd resultPath report filtered pfmt dfmt s).files) ∧
      ∀ (cwd' : List Str) (F' : Str), refTarget cwd' F' name = resolveP cwd' (parsePath F') ++ [name] :=
    fun name hn hm => ⟨hn, hm, fun cwd' F' => refTarget_plain cwd' F' name hn⟩
  intro fr hfr
  simp only [canonResultRefs, canonSchemeRefs, List.mem_append, List.mem_cons, List.mem_map, List.not_mem_nil, or_false] at hfr
  have hdata : ∀ l ∈ s.data.map Prod.fst,
      ∃ tag, (inFolder (resultFolder resultPath) (dataName dfmt l), tag) ∈ (saveResult cwd resultPath report filtered pfmt dfmt s).files := by
    intro l hl
    obtain ⟨tag, ht⟩ := mem_files_of_data (resultFolder resultPath) dfmt filtered s.data l hl
    refine ⟨tag, ?_⟩
    rw [saveResult_files]
    exact List.mem_append_left _ (List.mem_append_right _ ht)
  have hfiles := saveResult_files cwd resultPath report filtered pfmt dfmt s
  rcases hfr with ((h | h | h | h | h) | ⟨l, hl, h⟩) | ((h | h) | ⟨l, hl, h⟩) <;> subst h
  · exact key _ (by decide) ⟨strOf "scheme", by rw [hfiles]; simp⟩
  · exact key _ hI ⟨strOf "initial_parameters", by rw [hfiles]; simp⟩
  · exact key _ hO ⟨strOf "optimized_parameters", by rw [hfiles]; simp⟩
  · exact key _ (by decide) ⟨strOf "parameter_history", by rw [hfiles]; simp⟩
  · exact key _ (by decide) ⟨strOf "optimization_history", by rw [hfiles]; simp⟩
  · exact key _ (hd l (List.mem_map.mpr hl)) (hdata l (List.mem_map.mpr hl))
  · exact key _ (by decide) ⟨strOf "model", by rw [hfiles]; simp⟩
  · exact key _ hI ⟨strOf "initial_parameters", by rw [hfiles]; simp⟩
  · exact key _ (hd l (List.mem_map.mpr hl)) (hdata l (List.mem_map.mpr hl))

/-- **`save_scheme` → `load_scheme` finds a component again** if the component was saved under an
    absolute path or below the folder of the scheme file (partial: the full statement, for every
    source path, is false — `scheme_refs_counterexample`). -/
theorem scheme_refs_partial (cwd : List Str) (hc : NormParts cwd) (schemePath src : Str)
    (h : SourceOK cwd (schemeFolder schemePath) src) :
    refTarget cwd (schemeFolder schemePath).asPosix
        (relativePosixPath cwd src (some (schemeFolder schemePath).asPosix))
      = resolveP cwd (parsePath src) := by
  have hf : (schemeFolder schemePath).Norm := parent_norm _ (parsePath_norm _)
  have hcond : ((parsePath src).abs || isProperPrefix (resolveP cwd (schemeFolder schemePath)) (resolveP cwd (parsePath src))) = true := by
    rcases h with h | h <;> simp [h]
  simp only [relativePosixPath, refTarget]
  rw [parsePath_asPosix _ hf, if_pos hcond, parsePath_asPosix _ (relpath_norm cwd _ _ hc (parsePath_norm src))]
  exact relpath_resolves cwd _ _

/-- the references `save_scheme` writes are exactly `relative_posix_path` of the components' source paths -/
theorem saveSchemeRefs_eq (cwd : List Str) (schemePath model params : Str) (data : List (Str × Str)) :
    saveSchemeRefs cwd schemePath model params data =
      ([(strOf "model", model), (strOf "parameters", params)] ++ data.map (fun x => (strOf "data:" ++ x.1, x.2))).map
        (fun x => (x.1, relativePosixPath cwd x.2 (some (schemeFolder schemePath).asPosix))) := by
  simp [saveSchemeRefs, schemeFolder, List.map_map, Function.comp_def]

example : SourceOK ["w".toList] (schemeFolder "in/s.yml".toList) "in/sub/m.yml".toList := by unfold SourceOK; decide
example : NormParts ["tmp".toList, "c17-x".toList, "w".toList] := by unfold NormParts NormPart; decide

/-- the witness replayed on the real code on every run (corpus/C17/scheme-ref-relative.json): in directory
    `/w`, model saved as `out/m.yml`, scheme saved as `in/s.yml`: the scheme file says `model: out/m.yml`,
    which `load_scheme` resolves to `/w/in/out/m.yml` -/
theorem scheme_refs_counterexample :
    relativePosixPath ["w".toList] "out/m.yml".toList (some (schemeFolder "in/s.yml".toList).asPosix) = "out/m.yml".toList ∧
    refTarget ["w".toList] (schemeFolder "in/s.yml".toList).asPosix "out/m.yml".toList
      = ["w".toList, "in".toList, "out".toList, "m.yml".toList] ∧
    resolveP ["w".toList] (parsePath "out/m.yml".toList) = ["w".toList, "out".toList, "m.yml".toList] := by decide

/-- non-vacuity: a result whose components were loaded from / saved to other places before (relative,
    absolute, stale result folder), saved with a data filter to a nested relative folder from `/tmp/x` -/
example :
    let s : Srcs := { scheme := "in/myscheme.yml".toList, model := "in/m.yml".toList, params := "/abs/p.csv".toList,
                      initParams := "initial_parameters.csv".toList, initShared := false, optParams := "old/optimized_parameters.csv".toList,
                      paramHist := "parameter_history.csv".toList, optHist := "optimization_history.csv".toList,
                      data := [("d1".toList, "old/d1.nc".toList), ("ds 2".toList, "/abs/ds 2.nc".toList)] }
    ('/' ∉ "csv".toList) ∧ (∀ l ∈ s.data.map Prod.fst, PlainName (dataName "nc".toList l)) ∧
    (saveResult ["tmp".toList, "x".toList] "out/a/../run 1".toList true true "csv".toList "nc".toList s).resultRefs
      = canonResultRefs "csv".toList "nc".toList ["d1".toList, "ds 2".toList] := by decide

/-! ## file names derived from dataset labels (`save_result`, folder plugin) -/

/-- **Distinct dataset labels get distinct files, and the reference stored for a label leads to that label's own
    file** — for every result whose dataset labels contain no path separator (with the netCDF format this is exactly
    "the file name `<label>.nc` is a plain name": dots, leading dots, blanks, case are all fine), every target,
    every prior `source_path` state: (1) the paths handed to the dataset writer are pairwise different for different
    labels; (2) the reference `save_result` writes for a label, resolved against the result folder from any current
    directory, is the resolved path of the file written for that label.
    (Partial: for labels with `/` the statement is false — `dataset_filenames_counterexample`.) -/
theorem dataset_filenames_injective_partial (cwd : List Str) (resultPath : Str) (report filtered : Bool) (pfmt : Str) (s : Srcs)
    (hl : ∀ l ∈ s.data.map Prod.fst, '/' ∉ l) :
    (∀ x ∈ (saveResult cwd resultPath report filtered pfmt (strOf "nc") s).srcs.data,
      ∀ y ∈ (saveResult cwd resultPath report filtered pfmt (strOf "nc") s).srcs.data, x.2 = y.2 → x.1 = y.1) ∧
    (∀ x ∈ (saveResult cwd resultPath report filtered pfmt (strOf "nc") s).srcs.data, ∀ cwd' : List Str,
      refTarget cwd' (resultFolder resultPath).asPosix (dataName (strOf "nc") x.1) = resolveP cwd' (parsePath x.2)) := by
  rw [saveResult_data]
  constructor
  · intro x hx y hy hxy
    simp only [List.mem_map] at hx hy
    obtain ⟨a, ha, rfl⟩ := hx
    obtain ⟨b, hb, rfl⟩ := hy
    exact dataFile_injective resultPath _ _ _
      (plain_dataName_nc _ (hl _ (List.mem_map.mpr ⟨a, ha, rfl⟩)))
      (plain_dataName_nc _ (hl _ (List.mem_map.mpr ⟨b, hb, rfl⟩))) hxy
  · intro x hx cwd'
    simp only [List.mem_map] at hx
    obtain ⟨a, ha, rfl⟩ := hx
    have hp := plain_dataName_nc _ (hl _ (List.mem_map.mpr ⟨a, ha, rfl⟩))
    rw [refTarget_plain _ _ _ hp, resolve_dataFile _ _ _ _ hp]

example : ∀ l ∈ ["sample.470nm".toList, "sample.530nm".toList, ".x".toList, "a b".toList], '/' ∉ l := by decide

/-- the witness replayed on the real code on every run (corpus/C17/dataset-label-path-collision.json): the labels
    `a/b` and `a//b` are written to the same file `out/a/b.nc` -/
theorem dataset_filenames_counterexample :
    dataFile "out".toList "nc".toList "a/b".toList = "out/a/b.nc".toList ∧
    dataFile "out".toList "nc".toList "a//b".toList = "out/a/b.nc".toList := by decide

/-! ## explicit ascii files -/

section Ascii
variable {α : Type}

/-- the values of the DataArray have the shape its dims and coordinates announce -/
def DA.Shaped (d : DA α) : Prop :=
  if d.timeFirst then d.values.length = d.times.length ∧ Rect d.values d.spectral.length
  else d.values.length = d.spectral.length ∧ Rect d.values d.times.length

private theorem timeSpectral_shape (d : DA α) (h : d.Shaped) :
    d.timeSpectral.length = d.times.length ∧ Rect d.timeSpectral d.spectral.length := by
  unfold DA.Shaped at h
  unfold DA.timeSpectral
  split
  · rename_i htf; simpa [htf] using h
  · rename_i htf
    simp only [htf, Bool.false_eq_true, if_false] at h
    refine ⟨transposeN_length _ _, ?_⟩
    rw [← h.1]
    exact transposeN_rect _ _ h.2

/-- entry (t, s) of the (time × spectral) view is the value the DataArray holds for that time and
    that spectral point, whichever way round it is stored -/
theorem ascii_timeSpectral_entry (d : DA α) (h : d.Shaped) (t s : Nat) (ht : t < d.times.length) :
    entry d.timeSpectral t s = if d.timeFirst then entry d.values t s else entry d.values s t := by
  unfold DA.Shaped at h
  unfold DA.timeSpectral
  split
  · rfl
  · rename_i htf
    simp only [htf, Bool.false_eq_true, if_false] at h
    exact transposeN_entry d.values d.times.length s t h.2 ht

/-- **Writing a DataArray as a time- or wavelength-explicit file and reading it back gives the same
    axes and, for every (time, spectral) pair, the same value, for both file formats and both dimension
    orders of the input and any (also non-square) shape.**  `rnd` is the number format of the data
    rows (the secondary axis is part of those rows; the explicit axis is written with `repr`). -/
theorem ascii_orientation (fmt : Fmt) (d : DA α) (rnd : α → α) (h : d.Shaped) :
    asciiRead (asciiWrite fmt d rnd) =
      match fmt with
      | .timeExplicit => (d.times, d.spectral.map rnd, d.timeSpectral.map (·.map rnd))
      | .wavelengthExplicit => (d.times.map rnd, d.spectral, d.timeSpectral.map (·.map rnd)) := by
  obtain ⟨hlen, hrect⟩ := timeSpectral_shape d h
  have hobs : transposeN (transposeN d.timeSpectral d.spectral.length) d.times.length = d.timeSpectral := by
    rw [← hlen]; exact transposeN_transposeN _ _ hrect
  have hobsLen : (transposeN d.timeSpectral d.spectral.length).length = d.spectral.length := transposeN_length _ _
  cases fmt with
  | wavelengthExplicit =>
    simp only [asciiWrite, asciiRead]
    rw [transposeN_cons _ _ _ rfl, hobs, zipWith_cons_map]
    rw [zipWith_cons_heads _ _ (by simp [hlen]), zipWith_cons_tails _ _ (by simp [hlen])]
  | timeExplicit =>
    simp only [asciiWrite, asciiRead]
    rw [hobs, transposeN_cons _ _ _ rfl, zipWith_cons_map]
    rw [zipWith_cons_heads _ _ (by simp [hobsLen]), zipWith_cons_tails _ _ (by simp [hobsLen])]
    rw [transposeN_map, hobs]

example : (DA.Shaped ({ timeFirst := false, times := [0, 1, 2], spectral := [5, 6], values := [[1, 2, 3], [4, 5, 6]] } : DA Nat)) := by
  simp [DA.Shaped, Rect]

/-- non-vacuity + regression (D17): a non-square (spectral, time) array, both formats -/
example :
    let d : DA Nat := { timeFirst := false, times := [0, 1, 2], spectral := [5, 6], values := [[1, 2, 3], [4, 5, 6]] }
    asciiRead (asciiWrite .timeExplicit d id) = ([0, 1, 2], [5, 6], [[1, 4], [2, 5], [3, 6]]) ∧
    asciiRead (asciiWrite .wavelengthExplicit d id) = ([0, 1, 2], [5, 6], [[1, 4], [2, 5], [3, 6]]) := by decide

end Ascii

/-! ## scheme.yml / result.yml: the dataclass ↔ yml mapping

The field tables `Generated.schemeFields` / `Generated.resultFields` are `dataclasses.fields` of the live classes
(regenerated on every run, `Generated/C17Scheme.lean`), `asdictZ` / `fromdict` are `glotaran.project.dataclass_helpers`,
`emitPV` / `resolveTok` what ruamel (YAML 1.2) writes and resolves. -/

/-- **Every scalar the declared types admit is written and comes back as the same python value of the same type**:
    None as `null`, bools as `true` / `false`, ints of any size in decimal (resolved as int, not float), floats in the
    text of python's `repr` — `1e-08`, `1.5e-07`, `1e+20`, `0.001`, `.inf`, `.nan`: resolved as *float* by the 1.2
    resolver without any `.0` and without the scientific-notation sanitiser of `load_model` —, strings plain or quoted
    (a string that a plain scalar would not give back as a string — `'1e3'`, `'null'`, `'true'`, `'5'`, `''` — is
    quoted, for whatever other reasons `ps` the emitter quotes), lists of strings; what ruamel has no representer for
    (numpy scalars) raises (`emitPV ps (.other _) = none`). -/
theorem yaml_scalar_roundtrip (ps : Str → Bool) (v : PV) (h : pvWritable v = true) :
    ∃ y, emitPV ps v = some y ∧ loadNode y = v := scalar_roundtrip ps v h

example : pvWritable (.flt "1e-08".toList) = true ∧ yKind "1e-08".toList = .float ∧ yKind "1.0".toList = .float ∧
    yKind "1".toList = .int ∧ yKind "-.inf".toList = .float ∧ yKind "nearest".toList = .rest ∧
    strTok (fun _ => true) "1e3".toList = .quoted "1e3".toList ∧ strTok (fun _ => true) "null".toList = .quoted "null".toList ∧
    emitPV (fun _ => true) (.other "numpy.float64".toList) = none ∧
    resolveTok (.plain "123456789012345678901234567890".toList) = .int 123456789012345678901234567890 := by decide

/-- **The field table of the live `Scheme` class is one `asdict` / `fromdict` can carry**: distinct names, every
    written field has a yaml type (float, int, bool, str, a `Literal` of strings, `… | None`, `list[str]`) and is an
    `__init__` argument, and `save_scheme` / `load_scheme` are `asdict` / `fromdict` relative to the folder of the file.
    A new field of another type, a renamed helper or a changed folder argument re-opens this theorem. -/
theorem scheme_table_wellformed :
    tableOK Generated.schemeFields = true ∧ Generated.schemeSaveShape = .asdictParentFolder ∧
    Generated.schemeLoadShape = .fromdictParentFolder "Scheme" := by decide

/-- the same for the live `Result` class; the keys `load_result` renames (old names) are not field names, and
    `save_result` overrides exactly the `scheme` and `initial_parameters` references, both file-loadable fields -/
theorem result_table_wellformed :
    tableOK Generated.resultFields = true ∧ Generated.resultLoadShape = .fromdictParentFolder "Result" ∧
    Generated.saveResultOverrides = some ["scheme", "initial_parameters"] ∧
    (∀ r ∈ Generated.loadResultRenames, (Generated.resultFields.map (·.name)).contains r.1 = false) ∧
    (∀ f ∈ Generated.resultFields, f.name = "scheme" ∨ f.name = "initial_parameters" → f.kind = .fileOne) := by decide

/-- **`save_scheme` → scheme.yml → `load_scheme`**: for every scheme whose option fields hold values their declared
    types admit (tolerances any float incl. `1e-08`, inf; `maximum_number_function_evaluations` None or any int;
    `add_svd`; the `Literal` strings; `result_path` None or any string) and whose model / parameters / datasets carry
    any source paths, writing succeeds and the loaded scheme has the same option values (same type: an int stays an int,
    `1.0` stays a float), `source_path` / `loader` at their defaults, and for every component the reference
    `relative_posix_path(source_path, folder of the file)` (which leads back to the file under `scheme_refs_partial`). -/
theorem scheme_spec_roundtrip (ps : Str → Bool) (cwd : List Str) (file : Str) (vs : List FV)
    (hc : conformsZ Generated.schemeFields vs = true) :
    (saveSchemeDoc ps cwd file vs).bind loadSchemeDoc
      = some (loadedZ cwd (some (parentFolder file)) Generated.schemeFields vs) := by
  have h := spec_roundtrip_generic ps cwd (some (parentFolder file)) Generated.schemeFields vs scheme_table_wellformed.1 hc
  cases he : emitDoc ps (asdictZ cwd (some (parentFolder file)) Generated.schemeFields vs) with
  | none => rw [he] at h; simp at h
  | some d =>
    rw [he] at h
    simp only [Option.bind_some] at h
    simp only [saveSchemeDoc, loadSchemeDoc, scheme_table_wellformed.2.1, scheme_table_wellformed.2.2, he, Option.bind_some]
    simpa using h

/-- a scheme with the default tolerances, a function evaluation limit, components saved next to / below / outside -/
def exampleScheme : List FV :=
  [.comp (some "in/model.yml".toList), .comp (some "/abs/p.csv".toList), .comps [("d1".toList, "in/data/d1.nc".toList)],
   .pv (.flt "0.0".toList), .pv (.str "nearest".toList), .pv (.int 25), .pv (.bool true),
   .pv (.flt "1e-08".toList), .pv (.flt "1.5e-07".toList), .pv (.flt "0.001".toList),
   .pv (.str "Levenberg-Marquardt".toList), .pv .none, .hidden, .hidden]

example : conformsZ Generated.schemeFields exampleScheme = true := by decide

/-- **`save_result` (the result.yml part) → `load_result`**: for every result whose statistics hold values their declared
    types admit (ints, `float | None` incl. nan / inf, bool, strings, the list of free parameter labels), with
    `scheme` / `initial_parameters` referring to the files this save wrote (`sc`, `sp`), the loaded result has the same
    values bit for bit (the float *text* is python's `repr`, which identifies the double), None for the excluded arrays
    (`cost`, `jacobian`, `covariance_matrix`, `additional_penalty`), and the references of `refs_relative_to_result_folder`;
    the old key names `load_result` still accepts never occur in a written file. -/
theorem result_spec_roundtrip (ps : Str → Bool) (cwd : List Str) (folder sc sp : Str) (vs : List FV)
    (hc : conformsZ Generated.resultFields vs = true) :
    (saveResultDoc ps cwd folder sc sp vs).bind loadResultDoc
      = some (loadedZ cwd (some folder) Generated.resultFields
          (setSrc "initial_parameters" sp Generated.resultFields (setSrc "scheme" sc Generated.resultFields vs))) := by
  obtain ⟨hT, hL, hO, hR, hK⟩ := result_table_wellformed
  have hc' : conformsZ Generated.resultFields
      (setSrc "initial_parameters" sp Generated.resultFields (setSrc "scheme" sc Generated.resultFields vs)) = true :=
    conformsZ_setSrc _ _ _ _ (fun f hf hn => hK f hf (Or.inr hn))
      (conformsZ_setSrc _ _ _ _ (fun f hf hn => hK f hf (Or.inl hn)) hc)
  have h := spec_roundtrip_generic ps cwd (some folder) Generated.resultFields _ hT hc'
  rw [emitDoc_asdict ps cwd (some folder) _ _ hc'] at h
  simp only [Option.bind_some] at h
  simp only [saveResultDoc, loadResultDoc, hO, hL, emitDoc_asdict ps cwd (some folder) _ _ hc', Option.bind_some]
  rw [foldl_renameKey_id _ _ (fun r hr => lookup_docOf_none ps cwd (some folder) _ _ r.1 (hR r hr))]
  simpa using h

/-- statistics of a converged and of a failed optimisation -/
def exampleResult : List FV :=
  [.pv (.int 7), .pv (.bool true), .pv (.str "`ftol` termination condition is satisfied.".toList), .pv (.str "0.7.2".toList),
   .pv (.strs ["k.1".toList, "irf.center".toList]), .comp (some "scheme.yml".toList), .comp (some "old/initial_parameters.csv".toList),
   .comp (some "/abs/out/optimized_parameters.csv".toList), .comp (some "out/parameter_history.csv".toList),
   .comp (some "out/optimization_history.csv".toList), .comps [("d1".toList, "out/d1.nc".toList)], .hidden, .hidden,
   .pv (.flt "8.674768301156866e-07".toList), .hidden, .pv (.int 93), .pv (.int 6), .hidden, .pv (.int 100), .pv (.int 5), .pv (.int 1),
   .pv (.flt "1e-08".toList), .pv (.flt ".nan".toList), .pv .none, .hidden, .hidden]

example : conformsZ Generated.resultFields exampleResult = true := by decide

end Glotaran.C17
