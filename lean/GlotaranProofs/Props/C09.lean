/-
C09 — CLP linking aligns global axes faithfully.  Property theorems only
(helper lemmas: GlotaranProofs/Lemmas/C09.lean, C09Result.lean, C09C02.lean).  The statements are about
the model `Glotaran.C09` of `DataProviderLinked` (after fix D2) and of the residual part of
`EstimationProviderLinked.get_result` (after fix D27), and — last section — about the second model of the
same alignment inside `Glotaran.C02` (the one the drivers of C02, C03, C08, C13, C14 execute), which is
proved equal to the first.  All for axes, targets and dataset lists of any length, any rational tolerance
and every method.
-/
import GlotaranProofs.Lemmas.C09
import GlotaranProofs.Lemmas.C09C02
import GlotaranProofs.Lemmas.C09Result
import GlotaranProofs.Lemmas.C09Gen
import GlotaranProofs.Lemmas.C03
namespace Glotaran.C09

/-! ## `align_index` -/

/-- no already aligned point lies within the tolerance on the permitted side of `x` -/
def NoneWithin (m : Method) (target : List Rat) (tol x : Rat) : Prop :=
  ∀ t ∈ target, sideOK m t x → tol < |t - x|

/-- `r` is an already aligned point within the tolerance, on the permitted side of `x`, and no
    permitted aligned point is nearer to `x` -/
def LinkedTo (m : Method) (target : List Rat) (tol x r : Rat) : Prop :=
  r ∈ target ∧ sideOK m r x ∧ |r - x| ≤ tol ∧ ∀ s ∈ target, sideOK m s x → |r - x| ≤ |s - x|

/-- **Specification of `align_index`.**  The result is the point itself — and then nothing
    permitted was within the tolerance — or a target point within the tolerance, on the
    permitted side, nearest among the permitted ones. -/
theorem alignIndex_spec (x : Rat) (target : List Rat) (tol : Rat) (m : Method) :
    (alignIndex x target tol m = x ∧ NoneWithin m target tol x) ∨
      LinkedTo m target tol x (alignIndex x target tol m) := by
  unfold alignIndex
  split
  · rename_i hnone
    left
    refine ⟨rfl, ?_⟩
    intro t ht hs
    have hempty := (firstMin_eq_none _).mp hnone
    have : (t, t - x) ∈ candidates m target x := (mem_candidates m target x _).mpr ⟨t, ht, hs, rfl⟩
    rw [hempty] at this
    cases this
  · rename_i b hb
    have hmem := firstMin_mem _ b hb
    have hmin := firstMin_le _ b hb
    obtain ⟨t, ht, hs, rfl⟩ := (mem_candidates m target x b).mp hmem
    simp only [absR_eq_abs] at hmin ⊢
    split
    · rename_i htol
      right
      refine ⟨ht, hs, htol, ?_⟩
      intro s hs' hside
      exact hmin (s, s - x) ((mem_candidates m target x _).mpr ⟨s, hs', hside, rfl⟩)
    · rename_i htol
      left
      refine ⟨rfl, ?_⟩
      intro s hs' hside
      have := hmin (s, s - x) ((mem_candidates m target x _).mpr ⟨s, hs', hside, rfl⟩)
      exact lt_of_lt_of_le (not_le.mp htol) this

/-- **A point is linked exactly when that is possible**: `align_index` returns a target point
    satisfying `LinkedTo` iff some target point lies within the tolerance on the permitted
    side; otherwise the point stays itself. -/
theorem alignIndex_links_iff_possible (x : Rat) (target : List Rat) (tol : Rat) (m : Method) :
    ((∃ t ∈ target, sideOK m t x ∧ |t - x| ≤ tol) → LinkedTo m target tol x (alignIndex x target tol m)) ∧
    ((¬ ∃ t ∈ target, sideOK m t x ∧ |t - x| ≤ tol) → alignIndex x target tol m = x) := by
  rcases alignIndex_spec x target tol m with ⟨h1, h2⟩ | h
  · constructor
    · rintro ⟨t, ht, hs, hle⟩
      exact absurd hle (not_le.mpr (h2 t ht hs))
    · intro _; exact h1
  · constructor
    · intro _; exact h
    · intro hno
      exact absurd ⟨_, h.1, h.2.1, h.2.2.1⟩ hno

-- the hypotheses are satisfiable, and the old D2 witnesses now give the right answers
example : alignIndex (11/2) [1, 5, 6] 1 .forward = 6 := by decide +kernel
example : alignIndex (11/2) [6, 1, 5] 1 .backward = 5 := by decide +kernel
example : alignIndex (11/2) [1, 5, 6] 1 .nearest = 5 := by decide +kernel   -- tie: first minimum
example : alignIndex (11/2) [1, 5, 6] (1/4) .nearest = 11/2 := by decide +kernel
example : alignIndex 7 [1, 5, 6] 1 .forward = 7 := by decide +kernel          -- nothing forward
example : LinkedTo .forward [1, 5, 6] 1 (11/2) 6 := by
  refine ⟨by simp, by simp [sideOK]; norm_num, by norm_num [abs_le], ?_⟩
  intro s hs hside
  simp only [List.mem_cons, List.not_mem_nil, or_false] at hs
  rcases hs with rfl | rfl | rfl
  · exact absurd hside (by simp [sideOK]; norm_num)
  · exact absurd hside (by simp [sideOK]; norm_num)
  · exact le_refl _

/-- the code before fix D2 (kept only for the regression example below): the argmin of the
    *filtered* differences indexes the *unfiltered* axis -/
def alignIndexBeforeD2 (x : Rat) (target : List Rat) (tol : Rat) (m : Method) : Rat :=
  let diff := ((target.map (· - x)).filter (keep m)).map absR
  match diff.zipIdx.foldr (fun p best => match best with
      | none => some p
      | some b => if p.1 ≤ b.1 then some p else some b) none with
  | none => x
  | some b => if b.1 ≤ tol then target.getD b.2 x else x

/-- regression (D2): the old code linked 5.5 to 1 under "forward" with tolerance 1 — a point on
    the wrong side and out of tolerance; the specification excludes it. -/
example : alignIndexBeforeD2 (11/2) [1, 5, 6] 1 .forward = 1 ∧
    ¬ ((1 : Rat) = 11/2 ∧ NoneWithin .forward [1, 5, 6] 1 (11/2)) ∧
    ¬ LinkedTo .forward [1, 5, 6] 1 (11/2) 1 := by
  refine ⟨by decide +kernel, ?_, ?_⟩
  · rintro ⟨h, _⟩; norm_num at h
  · rintro ⟨_, hs, _⟩; simp [sideOK] at hs; norm_num at hs

/-- **Alignment preserves the order of a dataset's axis** (weakly): `x₁ < x₂` are never linked
    to aligned points in the opposite order. -/
theorem alignIndex_mono (target : List Rat) (tol : Rat) (m : Method) (x₁ x₂ : Rat) (hx : x₁ < x₂) :
    alignIndex x₁ target tol m ≤ alignIndex x₂ target tol m := by
  by_contra hlt
  have hlt := not_le.mp hlt
  rcases alignIndex_spec x₁ target tol m with ⟨e1, n1⟩ | l1 <;>
    rcases alignIndex_spec x₂ target tol m with ⟨e2, n2⟩ | l2
  · rw [e1, e2] at hlt; exact lt_asymm hx hlt
  · -- x₁ stays, x₂ is linked to t₂ < x₁
    rw [e1] at hlt
    set t₂ := alignIndex x₂ target tol m
    obtain ⟨hm, hs, htol, _⟩ := l2
    have hside : sideOK m t₂ x₁ := by
      cases m
      · trivial
      · exact le_of_lt hlt
      · exact absurd (lt_of_le_of_lt hs hlt) (lt_asymm hx)
    have := n1 t₂ hm hside
    rw [abs_of_neg (by linarith)] at this
    rw [abs_of_neg (by linarith)] at htol
    linarith
  · -- x₁ is linked to t₁ > x₂, x₂ stays
    rw [e2] at hlt
    set t₁ := alignIndex x₁ target tol m
    obtain ⟨hm, hs, htol, _⟩ := l1
    have hside : sideOK m t₁ x₂ := by
      cases m
      · trivial
      · exact absurd (lt_of_lt_of_le hlt hs) (lt_asymm hx)
      · exact le_of_lt hlt
    have := n2 t₁ hm hside
    rw [abs_of_pos (by linarith)] at this
    rw [abs_of_pos (by linarith)] at htol
    linarith
  · set t₁ := alignIndex x₁ target tol m
    set t₂ := alignIndex x₂ target tol m
    obtain ⟨hm1, hs1, _, hn1⟩ := l1
    obtain ⟨hm2, hs2, _, hn2⟩ := l2
    cases m
    · have a := hn1 t₂ hm2 trivial
      have b := hn2 t₁ hm1 trivial
      rcases abs_cases (t₁ - x₁) with ⟨e1, _⟩ | ⟨e1, _⟩ <;>
        rcases abs_cases (t₂ - x₁) with ⟨e2, _⟩ | ⟨e2, _⟩ <;>
        rcases abs_cases (t₂ - x₂) with ⟨e3, _⟩ | ⟨e3, _⟩ <;>
        rcases abs_cases (t₁ - x₂) with ⟨e4, _⟩ | ⟨e4, _⟩ <;>
        rw [e1, e2] at a <;> rw [e3, e4] at b <;> linarith
    · -- backward: t₁ ≤ x₁ < x₂, so t₁ is permitted for x₂ and nearer than t₂
      have hs1' : t₁ ≤ x₁ := hs1
      have hs2' : t₂ ≤ x₂ := hs2
      have b := hn2 t₁ hm1 (show t₁ ≤ x₂ by linarith)
      rw [abs_of_nonpos (by linarith), abs_of_nonpos (by linarith)] at b
      linarith
    · have hs1' : x₁ ≤ t₁ := hs1
      have hs2' : x₂ ≤ t₂ := hs2
      have a := hn1 t₂ hm2 (show x₁ ≤ t₂ by linarith)
      rw [abs_of_nonneg (by linarith), abs_of_nonneg (by linarith)] at a
      linarith

/-- **Order preservation per dataset**: on a strictly increasing dataset axis, an alignment
    that merges no two points is strictly increasing — so the k-th aligned point of a dataset
    is the aligned point of its k-th original coordinate. -/
theorem alignment_order_preserving (ax target : List Rat) (tol : Rat) (m : Method)
    (hax : ax.Pairwise (· < ·)) (hnd : (ax.map (fun x => alignIndex x target tol m)).Nodup) :
    (ax.map (fun x => alignIndex x target tol m)).Pairwise (· < ·) := by
  have hle : (ax.map (fun x => alignIndex x target tol m)).Pairwise (· ≤ ·) :=
    List.pairwise_map.mpr (hax.imp (fun h => alignIndex_mono target tol m _ _ h))
  exact (hle.and hnd).imp (fun h => lt_of_le_of_ne h.1 h.2)

example : ([(1:Rat)/2, 11/2].map (fun x => alignIndex x [1, 5, 6] 1 .forward)) = [1, 6] := by
  decide +kernel

/-! ## `create_aligned_global_axes` -/

/-- what the property statement allows for one point `x` given the already aligned points:
    `r` is `x` itself (and nothing permitted is within tolerance) or the nearest permitted
    already aligned point within tolerance -/
def AssignedOK (m : Method) (tol : Rat) (aligned : List Rat) (x r : Rat) : Prop :=
  (r = x ∧ NoneWithin m aligned tol x) ∨ LinkedTo m aligned tol x r

private theorem assignedOK_congr (m : Method) (tol : Rat) (t₁ t₂ : List Rat) (x r : Rat)
    (h : ∀ v, v ∈ t₁ ↔ v ∈ t₂) : AssignedOK m tol t₁ x r → AssignedOK m tol t₂ x r := by
  rintro (⟨e, n⟩ | ⟨hm, hs, ht, hn⟩)
  · exact Or.inl ⟨e, fun t ht => n t ((h t).mpr ht)⟩
  · exact Or.inr ⟨(h r).mp hm, hs, ht, fun s hs' => hn s ((h s).mpr hs')⟩

/-- the points already aligned when the next dataset is processed (`aligned_axis_values`) -/
def accOf : List (List Rat) → List Rat
  | [] => []
  | a :: rest => accAfter a rest

/-- **The accumulated axis is exactly the set of points assigned so far.** -/
theorem accumulated_axis_is_union (al : List (List Rat)) (v : Rat) :
    v ∈ accOf al ↔ v ∈ al.flatten := by
  cases al with
  | nil => simp [accOf]
  | cons a rest => simp [accOf, mem_accAfter]

/-- **Every point is assigned to itself or to the nearest permitted already-aligned point.**
    On success the first dataset keeps its axis verbatim, and for every later dataset `d`
    and every point `x = axes[d][j]` the assigned point `al[d][j]` satisfies the statement
    with "already aligned points" = all points assigned for datasets `0 … d-1`. -/
theorem assignment_is_self_or_nearest_aligned (tol : Rat) (m : Method) (axes al : List (List Rat))
    (h : createAlignedAxes tol m axes = some al) :
    al.length = axes.length ∧ al.head? = axes.head? ∧
    ∀ d ax, 0 < d → axes[d]? = some ax → ∃ row, al[d]? = some row ∧ row.length = ax.length ∧
      ∀ (j : Nat) (x : Rat), ax[j]? = some x → ∃ r, row[j]? = some r ∧ AssignedOK m tol (al.take d).flatten x r := by
  obtain ⟨hlen, hhead, hspec⟩ := createAlignedAxes_spec tol m axes al h
  refine ⟨hlen, hhead, ?_⟩
  intro d ax hd hax
  obtain ⟨tgt, hmem, hrow, _⟩ := hspec d ax hd hax
  refine ⟨_, hrow, by simp, ?_⟩
  intro j x hx
  refine ⟨alignIndex x tgt tol m, by simp [hx], ?_⟩
  exact assignedOK_congr m tol tgt _ x _ hmem (alignIndex_spec x tgt tol m)

/-- **No two points of one dataset are merged, or the alignment is refused.** -/
theorem injective_per_dataset_or_error (tol : Rat) (m : Method) (axes : List (List Rat)) :
    createAlignedAxes tol m axes = none ∨
    ∃ al, createAlignedAxes tol m axes = some al ∧
      ∀ d row, 0 < d → al[d]? = some row → row.Nodup := by
  cases h : createAlignedAxes tol m axes with
  | none => exact Or.inl rfl
  | some al =>
    right
    refine ⟨al, rfl, ?_⟩
    obtain ⟨hlen, _, hspec⟩ := createAlignedAxes_spec tol m axes al h
    intro d row hd hrow
    have hdl : d < axes.length := by
      rw [← hlen]; exact (List.getElem?_eq_some_iff.mp hrow).1
    obtain ⟨tgt, _, hrow', hnd⟩ := hspec d axes[d] hd (List.getElem?_eq_getElem hdl)
    rw [hrow] at hrow'
    cases hrow'
    exact hnd

/-- if moreover the first dataset's own axis has no repeated coordinate, no aligned row has -/
theorem aligned_rows_nodup (tol : Rat) (m : Method) (axes al : List (List Rat))
    (h : createAlignedAxes tol m axes = some al) (h0 : ∀ ax, axes.head? = some ax → ax.Nodup) :
    ∀ row ∈ al, row.Nodup := by
  intro row hrow
  obtain ⟨d, hd⟩ := List.mem_iff_getElem?.mp hrow
  cases d with
  | zero =>
    have hhead := (createAlignedAxes_spec tol m axes al h).2.1
    rw [← List.head?_eq_getElem?] at hd
    exact h0 row (by rw [← hhead]; exact hd)
  | succ d =>
    rcases injective_per_dataset_or_error tol m axes with hn | ⟨al', hal', hnd⟩
    · rw [h] at hn; cases hn
    · rw [h] at hal'; cases hal'
      exact hnd (d + 1) row (by omega) hd

/-- every aligned row has as many points as the dataset's own axis -/
theorem aligned_rows_same_length (tol : Rat) (m : Method) (axes al : List (List Rat))
    (h : createAlignedAxes tol m axes = some al) (d : Nat) :
    (al[d]?).map List.length = (axes[d]?).map List.length := by
  obtain ⟨hlen, hhead, hspec⟩ := assignment_is_self_or_nearest_aligned tol m axes al h
  cases d with
  | zero => rw [← List.head?_eq_getElem?, ← List.head?_eq_getElem?, hhead]
  | succ d =>
    cases hax : axes[d + 1]? with
    | none =>
      have : al[d + 1]? = none := by
        rw [List.getElem?_eq_none_iff] at hax ⊢; omega
      rw [this]
    | some ax =>
      obtain ⟨row, hrow, hl, _⟩ := hspec (d + 1) ax (by omega) hax
      rw [hrow]; simp [hl]

example : ([[1, 5, 6], [1, 3, 6, 10]] : List (List Rat)).map List.length = [[1, 5, 6], [0, 3, 7, (10 : Rat)]].map List.length := by
  decide

/-- **`AlignDatasetError` is raised iff two points of one dataset would be merged**: the
    alignment is refused exactly when, for some dataset `d ≥ 1`, the datasets before it align
    without error and two of its points `j < k` get the same aligned point. -/
theorem error_iff_some_dataset_merges (tol : Rat) (m : Method) (axes : List (List Rat)) :
    createAlignedAxes tol m axes = none ↔
    ∃ d al' ax, 0 < d ∧ createAlignedAxes tol m (axes.take d) = some al' ∧ axes[d]? = some ax ∧
      ∃ (j k : Nat) (hj : j < ax.length) (hk : k < ax.length), j < k ∧
        alignIndex ax[j] (accOf al') tol m = alignIndex ax[k] (accOf al') tol m := by
  cases axes with
  | nil => simp [createAlignedAxes, alignLoop]
  | cons ax0 rest =>
    have hc : ∀ l, createAlignedAxes tol m (ax0 :: l) = (alignLoop tol m (some ax0) l).map (ax0 :: ·) :=
      fun l => rfl
    rw [hc, Option.map_eq_none_iff, alignLoop_none_iff]
    constructor
    · rintro ⟨d, al', ax, hl, hax, hnn⟩
      refine ⟨d + 1, ax0 :: al', ax, by omega, ?_, by simpa using hax, ?_⟩
      · rw [List.take_succ_cons, hc, hl]; rfl
      · exact (not_nodup_map_iff _ ax).mp hnn
    · rintro ⟨d, al'', ax, hd, hl, hax, hm⟩
      cases d with
      | zero => omega
      | succ d =>
        rw [List.take_succ_cons, hc, Option.map_eq_some_iff] at hl
        obtain ⟨al', hl', rfl⟩ := hl
        exact ⟨d, al', ax, hl', by simpa using hax, (not_nodup_map_iff _ ax).mpr hm⟩

-- a refused alignment: both points of the second dataset are within tolerance of 1
example : createAlignedAxes 1 .nearest [[1, 5, 6], [1/2, 3/2]] = none := by decide +kernel
-- an accepted one (the repository's own test axes), tolerance 1, the three methods
example : createAlignedAxes 1 .nearest [[1, 5, 6], [0, 3, 7, 10]] = some [[1, 5, 6], [1, 3, 6, 10]] := by
  decide +kernel
example : createAlignedAxes 1 .backward [[1, 5, 6], [0, 3, 7, 10]] = some [[1, 5, 6], [0, 3, 6, 10]] := by
  decide +kernel
example : createAlignedAxes 1 .forward [[1, 5, 6], [0, 3, 7, 10]] = some [[1, 5, 6], [1, 3, 7, 10]] := by
  decide +kernel
-- regression (D2) through the loop: 5.5 is linked forward to 6, not to 1
example : createAlignedAxes 1 .forward [[1, 5, 6], [11/2, 8]] = some [[1, 5, 6], [6, 8]] := by
  decide +kernel

/-! ## the aligned tables -/

/-- **The aligned axis is strictly increasing** and consists exactly of the assigned points. -/
theorem aligned_axis_strictly_increasing (tol : Rat) (m : Method) (dss : List Dataset) (t : Tables)
    (h : provider tol m dss = some t) :
    t.axis.Pairwise (· < ·) ∧
    ∃ al, createAlignedAxes tol m (dss.map (·.axis)) = some al ∧ t.axis = alignedAxis al ∧
      ∀ v, v ∈ t.axis ↔ v ∈ al.flatten := by
  unfold provider at h
  rw [Option.map_eq_some_iff] at h
  obtain ⟨al, hal, rfl⟩ := h
  exact ⟨unique_sorted _, al, hal, rfl, fun v => mem_unique v _⟩

private theorem mem_members_iff (al : List (List Rat)) (hn : ∀ row ∈ al, row.Nodup) (v : Rat) (d j : Nat) :
    (d, j) ∈ members al v ↔ ∃ row, al[d]? = some row ∧ row[j]? = some v := by
  unfold members
  rw [mem_membersFrom]
  simp only [Nat.zero_le, true_and, Nat.sub_zero]
  constructor
  · rintro ⟨a, ha, hp⟩
    exact ⟨a, ha, (posOf_some_iff v a j (hn a (List.mem_of_getElem? ha))).mp hp⟩
  · rintro ⟨a, ha, hp⟩
    exact ⟨a, ha, (posOf_some_iff v a j (hn a (List.mem_of_getElem? ha))).mpr hp⟩

/-- **Every point of every dataset is assigned to exactly one point of the aligned axis.** -/
theorem assignment_total_unique (al : List (List Rat)) (hn : ∀ row ∈ al, row.Nodup)
    (d j : Nat) (row : List Rat) (x : Rat) (hrow : al[d]? = some row) (hx : row[j]? = some x) :
    ∃! i : Nat, ∃ v, (alignedAxis al)[i]? = some v ∧ (d, j) ∈ members al v := by
  have hxm : x ∈ alignedAxis al := by
    unfold alignedAxis
    rw [mem_unique, List.mem_flatten]
    exact ⟨row, List.mem_of_getElem? hrow, List.mem_of_getElem? hx⟩
  obtain ⟨i, hi⟩ := List.mem_iff_getElem?.mp hxm
  refine ⟨i, ⟨x, hi, (mem_members_iff al hn x d j).mpr ⟨row, hrow, hx⟩⟩, ?_⟩
  rintro i' ⟨v, hv, hmem⟩
  obtain ⟨row', hrow', hx'⟩ := (mem_members_iff al hn v d j).mp hmem
  rw [hrow] at hrow'; cases hrow'
  rw [hx] at hx'; cases hx'
  have hlt : i' < (alignedAxis al).length := (List.getElem?_eq_some_iff.mp hv).1
  exact (List.getElem?_inj hlt (unique_nodup _)).mp (by rw [hv, hi])

/-- **Points share a stacked problem (hence their clps) iff they are assigned to the same
    aligned point.** -/
theorem shares_clp_iff_same_aligned_point (al : List (List Rat)) (hn : ∀ row ∈ al, row.Nodup)
    (d j d' j' : Nat) :
    (∃ v ∈ alignedAxis al, (d, j) ∈ members al v ∧ (d', j') ∈ members al v) ↔
    ∃ row row' x, al[d]? = some row ∧ al[d']? = some row' ∧ row[j]? = some x ∧ row'[j']? = some x := by
  constructor
  · rintro ⟨v, _, h1, h2⟩
    obtain ⟨row, hr, hx⟩ := (mem_members_iff al hn v d j).mp h1
    obtain ⟨row', hr', hx'⟩ := (mem_members_iff al hn v d' j').mp h2
    exact ⟨row, row', v, hr, hr', hx, hx'⟩
  · rintro ⟨row, row', x, hr, hr', hx, hx'⟩
    refine ⟨x, ?_, (mem_members_iff al hn x d j).mpr ⟨row, hr, hx⟩,
      (mem_members_iff al hn x d' j').mpr ⟨row', hr', hx'⟩⟩
    unfold alignedAxis
    rw [mem_unique, List.mem_flatten]
    exact ⟨row, List.mem_of_getElem? hr, List.mem_of_getElem? hx⟩

/-- **Every data column enters the stacked problems exactly once**: the list of (dataset, column)
    pairs stacked over all aligned points has no repetition and contains exactly the columns the
    datasets have; at each aligned point the members are stacked in dataset order. -/
theorem every_column_once (al : List (List Rat)) (hn : ∀ row ∈ al, row.Nodup) :
    (((alignedAxis al).map (members al)).flatten).Nodup ∧
    (∀ d j, (d, j) ∈ ((alignedAxis al).map (members al)).flatten ↔
      ∃ row, al[d]? = some row ∧ j < row.length) ∧
    (∀ d j, (∃ row, al[d]? = some row ∧ j < row.length) →
      (((alignedAxis al).map (members al)).flatten).count (d, j) = 1) ∧
    ∀ v, (members al v).Pairwise (fun p q => p.1 < q.1) := by
  have hsorted : ∀ v, (members al v).Pairwise (fun p q => p.1 < q.1) :=
    fun v => (membersFrom_sorted v al 0).1
  have hmem : ∀ d j, (d, j) ∈ ((alignedAxis al).map (members al)).flatten ↔
      ∃ row, al[d]? = some row ∧ j < row.length := by
    intro d j
    simp only [List.mem_flatten, List.mem_map]
    constructor
    · rintro ⟨_, ⟨v, _, rfl⟩, hm⟩
      obtain ⟨row, hr, hx⟩ := (mem_members_iff al hn v d j).mp hm
      exact ⟨row, hr, (List.getElem?_eq_some_iff.mp hx).1⟩
    · rintro ⟨row, hr, hj⟩
      refine ⟨_, ⟨row[j], ?_, rfl⟩, (mem_members_iff al hn _ d j).mpr ⟨row, hr, List.getElem?_eq_getElem hj⟩⟩
      unfold alignedAxis
      rw [mem_unique, List.mem_flatten]
      exact ⟨row, List.mem_of_getElem? hr, List.getElem_mem hj⟩
  have hnodup : (((alignedAxis al).map (members al)).flatten).Nodup := by
    rw [List.nodup_flatten]
    constructor
    · intro l hl
      obtain ⟨v, _, rfl⟩ := List.mem_map.mp hl
      exact (hsorted v).imp (fun h e => by rw [e] at h; exact lt_irrefl _ h)
    · rw [List.pairwise_map]
      refine (unique_sorted al.flatten).imp ?_
      intro v w hvw
      rw [List.disjoint_left]
      rintro ⟨d, j⟩ h1 h2
      obtain ⟨row, hr, hx⟩ := (mem_members_iff al hn v d j).mp h1
      obtain ⟨row', hr', hx'⟩ := (mem_members_iff al hn w d j).mp h2
      rw [hr] at hr'; cases hr'
      rw [hx] at hx'; cases hx'
      exact lt_irrefl _ hvw
  exact ⟨hnodup, hmem, fun d j h => List.count_eq_one_of_mem hnodup ((hmem d j).mpr h), hsorted⟩

/-- **The aligned points of a dataset come in the order of its own axis**: when every dataset's
    own axis is strictly increasing, the aligned points at which dataset `d` takes part, read off
    the aligned axis in increasing order, are exactly `al[d]` — the aligned points of its first,
    second, … original coordinate (the positional re-labelling of
    `EstimationProviderLinked.get_result` relies on this; see `reported_under_original_coordinate`). -/
theorem member_points_in_axis_order (tol : Rat) (m : Method) (axes al : List (List Rat))
    (h : createAlignedAxes tol m axes = some al) (hs : ∀ ax ∈ axes, ax.Pairwise (· < ·))
    (d : Nat) (row : List Rat) (hrow : al[d]? = some row) :
    row.Pairwise (· < ·) ∧ (alignedAxis al).filter (fun v => decide (v ∈ row)) = row := by
  obtain ⟨hlen, hhead, hspec⟩ := createAlignedAxes_spec tol m axes al h
  have hdl : d < axes.length := by
    rw [← hlen]; exact (List.getElem?_eq_some_iff.mp hrow).1
  have hsorted : row.Pairwise (· < ·) := by
    cases d with
    | zero =>
      rw [← List.head?_eq_getElem?, hhead, List.head?_eq_getElem?] at hrow
      exact hs row (List.mem_of_getElem? hrow)
    | succ d =>
      obtain ⟨tgt, _, hrow', hnd⟩ := hspec (d + 1) axes[d + 1] (by omega) (List.getElem?_eq_getElem hdl)
      rw [hrow] at hrow'; cases hrow'
      exact alignment_order_preserving _ tgt tol m (hs _ (List.getElem_mem hdl)) hnd
  refine ⟨hsorted, sorted_ext ((unique_sorted _).sublist List.filter_sublist) hsorted ?_⟩
  intro v
  simp only [List.mem_filter, decide_eq_true_eq]
  constructor
  · exact fun h => h.2
  · intro hv
    refine ⟨?_, hv⟩
    unfold alignedAxis
    rw [mem_unique, List.mem_flatten]
    exact ⟨row, List.mem_of_getElem? hrow, hv⟩

-- the tables of the repository's own test case (tolerance 1, nearest)
example : alignedAxis [[1, 5, 6], [1, 3, 6, 10]] = [1, 3, 5, 6, 10] := by decide +kernel
example : members [[1, 5, 6], [1, 3, 6, 10]] 6 = [(0, 2), (1, 2)] := by decide +kernel
example : ((alignedAxis [[1, 5, 6], [1, 3, 6, 10]]).map (members [[1, 5, 6], [1, 3, 6, 10]])).flatten
    = [(0, 0), (1, 0), (1, 1), (0, 1), (0, 2), (1, 2), (1, 3)] := by decide +kernel
example : (alignedAxis [[1, 5, 6], [1, 3, 6, 10]]).filter (fun v => decide (v ∈ [1, 3, 6, (10 : Rat)]))
    = [1, 3, 6, 10] := by decide +kernel

/-- **Weights default to ones**: the weight of a stacked problem is absent exactly when none of
    its members is weighted; otherwise it is the members' weight columns stacked in the same order
    as the data, with a column of ones (model-axis size) for every unweighted member.  (The global
    "any dataset is weighted" test of the code is implied.) -/
theorem weights_default_to_ones (dss : List Dataset) (al : List (List Rat)) :
    (tablesOf dss al).weights = (alignedAxis al).map (fun v =>
      if (members al v).any (fun p => (dss.getD p.1 default).weight.isSome)
      then some ((members al v).map (fun p =>
        match (dss.getD p.1 default).weight with
        | none => List.replicate (dss.getD p.1 default).msize 1
        | some w => w.getD p.2 [])).flatten
      else none) ∧
    (tablesOf dss al).data = (alignedAxis al).map (fun v =>
      ((members al v).map (fun p => weightedColumn (dss.getD p.1 default) p.2)).flatten) := by
  refine ⟨?_, by simp [tablesOf, List.map_map, Function.comp_def]⟩
  simp only [tablesOf, List.map_map]
  apply List.map_congr_left
  intro v _
  simp only [Function.comp]
  by_cases hany : (members al v).any (fun p => (dss.getD p.1 default).weight.isSome) = true
  · have hglob : dss.any (fun ds => ds.weight.isSome) = true := by
      rw [List.any_eq_true] at hany ⊢
      obtain ⟨p, _, hp⟩ := hany
      by_cases hlt : p.1 < dss.length
      · refine ⟨dss[p.1], List.getElem_mem hlt, ?_⟩
        simpa [List.getD_eq_getElem?_getD, List.getElem?_eq_getElem hlt] using hp
      · have : dss.getD p.1 default = default := by
          simp [List.getD_eq_getElem?_getD, List.getElem?_eq_none (not_lt.mp hlt)]
        rw [this] at hp
        cases hp
    simp only [hany, hglob, Bool.and_self, if_true]
    congr 2
  · simp only [Bool.not_eq_true] at hany
    rw [hany]
    simp

-- two datasets linked at one point, only the second is weighted: ones for the first
example : (tablesOf [⟨"d1", 2, [1], [[1, 2]], none⟩, ⟨"d2", 1, [1], [[3]], some [[1/2]]⟩] [[1], [1]]).weights
    = [some [1, 1, 1/2]] := by decide +kernel
example : (tablesOf [⟨"d1", 2, [1], [[1, 2]], none⟩, ⟨"d2", 1, [1], [[3]], some [[1/2]]⟩] [[1], [1]]).data
    = [[1, 2, 3/2]] := by decide +kernel

/-! ## results: `EstimationProviderLinked.get_result` cuts the stacked residuals back -/

/-- labels of the datasets present at aligned value `v`, in dataset order -/
def memberLabels (dss : List Dataset) (al : List (List Rat)) (v : Rat) : List String :=
  (members al v).map (fun p => (dss.getD p.1 default).label)

/-- no two aligned points with different member lists get the same concatenated group label
    (`"".join(labels)` is the key of `group_definitions`; C03 records the colliding case as D9b) -/
def GroupLabelsUnambiguous (dss : List Dataset) (al : List (List Rat)) : Prop :=
  ∀ v ∈ alignedAxis al, ∀ w ∈ alignedAxis al,
    String.join (memberLabels dss al v) = String.join (memberLabels dss al w) →
      memberLabels dss al v = memberLabels dss al w

/-- offset of dataset `d`'s block in the stacked vectors of aligned point `v`: the summed
    model-axis sizes of the members stacked before it -/
def blockOffset (dss : List Dataset) (al : List (List Rat)) (v : Rat) (d : Nat) : Nat :=
  (((members al v).takeWhile (fun p => p.1 != d)).map (fun p => (dss.getD p.1 default).msize)).sum

private theorem filterMap_posOf (row : List Rat) (C : Rat → List Rat) : ∀ l : List Rat,
    l.filterMap (fun v => (posOf v row).map (fun j => (j, C v))) =
      (l.filter (fun v => decide (v ∈ row))).map (fun v => ((posOf v row).getD 0, C v)) := by
  intro l
  induction l with
  | nil => rfl
  | cons v l ih =>
    by_cases hv : v ∈ row
    · obtain ⟨j, hj⟩ := (posOf_isSome_iff v row).mpr hv
      simp [hj, hv, ih]
    · simp [posOf_eq_none v row hv, hv, ih]

private theorem tablesOf_labels (dss : List Dataset) (al : List (List Rat)) :
    (tablesOf dss al).labels = (alignedAxis al).map (fun v => String.join (memberLabels dss al v)) := by
  simp [tablesOf, memberLabels, List.map_map, Function.comp_def]

private theorem tablesOf_indices (dss : List Dataset) (al : List (List Rat)) :
    (tablesOf dss al).indices = (alignedAxis al).map (fun v => (members al v).map (·.2)) := by
  simp [tablesOf, List.map_map, Function.comp_def]

private theorem tablesOf_defs (dss : List Dataset) (al : List (List Rat)) :
    (tablesOf dss al).defs = groupDefs [] ((alignedAxis al).map
      (fun v => (String.join (memberLabels dss al v), memberLabels dss al v))) := by
  simp [tablesOf, memberLabels, List.map_map, Function.comp_def, List.zip_map']

/-- **Results are reported under the original coordinate.**  Let the datasets' labels be distinct,
    concatenated group labels unambiguous and the first dataset's own axis free of repeated
    coordinates (for the later ones the refusal guarantees it), and let `R v` be the stacked
    residual of the aligned point `v` (any vectors).  Then the residual columns `get_result`
    reports for dataset `d` are, **in the order of the dataset's own global axis — increasing or
    not** (`row = al[d]` has one aligned point per own coordinate, `(d, j)` is a member of
    `row[j]`), the blocks cut out of the stacked residual **of the aligned point of `(d, j)`** at
    the offset of `d` among the members stacked there: the j-th reported column, which the code
    labels with the dataset's j-th coordinate, comes from `R (al[d][j])` and from nowhere else.
    (Before fix D27 this held for increasing axes only, see the regression example below.) -/
theorem reported_under_original_coordinate (tol : Rat) (m : Method) (dss : List Dataset) (al : List (List Rat))
    (h : createAlignedAxes tol m (dss.map (·.axis)) = some al)
    (h0 : ∀ ds, dss.head? = some ds → ds.axis.Nodup) (hlab : (dss.map (·.label)).Nodup)
    (hjoin : GroupLabelsUnambiguous dss al) (R : Rat → List Rat)
    (d : Nat) (ds : Dataset) (row : List Rat) (hds : dss[d]? = some ds) (hrow : al[d]? = some row) :
    row.length = ds.axis.length ∧
    (∀ j (hj : j < row.length), (d, j) ∈ members al row[j]) ∧
    resultResidual dss (tablesOf dss al) ((alignedAxis al).map R) ds.label =
      row.map (fun v => ((R v).drop (blockOffset dss al v d)).take ds.msize) := by
  have hn : ∀ r ∈ al, r.Nodup := by
    apply aligned_rows_nodup tol m _ al h
    intro ax hax
    rw [List.head?_map] at hax
    cases hh : dss.head? with
    | none => rw [hh] at hax; cases hax
    | some ds0 =>
      rw [hh] at hax
      simp only [Option.map_some, Option.some.injEq] at hax
      exact hax ▸ h0 ds0 hh
  have hlen' : al.length = dss.length := by
    simpa using (assignment_is_self_or_nearest_aligned tol m _ al h).1
  have hdlt : d < dss.length := (List.getElem?_eq_some_iff.mp hds).1
  have hdsmem : ds ∈ dss := List.mem_of_getElem? hds
  have hgetD : dss.getD d default = ds := by simp [List.getD_eq_getElem?_getD, hds]
  have hrn : row.Nodup := hn row (List.mem_of_getElem? hrow)
  refine ⟨?_, ?_, ?_⟩
  · have hl := aligned_rows_same_length tol m _ al h d
    rw [hrow, List.getElem?_map, hds] at hl
    simpa using hl
  · intro j hj
    exact (mem_members_iff al hn _ d j).mpr ⟨row, hrow, List.getElem?_eq_getElem hj⟩
  · unfold resultResidual
    rw [tablesOf_labels, tablesOf_indices, tablesOf_defs, List.zip_map', List.zip_map', List.filterMap_map]
    have hG : ∀ v ∈ alignedAxis al,
        ((fun lir : (String × List Nat) × List Rat => resultPart (msizeOf dss)
            (lookupDef (groupDefs [] ((alignedAxis al).map
              (fun v => (String.join (memberLabels dss al v), memberLabels dss al v)))) lir.1.1)
            lir.1.2 lir.2 ds.label) ∘
          (fun v => ((String.join (memberLabels dss al v), (members al v).map (·.2)), R v))) v =
        (posOf v row).map (fun j => (j, ((R v).drop (blockOffset dss al v d)).take ds.msize)) := by
      intro v hv
      simp only [Function.comp]
      rw [lookupDef_groupDefs, List.nil_append,
        lookupDef_map_first (fun v => String.join (memberLabels dss al v)) (memberLabels dss al)
          (alignedAxis al) v hv (fun u hu he => hjoin u hu v hv he)]
      have hinj : ∀ p ∈ members al v,
          (dss.getD p.1 default).label = (dss.getD d default).label → p.1 = d := by
        intro p hp he
        have hplt : p.1 < dss.length := by rw [← hlen']; exact members_lt al v p hp
        have hnd := List.nodup_iff_injective_getElem.mp hlab
        have e1 : (dss.map (·.label))[p.1]'(by simpa using hplt) = (dss.getD p.1 default).label := by
          simp [List.getD_eq_getElem?_getD, List.getElem?_eq_getElem hplt]
        have e2 : (dss.map (·.label))[d]'(by simpa using hdlt) = (dss.getD d default).label := by
          simp [List.getD_eq_getElem?_getD, List.getElem?_eq_getElem hdlt]
        have := @hnd ⟨p.1, by simpa using hplt⟩ ⟨d, by simpa using hdlt⟩ (by simp only [e1, e2, he])
        exact Fin.mk.inj_iff.mp this
      have hpart := resultPart_members (msizeOf dss) (fun i => (dss.getD i default).label) d (members al v) (R v) hinj
      simp only [hgetD] at hpart
      unfold memberLabels
      rw [hpart, find_members al v d row hrow, Option.map_map]
      have hoff : ((members al v).takeWhile (fun p => p.1 != d)).map
            (fun p => msizeOf dss (dss.getD p.1 default).label) =
          ((members al v).takeWhile (fun p => p.1 != d)).map (fun p => (dss.getD p.1 default).msize) := by
        apply List.map_congr_left
        intro p hp
        have hplt : p.1 < dss.length := by
          rw [← hlen']; exact members_lt al v p ((List.takeWhile_sublist _).subset hp)
        apply msizeOf_label dss hlab
        simp [List.getD_eq_getElem?_getD, List.getElem?_eq_getElem hplt]
      rw [hoff, msizeOf_label dss hlab ds hdsmem]
      rfl
    rw [List.filterMap_congr hG, filterMap_posOf]
    -- the collected parts are a permutation of the parts in own-axis order, whose keys increase
    have hperm : ((alignedAxis al).filter (fun v => decide (v ∈ row))).Perm row := by
      apply (List.perm_ext_iff_of_nodup ((unique_nodup _).filter _) hrn).mpr
      intro v
      simp only [List.mem_filter, decide_eq_true_eq]
      constructor
      · exact fun hv => hv.2
      · intro hv
        refine ⟨?_, hv⟩
        rw [mem_unique, List.mem_flatten]
        exact ⟨row, List.mem_of_getElem? hrow, hv⟩
    have hkeys : (row.map (fun v => ((posOf v row).getD 0,
        ((R v).drop (blockOffset dss al v d)).take ds.msize))).Pairwise (fun a b => a.1 < b.1) := by
      rw [List.pairwise_map, List.pairwise_iff_getElem]
      intro i j hi hj hij
      simp only [posOf_getElem row hrn i hi, posOf_getElem row hrn j hj, Option.getD_some]
      exact hij
    rw [sortByKey_eq_of_perm _ _ (hperm.map _) hkeys, List.map_map]
    rfl

-- non-vacuity: the repository's test axes (tolerance 1, nearest), labels d1/d2, model-axis sizes 2 and 1;
-- the stacked residual of aligned point v is [v, 10 v, 100 v]: d2's four reported columns are cut at
-- offset 2 where d1 is stacked before it (aligned points 1 and 6) and at offset 0 where it is alone
example : GroupLabelsUnambiguous [⟨"d1", 2, [1, 5, 6], [], none⟩, ⟨"d2", 1, [0, 3, 7, 10], [], none⟩]
    [[1, 5, 6], [1, 3, 6, 10]] := by
  intro v hv w hw
  have e : alignedAxis [[1, 5, 6], [1, 3, 6, 10]] = [1, 3, 5, 6, 10] := by decide +kernel
  rw [e] at hv hw
  simp only [List.mem_cons, List.not_mem_nil, or_false] at hv hw
  rcases hv with rfl | rfl | rfl | rfl | rfl <;> rcases hw with rfl | rfl | rfl | rfl | rfl <;> decide +kernel
example : resultResidual [⟨"d1", 2, [1, 5, 6], [], none⟩, ⟨"d2", 1, [0, 3, 7, 10], [], none⟩]
    (tablesOf [⟨"d1", 2, [1, 5, 6], [], none⟩, ⟨"d2", 1, [0, 3, 7, 10], [], none⟩] [[1, 5, 6], [1, 3, 6, 10]])
    ((alignedAxis [[1, 5, 6], [1, 3, 6, 10]]).map (fun v => [v, 10 * v, 100 * v])) "d2"
    = [[100], [3], [600], [10]] := by decide +kernel

-- regression (D27): dataset d1 with the decreasing axis [3, 1] linked with d2 on [2]; the stacked residual of
-- aligned point v is [v].  The old code reported d1's columns in aligned-axis order ([1] under coordinate 3,
-- [3] under coordinate 1); the fixed code reports [3], [1] — the blocks of the aligned points of 3 and 1.
example : createAlignedAxes 0 .nearest [[3, 1], [2]] = some [[3, 1], [2]] ∧
    resultResidualBeforeD27 [⟨"d1", 1, [3, 1], [], none⟩, ⟨"d2", 1, [2], [], none⟩]
      (tablesOf [⟨"d1", 1, [3, 1], [], none⟩, ⟨"d2", 1, [2], [], none⟩] [[3, 1], [2]])
      ((alignedAxis [[3, 1], [2]]).map (fun v => [v])) "d1" = [[1], [3]] ∧
    resultResidual [⟨"d1", 1, [3, 1], [], none⟩, ⟨"d2", 1, [2], [], none⟩]
      (tablesOf [⟨"d1", 1, [3, 1], [], none⟩, ⟨"d2", 1, [2], [], none⟩] [[3, 1], [2]])
      ((alignedAxis [[3, 1], [2]]).map (fun v => [v])) "d1" = [[3], [1]] := by decide +kernel

private theorem split_at_find (d : Nat) : ∀ (ms : List (Nat × Nat)) (q : Nat × Nat),
    ms.find? (fun p => p.1 == d) = some q → ∃ post, ms = ms.takeWhile (fun p => p.1 != d) ++ q :: post := by
  intro ms
  induction ms with
  | nil => intro q h; cases h
  | cons p rest ih =>
    intro q h
    rw [List.find?_cons] at h
    by_cases hp : p.1 = d
    · simp only [hp, beq_self_eq_true, Option.some.injEq] at h
      subst h
      exact ⟨rest, by simp [hp]⟩
    · have hb : (p.1 == d) = false := by simpa using hp
      rw [hb] at h
      obtain ⟨post, hpost⟩ := ih q h
      refine ⟨post, ?_⟩
      have hnb : (p.1 != d) = true := by simpa using hp
      rw [List.takeWhile_cons, hnb]
      simp only [if_true, List.cons_append]
      rw [← hpost]

/-- **…and the block cut is the dataset's own block** (composition with C03's `unstack_stack`):
    if the stacked residual of every aligned point is the concatenation of one block `B e k` per
    member `(e, k)` (of the member's model-axis size, in member order — what `align_data` and the
    solver produce), then the column reported for dataset `d` under its own j-th coordinate is
    exactly `B d j`. -/
theorem reported_block_is_own_block (tol : Rat) (m : Method) (dss : List Dataset) (al : List (List Rat))
    (h : createAlignedAxes tol m (dss.map (·.axis)) = some al)
    (h0 : ∀ ds, dss.head? = some ds → ds.axis.Nodup) (hlab : (dss.map (·.label)).Nodup)
    (hjoin : GroupLabelsUnambiguous dss al) (B : Nat → Nat → List Rat)
    (hB : ∀ e k, (B e k).length = (dss.getD e default).msize)
    (d : Nat) (ds : Dataset) (hds : dss[d]? = some ds) :
    resultResidual dss (tablesOf dss al)
      ((alignedAxis al).map (fun v => ((members al v).map (fun p => B p.1 p.2)).flatten)) ds.label =
      (List.range ds.axis.length).map (B d) := by
  have hdlt : d < dss.length := (List.getElem?_eq_some_iff.mp hds).1
  have hlen := (assignment_is_self_or_nearest_aligned tol m _ al h).1
  have hdal : d < al.length := by rw [hlen]; simpa using hdlt
  have hrow : al[d]? = some al[d] := List.getElem?_eq_getElem hdal
  have hgetD : dss.getD d default = ds := by simp [List.getD_eq_getElem?_getD, hds]
  obtain ⟨hrl, hmem, hres⟩ := reported_under_original_coordinate tol m dss al h h0 hlab hjoin
    (fun v => ((members al v).map (fun p => B p.1 p.2)).flatten) d ds al[d] hds hrow
  have hn : al[d].Nodup := by
    apply aligned_rows_nodup tol m _ al h _ _ (List.getElem_mem hdal)
    intro ax hax
    rw [List.head?_map] at hax
    cases hh : dss.head? with
    | none => rw [hh] at hax; cases hax
    | some ds0 =>
      rw [hh] at hax
      simp only [Option.map_some, Option.some.injEq] at hax
      exact hax ▸ h0 ds0 hh
  rw [hres, ← hrl]
  apply List.ext_getElem
  · simp
  · intro j h1 h2
    have hj : j < al[d].length := by simpa using h1
    simp only [List.getElem_map, List.getElem_range]
    -- the members of the aligned point of (d, j): `pre ++ (d, j) :: post`
    have hfind := find_members al al[d][j] d al[d] hrow
    rw [posOf_getElem al[d] hn j hj] at hfind
    obtain ⟨post, hsplit⟩ := split_at_find d _ _ hfind
    unfold blockOffset
    generalize (members al al[d][j]).takeWhile (fun p => p.1 != d) = pre at hsplit
    rw [hsplit]
    have hunstack := C03.unstack_stack_sum ((pre ++ (d, j) :: post).map (fun p => B p.1 p.2)) pre.length (by simp)
    have htake : ((pre ++ (d, j) :: post).map (fun p => B p.1 p.2)).take pre.length = pre.map (fun p => B p.1 p.2) := by
      rw [List.map_append, List.take_left' (by simp)]
    have hk : ((pre ++ (d, j) :: post).map (fun p => B p.1 p.2))[pre.length]'(by simp) = B d j := by
      simp [List.getElem_append_right]
    rw [htake, hk, hB d j, hgetD] at hunstack
    have hsum : (pre.map (fun p => (dss.getD p.1 default).msize)).sum =
        ((pre.map (fun p => B p.1 p.2)).map List.length).sum := by
      rw [List.map_map]
      congr 1
      apply List.map_congr_left
      intro p _
      exact (hB p.1 p.2).symm
    rw [hsum]
    exact hunstack

-- the same tables: the stacked residual of aligned point v is built from the blocks B e k = [100 e + k] repeated
-- (model-axis size of e); d1 (size 2) gets its three own blocks back, d2 (size 1) its four
example : (List.range 3).map (fun k => List.replicate 2 ((100 : Rat) * 0 + k)) = [[0, 0], [1, 1], [2, 2]] ∧
    resultResidual [⟨"d1", 2, [1, 5, 6], [], none⟩, ⟨"d2", 1, [0, 3, 7, 10], [], none⟩]
    (tablesOf [⟨"d1", 2, [1, 5, 6], [], none⟩, ⟨"d2", 1, [0, 3, 7, 10], [], none⟩] [[1, 5, 6], [1, 3, 6, 10]])
    ((alignedAxis [[1, 5, 6], [1, 3, 6, 10]]).map (fun v => ((members [[1, 5, 6], [1, 3, 6, 10]] v).map
      (fun p => List.replicate (if p.1 = 0 then 2 else 1) ((100 : Rat) * p.1 + p.2))).flatten)) "d1"
    = [[0, 0], [1, 1], [2, 2]] := by decide +kernel

/-! ## the alignment model of C02 (executed by the drivers of C02, C03, C08, C13, C14) is this model

`Glotaran.C02.alignIndex / alignAxes / alignedAxisOf / memberIdx / linkedProblems` are a second,
independently written model of `DataProviderLinked` (left fold with a strict comparison instead of
a right recursion, insertion into the accumulated axis instead of `unique`, `zip`/`idxOf?` instead
of a counter).  The equalities are proved in Lemmas/C09C02.lean; here the property theorems are
transferred to the C02 definitions.  `ofC02`/`toC02` translate the two method enumerations. -/

/-- **The two hand-written models of the alignment are the same functions**, for every input:
    `align_index`, `create_aligned_global_axes` (same aligned axes, same refusal), the aligned
    axis, the members of an aligned point. -/
theorem c02_alignment_model_eq_c09 :
    (∀ x target tol m, C02.alignIndex x target tol m = alignIndex x target tol (ofC02 m)) ∧
    (∀ axes tol m, C02.alignAxes axes tol m = createAlignedAxes tol (ofC02 m) axes) ∧
    (∀ aligned, C02.alignedAxisOf aligned = alignedAxis aligned) ∧
    (∀ aligned v, C02.memberIdx aligned v = members aligned v) ∧
    (∀ m, toC02 (ofC02 m) = m) ∧ (∀ m, ofC02 (toC02 m) = m) :=
  ⟨c02_alignIndex_eq_c09', c02_alignAxes_eq_c09', c02_alignedAxisOf_eq, c02_memberIdx_eq, toC02_ofC02, ofC02_toC02⟩

-- the input on which the two models differed before C02's accumulated axis was made `np.unique` of the
-- concatenation (unsorted first axis, third dataset equally near to 1 and 2): both now link 3/2 to 1, as the code does
example : C02.alignAxes [[3, 1], [2], [3/2]] (1/2) .nearest = some [[3, 1], [2], [1]] ∧
    createAlignedAxes (1/2) .nearest [[3, 1], [2], [3/2]] = some [[3, 1], [2], [1]] := by decide +kernel
example : C02.alignIndex (11/2) [1, 5, 6] 1 .forward = 6 ∧ C02.alignIndex (11/2) [6, 1, 5] 1 .backward = 5 := by
  decide +kernel
example : C02.alignedAxisOf [[1, 5, 6], [1, 3, 6, 10]] = [1, 3, 5, 6, 10] ∧
    C02.memberIdx [[1, 5, 6], [1, 3, 6, 10]] 6 = [(0, 2), (1, 2)] := by decide +kernel

/-- `alignIndex_spec` for C02's `alignIndex` -/
theorem c02_alignIndex_spec (x : Rat) (target : List Rat) (tol : Rat) (m : C02.Method) :
    (C02.alignIndex x target tol m = x ∧ NoneWithin (ofC02 m) target tol x) ∨
      LinkedTo (ofC02 m) target tol x (C02.alignIndex x target tol m) := by
  rw [c02_alignIndex_eq_c09']
  exact alignIndex_spec x target tol (ofC02 m)

/-- `assignment_is_self_or_nearest_aligned` for C02's `alignAxes` -/
theorem c02_assignment_is_self_or_nearest_aligned (tol : Rat) (m : C02.Method) (axes al : List (List Rat))
    (h : C02.alignAxes axes tol m = some al) :
    al.length = axes.length ∧ al.head? = axes.head? ∧
    ∀ d ax, 0 < d → axes[d]? = some ax → ∃ row, al[d]? = some row ∧ row.length = ax.length ∧
      ∀ (j : Nat) (x : Rat), ax[j]? = some x →
        ∃ r, row[j]? = some r ∧ AssignedOK (ofC02 m) tol (al.take d).flatten x r := by
  rw [c02_alignAxes_eq_c09'] at h
  exact assignment_is_self_or_nearest_aligned tol (ofC02 m) axes al h

/-- `injective_per_dataset_or_error` for C02's `alignAxes` (`none` = `AlignDatasetError`) -/
theorem c02_injective_per_dataset_or_error (tol : Rat) (m : C02.Method) (axes : List (List Rat)) :
    C02.alignAxes axes tol m = none ∨
    ∃ al, C02.alignAxes axes tol m = some al ∧ ∀ d row, 0 < d → al[d]? = some row → row.Nodup := by
  rw [c02_alignAxes_eq_c09']
  exact injective_per_dataset_or_error tol (ofC02 m) axes

/-- `error_iff_some_dataset_merges` for C02's `alignAxes` -/
theorem c02_error_iff_some_dataset_merges (tol : Rat) (m : C02.Method) (axes : List (List Rat)) :
    C02.alignAxes axes tol m = none ↔
    ∃ d al' ax, 0 < d ∧ C02.alignAxes (axes.take d) tol m = some al' ∧ axes[d]? = some ax ∧
      ∃ (j k : Nat) (hj : j < ax.length) (hk : k < ax.length), j < k ∧
        C02.alignIndex ax[j] (accOf al') tol m = C02.alignIndex ax[k] (accOf al') tol m := by
  simp only [c02_alignAxes_eq_c09', c02_alignIndex_eq_c09']
  exact error_iff_some_dataset_merges tol (ofC02 m) axes

example : C02.alignAxes [[1, 5, 6], [1/2, 3/2]] 1 .nearest = none := by decide +kernel
example : C02.alignAxes [[1, 5, 6], [0, 3, 7, 10]] 1 .backward = some [[1, 5, 6], [0, 3, 6, 10]] := by
  decide +kernel

/-- `aligned_axis_strictly_increasing` for the stacked problems C02's `linkedProblems` builds:
    one problem per aligned point, in strictly increasing order of the aligned value, and the
    aligned values are exactly the assigned points. -/
theorem c02_aligned_axis_strictly_increasing (mi : C02.ModelItems) (g : C02.Group) (axis : List Rat)
    (ps : List C02.IndexProblem) (h : C02.linkedProblems mi g = some (axis, ps)) :
    axis.Pairwise (· < ·) ∧ ps.map (·.x) = axis ∧
    ∃ aligned, C02.alignAxes (g.datasets.map (·.globalAxis)) g.tol g.method = some aligned ∧
      axis = C02.alignedAxisOf aligned ∧ ∀ v, v ∈ axis ↔ v ∈ aligned.flatten := by
  obtain ⟨aligned, hal, _, hax, hx, _⟩ := c02_linkedProblems_tables mi g axis ps h
  refine ⟨hax ▸ unique_sorted _, hx, aligned, hal, by rw [c02_alignedAxisOf_eq]; exact hax, ?_⟩
  intro v
  rw [hax]
  exact mem_unique v _

/-- `assignment_total_unique` on C02's tables -/
theorem c02_assignment_total_unique (al : List (List Rat)) (hn : ∀ row ∈ al, row.Nodup)
    (d j : Nat) (row : List Rat) (x : Rat) (hrow : al[d]? = some row) (hx : row[j]? = some x) :
    ∃! i : Nat, ∃ v, (C02.alignedAxisOf al)[i]? = some v ∧ (d, j) ∈ C02.memberIdx al v := by
  simp only [c02_alignedAxisOf_eq, c02_memberIdx_eq]
  exact assignment_total_unique al hn d j row x hrow hx

/-- `shares_clp_iff_same_aligned_point` on C02's tables -/
theorem c02_shares_clp_iff_same_aligned_point (al : List (List Rat)) (hn : ∀ row ∈ al, row.Nodup)
    (d j d' j' : Nat) :
    (∃ v ∈ C02.alignedAxisOf al, (d, j) ∈ C02.memberIdx al v ∧ (d', j') ∈ C02.memberIdx al v) ↔
    ∃ row row' x, al[d]? = some row ∧ al[d']? = some row' ∧ row[j]? = some x ∧ row'[j']? = some x := by
  simp only [c02_alignedAxisOf_eq, c02_memberIdx_eq]
  exact shares_clp_iff_same_aligned_point al hn d j d' j'

/-- `every_column_once` for the stacked problems of C02's `linkedProblems`: the data vector of the
    problem at aligned point `v` is the (weighted) data columns of C02's members of `v` in member
    order, and over all problems every column `(d, j)` of every dataset — `j` below the length of
    its global axis — is stacked exactly once.  (Hypothesis: the first dataset's own axis has no
    repeated coordinate; later datasets are covered by the refusal.) -/
theorem c02_every_column_once (mi : C02.ModelItems) (g : C02.Group) (axis : List Rat)
    (ps : List C02.IndexProblem) (h : C02.linkedProblems mi g = some (axis, ps))
    (h0 : ∀ ds, g.datasets.head? = some ds → ds.globalAxis.Nodup) :
    ∃ aligned, C02.alignAxes (g.datasets.map (·.globalAxis)) g.tol g.method = some aligned ∧
      ps.map (·.data) = axis.map (fun v => (C02.memberIdx aligned v).flatMap
        (fun p => LinAlg.col (g.datasets.getD p.1 default).weightedData p.2)) ∧
      ((axis.map (C02.memberIdx aligned)).flatten).Nodup ∧
      (∀ d j, (d, j) ∈ (axis.map (C02.memberIdx aligned)).flatten ↔
        ∃ ds, g.datasets[d]? = some ds ∧ j < ds.nGlobal) ∧
      ∀ d j, (∃ ds, g.datasets[d]? = some ds ∧ j < ds.nGlobal) →
        ((axis.map (C02.memberIdx aligned)).flatten).count (d, j) = 1 := by
  obtain ⟨aligned, hal, hlen, hax, _, hdata⟩ := c02_linkedProblems_tables mi g axis ps h
  have hal' := hal
  rw [c02_alignAxes_eq_c09'] at hal'
  have hn : ∀ row ∈ aligned, row.Nodup := by
    apply aligned_rows_nodup g.tol (ofC02 g.method) _ aligned hal'
    intro ax hax'
    rw [List.head?_map] at hax'
    cases hh : g.datasets.head? with
    | none => rw [hh] at hax'; cases hax'
    | some ds =>
      rw [hh] at hax'
      simp only [Option.map_some, Option.some.injEq] at hax'
      exact hax' ▸ h0 ds hh
  have hmi : C02.memberIdx aligned = members aligned := funext (c02_memberIdx_eq aligned)
  obtain ⟨hnd, hmem, hcount, _⟩ := every_column_once aligned hn
  have hrows : ∀ d j : Nat, (∃ row : List Rat, aligned[d]? = some row ∧ j < row.length) ↔
      ∃ ds : C02.Dataset, g.datasets[d]? = some ds ∧ j < ds.nGlobal := by
    intro d j
    have hl := aligned_rows_same_length g.tol (ofC02 g.method) _ aligned hal' d
    simp only [List.getElem?_map, Option.map_map] at hl
    constructor
    · rintro ⟨row, hr, hj⟩
      rw [hr] at hl
      cases hd : g.datasets[d]? with
      | none => rw [hd] at hl; cases hl
      | some ds =>
        rw [hd] at hl
        simp only [Option.map_some, Function.comp, Option.some.injEq] at hl
        exact ⟨ds, rfl, by unfold C02.Dataset.nGlobal; omega⟩
    · rintro ⟨ds, hd, hj⟩
      rw [hd] at hl
      cases hr : aligned[d]? with
      | none => rw [hr] at hl; cases hl
      | some row =>
        rw [hr] at hl
        simp only [Option.map_some, Function.comp, Option.some.injEq] at hl
        exact ⟨row, rfl, by unfold C02.Dataset.nGlobal at hj; omega⟩
  refine ⟨aligned, hal, ?_, ?_, ?_, ?_⟩
  · rw [hdata]; simp only [c02_memberIdx_eq]
  · rw [hmi, hax]; exact hnd
  · intro d j; rw [hmi, hax, hmem d j]; exact hrows d j
  · intro d j hdj; rw [hmi, hax]; exact hcount d j ((hrows d j).mpr hdj)

/-- the repository's test axes as a C02 group: two datasets (model-axis sizes 2 and 1), one
    compartment `c` with a column of ones, tolerance 1, nearest -/
def exampleGroup : C02.Group :=
  ⟨true, .vp, 1, .nearest,
    [⟨"d1", [1, 5, 6], [[1, 2, 3], [4, 5, 6]], none, none, [⟨⟨["c"], .d2 [[1], [1]]⟩, none⟩], []⟩,
     ⟨"d2", [0, 3, 7, 10], [[7, 8, 9, 10]], none, none, [⟨⟨["c"], .d2 [[1]]⟩, none⟩], []⟩]⟩

-- the hypotheses of the C02 transfer theorems are satisfiable: the stacked problems of the example group
example : (C02.linkedProblems {} exampleGroup).map (fun r => (r.1, r.2.map (·.data))) =
    some ([1, 3, 5, 6, 10], [[1, 4, 7], [8], [2, 5], [3, 6, 9], [10]]) := by decide +kernel
example : ∀ ds, exampleGroup.datasets.head? = some ds → ds.globalAxis.Nodup := by
  intro ds h
  simp only [exampleGroup, List.head?_cons, Option.some.injEq] at h
  subst h
  decide +kernel
example : ∀ row ∈ [[1, 5, 6], [1, 3, 6, (10 : Rat)]], row.Nodup := by decide +kernel

/-! ## the functions regenerated from the Python source are the model

`harness/props/_c09_translate.py` translates the source text of `DataProviderLinked.align_index`,
`create_aligned_global_axes`, `align_data`, `align_dataset_indices`, `align_groups`, `align_weights` on every run into
`Glotaran.C09.Gen.*` (GlotaranModel/Generated/C09Fns.lean) over the vocabulary of GlotaranModel/C09Py.lean (numpy arrays =
lists of rationals, dicts = association lists, xarray's outer join = sorted union of the coordinates).  The theorems below
equate every regenerated function with the model definition the property theorems above are about — for all axes of any
length and order, all tolerances and the three methods — so an edit of the Python source that changes what a function
computes breaks the corresponding proof. -/

/-- the regenerated `align_index` is `alignIndex`: difference, side mask on both arrays, `np.abs`, `min() <= tolerance`,
    `target_axis[argmin]` = the first nearest permitted target -/
theorem generated_align_index_eq_model (x : Rat) (target : List Rat) (tol : Rat) (m : Method) :
    Gen.align_index x target tol m = alignIndex x target tol m :=
  gen_align_index_eq x target tol m

example : Gen.align_index (11/2) [1, 5, 6] 1 .forward = 6 ∧ Gen.align_index (11/2) [6, 1, 5] 1 .backward = 5 ∧
    Gen.align_index (11/2) [1, 5, 6] 1 .nearest = 5 ∧ Gen.align_index 7 [1, 5, 6] 1 .forward = 7 := by decide +kernel

/-- the regenerated `create_aligned_global_axes` (a loop over the dict of global axes, keys pairwise different as in any
    dict) is `createAlignedAxes` on the axes in dict order: same aligned axes under the same labels, and
    `AlignDatasetError` exactly when the model refuses -/
theorem generated_create_aligned_global_axes_eq_model (ga : Dict (List Rat)) (tol : Rat) (m : Method)
    (hkeys : (ga.map (·.1)).Nodup) :
    Gen.create_aligned_global_axes ga tol m =
      (match createAlignedAxes tol m (ga.map (·.2)) with
        | none => Except.error PyErr.alignDataset
        | some al => Except.ok ((ga.map (·.1)).zip al)) :=
  gen_create_aligned_global_axes_eq ga tol m hkeys

example : Gen.create_aligned_global_axes [("d1", [1, 5, 6]), ("d2", [0, 3, 7, 10])] 1 .nearest =
    Except.ok [("d1", [1, 5, 6]), ("d2", [1, 3, 6, 10])] := by decide +kernel
example : Gen.create_aligned_global_axes [("d1", [1, 5, 6]), ("d2", [1/2, 3/2])] 1 .nearest =
    Except.error PyErr.alignDataset := by decide +kernel

/-- the regenerated `align_dataset_indices` (outer join of `arange(len(axis))` over the aligned axes, `dropna` per aligned
    point) is the `indices` table of the model: per aligned point the own indices of its members, in dataset order -/
theorem generated_align_dataset_indices_eq_model (dss : List Dataset) (al : List (List Rat))
    (hlen : al.length = dss.length) :
    Gen.align_dataset_indices (alignedAxis al) ((dss.map (·.label)).zip al) = (tablesOf dss al).indices :=
  gen_align_dataset_indices_eq dss al hlen

/-- the regenerated `align_data` (outer join of the datasets' (weighted) data over the aligned axes along "model", `dropna`
    per aligned point) gives the model's aligned axis and stacked data: `get_data(label)` = the dataset's columns times its
    weight (`providerData`, what `DataProvider.__init__` stores), labels pairwise different, every dataset has a data
    column for each of its aligned points -/
theorem generated_align_data_eq_model (dss : List Dataset) (al : List (List Rat)) (hlen : al.length = dss.length)
    (hlab : (dss.map (·.label)).Nodup) (hrows : ∀ p ∈ dss.zip al, p.2.length ≤ p.1.data.length) :
    Gen.align_data (providerData dss) ((dss.map (·.label)).zip al) = ((tablesOf dss al).axis, (tablesOf dss al).data) :=
  gen_align_data_eq dss al hlen hlab hrows

/-- the regenerated `align_groups` (outer join of `np.full(len(axis), label)` with fill value `""`, `"".join` per aligned
    point, first occurrence of a joined label defines the group) gives the model's group labels and group definitions
    (labels not empty: an empty label is indistinguishable from the fill value) -/
theorem generated_align_groups_eq_model (dss : List Dataset) (al : List (List Rat)) (hlen : al.length = dss.length)
    (hne : ∀ ds ∈ dss, ds.label ≠ "") :
    Gen.align_groups ((dss.map (·.label)).zip al) = ((tablesOf dss al).labels, (tablesOf dss al).defs) :=
  gen_align_groups_eq dss al hlen hne

-- the repository's test axes, tolerance 1, nearest: d1 (model-axis size 2) and d2 (size 1, weighted by 1/2)
example : Gen.align_dataset_indices [1, 3, 5, 6, 10] [("d1", [1, 5, 6]), ("d2", [1, 3, 6, 10])] =
    [[0, 0], [1], [1], [2, 2], [3]] := by decide +kernel
example : Gen.align_groups [("d1", [1, 5, 6]), ("d2", [1, 3, 6, 10])] =
    (["d1d2", "d2", "d1", "d1d2", "d2"], [("d1d2", ["d1", "d2"]), ("d2", ["d2"]), ("d1", ["d1"])]) := by decide +kernel
example : Gen.align_data
    (providerData [⟨"d1", 2, [1, 5, 6], [[1, 2], [3, 4], [5, 6]], none⟩,
      ⟨"d2", 1, [0, 3, 7, 10], [[7], [8], [9], [10]], some [[1/2], [1/2], [1/2], [1/2]]⟩])
    [("d1", [1, 5, 6]), ("d2", [1, 3, 6, 10])] =
    ([1, 3, 5, 6, 10], [[1, 2, 7/2], [4], [3, 4], [5, 6, 9/2], [5]]) := by decide +kernel

/-- the regenerated `align_weights` — dict of the weighted datasets' weights over their ALIGNED axes, per aligned point the
    group definition looked up by the joined label, `.sel` of every weighted member at the aligned value, `np.ones` of the
    model-axis size for the others, `np.concatenate` — is the `weights` table of the model: `self._weight` = the datasets'
    weights, `self._aligned_global_axis`, `self._aligned_group_labels`, `self._group_definitions` = the model's tables
    (what the other regenerated functions return), `get_model_axis(label).size` = the model-axis size by label; labels
    pairwise different and joined group labels unambiguous (the dict `group_definitions` is keyed by them) -/
theorem generated_align_weights_eq_model (dss : List Dataset) (al : List (List Rat)) (hlen : al.length = dss.length)
    (hlab : (dss.map (·.label)).Nodup) (hjoin : GroupLabelsUnambiguous dss al) :
    Gen.align_weights (dss.map (fun ds => (ds.label, ds.weight))) (alignedAxis al) (tablesOf dss al).labels
        (tablesOf dss al).defs (msizeOf dss) ((dss.map (·.label)).zip al) = (tablesOf dss al).weights := by
  rw [gen_align_weights_core dss al hlen hlab _ _ (by rw [tablesOf_labels]; simp)]
  · exact (weights_default_to_ones dss al).1.symm
  · intro i hi
    have hv : (alignedAxis al)[i] ∈ alignedAxis al := List.getElem_mem hi
    have hlabi : (tablesOf dss al).labels.getD i "" = String.join (memberLabels dss al (alignedAxis al)[i]) := by
      rw [tablesOf_labels]
      simp [List.getD_eq_getElem?_getD, List.getElem?_eq_getElem hi]
    rw [hlabi, tablesOf_defs]
    have hdl : ∀ (d : Dict (List String)) (g : String), dictGetD d g [] = lookupDef d g := by
      intro d g
      unfold dictGetD lookupDef
      cases d.find? (fun e => e.1 == g) <;> rfl
    rw [hdl, lookupDef_groupDefs, List.nil_append]
    exact lookupDef_map_first (fun v => String.join (memberLabels dss al v)) (memberLabels dss al)
      (alignedAxis al) _ hv (fun u hu he => hjoin u hu _ hv he)

-- the repository's test axes again: d2 weighted; the regenerated function returns the model's weight table
example : Gen.align_weights [("d1", none), ("d2", some [[1/2], [1/4], [1/8], [1/16]])] [1, 3, 5, 6, 10]
    ["d1d2", "d2", "d1", "d1d2", "d2"] [("d1d2", ["d1", "d2"]), ("d2", ["d2"]), ("d1", ["d1"])]
    (fun l => if l == "d1" then 2 else 1) [("d1", [1, 5, 6]), ("d2", [1, 3, 6, 10])] =
    [some [1, 1, 1/2], some [1/4], none, some [1, 1, 1/8], some [1/16]] := by decide +kernel

/-- **The regenerated functions, called in the order of `DataProviderLinked.__init__`, are the model's `provider`**
    (`create_aligned_global_axes` on the dict of global axes, then `align_data`, `align_dataset_indices`, `align_groups` and
    `align_weights` fed with each other's results as `__init__` does; the order of the calls is written down here, the five
    functions are the regenerated ones): the generated pipeline refuses exactly when the model refuses, and otherwise returns
    exactly the model's tables.  Hypotheses: labels pairwise different and not empty, every dataset has one data column per
    global-axis point, joined group labels unambiguous. -/
theorem generated_provider_eq_model (tol : Rat) (m : Method) (dss : List Dataset)
    (hlab : (dss.map (·.label)).Nodup) (hne : ∀ ds ∈ dss, ds.label ≠ "")
    (hshape : ∀ ds ∈ dss, ds.data.length = ds.axis.length)
    (hjoin : ∀ al, createAlignedAxes tol m (dss.map (·.axis)) = some al → GroupLabelsUnambiguous dss al) :
    match Gen.create_aligned_global_axes (dss.map (fun ds => (ds.label, ds.axis))) tol m with
    | .error e => e = PyErr.alignDataset ∧ provider tol m dss = none
    | .ok ga => ∃ t, provider tol m dss = some t ∧
        Gen.align_data (providerData dss) ga = (t.axis, t.data) ∧
        Gen.align_dataset_indices t.axis ga = t.indices ∧
        Gen.align_groups ga = (t.labels, t.defs) ∧
        Gen.align_weights (dss.map (fun ds => (ds.label, ds.weight))) t.axis t.labels t.defs (msizeOf dss) ga = t.weights := by
  have hk : ((dss.map (fun ds => (ds.label, ds.axis))).map (·.1)) = dss.map (·.label) := by simp [List.map_map, Function.comp_def]
  have hv : ((dss.map (fun ds => (ds.label, ds.axis))).map (·.2)) = dss.map (·.axis) := by simp [List.map_map, Function.comp_def]
  rw [generated_create_aligned_global_axes_eq_model _ tol m (by rw [hk]; exact hlab), hk, hv]
  cases hal : createAlignedAxes tol m (dss.map (·.axis)) with
  | none => exact ⟨rfl, by simp [provider, hal]⟩
  | some al =>
    have hlen : al.length = dss.length := by
      simpa using (assignment_is_self_or_nearest_aligned tol m _ al hal).1
    have hrows : ∀ p ∈ dss.zip al, p.2.length ≤ p.1.data.length := by
      intro p hp
      obtain ⟨i, hi, hpi⟩ := List.mem_iff_getElem.mp hp
      have hid : i < dss.length := by simp at hi; omega
      have hia : i < al.length := by simp at hi; omega
      have hl := aligned_rows_same_length tol m _ al hal i
      rw [List.getElem?_eq_getElem hia, List.getElem?_map, List.getElem?_eq_getElem hid] at hl
      simp only [Option.map_some, Option.some.injEq] at hl
      rw [← hpi, List.getElem_zip]
      simp only
      rw [hl, hshape _ (List.getElem_mem hid)]
    refine ⟨tablesOf dss al, by simp [provider, hal], ?_, ?_, ?_, ?_⟩
    · exact generated_align_data_eq_model dss al hlen hlab hrows
    · exact generated_align_dataset_indices_eq_model dss al hlen
    · exact generated_align_groups_eq_model dss al hlen hne
    · exact generated_align_weights_eq_model dss al hlen hlab (hjoin al hal)

/-- the repository's test axes with labels d1 (model-axis size 2) and d2 (size 1, weights varying along its axis) -/
def exampleDatasets : List Dataset :=
  [⟨"d1", 2, [1, 5, 6], [[1, 2], [3, 4], [5, 6]], none⟩,
   ⟨"d2", 1, [0, 3, 7, 10], [[7], [8], [9], [10]], some [[1/2], [1/4], [1/8], [1/16]]⟩]

-- the hypotheses of generated_provider_eq_model are satisfiable
example : (exampleDatasets.map (·.label)).Nodup ∧ (∀ ds ∈ exampleDatasets, ds.label ≠ "") ∧
    (∀ ds ∈ exampleDatasets, ds.data.length = ds.axis.length) := by decide +kernel
example : ∀ al, createAlignedAxes 1 .nearest (exampleDatasets.map (·.axis)) = some al →
    GroupLabelsUnambiguous exampleDatasets al := by
  intro al h
  have e : createAlignedAxes 1 .nearest (exampleDatasets.map (·.axis)) = some [[1, 5, 6], [1, 3, 6, 10]] := by
    decide +kernel
  rw [e] at h
  cases h
  intro v hv w hw
  have ea : alignedAxis [[1, 5, 6], [1, 3, 6, 10]] = [1, 3, 5, 6, 10] := by decide +kernel
  rw [ea] at hv hw
  simp only [List.mem_cons, List.not_mem_nil, or_false] at hv hw
  rcases hv with rfl | rfl | rfl | rfl | rfl <;> rcases hw with rfl | rfl | rfl | rfl | rfl <;> decide +kernel

/-- **Every stacked column carries its own weight.**  At an aligned point `v` where some member is weighted, the stacked
    weight is defined and the segment that belongs to member `(d, j)` — at the offset of `d` among the members stacked at
    `v`, model-axis many entries — is dataset `d`'s weight column at ITS OWN index `j` (not at the position of `v` on the
    aligned axis, not the column of another member), or ones when `d` carries no weight; whatever the tolerance and method
    that produced `al`, whichever datasets are weighted and however the weights vary along the global axis.  (Hypothesis:
    the weight columns of the members of `v` have model-axis many entries.) -/
theorem stacked_weight_is_own_column (dss : List Dataset) (al : List (List Rat)) (v : Rat) (d j i : Nat) (ds : Dataset)
    (hds : dss[d]? = some ds) (hmem : (d, j) ∈ members al v) (hi : (alignedAxis al)[i]? = some v)
    (hany : (members al v).any (fun p => (dss.getD p.1 default).weight.isSome) = true)
    (hsz : ∀ p ∈ members al v, (weightColumn (dss.getD p.1 default) p.2).length = (dss.getD p.1 default).msize) :
    ∃ W, (tablesOf dss al).weights[i]? = some (some W) ∧
      (W.drop (blockOffset dss al v d)).take ds.msize =
        (match ds.weight with
          | none => List.replicate ds.msize 1
          | some w => w.getD j []) := by
  have hgetD : dss.getD d default = ds := by simp [List.getD_eq_getElem?_getD, hds]
  refine ⟨((members al v).map (fun p => weightColumn (dss.getD p.1 default) p.2)).flatten, ?_, ?_⟩
  · rw [(weights_default_to_ones dss al).1, List.getElem?_map, hi]
    simp only [Option.map_some, hany, if_true]
    rfl
  · obtain ⟨_, row, hrow, hpos⟩ := (mem_membersFrom v al 0 d j).mp hmem
    simp only [Nat.sub_zero] at hrow
    have hfind := find_members al v d row hrow
    rw [hpos] at hfind
    obtain ⟨post, hsplit⟩ := split_at_find d _ _ hfind
    unfold blockOffset
    generalize (members al v).takeWhile (fun p => p.1 != d) = pre at hsplit
    have hsz' : ∀ p ∈ pre ++ (d, j) :: post, (weightColumn (dss.getD p.1 default) p.2).length = (dss.getD p.1 default).msize := by
      rw [← hsplit]; exact hsz
    rw [hsplit]
    have hunstack := C03.unstack_stack_sum ((pre ++ (d, j) :: post).map (fun p => weightColumn (dss.getD p.1 default) p.2))
      pre.length (by simp)
    have htake : ((pre ++ (d, j) :: post).map (fun p => weightColumn (dss.getD p.1 default) p.2)).take pre.length =
        pre.map (fun p => weightColumn (dss.getD p.1 default) p.2) := by
      rw [List.map_append, List.take_left' (by simp)]
    have hk : ((pre ++ (d, j) :: post).map (fun p => weightColumn (dss.getD p.1 default) p.2))[pre.length]'(by simp) =
        weightColumn ds j := by
      simp only [List.map_append, List.map_cons, hgetD]
      rw [List.getElem_append_right (by simp)]
      simp
    have hlen := hsz' (d, j) (by simp)
    simp only [hgetD] at hlen
    rw [htake, hk, hlen] at hunstack
    have hsum : (pre.map (fun p => (dss.getD p.1 default).msize)).sum =
        ((pre.map (fun p => weightColumn (dss.getD p.1 default) p.2)).map List.length).sum := by
      rw [List.map_map]
      congr 1
      apply List.map_congr_left
      intro p hp
      exact (hsz' p (by simp [hp])).symm
    rw [hsum]
    exact hunstack

-- d1 (model-axis size 2, no weight) and d2 (size 1, weights 1/2, 1/4, 1/8, 1/16 along its axis) linked at 1 and 6:
-- at aligned point 6 (position 3) d2 contributes its weight at its OWN index 2, i.e. 1/8, after d1's two ones
example : (tablesOf [⟨"d1", 2, [1, 5, 6], [[1, 2], [3, 4], [5, 6]], none⟩,
      ⟨"d2", 1, [0, 3, 7, 10], [[7], [8], [9], [10]], some [[1/2], [1/4], [1/8], [1/16]]⟩] [[1, 5, 6], [1, 3, 6, 10]]).weights
    = [some [1, 1, 1/2], some [1/4], none, some [1, 1, 1/8], some [1/16]] := by decide +kernel
example : (1, 2) ∈ [(0, 2), ((1 : Nat), (2 : Nat))] ∧ members [[1, 5, 6], [1, 3, 6, 10]] 6 = [(0, 2), (1, 2)] := by decide +kernel

/-! ## inputs are never modified -/

/-- **The alignment leaves its inputs unchanged**, on the model with explicit array identity (`Store`, references):
    running `create_aligned_global_axes` on the references of the datasets' global-axis arrays (the coordinate arrays of the
    input datasets themselves — xarray hands out writable views) refuses exactly when the value-level model refuses, and
    otherwise (1) every array that existed before — in particular every input array — still has its contents, (2) the
    arrays handed out hold exactly the aligned axes of the value-level model `createAlignedAxes`, (3) the aligned axis of the
    FIRST dataset is that dataset's own coordinate array (an alias: writing into it would change the input dataset), and
    (4) every other aligned axis is a new object that aliases no input. -/
theorem alignment_leaves_inputs_unchanged (tol : Rat) (m : Method) (s : Store) (refs : List Nat)
    (hrefs : ∀ r ∈ refs, r < s.length) :
    (createAlignedAxesRef tol m s refs = none ↔ createAlignedAxes tol m (refs.map s.read) = none) ∧
    ∀ s' outs, createAlignedAxesRef tol m s refs = some (s', outs) →
      (∀ r, r < s.length → s'.read r = s.read r) ∧
      createAlignedAxes tol m (refs.map s.read) = some (outs.map s'.read) ∧
      outs.head? = refs.head? ∧
      ∀ r ∈ outs.tail, s.length ≤ r := by
  unfold createAlignedAxesRef createAlignedAxes
  cases refs with
  | nil =>
    refine ⟨by simp [alignLoopRef, alignLoop], ?_⟩
    intro s' outs h
    simp only [alignLoopRef, Option.some.injEq, Prod.mk.injEq] at h
    obtain ⟨rfl, rfl⟩ := h
    simp [alignLoop]
  | cons r rest =>
    have hr : r < s.length := hrefs r (by simp)
    obtain ⟨hn, hs⟩ := alignLoopRef_spec tol m rest s r hr (fun q hq => hrefs q (by simp [hq]))
    simp only [alignLoopRef, List.map_cons, alignLoop]
    constructor
    · rw [Option.map_eq_none_iff, Option.map_eq_none_iff]
      exact hn
    · intro s' outs h
      rw [Option.map_eq_some_iff] at h
      obtain ⟨⟨s'', outs'⟩, hrec, heq⟩ := h
      simp only [Prod.mk.injEq] at heq
      obtain ⟨rfl, rfl⟩ := heq
      obtain ⟨⟨extra, hex⟩, hloop, hfresh⟩ := hs s'' outs' hrec
      refine ⟨?_, ?_, rfl, hfresh⟩
      · intro q hq
        rw [hex]
        exact read_append s extra q hq
      · rw [hloop, hex]
        simp [read_append s extra r hr]

-- two datasets: the store holds their coordinate arrays [1,5,6] (ref 0) and [0,3,7,10] (ref 1); tolerance 1, nearest.
-- The first aligned axis is ref 0 itself, the second a new array (ref 2) holding [1,3,6,10]; refs 0 and 1 keep their contents
example : createAlignedAxesRef 1 .nearest [[1, 5, 6], [0, 3, 7, 10]] [0, 1] =
    some ([[1, 5, 6], [0, 3, 7, 10], [1, 3, 6, 10], [1, 3, 5, 6, 10]], [0, 2]) := by decide +kernel
example : createAlignedAxesRef 1 .nearest [[1, 5, 6], [1/2, 3/2]] [0, 1] = none := by decide +kernel

end Glotaran.C09
