/-
C05 — Gaussian IRF convolution is exact, for every index of a dispersed or shifted IRF.
Property theorems only (helpers: GlotaranProofs/Lemmas/C05.lean).  Statements are about the functions
of GlotaranModel/C05.lean that the driver executes (`gaussEntry`, `kernelEntry`, `matrixOfParams`,
`matrixDep`, `matrixIndep`, `parameter`, `dispLoop`, `applyA`), instantiated at the real numbers
(`Num ℝ`: `exp = Real.exp`, `sqrt2 = √2`, `erf x = (2/√π)∫₀ˣ e^{-s²}`, `erfcx x = e^{x²}(1 - erf x)`),
for rates / times / centres / widths / scales / axes of any value and lists of any length.

The convolution is `convolution k μ σ t = ∫_{s>0} exp(-k s) · gaussPdf μ σ (t - s) ds` with the
area-normalised Gaussian `gaussPdf μ σ x = exp(-(x-μ)²/(2σ²)) / (σ√(2π))`.
-/
import GlotaranProofs.Lemmas.C05Gen
namespace Glotaran.C05
open Real MeasureTheory Set

/-! ### the two numerical branches -/

/-- **The branch the model takes is the code's condition `thresh < -1` read over ℝ** (the model
    decides it exactly on rationals: `d < 0 ∧ d² > 2` for `thresh = d/√2`). -/
theorem thresh_decision_sound (k t c w : Rat) (hw : w ≠ 0) :
    threshLt k t c w = true ↔ (threshT k t c w : ℝ) < -1 := by
  rw [threshT_real k t c w hw]
  exact ltNegSqrt2_iff _

example : threshLt 1 0 5 1 = true ∧ threshLt 1 5 0 1 = false ∧ threshLt (1/2) 1 1 2 = false := by decide +kernel

/-- **The two branches are the same function**: for *any* `erf'`, `erfcx'` with `erf'` odd and
    `erfcx' x = exp(x²)(1 - erf' x)`, `½·erfcx'(-(β-α))·exp(-β²) = ½·(1 + erf'(β-α))·exp(α(α-2β))`:
    the switch-over point `thresh = -1` is semantically irrelevant. -/
theorem branches_agree (erf' erfcx' : ℝ → ℝ) (hodd : ∀ x, erf' (-x) = -erf' x)
    (hcx : ∀ x, erfcx' x = exp (x ^ 2) * (1 - erf' x)) (a b : ℝ) :
    1 / 2 * erfcx' (-(b - a)) * exp (-(b * b)) = 1 / 2 * (1 + erf' (b - a)) * exp (a * (a - 2 * b)) := by
  rw [hcx, hodd]
  have : exp ((-(b - a)) ^ 2) * exp (-(b * b)) = exp (a * (a - 2 * b)) := by
    rw [← Real.exp_add]; congr 1; ring
  calc 1 / 2 * (exp ((-(b - a)) ^ 2) * (1 - -erf' (b - a))) * exp (-(b * b))
      = 1 / 2 * (1 + erf' (b - a)) * (exp ((-(b - a)) ^ 2) * exp (-(b * b))) := by ring
    _ = _ := by rw [this]

example : (1:ℝ) / 2 * erfcx (-(3 - 5)) * exp (-(3 * 3)) = 1 / 2 * (1 + erf (3 - 5)) * exp (5 * (5 - 2 * 3)) :=
  branches_agree erf erfcx erf_neg (fun _ => rfl) 5 3

/-- **Whatever branch is taken, one Gaussian's contribution is `scale × closed form`**,
    `closedForm k c w t = ½ exp(α(α-2β)) (1 + erf(β-α))`, `α = k w/√2`, `β = (t-c)/(w√2)`. -/
theorem gaussEntry_eq_closedForm (k t c w s : Rat) :
    (gaussEntry k t c w s : ℝ) = (s : ℝ) * closedForm k c w t := by
  have hb := branches_agree erf erfcx erf_neg (fun x => rfl)
    ((k : ℝ) * w / √2) (((t : ℝ) - c) / (w * √2))
  unfold gaussEntry
  split
  · simp only [erfcxBranch, threshT, betaT, alphaT, num_sub, num_div, num_ofRat, num_mul, num_sqrt2,
      num_neg, num_exp, num_erfcx, closedForm]
    push_cast
    linear_combination (s : ℝ) * hb
  · simp only [erfBranch, threshT, betaT, alphaT, num_sub, num_div, num_ofRat, num_mul, num_sqrt2,
      num_add, num_exp, num_erf, closedForm]
    push_cast
    ring

example : (gaussEntry 1 0 5 1 2 : ℝ) = 2 * closedForm 1 5 1 0 ∧ threshLt 1 0 5 1 = true :=
  ⟨by exact_mod_cast gaussEntry_eq_closedForm 1 0 5 1 2, by decide +kernel⟩

/-! ### the closed form is the convolution -/

/-- the Gaussian of the statement is area-normalised -/
theorem gaussPdf_integral_one (μ σ : ℝ) (hσ : 0 < σ) : ∫ x, gaussPdf μ σ x = 1 := by
  unfold gaussPdf
  rw [integral_const_mul]
  have h1 : ∀ x : ℝ, exp (-(x - μ) ^ 2 / (2 * σ ^ 2)) = (fun y : ℝ => exp (-(1 / (2 * σ ^ 2)) * y ^ 2)) (x - μ) := by
    intro x; simp only; congr 1; ring
  simp_rw [h1]
  rw [integral_sub_right_eq_self (fun y : ℝ => exp (-(1 / (2 * σ ^ 2)) * y ^ 2)) μ, integral_gaussian]
  have h2 : π / (1 / (2 * σ ^ 2)) = (σ * √(2 * π)) ^ 2 := by
    rw [mul_pow, Real.sq_sqrt (by positivity)]; field_simp
  rw [h2, Real.sqrt_sq (by positivity)]
  have : σ * √(2 * π) ≠ 0 := by positivity
  field_simp

example : ∫ x, gaussPdf 1 2 x = 1 := gaussPdf_integral_one 1 2 (by norm_num)

/-- **The closed form is the convolution of `exp(-k t)·1_{t≥0}` with the area-normalised Gaussian**
    (any real rate, any centre, any positive width, any time). -/
theorem closed_form_is_convolution (k μ σ t : ℝ) (hσ : 0 < σ) :
    ∫ s in Ioi (0:ℝ), exp (-k * s) * gaussPdf μ σ (t - s) = closedForm k μ σ t :=
  convolution_eq_closedForm k μ σ t hσ

example : ∫ s in Ioi (0:ℝ), exp (-3 * s) * gaussPdf 1 2 (5 - s) = closedForm 3 1 2 5 :=
  closed_form_is_convolution 3 1 2 5 (by norm_num)

/-- the ODE form of the same fact: `F' = -k F + g_{μ,σ}` -/
theorem closed_form_ode (k μ σ t : ℝ) (hσ : 0 < σ) :
    HasDerivAt (closedForm k μ σ) (-k * closedForm k μ σ t + gaussPdf μ σ t) t := by
  have h2 := sqrt2_pos
  have hpi : (0:ℝ) < √π := by positivity
  have hsq : (√2) ^ 2 = 2 := Real.sq_sqrt (by norm_num)
  -- the exponent and the erf argument as functions of t
  have hE : HasDerivAt (fun x : ℝ => k * σ / √2 * (k * σ / √2 - 2 * ((x - μ) / (σ * √2)))) (-k) t := by
    have h1 : HasDerivAt (fun x : ℝ => (x - μ) / (σ * √2)) (1 / (σ * √2)) t :=
      ((hasDerivAt_id t).sub_const μ).div_const _
    refine (((h1.const_mul 2).const_sub (k * σ / √2)).const_mul (k * σ / √2)).congr_deriv ?_
    field_simp
    rw [hsq]
  have hU : HasDerivAt (fun x : ℝ => (x - μ) / (σ * √2) - k * σ / √2) (1 / (σ * √2)) t :=
    (((hasDerivAt_id t).sub_const μ).div_const _).sub_const _
  have herf : HasDerivAt (fun x : ℝ => erf ((x - μ) / (σ * √2) - k * σ / √2))
      (2 / √π * exp (-((t - μ) / (σ * √2) - k * σ / √2) ^ 2) * (1 / (σ * √2))) t :=
    HasDerivAt.comp (h₂ := erf) (h := fun x : ℝ => (x - μ) / (σ * √2) - k * σ / √2) t
      (hasDerivAt_erf ((t - μ) / (σ * √2) - k * σ / √2)) hU
  have hF : HasDerivAt (closedForm k μ σ) _ t := (hE.exp.const_mul (1 / 2)).mul (herf.const_add 1)
  refine hF.congr_deriv ?_
  unfold closedForm gaussPdf
  have key : exp (k * σ / √2 * (k * σ / √2 - 2 * ((t - μ) / (σ * √2)))) *
      exp (-((t - μ) / (σ * √2) - k * σ / √2) ^ 2) = exp (-(t - μ) ^ 2 / (2 * σ ^ 2)) := by
    rw [← Real.exp_add]
    congr 1
    field_simp
    rw [hsq]
    ring
  rw [← key, Real.sqrt_mul (by norm_num : (0:ℝ) ≤ 2)]
  field_simp

example : HasDerivAt (closedForm 3 1 2) (-3 * closedForm 3 1 2 5 + gaussPdf 1 2 5) 5 :=
  closed_form_ode 3 1 2 5 (by norm_num)

/-- **One Gaussian's contribution is `scale ×` the convolution** (positive width). -/
theorem gaussEntry_is_convolution (k t c w s : Rat) (hw : 0 < w) :
    (gaussEntry k t c w s : ℝ) = (s : ℝ) * convolution k c w t := by
  rw [gaussEntry_eq_closedForm, convolution_eq_closedForm]
  exact_mod_cast hw

example : (gaussEntry 1 0 5 1 2 : ℝ) = ((2 : Rat) : ℝ) * convolution ((1 : Rat) : ℝ) ((5 : Rat) : ℝ) ((1 : Rat) : ℝ) ((0 : Rat) : ℝ) :=
  gaussEntry_is_convolution 1 0 5 1 2 (by decide +kernel)

/-! ### several Gaussians, scales, normalisation -/

theorem kernelEntry_off (gs : List (Rat × Rat × Rat)) (T k t : Rat) :
    (kernelEntry gs false T k t : ℝ)
      = (gs.map (fun g => (g.2.2 : ℝ) * closedForm k g.1 g.2.1 t)).sum := by
  unfold kernelEntry
  rw [foldl_entryStep_off]
  simp [gaussEntry_eq_closedForm]

/-- **A matrix entry of the kernel (back-sweep off) is the scale-weighted sum of the convolutions
    with every Gaussian** — any number of Gaussians. -/
theorem kernelEntry_is_sum_of_convolutions (gs : List (Rat × Rat × Rat)) (T k t : Rat)
    (hw : ∀ g ∈ gs, 0 < g.2.1) :
    (kernelEntry gs false T k t : ℝ)
      = (gs.map (fun g => (g.2.2 : ℝ) * convolution k g.1 g.2.1 t)).sum := by
  rw [kernelEntry_off]
  congr 1
  apply List.map_congr_left
  intro g hg
  rw [convolution_eq_closedForm]
  exact_mod_cast hw g hg

example : (kernelEntry [(0, 1, 2), (1, 1/2, 3)] false 0 1 4 : ℝ)
    = ([(0, 1, 2), (1, 1/2, 3)].map (fun g : Rat × Rat × Rat => (g.2.2 : ℝ) * convolution ((1:Rat):ℝ) g.1 g.2.1 ((4:Rat):ℝ))).sum :=
  kernelEntry_is_sum_of_convolutions _ 0 1 4 (by decide +kernel)

/-- the back-sweep term over ℝ: `s (e^{-k(τ+T)} + e^{-k(T/2-τ)}) / (1 - e^{-kT})`, `τ = t - c` -/
noncomputable def backsweepReal (k t c s T : Rat) : ℝ :=
  (s : ℝ) * (exp (-(k : ℝ) * ((t : ℝ) - c + T)) + exp (-(k : ℝ) * ((T : ℝ) / 2 - ((t : ℝ) - c)))) / (1 - exp (-(k : ℝ) * T))

/-- **The kernel with back-sweep, as coded**: when `|k|·T > 0.001` every Gaussian adds its convolution
    term and `backsweepReal`; otherwise only the convolution terms. -/
theorem kernelEntry_with_backsweep (gs : List (Rat × Rat × Rat)) (bs : Bool) (T k t : Rat) :
    (kernelEntry gs bs T k t : ℝ)
      = (gs.map (fun g => (g.2.2 : ℝ) * closedForm k g.1 g.2.1 t
          + (if backsweepValid bs k T then backsweepReal k t g.1 g.2.2 T else 0))).sum := by
  unfold kernelEntry
  have : ∀ (l : List (Rat × Rat × Rat)) (acc : ℝ), l.foldl (entryStep bs T k t) acc
      = acc + (l.map (fun g => (g.2.2 : ℝ) * closedForm k g.1 g.2.1 t
          + (if backsweepValid bs k T then backsweepReal k t g.1 g.2.2 T else 0))).sum := by
    intro l
    induction l with
    | nil => intro acc; simp
    | cons g rest ih =>
      intro acc
      simp only [List.foldl_cons, List.map_cons, List.sum_cons]
      rw [ih]
      unfold entryStep
      by_cases hv : backsweepValid bs k T = true
      · simp only [hv, if_true, num_add, gaussEntry_eq_closedForm, backsweepTerm, backsweepReal, num_div,
          num_mul, num_ofRat, num_exp, num_sub]
        push_cast
        ring
      · simp only [hv, if_false, num_add, gaussEntry_eq_closedForm, Bool.false_eq_true]
        ring
  rw [this]
  simp

example : backsweepValid true 1 13 = true ∧ backsweepValid true (1/100000) 13 = false ∧
    backsweepValid false 1 13 = false := by decide +kernel

/-- the mathematical content of one index: `Σ_g s_g · conv(k; c_g - shift, w_g)(t)`, divided by `Σ s` when normalised -/
noncomputable def convEntry (norm : Bool) (p : Params) (k t : Rat) : ℝ :=
  ((gaussians p.centers p.widths p.scales p.shift).map
      (fun g => (g.2.2 : ℝ) * convolution k g.1 g.2.1 t)).sum
    / (if norm then ((p.scales.sum : Rat) : ℝ) else 1)

/-- **The matrix of one parameter tuple**: entry `(t, k)` is `Σ_g s_g · conv(k; c_g - shift, w_g)(t)`,
    divided by `Σ_g s_g` when `normalize` (back-sweep off, positive widths). -/
theorem matrixOfParams_is_normalised_convolution (norm : Bool) (p : Params) (times rates : List Rat)
    (hbs : p.backsweep = false)
    (hw : ∀ g ∈ gaussians p.centers p.widths p.scales p.shift, 0 < g.2.1) :
    (matrixOfParams norm p times rates : List (List ℝ))
      = times.map (fun t => rates.map (fun k => convEntry norm p k t)) := by
  unfold matrixOfParams convEntry
  simp only [hbs]
  cases norm with
  | false =>
    simp only [kernelOnIndex, Bool.false_eq_true, if_false, div_one]
    apply List.map_congr_left; intro t _
    apply List.map_congr_left; intro k _
    exact kernelEntry_is_sum_of_convolutions _ _ _ _ hw
  | true =>
    simp only [kernelOnIndex, normalise, if_true, List.map_map]
    apply List.map_congr_left; intro t _
    simp only [Function.comp, List.map_map]
    apply List.map_congr_left; intro k _
    simp only [Function.comp, num_div, num_ofRat]
    rw [kernelEntry_is_sum_of_convolutions _ _ _ _ hw]

example : (matrixOfParams true ⟨[0, 1], [1, 1/2], [2, 3], 1/4, false, 0⟩ [4, 5] [1] : List (List ℝ))
    = [4, 5].map (fun t => [1].map (fun k => convEntry true ⟨[0, 1], [1, 1/2], [2, 3], 1/4, false, 0⟩ k t)) :=
  matrixOfParams_is_normalised_convolution true _ _ _ rfl (by decide +kernel)

/-- `matrix @ a_matrix`: entry `c` of a row is `Σ_l row_l · A[l][c]` -/
theorem applyA_entry (a : List (List Rat)) (n : Nat) (m : List (List ℝ)) :
    applyA a n m = m.map (fun row => (List.range n).map (fun c =>
      ((row.zip a).map (fun xa => xa.1 * ((xa.2.getD c 0 : Rat) : ℝ))).sum)) := by
  unfold applyA
  apply List.map_congr_left
  intro row _
  apply List.map_congr_left
  intro c _
  have : ∀ (l : List (ℝ × List Rat)) (acc : ℝ),
      l.foldl (fun acc xa => Num.add acc (Num.mul xa.1 (Num.ofRat (xa.2.getD c 0)))) acc
        = acc + (l.map (fun xa => xa.1 * ((xa.2.getD c 0 : Rat) : ℝ))).sum := by
    intro l
    induction l with
    | nil => intro acc; simp
    | cons x rest ih => intro acc; simp only [List.foldl_cons, List.map_cons, List.sum_cons]; rw [ih]; simp; ring
  rw [this]
  simp

example : applyA [[1, 2], [3, 4]] 2 [[(10:ℝ), 100]] = [[10 * ((1:Rat):ℝ) + (100 * ((3:Rat):ℝ) + 0), 10 * ((2:Rat):ℝ) + (100 * ((4:Rat):ℝ) + 0)]] := by
  rw [applyA_entry]; simp [List.range_succ]

/-! ### `parameter`: broadcasting, shift, dispersion -/

/-- **The coefficient loop is the documented polynomial**: every value gets
    `Σ_n coef_n · dist^(n+1)` added (`dispPoly dist 0 coefs`). -/
theorem dispersion_poly_spec (dist : Rat) (coefs : List Rat) : ∀ (i : Nat) (vs : List Rat),
    dispLoop dist i coefs vs = vs.map (fun v => v + dispPoly dist i coefs) := by
  induction coefs with
  | nil => intro i vs; simp [dispLoop, dispPoly]
  | cons d rest ih =>
    intro i vs
    simp only [dispLoop, ih, List.map_map]
    apply List.map_congr_left
    intro v _
    simp only [Function.comp, dispPoly, List.zipIdx_cons, List.map_cons, List.sum_cons]
    rw [Rat.add_assoc]

example : dispPoly 2 0 [3, 5, 7] = 3 * 2 + 5 * 2 ^ 2 + 7 * 2 ^ 3 ∧
    dispLoop 2 0 [3, 5, 7] [1, 10] = [1 + 82, 10 + 82] := by decide +kernel

private theorem baseParameter_spec (irf : Irf) (i n : Nat) (cs ws : List Rat) (sh : Rat)
    (hb : broadcast irf.center irf.width = some (cs, ws))
    (hs : (scalesOf irf.scale cs).length = cs.length)
    (hsh : shiftAt irf.shift (some i) n = .ok sh)
    (hT : irf.backsweep = true → irf.backsweepPeriod.isSome = true) :
    baseParameter irf (some i) n
      = .ok ⟨cs, ws, scalesOf irf.scale cs, sh, irf.backsweep, periodOf irf⟩ := by
  unfold baseParameter
  simp only [hb, hs, hsh, ne_eq, not_true_eq_false, if_false, periodOf]
  cases hbs : irf.backsweep with
  | false => simp
  | true =>
    have := hT hbs
    cases hp : irf.backsweepPeriod with
    | none => simp [hp] at this
    | some T => simp

/-- **`parameter` of index `i`, non-spectral IRF**: broadcast centres and widths, the given scales
    (or ones), the shift of index `i`. -/
theorem parameter_spec_plain (irf : Irf) (i : Nat) (axis cs ws : List Rat) (sh : Rat)
    (hsp : irf.spectral = false)
    (hb : broadcast irf.center irf.width = some (cs, ws))
    (hs : (scalesOf irf.scale cs).length = cs.length)
    (hsh : shiftAt irf.shift (some i) axis.length = .ok sh)
    (hT : irf.backsweep = true → irf.backsweepPeriod.isSome = true) :
    parameter irf (some i) axis
      = .ok ⟨cs, ws, scalesOf irf.scale cs, sh, irf.backsweep, periodOf irf⟩ := by
  unfold parameter
  simp only [hsp, Bool.false_eq_true, if_false]
  exact baseParameter_spec irf i axis.length cs ws sh hb hs hsh hT

example : parameter ⟨false, [1], [1/2, 1/4], none, some [0, 3/4], true, false, none, none, [], [], false⟩ (some 1) [400, 500]
    = .ok ⟨[1, 1], [1/2, 1/4], [1, 1], 3/4, false, 0⟩ :=
  parameter_spec_plain _ 1 _ [1, 1] [1/2, 1/4] (3/4) rfl (by decide +kernel) (by decide +kernel) (by decide +kernel) (by simp)

/-- **`parameter` of index `i`, spectral IRF**: as above, and every centre / width gets the
    dispersion polynomial in `dist = (x_i - x0)/100` or `1e3/x_i - 1e3/x0` of *this* index's axis
    value `x_i = axis[i]`. -/
theorem parameter_spec (irf : Irf) (i : Nat) (axis cs ws : List Rat) (sh x0 : Rat)
    (hsp : irf.spectral = true)
    (hb : broadcast irf.center irf.width = some (cs, ws))
    (hs : (scalesOf irf.scale cs).length = cs.length)
    (hsh : shiftAt irf.shift (some i) axis.length = .ok sh)
    (hT : irf.backsweep = true → irf.backsweepPeriod.isSome = true)
    (hi : i < axis.length)
    (hdc : irf.dispersionCenter = some x0)
    (hz : irf.wavenumber = true → x0 ≠ 0 ∧ axis.getD i 0 ≠ 0) :
    parameter irf (some i) axis
      = .ok ⟨cs.map (fun c => c + dispPoly (dispDist irf.wavenumber (axis.getD i 0) x0) 0 irf.centerDisp),
             ws.map (fun w => w + dispPoly (dispDist irf.wavenumber (axis.getD i 0) x0) 0 irf.widthDisp),
             scalesOf irf.scale cs, sh, irf.backsweep, periodOf irf⟩ := by
  unfold parameter
  simp only [hsp, if_true]
  unfold spectralParameter
  rw [baseParameter_spec irf i axis.length cs ws sh hb hs hsh hT]
  simp only [Nat.not_le.mpr hi, if_false, hdc]
  have hzz : (irf.wavenumber && x0 == 0) = false ∧ (irf.wavenumber && axis.getD i 0 == 0) = false := by
    cases hw : irf.wavenumber with
    | false => simp
    | true =>
      have := hz hw
      refine ⟨?_, ?_⟩
      · simpa using this.1
      · simp only [Bool.true_and, beq_eq_false_iff_ne]; exact this.2
  simp only [hzz.1, hzz.2, Bool.false_eq_true, if_false, Option.isNone_some, Bool.and_false,
    Option.getD_some]
  congr 1
  congr 1
  · cases h : irf.centerDisp with
    | nil => simp [dispPoly]
    | cons d r => simp [dispersion_poly_spec]
  · cases h : irf.widthDisp with
    | nil => simp [dispPoly]
    | cons d r => simp [dispersion_poly_spec]

example : parameter ⟨true, [1, 2], [1/2], some [1, 3], some [1/4, -1/2, 3/2], true, false, none, some 500, [1/2, 1/4], [1/8], false⟩
      (some 2) [400, 500, 650]
    = .ok ⟨[37/16, 53/16], [11/16, 11/16], [1, 3], 3/2, false, 0⟩ := by
  rw [parameter_spec _ 2 _ [1, 2] [1/2, 1/2] (3/2) 500 rfl (by decide +kernel) (by decide +kernel)
    (by decide +kernel) (by simp) (by decide) rfl (by simp)]
  decide +kernel

/-- every Gaussian has its own centre, width and scale (a scale list of another length is refused) -/
theorem parameter_lengths_agree (irf : Irf) (gi : Option Nat) (axis : List Rat) (p : Params)
    (h : parameter irf gi axis = .ok p) :
    p.widths.length = p.centers.length ∧ p.scales.length = p.centers.length := by
  have hbase : ∀ b, baseParameter irf gi axis.length = .ok b →
      b.widths.length = b.centers.length ∧ b.scales.length = b.centers.length := by
    intro b hb
    unfold baseParameter at hb
    cases hbc : broadcast irf.center irf.width with
    | none => simp [hbc] at hb
    | some cw =>
      obtain ⟨cs, ws⟩ := cw
      have hlen : ws.length = cs.length := by
        unfold broadcast at hbc
        simp only at hbc
        split at hbc
        · split at hbc
          · simp at hbc
          · split at hbc
            · simp only [Option.some.injEq, Prod.mk.injEq] at hbc
              obtain ⟨h1, h2⟩ := hbc; subst h1; subst h2; simp
            · simp only [Option.some.injEq, Prod.mk.injEq] at hbc
              obtain ⟨h1, h2⟩ := hbc; subst h1; subst h2; simp
        · simp only [Option.some.injEq, Prod.mk.injEq] at hbc
          obtain ⟨h1, h2⟩ := hbc; subst h1; subst h2; omega
      simp only [hbc] at hb
      split at hb
      · simp at hb
      · rename_i hsc
        have hsc' : (scalesOf irf.scale cs).length = cs.length := by simpa using hsc
        cases hs1 : shiftAt irf.shift gi axis.length with
        | error e => simp [hs1] at hb
        | ok s1 =>
          simp only [hs1] at hb
          split at hb
          · split at hb
            · simp at hb
            · simp only [Except.ok.injEq] at hb; subst hb; exact ⟨hlen, hsc'⟩
          · simp only [Except.ok.injEq] at hb; subst hb; exact ⟨hlen, hsc'⟩
  unfold parameter at h
  cases hsp : irf.spectral with
  | false =>
    simp only [hsp, Bool.false_eq_true, if_false] at h
    exact hbase p h
  | true =>
    simp only [hsp, if_true] at h
    unfold spectralParameter at h
    cases hb : baseParameter irf gi axis.length with
    | error e => simp [hb] at h
    | ok b =>
      obtain ⟨h1, h2⟩ := hbase b hb
      simp only [hb] at h
      split at h
      · simp at h
      · split at h
        · simp at h
        · split at h
          · simp at h
          · split at h
            · simp at h
            · simp only [Except.ok.injEq] at h
              subst h
              refine ⟨?_, ?_⟩
              · simp only; split <;> split <;> simp [dispLoop_length, h1]
              · simp only; split <;> simp [dispLoop_length, h2]

example : parameter ⟨false, [1, 2, 3], [1/2], some [1], none, true, false, none, none, [], [], false⟩ none [400]
    = .error .scaleMismatch := by decide +kernel

/-! ### index `i` uses the parameters of index `i` -/

/-- scales, back-sweep flag and period, and the number of Gaussians are the same at every index -/
theorem parameter_index_free_part (irf : Irf) (gi gj : Option Nat) (axis : List Rat) (p q : Params)
    (hp : parameter irf gi axis = .ok p) (hq : parameter irf gj axis = .ok q) :
    p.scales = q.scales ∧ p.backsweep = q.backsweep ∧ p.period = q.period ∧
      p.centers.length = q.centers.length ∧ p.widths.length = q.widths.length := by
  unfold parameter at hp hq
  have : p.indexFree = q.indexFree := by
    cases hsp : irf.spectral with
    | true =>
      simp only [hsp, if_true] at hp hq
      exact spectralParameter_indexFree irf gi gj axis p q hp hq
    | false =>
      simp only [hsp, Bool.false_eq_true, if_false] at hp hq
      exact (baseParameter_indexFree irf gi gj _ _ p q hp hq).1
  simp only [Params.indexFree, Prod.mk.injEq] at this
  exact this

/-- one matrix per global index -/
theorem dep_matrix_length {α : Type} [Num α] (irf : Irf) (axis times rates : List Rat)
    (ms : List (List (List α))) (h : matrixDep irf axis times rates = .ok ms) :
    ms.length = axis.length := by
  unfold matrixDep at h
  cases hps : (List.range axis.length).mapM (fun i => parameter irf (some i) axis) with
  | error e => simp [hps] at h
  | ok ps =>
    simp only [hps, Except.ok.injEq] at h
    subst h
    simp [(allParams_spec irf axis ps hps).1]

/-- **The matrix at global index `i` is the matrix of the parameter tuple of index `i`** — the
    same function `matrixOfParams` the index-independent path applies to its single tuple — for every
    number type (in particular the executable terms and ℝ), every axis, every index. -/
theorem index_i_uses_parameters_i {α : Type} [Num α] (irf : Irf) (axis times rates : List Rat)
    (ms : List (List (List α))) (h : matrixDep irf axis times rates = .ok ms)
    (i : Nat) (hi : i < axis.length) :
    ∃ p, parameter irf (some i) axis = .ok p ∧
      ms[i]? = some (matrixOfParams irf.normalize p times rates) := by
  unfold matrixDep at h
  cases hps : (List.range axis.length).mapM (fun i => parameter irf (some i) axis) with
  | error e => simp [hps] at h
  | ok ps =>
    simp only [hps, Except.ok.injEq] at h
    obtain ⟨hlen, hall⟩ := allParams_spec irf axis ps hps
    obtain ⟨p, hpi, hpp⟩ := hall i hi
    refine ⟨p, hpp, ?_⟩
    -- the last collected tuple is the parameter tuple of the last index
    have hne : ps ≠ [] := by
      intro he; rw [he] at hlen; simp at hlen; omega
    have hlast : ∃ j, parameter irf (some j) axis = .ok (ps.getLastD default) := by
      have hj : axis.length - 1 < axis.length := by omega
      obtain ⟨q, hq1, hq2⟩ := hall (axis.length - 1) hj
      refine ⟨axis.length - 1, ?_⟩
      have : ps.getLastD default = q := by
        rw [List.getLastD_eq_getLast?, List.getLast?_eq_getElem?, hlen, hq1]
        rfl
      rw [this]; exact hq2
    obtain ⟨j, hj⟩ := hlast
    obtain ⟨hs, hbs, hT, _, _⟩ := parameter_index_free_part irf (some j) (some i) axis _ p hj hpp
    subst h
    have hi' : i < ps.length := by omega
    simp only [List.length_map, List.getElem?_map, List.getElem?_range hi', Option.map_some]
    congr 1
    have hc : (ps.map (fun p => p.centers.map (· - p.shift))).getD i [] = p.centers.map (· - p.shift) := by
      simp [List.getD, hpi]
    have hw : (ps.map (·.widths)).getD i [] = p.widths := by
      simp [List.getD, hpi]
    rw [hc, hw, hs, hbs, hT]
    rfl

/-- the index-independent path: the matrix of the one parameter tuple -/
theorem indep_matrix_uses_parameters {α : Type} [Num α] (irf : Irf) (axis times rates : List Rat)
    (m : List (List α)) (h : matrixIndep irf axis times rates = .ok m) :
    ∃ p, parameter irf none axis = .ok p ∧ m = matrixOfParams irf.normalize p times rates := by
  unfold matrixIndep at h
  cases hp : parameter irf none axis with
  | error e => simp [hp] at h
  | ok p =>
    simp only [hp, Except.ok.injEq] at h
    exact ⟨p, rfl, h.symm⟩

/-- **The property, index-dependent IRF**: at every global index `i` the matrix equals, entry by
    entry, the normalised scale-weighted sum of convolutions with the Gaussians of *that* index
    (`centre_i - shift_i`, `width_i` as returned by `parameter` for `i`; see `parameter_spec`). -/
theorem dep_matrix_is_convolution_per_index (irf : Irf) (axis times rates : List Rat)
    (ms : List (List (List ℝ))) (h : matrixDep irf axis times rates = .ok ms)
    (i : Nat) (hi : i < axis.length) :
    ∃ p, parameter irf (some i) axis = .ok p ∧
      (p.backsweep = false → (∀ g ∈ gaussians p.centers p.widths p.scales p.shift, 0 < g.2.1) →
        ms[i]? = some (times.map (fun t => rates.map (fun k => convEntry irf.normalize p k t)))) := by
  obtain ⟨p, hp, hm⟩ := index_i_uses_parameters_i irf axis times rates ms h i hi
  refine ⟨p, hp, ?_⟩
  intro hbs hw
  rw [hm, matrixOfParams_is_normalised_convolution irf.normalize p times rates hbs hw]

/-- **The property, index-independent IRF** -/
theorem indep_matrix_is_convolution (irf : Irf) (axis times rates : List Rat)
    (m : List (List ℝ)) (h : matrixIndep irf axis times rates = .ok m) :
    ∃ p, parameter irf none axis = .ok p ∧
      (p.backsweep = false → (∀ g ∈ gaussians p.centers p.widths p.scales p.shift, 0 < g.2.1) →
        m = times.map (fun t => rates.map (fun k => convEntry irf.normalize p k t))) := by
  obtain ⟨p, hp, hm⟩ := indep_matrix_uses_parameters irf axis times rates m h
  refine ⟨p, hp, ?_⟩
  intro hbs hw
  rw [hm, matrixOfParams_is_normalised_convolution irf.normalize p times rates hbs hw]

/-- non-vacuity of the two statements above: a shifted two-index IRF and an unshifted one succeed -/
example : (matrixDep (α := Term) ⟨false, [1], [1/2], none, some [0, 3/4], true, false, none, none, [], [], false⟩
      [400, 500] [0] [1]).toOption.isSome = true ∧
    (matrixIndep (α := Term) ⟨false, [1], [1/2], none, none, true, false, none, none, [], [], false⟩
      [400, 500] [0] [1]).toOption.isSome = true := by decide +kernel

/-! ### end to end: `calculate_matrix`, `Irf.calculate`, `irf_center_location` -/

/-- **`calculate_matrix` of an index-dependent IRF, end to end**: one slice per global index, and slice
    `i` is the A-matrix applied to the normalised convolutions with the Gaussians of index `i`. -/
theorem calculateMatrix_is_convolution_per_index (irf : Irf) (axis times rates : List Rat)
    (a : List (List Rat)) (n : Nat) (M : Matrix ℝ)
    (hdep : isIndexDependent irf = true)
    (h : calculateMatrix (some irf) axis times rates a n = .ok M) :
    ∃ ms, M = .dep ms ∧ ms.length = axis.length ∧
      ∀ i, i < axis.length → ∃ p, parameter irf (some i) axis = .ok p ∧
        (p.backsweep = false → (∀ g ∈ gaussians p.centers p.widths p.scales p.shift, 0 < g.2.1) →
          ms[i]? = some (applyA a n
            (times.map (fun t => rates.map (fun k => convEntry irf.normalize p k t))))) := by
  unfold calculateMatrix decayMatrix at h
  simp only [hdep, if_true] at h
  cases hm : matrixDep (α := ℝ) irf axis times rates with
  | error e => simp [hm] at h
  | ok ms0 =>
    simp only [hm, Except.ok.injEq] at h
    subst h
    refine ⟨ms0.map (applyA a n), rfl, by simp [dep_matrix_length irf axis times rates ms0 hm], ?_⟩
    intro i hi
    obtain ⟨p, hp, hconv⟩ := dep_matrix_is_convolution_per_index irf axis times rates ms0 hm i hi
    refine ⟨p, hp, ?_⟩
    intro hbs hw
    simp [List.getElem?_map, hconv hbs hw]

example : isIndexDependent ⟨false, [1], [1/2], none, some [0, 3/4], true, false, none, none, [], [], false⟩ = true ∧
    (calculateMatrix (α := Term) (some ⟨false, [1], [1/2], none, some [0, 3/4], true, false, none, none, [], [], false⟩)
      [400, 500] [0] [1] [[1]] 1).toOption.isSome = true := by decide +kernel

/-- the same for an index-independent IRF -/
theorem calculateMatrix_is_convolution_indep (irf : Irf) (axis times rates : List Rat)
    (a : List (List Rat)) (n : Nat) (M : Matrix ℝ)
    (hdep : isIndexDependent irf = false)
    (h : calculateMatrix (some irf) axis times rates a n = .ok M) :
    ∃ m, M = .indep m ∧ ∃ p, parameter irf none axis = .ok p ∧
      (p.backsweep = false → (∀ g ∈ gaussians p.centers p.widths p.scales p.shift, 0 < g.2.1) →
        m = applyA a n (times.map (fun t => rates.map (fun k => convEntry irf.normalize p k t)))) := by
  unfold calculateMatrix decayMatrix at h
  simp only [hdep, Bool.false_eq_true, if_false] at h
  cases hm : matrixIndep (α := ℝ) irf axis times rates with
  | error e => simp [hm] at h
  | ok m0 =>
    simp only [hm, Except.ok.injEq] at h
    subst h
    obtain ⟨p, hp, hconv⟩ := indep_matrix_is_convolution irf axis times rates m0 hm
    exact ⟨applyA a n m0, rfl, p, hp, fun hbs hw => by rw [hconv hbs hw]⟩

example : isIndexDependent ⟨false, [1, 2], [1/2], some [1, 3], none, true, false, none, none, [], [], false⟩ = false ∧
    (calculateMatrix (α := Term) (some ⟨false, [1, 2], [1/2], some [1, 3], none, true, false, none, none, [], [], false⟩)
      [400, 500] [0] [1] [[1]] 1).toOption.isSome = true := by decide +kernel

/-- `Irf.calculate`: the sum of the (not area-normalised) Gaussians `s·exp(-(t-c)²/(2w²))` over the tuples
    `(centre - shift, width, scale)` of the index — the list `gaussians …` the kernel of that index receives -/
theorem irfCalculate_spec (irf : Irf) (i : Nat) (axis times : List Rat) (v : List ℝ)
    (h : irfCalculate irf i axis times = .ok v) :
    ∃ p, parameter irf (some i) axis = .ok p ∧
      v = times.map (fun (t : Rat) => ((gaussians p.centers p.widths p.scales p.shift).map
        (fun g => (g.2.2 : ℝ) * exp (-(((t : ℝ) - g.1) ^ 2) / (2 * (g.2.1 : ℝ) ^ 2)))).sum) := by
  unfold irfCalculate at h
  cases hp : parameter irf (some i) axis with
  | error e => simp [hp] at h
  | ok p =>
    simp only [hp, Except.ok.injEq] at h
    refine ⟨p, rfl, ?_⟩
    rw [← h]
    apply List.map_congr_left
    intro t _
    have : ∀ (l : List (Rat × Rat × Rat)) (acc : ℝ),
        l.foldl (fun acc g => Num.add acc (Num.mul (Num.ofRat g.2.2)
          (Num.exp (Num.ofRat (-1 * ((t - g.1) * (t - g.1)) / (2 * (g.2.1 * g.2.1))))))) acc
        = acc + (l.map (fun g => (g.2.2 : ℝ) * exp (-(((t : ℝ) - g.1) ^ 2) / (2 * (g.2.1 : ℝ) ^ 2)))).sum := by
      intro l
      induction l with
      | nil => intro acc; simp
      | cons x rest ih =>
        intro acc
        simp only [List.foldl_cons, List.map_cons, List.sum_cons]
        rw [ih]
        simp only [num_add, num_mul, num_ofRat, num_exp]
        push_cast
        ring_nf
    rw [this]
    simp

example : (irfCalculate (α := Term) ⟨false, [1, 2], [1/2], some [1, 3], none, true, false, none, none, [], [], false⟩
    0 [400] [0, 1]).toOption.isSome = true := by decide +kernel

/-- **column `i` of `irf_center_location` holds the centres of index `i`** -/
theorem calculateDispersion_entry (irf : Irf) (axis : List Rat) (loc : List (List Rat))
    (h : calculateDispersion irf axis = .ok loc) (i : Nat) (hi : i < axis.length) :
    ∃ p, spectralParameter irf (some i) axis = .ok p ∧
      ∀ g, g < (loc.length) → (loc.getD g []).getD i 0 = p.centers.getD g 0 := by
  unfold calculateDispersion at h
  cases hps : (List.range axis.length).mapM (fun i => spectralParameter irf (some i) axis) with
  | error e => simp [hps] at h
  | ok ps =>
    simp only [hps, Except.ok.injEq] at h
    obtain ⟨hl, hall⟩ := mapM_ok _ _ _ hps
    simp only [List.length_range] at hl hall
    obtain ⟨p, hp1, hp2⟩ := hall i hi
    refine ⟨p, by simpa using hp2, ?_⟩
    intro g hg
    subst h
    have hg' : g < ((ps.map (·.centers)).headD []).length := by simpa using hg
    have e1 : ((List.range ((ps.map (·.centers)).headD []).length).map
        (fun g => (ps.map (·.centers)).map (fun r => r.getD g 0))).getD g []
        = (ps.map (·.centers)).map (fun r => r.getD g 0) := by
      rw [List.getD_eq_getElem?_getD, List.getElem?_map, List.getElem?_range hg']
      rfl
    rw [e1]
    simp [List.getD, hp1]

example : calculateDispersion ⟨true, [1, 2], [1/2], none, none, true, false, none, some 500, [1/2, 1/4], [], false⟩ [400, 500, 650]
    = .ok [[3/4, 1, 37/16], [7/4, 2, 53/16]] := by decide +kernel

/-! ### the functions regenerated from the Python source are the model's functions

`GlotaranModel/Generated/C05Fns.lean` is rewritten from the source text of the repository on every run
(harness/props/_c05_translate.py): the numba kernels as the loop nests they are, with every scalar operation of
the source applied to the operands the source applies it to.  The theorems below equate them, over the reals and for
arrays of any length, with the hand-written model functions the driver executes — an edit of the source that changes
what a kernel computes re-opens one of them. -/

/-- **`calculate_decay_matrix_no_irf` as written in util.py** (loop over rates, loop over times,
    `matrix[n_t, n_r] += np.exp(-r_n * t_n)`) run on `np.zeros` **is the model's `noIrfMatrix`**. -/
theorem generated_no_irf_eq_model (rates times : List Rat) :
    Gen.calculate_decay_matrix_no_irf (zeros times.length rates.length : Mat ℝ) rates times
      = noIrfMatrix times rates := by
  unfold Gen.calculate_decay_matrix_no_irf noIrfMatrix
  simp only [matUpd, forRange_matMapIdx, matMapIdx_zeros]
  rw [map_eq_map_range times]
  apply List.map_congr_left
  intro p hp
  rw [map_eq_map_range rates]
  apply List.map_congr_left
  intro q hq
  simp only [List.mem_range] at hp hq
  rw [forRange_single rates.length q _ _ (fun i hi y => by
    rw [forRange_single times.length p _ _ (fun j hj z => by simp [Ne.symm hj])]
    simp [Ne.symm hi])]
  rw [forRange_single times.length p _ _ (fun j hj z => by simp [Ne.symm hj])]
  simp [hp, hq]

example : Gen.calculate_decay_matrix_no_irf (zeros 2 1 : Mat ℝ) [3] [0, 1] = noIrfMatrix [0, 1] [3] :=
  generated_no_irf_eq_model [3] [0, 1]

/-- **The numba kernel `calculate_decay_matrix_gaussian_irf_on_index` as written in the source** — the loop nest
    Gaussians × rates × times, `alpha`, `beta`, `thresh`, the branch on `thresh < -1`, both `+=` stores and the
    back-sweep store — run on `np.zeros` **is the model's `kernelOnIndex`** (hence, entry by entry, `kernelEntry`
    / `gaussEntry`), for any number of Gaussians, rates and times (one width and one scale per centre). -/
theorem generated_kernel_eq_model_on_index (rates times centers widths scales : List Rat) (bs : Bool) (T : Rat)
    (hw : widths.length = centers.length) (hs : scales.length = centers.length) :
    Gen.calculate_decay_matrix_gaussian_irf_on_index (zeros times.length rates.length : Mat ℝ) rates times
        centers widths scales bs T
      = kernelOnIndex (centers.zip (widths.zip scales)) bs T times rates := by
  unfold Gen.calculate_decay_matrix_gaussian_irf_on_index kernelOnIndex
  simp only [matUpd, ite_matMapIdx, ite_matMapIdx_right]
  simp only [matMapIdx_matMapIdx, forRange_matMapIdx, matMapIdx_zeros]
  rw [map_eq_map_range times]
  apply List.map_congr_left
  intro p hp
  rw [map_eq_map_range rates]
  apply List.map_congr_left
  intro q hq
  simp only [List.mem_range] at hp hq
  -- entry (p, q): only the iterations n_t = p, n_r = q of the two inner loops touch it
  conv_lhs =>
    arg 3
    ext n_i y
    rw [forRange_single rates.length q _ _ (fun i hi y => by
      rw [forRange_single times.length p _ _ (fun j hj z => by simp [Ne.symm hj])]
      simp [Ne.symm hi])]
    rw [forRange_single times.length p _ _ (fun j hj z => by simp [Ne.symm hj])]
    simp only [hp, hq, if_true, and_self]
  -- the loop over the Gaussians is the model's fold of `entryStep`
  unfold kernelEntry
  rw [← forRange_zip3 centers widths scales hw hs
    (fun c w s y => entryStep bs T (rates.getD q 0) (times.getD p 0) y (c, w, s))]
  apply forRange_congr
  intro i _ y
  generalize centers.getD i 0 = c
  generalize widths.getD i 0 = w
  generalize scales.getD i 0 = s
  generalize rates.getD q 0 = k
  generalize times.getD p 0 = t
  simp only [entryStep, gaussEntry, threshLt_real, backsweepValid_real, erfcxBranch, erfBranch, backsweepTerm, threshT,
    betaT, alphaT, num_ofRat, num_add, num_sub, num_mul, num_div, num_neg, num_exp, num_erf, num_erfcx, num_sqrt2,
    num_lt, num_abs, Bool.and_self_left]
  push_cast
  split_ifs <;> ring_nf

example : Gen.calculate_decay_matrix_gaussian_irf_on_index (zeros 2 1 : Mat ℝ) [1] [4, 5] [0, 1] [1, 1/2] [2, 3] true 13
    = kernelOnIndex [(0, 1, 2), (1, 1/2, 3)] true 13 [4, 5] [1] :=
  generated_kernel_eq_model_on_index [1] [4, 5] [0, 1] [1, 1/2] [2, 3] true 13 rfl rfl

/-- **The per-index kernel `calculate_decay_matrix_gaussian_irf` as written in the source** (for every `n_w` the
    kernel above on the slice `matrix[n_w]` with `all_centers[n_w]`, `all_widths[n_w]` and the shared scales /
    back-sweep) **is, slice by slice, the model's `kernelOnIndex` on the centres and widths of that index** — the
    expression `matrixDep` is built from. -/
theorem generated_kernel_eq_model_all_indices (rates times scales : List Rat) (allC allW : List (List Rat))
    (bs : Bool) (T : Rat)
    (h : ∀ n, n < allC.length → (allW.getD n []).length = (allC.getD n []).length ∧
      scales.length = (allC.getD n []).length) :
    Gen.calculate_decay_matrix_gaussian_irf (zeros3 allC.length times.length rates.length : List (Mat ℝ)) rates times
        allC allW scales bs T
      = (List.range allC.length).map (fun n =>
          kernelOnIndex ((allC.getD n []).zip ((allW.getD n []).zip scales)) bs T times rates) := by
  simp only [Gen.calculate_decay_matrix_gaussian_irf, forRange_slabUpd, zeros3, mapIdx_replicate']
  apply List.map_congr_left
  intro n hn
  simp only [List.mem_range] at hn
  simp only [hn, if_true]
  exact generated_kernel_eq_model_on_index _ _ _ _ _ _ _ (h n hn).1 (h n hn).2

example : Gen.calculate_decay_matrix_gaussian_irf (zeros3 2 2 1 : List (Mat ℝ)) [1] [4, 5] [[0, 1], [2, 3]] [[1, 1/2], [1, 1/4]] [2, 3] false 0
    = (List.range 2).map (fun n => kernelOnIndex (([[0, 1], [2, 3]].getD n []).zip (([[1, 1/2], [1, 1/4]].getD n []).zip [2, 3])) false 0 [4, 5] [1]) :=
  generated_kernel_eq_model_all_indices [1] [4, 5] [2, 3] [[0, 1], [2, 3]] [[1, 1/2], [1, 1/4]] false 0 (by decide)

/-- **`decay_matrix_implementation_index_independent` as written in util.py** — the isinstance test, the call of
    `irf.parameter(None, global_axis)`, the kernel on `centers - shift`, `matrix /= np.sum(irf_scales)` when `normalize`,
    the no-IRF kernel otherwise — run on `np.zeros` **is the model's `matrixIndep` / `noIrfMatrix`** (errors of
    `parameter` included). -/
theorem generated_glue_indep_eq_model (irf : Option Irf) (axis times rates : List Rat) :
    Gen.decay_matrix_implementation_index_independent (zeros times.length rates.length : Mat ℝ) rates axis times irf
      = (match irf with
         | none => .ok (noIrfMatrix times rates)
         | some i => matrixIndep i axis times rates) := by
  cases irf with
  | none =>
    simp only [Gen.decay_matrix_implementation_index_independent, generated_no_irf_eq_model]
  | some i =>
    simp only [Gen.decay_matrix_implementation_index_independent, matrixIndep, bindE]
    cases hp : parameter i none axis with
    | error e => rfl
    | ok p =>
      obtain ⟨h1, h2⟩ := parameter_lengths_agree i none axis p hp
      simp only [matrixOfParams, gaussians, vecSubScalar]
      rw [generated_kernel_eq_model_on_index _ _ _ _ _ _ _ (by simpa using h1) (by simpa using h2)]
      cases i.normalize <;> simp [matDivScalar, normalise]

example : Gen.decay_matrix_implementation_index_independent (zeros 2 1 : Mat ℝ) [1] [400] [4, 5]
      (some ⟨false, [1, 2], [1/2], some [1, 3], none, true, false, none, none, [], [], false⟩)
    = matrixIndep ⟨false, [1, 2], [1/2], some [1, 3], none, true, false, none, none, [], [], false⟩ [400] [4, 5] [1] :=
  generated_glue_indep_eq_model _ [400] [4, 5] [1]

/-- **`decay_matrix_implementation_index_dependent` as written in util.py** — the loop over the global axis calling
    `irf.parameter(global_index, global_axis)` and appending `centers - shift` / `widths`, scales and back-sweep taken
    from the last iteration, the per-index kernel, `matrix /= np.sum(irf_scales)` when `normalize` — run on `np.zeros`
    **is the model's `matrixDep`** (errors of `parameter` included; an empty axis gives an empty result on both sides). -/
theorem generated_glue_dep_eq_model (irf : Irf) (axis times rates : List Rat) :
    Gen.decay_matrix_implementation_index_dependent (zeros3 axis.length times.length rates.length : List (Mat ℝ))
        rates axis times irf
      = matrixDep irf axis times rates := by
  unfold Gen.decay_matrix_implementation_index_dependent matrixDep
  rw [forRangeM_bindE]
  cases hps : (List.range axis.length).mapM (fun i => parameter irf (some i) axis) with
  | error e => rfl
  | ok ps =>
    obtain ⟨hlen, hall⟩ := allParams_spec irf axis ps hps
    have hfold := foldl_collect ps [] [] default
    simp only [show (default : Params).backsweep = false from rfl, show (default : Params).period = 0 from rfl,
      show (default : Params).scales = [] from rfl] at hfold
    simp only [bindE, hfold, List.nil_append]
    have hl : (ps.map (fun p => p.centers.map (· - p.shift))).length = axis.length := by simp [hlen]
    have h : ∀ n, n < (ps.map (fun p => p.centers.map (· - p.shift))).length →
        ((ps.map (·.widths)).getD n []).length = ((ps.map (fun p => p.centers.map (· - p.shift))).getD n []).length ∧
        (ps.getLastD default).scales.length = ((ps.map (fun p => p.centers.map (· - p.shift))).getD n []).length := by
      intro n hn
      have hn' : n < axis.length := by simpa [hlen] using hn
      obtain ⟨p, hpi, hpp⟩ := hall n hn'
      obtain ⟨h1, h2⟩ := parameter_lengths_agree irf (some n) axis p hpp
      have hj : axis.length - 1 < axis.length := by omega
      obtain ⟨q, hq1, hq2⟩ := hall (axis.length - 1) hj
      have hlast : ps.getLastD default = q := by
        rw [List.getLastD_eq_getLast?, List.getLast?_eq_getElem?, hlen, hq1]; rfl
      obtain ⟨hs, _⟩ := parameter_index_free_part irf (some (axis.length - 1)) (some n) axis q p hq2 hpp
      rw [hlast, hs]
      simp [List.getD, hpi, h1, h2]
    rw [← hl, generated_kernel_eq_model_all_indices _ _ _ _ _ _ _ h]
    cases irf.normalize <;> simp [slabDivScalar, matDivScalar, normalise]

example : Gen.decay_matrix_implementation_index_dependent (zeros3 2 1 1 : List (Mat ℝ)) [1] [400, 500] [0]
      ⟨false, [1], [1/2], none, some [0, 3/4], true, false, none, none, [], [], false⟩
    = matrixDep ⟨false, [1], [1/2], none, some [0, 3/4], true, false, none, none, [], [], false⟩ [400, 500] [0] [1] :=
  generated_glue_dep_eq_model _ [400, 500] [0] [1]

/-! ### irf.py: `is_index_dependent`, the dispersion variable and the dispersion loops, regenerated from the source -/

/-- **`is_index_dependent` as written in irf.py** (`self.shift is not None`; for the spectral classes
    `super().is_index_dependent() or self.dispersion_center is not None`) **is the model's `isIndexDependent`**. -/
theorem is_index_dependent_generated_eq_model (irf : Irf) :
    isIndexDependent irf
      = if irf.spectral then Gen.is_index_dependent_spectral irf else Gen.is_index_dependent_base irf := by
  unfold isIndexDependent Gen.is_index_dependent_spectral Gen.is_index_dependent_base
  cases irf.spectral <;> simp

example : isIndexDependent ⟨true, [1], [1/2], none, none, true, false, none, some 500, [], [], false⟩ = true ∧
    Gen.is_index_dependent_base ⟨true, [1], [1/2], none, none, true, false, none, some 500, [], [], false⟩ = false := by
  decide +kernel

/-- **The dispersion variable as written in `IrfSpectralMultiGaussian.parameter`** (`1e3 / index - 1e3 / x0` when
    `model_dispersion_with_wavenumber`, else `(index - x0) / 100`) **is the model's `dispDist`**. -/
theorem dispersion_dist_generated_eq_model (wn : Bool) (x x0 : Rat) :
    Gen.dispersion_dist wn x x0 = dispDist wn x x0 := by
  unfold Gen.dispersion_dist dispDist
  rfl

example : Gen.dispersion_dist true 400 500 = 1/2 ∧ Gen.dispersion_dist false 400 500 = -1 := by decide +kernel

/-- **`IrfSpectralMultiGaussian.parameter` follows the regenerated skeleton**: with the tuple `b` of the base class,
    an index inside the axis and a dispersion centre, the result is `b` with centres and widths replaced by what the
    two loops of the source (`for i, disp in enumerate(coefficients): values += disp * np.power(dist, i + 1)`, the
    centre coefficients applied to the centres, the width coefficients to the widths) produce for the regenerated
    dispersion variable of *this* index's axis value. -/
theorem parameter_generated_eq_model (irf : Irf) (i : Nat) (axis : List Rat) (b : Params) (x0 : Rat)
    (hb : baseParameter irf (some i) axis.length = .ok b) (hi : i < axis.length)
    (hdc : irf.dispersionCenter = some x0)
    (hz : irf.wavenumber = true → x0 ≠ 0 ∧ axis.getD i 0 ≠ 0) :
    spectralParameter irf (some i) axis
      = .ok { b with
          centers := (Gen.spectral_dispersion irf.centerDisp irf.widthDisp
            (Gen.dispersion_dist irf.wavenumber (axis.getD i 0) x0) b.centers b.widths).1,
          widths := (Gen.spectral_dispersion irf.centerDisp irf.widthDisp
            (Gen.dispersion_dist irf.wavenumber (axis.getD i 0) x0) b.centers b.widths).2 } := by
  unfold spectralParameter
  rw [hb]
  simp only [Nat.not_le.mpr hi, if_false, hdc]
  have hzz : (irf.wavenumber && x0 == 0) = false ∧ (irf.wavenumber && axis.getD i 0 == 0) = false := by
    cases hw : irf.wavenumber with
    | false => simp
    | true =>
      have := hz hw
      refine ⟨?_, ?_⟩
      · simpa using this.1
      · simp only [Bool.true_and, beq_eq_false_iff_ne]; exact this.2
  simp only [hzz.1, hzz.2, Bool.false_eq_true, if_false, Option.isNone_some, Bool.and_false,
    Option.getD_some, spectral_dispersion_eq, dispersion_dist_generated_eq_model]

example : spectralParameter ⟨true, [1, 2], [1/2], some [1, 3], some [1/4, -1/2, 3/2], true, false, none, some 500, [1/2, 1/4], [1/8], false⟩
      (some 2) [400, 500, 650]
    = .ok ⟨[37/16, 53/16], [11/16, 11/16], [1, 3], 3/2, false, 0⟩ := by
  rw [parameter_generated_eq_model _ 2 _ ⟨[1, 2], [1/2, 1/2], [1, 3], 3/2, false, 0⟩ 500 (by decide +kernel) (by decide) rfl (by simp)]
  decide +kernel

/-! ### irf.py / util.py, method level: `parameter`, `calculate`, `calculate_dispersion`, `calculate_matrix`, `retrieve_irf`
regenerated from the source (GlotaranModel/Generated/C05Irf.lean) are the model's functions -/

/-- **`IrfMultiGaussian.parameter` as written in irf.py** — the list normalisation, `len(centers) != len(widths)` with its
    `min(...) != 1` refusal, the broadcast of the single centre (or width) with `[x[0] for _ in range(n)]`, the default scales
    `[1.0 for _ in centers]`, the scale-count check (fix D24), `shift = 0` / the lookup `self.shift[global_index]` behind
    `global_index >= len(self.shift)` (TypeError for `None`, the ModelError whose message indexes the global axis: IndexError
    beyond it), `self.backsweep_period.value if self.backsweep else 0` (AttributeError without a period) and the returned
    tuple — **is the model's `baseParameter`**, for every item, every global index (or none) and every axis. -/
theorem generated_base_parameter_eq_model (irf : Irf) (gi : Option Nat) (axis : List Rat) :
    Gen.base_parameter irf gi axis = baseParameter irf gi axis.length := by
  unfold Gen.base_parameter baseParameter broadcast scalesOf shiftAt
  rcases hc : irf.center with _ | ⟨c0, _ | ⟨c1, cs⟩⟩ <;> rcases hw : irf.width with _ | ⟨w0, _ | ⟨w1, ws⟩⟩ <;>
    simp [bindE, listGet, needIndex, optValue]
  all_goals
    cases irf.scale <;> cases irf.shift <;> cases gi <;> cases irf.backsweep <;> cases irf.backsweepPeriod <;>
      simp
  all_goals
    try (split_ifs <;> simp_all)
  all_goals
    try (split_ifs <;> simp_all)

example : Gen.base_parameter ⟨false, [1, 2], [1/2], some [1, 3], some [1/4, -1/2], true, false, none, none, [], [], false⟩ (some 1) [400, 500]
    = .ok ⟨[1, 2], [1/2, 1/2], [1, 3], -1/2, false, 0⟩ := by
  rw [generated_base_parameter_eq_model]; decide +kernel

/-- **`IrfMultiGaussian.calculate` as written in irf.py** (`self.parameter(index, global_axis)`, then Python's `sum` over
    `zip(centers - shift, widths, scales)` of `scale * np.exp(-1 * (model_axis - center) ** 2 / (2 * width**2))`) **is the
    model's `irfCalculate`**, over the reals, for time axes and Gaussian lists of any length. -/
theorem generated_irf_calculate_eq_model (irf : Irf) (i : Nat) (axis times : List Rat) :
    Gen.irf_calculate (α := ℝ) irf i axis times = irfCalculate irf i axis times := by
  unfold Gen.irf_calculate irfCalculate bindE
  cases parameter irf (some i) axis with
  | error e => rfl
  | ok p =>
    simp only
    congr 1
    apply List.map_congr_left
    intro t _
    congr 1
    funext acc g
    simp only [num_add, num_mul, num_ofRat, num_exp, num_div, num_neg, num_sub]
    push_cast
    ring_nf

example : Gen.irf_calculate (α := ℝ) ⟨false, [1, 2], [1/2], some [1, 3], some [1/4, -1/2], true, false, none, none, [], [], false⟩ 0 [400, 500] [0, 1]
    = irfCalculate ⟨false, [1, 2], [1/2], some [1, 3], some [1/4, -1/2], true, false, none, none, [], [], false⟩ 0 [400, 500] [0, 1] := generated_irf_calculate_eq_model _ _ _ _

/-- **`IrfSpectralMultiGaussian.calculate_dispersion` as written** (loop over the axis, `self.parameter(index, axis)`, the
    centres appended, `np.asarray(dispersion).T`) **is the model's `calculateDispersion`**. -/
theorem generated_calculate_dispersion_eq_model (irf : Irf) (axis : List Rat) :
    Gen.calculate_dispersion irf axis = calculateDispersion irf axis := by
  unfold Gen.calculate_dispersion calculateDispersion
  rw [forRangeM_bindE]
  cases (List.range axis.length).mapM (fun i => spectralParameter irf (some i) axis) with
  | error e => rfl
  | ok ps =>
    simp only [bindE, transposeRows]
    have : ∀ (l : List Params) (a : List (List Rat)), l.foldl (fun st p => st ++ [p.centers]) a = a ++ l.map (·.centers) := by
      intro l
      induction l with
      | nil => simp
      | cons x r ih => intro a; simp [ih]
    rw [this]
    simp

example : Gen.calculate_dispersion ⟨true, [1, 2], [1/2], none, none, true, false, none, some 500, [1/2, 1/4], [], false⟩ [400, 500, 650]
    = .ok [[3/4, 1, 37/16], [7/4, 2, 53/16]] := by
  rw [generated_calculate_dispersion_eq_model]; decide +kernel

/-- **`util.index_dependent` as written** (`isinstance(dataset_model.irf, IrfMultiGaussian) and
    dataset_model.irf.is_index_dependent()`): false without a Gaussian IRF, otherwise the item's `is_index_dependent`
    (regenerated itself: `is_index_dependent_generated_eq_model`). -/
theorem generated_index_dependent_eq_model (irf : Option Irf) :
    Gen.index_dependent irf = (match irf with
      | some i => if i.spectral then Gen.is_index_dependent_spectral i else Gen.is_index_dependent_base i
      | none => false) := by
  cases irf with
  | none => rfl
  | some i => simp only [Gen.index_dependent, is_index_dependent_generated_eq_model]

example : Gen.index_dependent none = false ∧
    Gen.index_dependent (some ⟨false, [1, 2], [1/2], some [1, 3], some [1/4, -1/2], true, false, none, none, [], [], false⟩) = true := by decide +kernel

/-- **`util.calculate_matrix` as written** — `np.zeros` of the shape chosen by `index_dependent`, the index-dependent or the
    index-independent glue function (both regenerated: `generated_glue_*_eq_model`), `if not np.all(np.isfinite(matrix)): raise
    ValueError`, then `matrix @ a_matrix` — **is the model's `calculateMatrixFin`**, over the reals and for EVERY finiteness
    predicate `fin` (so dropping or moving the check, or multiplying before it, is a false statement, not only another text). -/
theorem generated_calculate_matrix_eq_model (fin : ℝ → Bool) (irf : Option Irf) (axis times rates : List Rat)
    (a : List (List Rat)) (n : Nat) :
    Gen.calculate_matrix fin irf rates axis times a n = calculateMatrixFin fin irf axis times rates a n := by
  unfold Gen.calculate_matrix calculateMatrixFin decayMatrix Gen.index_dependent
  cases irf with
  | none =>
    simp only [Bool.false_eq_true, if_false, zerosOfShape, callIndep, generated_glue_indep_eq_model, bindE, matmul_eq_applyA]
    cases Matrix.all fin (Matrix.indep (noIrfMatrix times rates)) <;> simp
  | some i =>
    cases hd : isIndexDependent i with
    | true =>
      simp only [hd, if_true, zerosOfShape, callDep, generated_glue_dep_eq_model, bindE, matmul_eq_applyA]
      cases matrixDep (α := ℝ) i axis times rates with
      | error e => rfl
      | ok ms => simp only; cases Matrix.all fin (Matrix.dep ms) <;> simp
    | false =>
      simp only [hd, Bool.false_eq_true, if_false, zerosOfShape, callIndep, generated_glue_indep_eq_model, bindE, matmul_eq_applyA]
      cases matrixIndep (α := ℝ) i axis times rates with
      | error e => rfl
      | ok m => simp only; cases Matrix.all fin (Matrix.indep m) <;> simp

example : Gen.calculate_matrix (fun _ : ℝ => true) (some ⟨false, [1, 2], [1/2], some [1, 3], some [1/4, -1/2], true, false, none, none, [], [], false⟩) [1] [400, 500] [0, 1] [[1]] 1
    = calculateMatrixFin (fun _ : ℝ => true) (some ⟨false, [1, 2], [1/2], some [1, 3], some [1/4, -1/2], true, false, none, none, [], [], false⟩) [400, 500] [0, 1] [1] [[1]] 1 :=
  generated_calculate_matrix_eq_model _ _ _ _ _ _ _

/-- **`util.retrieve_irf` as written** — `dataset["irf"] = irf.calculate(index=0, …)`, `irf_center` / `irf_width` (the declared
    lists; `x[0]` of an empty list is an IndexError), `irf_shift = [center[0] - p.value for p in irf.shift]` on the global
    dimension (xarray's conflicting-sizes error), and for a spectral IRF with a dispersion centre `irf_center_location =
    irf.calculate_dispersion(spectral axis)` with `center_dispersion_1` its first row — **is the model's `retrieveIrf`**. -/
theorem generated_retrieve_irf_eq_model (irf : Irf) (axis times : List Rat) :
    Gen.retrieve_irf (α := ℝ) irf axis times = retrieveIrf irf axis times := by
  unfold Gen.retrieve_irf retrieveIrf
  rw [generated_irf_calculate_eq_model, generated_calculate_dispersion_eq_model]
  cases irfCalculate (α := ℝ) irf 0 axis times with
  | error e => rfl
  | ok v =>
    simp only [bindR, liftIrf, scalarOrList]
    rcases hc : irf.center with _ | ⟨c0, cs⟩
    · simp
    rcases hw : irf.width with _ | ⟨w0, ws⟩
    · simp
    simp only [List.isEmpty_cons, Bool.false_eq_true, if_false, Bool.or_self, listGet, bindE, onGlobalDim]
    have hrows : ∀ loc, calculateDispersion irf axis = .ok loc → onGlobalDimRows axis loc = .ok loc := by
      intro loc hcd
      simp [onGlobalDimRows, calculateDispersion_rows irf axis loc hcd]
    cases hsp : (irf.spectral && irf.dispersionCenter.isSome) <;>
      cases hcd : calculateDispersion irf axis <;>
      cases hsh : irf.shift <;>
      (first | simp [hrows _ hcd] | simp) <;>
      (rename_i sh; cases sh <;> simp <;> split_ifs <;> simp_all)

example : (Gen.retrieve_irf (α := ℝ) ⟨false, [1, 2], [1/2], some [1, 3], some [1/4, -1/2], true, false, none, none, [], [], false⟩ [400, 500] [0, 1]).toOption.isSome = true := by
  rw [generated_retrieve_irf_eq_model]
  unfold retrieveIrf irfCalculate
  simp only [show parameter ⟨false, [1, 2], [1/2], some [1, 3], some [1/4, -1/2], true, false, none, none, [], [], false⟩ (some 0) [400, 500] = .ok ⟨[1, 2], [1/2, 1/2], [1, 3], 1/4, false, 0⟩ by decide +kernel]
  simp [Except.toOption]

/-! ### the cases the compiled code refuses: zero width, zero sum of scales, empty global axis -/

/-- **A matrix that comes back from the checked `calculate_matrix` is the matrix of `calculateMatrix`** (so every
    convolution theorem above applies to it), no kernel raised (`kernelGuard`: no zero width met by a loop iteration, no
    empty global axis under an index-dependent IRF) and every entry of the decay matrix passed `np.isfinite`. -/
theorem checked_ok_refines {α : Type} [Num α] (fin : α → Bool) (irf : Option Irf) (axis times rates : List Rat)
    (a : List (List Rat)) (n : Nat) (M : Matrix α)
    (h : calculateMatrixChecked fin irf axis times rates a n = .ok M) :
    calculateMatrix irf axis times rates a n = .ok M ∧
      (∀ i, irf = some i → kernelGuard i axis times rates = none) ∧
      ∃ M0, decayMatrix irf axis times rates = .ok M0 ∧ M0.all fin = true := by
  unfold calculateMatrixChecked at h
  cases hd : decayMatrix (α := α) irf axis times rates with
  | error e => simp [hd] at h
  | ok M0 =>
    simp only [hd] at h
    cases hg : irf.bind (fun i => kernelGuard i axis times rates) with
    | some e => simp [hg] at h
    | none =>
      simp only [hg, calculateMatrixFin, hd] at h
      by_cases hf : M0.all fin = true
      · simp only [hf, Bool.not_true, Bool.false_eq_true, if_false, Except.ok.injEq] at h
        refine ⟨?_, ?_, M0, rfl, hf⟩
        · unfold calculateMatrix
          rw [hd, ← h]
          cases M0 <;> rfl
        · intro i hi
          subst hi
          simpa using hg
      · simp [hf] at h

example : (calculateMatrixChecked Term.finite (some ⟨false, [1, 2], [1/2], some [1, 3], some [1/4, -1/2], true, false, none, none, [], [], false⟩) [400, 500] [0, 1] [1] [[1]] 1).toOption.isSome = true := by
  decide +kernel

/-- **`normalize` with scales that sum to zero never yields a matrix** (non-empty time axis and rates): every entry is a
    quotient by the exact number 0 (`inf` / `nan` in numpy), so `calculate_matrix` raises its "Non-finite concentrations"
    ValueError — unless `parameter` or a kernel raised before. -/
theorem zero_scale_sum_never_a_matrix (irf : Irf) (axis times rates : List Rat) (a : List (List Rat)) (n : Nat)
    (p : Params) (hn : irf.normalize = true)
    (hp : parameter irf (if isIndexDependent irf then some 0 else none) axis = .ok p) (h0 : p.scales.sum = 0)
    (hax : isIndexDependent irf = true → axis ≠ []) (ht : times ≠ []) (hr : rates ≠ []) (M : Matrix Term) :
    calculateMatrixChecked Term.finite (some irf) axis times rates a n ≠ .ok M := by
  intro h
  obtain ⟨_, _, M0, hd, hf⟩ := checked_ok_refines _ _ _ _ _ _ _ _ h
  unfold decayMatrix at hd
  cases hdep : isIndexDependent irf with
  | false =>
    simp only [hdep, Bool.false_eq_true, if_false] at hd hp
    cases hm : matrixIndep (α := Term) irf axis times rates with
    | error e => simp [hm] at hd
    | ok m =>
      simp only [hm, Except.ok.injEq] at hd
      obtain ⟨q, hq, hmq⟩ := indep_matrix_uses_parameters irf axis times rates m hm
      rw [hp] at hq
      simp only [Except.ok.injEq] at hq
      subst hq; subst hd
      rw [hn] at hmq
      have := normalised_zero_sum_not_finite p times rates h0 ht hr
      rw [← hmq] at this
      simp only [Matrix.all] at hf
      rw [this] at hf
      exact Bool.false_ne_true hf
  | true =>
    simp only [hdep, if_true] at hd hp
    cases hm : matrixDep (α := Term) irf axis times rates with
    | error e => simp [hm] at hd
    | ok ms =>
      simp only [hm, Except.ok.injEq] at hd
      have hpos : 0 < axis.length := List.length_pos_iff.mpr (hax hdep)
      obtain ⟨q, hq, hmq⟩ := index_i_uses_parameters_i irf axis times rates ms hm 0 hpos
      rw [hp] at hq
      simp only [Except.ok.injEq] at hq
      subst hq; subst hd
      rw [hn] at hmq
      have hnf := normalised_zero_sum_not_finite p times rates h0 ht hr
      simp only [Matrix.all] at hf
      have hmem : matrixOfParams (α := Term) true p times rates ∈ ms := List.mem_of_getElem? hmq
      have := List.all_eq_true.mp hf _ hmem
      rw [hnf] at this
      exact Bool.false_ne_true this

example : errOf (calculateMatrixChecked Term.finite (some ⟨false, [1, 2], [1/2], some [1, -1], none, true, false, none, none, [], [], false⟩)
      [400] [0, 1] [1] [[1]] 1) = some .nonFiniteMatrix ∧
    errOf (calculateMatrixChecked Term.finite (some ⟨false, [1, 2], [1/2], some [1, -1], some [0, 1], true, false, none, none, [], [], false⟩)
      [400, 500] [0, 1] [1] [[1]] 1) = some .nonFiniteMatrix ∧
    -- an empty time axis: nothing to divide, the (empty) matrix comes back
    errOf (calculateMatrixChecked Term.finite (some ⟨false, [1, 2], [1/2], some [1, -1], none, true, false, none, none, [], [], false⟩)
      [400] [] [1] [[1]] 1) = none := by decide +kernel

/-- **A zero width under an index-independent IRF raises** (ZeroDivisionError of the compiled kernel) as soon as a loop
    iteration divides by it (non-empty time axis and rates); never a matrix.
    The full statement — *a zero width never yields a matrix* — is FALSE for the code when the IRF is index dependent: the
    division then raises inside numba's `prange` loop, where the exception is lost or becomes a SystemError depending on the
    thread (`zero_width_raises_counterexample`; the harness replays that witness on the real code: the slice of the index with
    the zero width comes back as zeros).  Recorded: KNOWN_FINDINGS `silent-matrix:zero-width`. -/
theorem zero_width_raises_partial {α : Type} [Num α] (fin : α → Bool) (irf : Irf) (axis times rates : List Rat)
    (a : List (List Rat)) (n : Nat) (M0 : Matrix α)
    (hd : decayMatrix (α := α) (some irf) axis times rates = .ok M0)
    (hdep : isIndexDependent irf = false)
    (hw : (kernelWidths irf axis).any (· == 0) = true) (ht : times ≠ []) (hr : rates ≠ []) :
    calculateMatrixChecked fin (some irf) axis times rates a n = .error .zeroDivision := by
  unfold calculateMatrixChecked
  simp only [hd, Option.bind_some, kernelGuard, hw, Bool.true_and, hdep]
  have h1 : times.isEmpty = false := by cases times <;> simp_all
  have h2 : rates.isEmpty = false := by cases rates <;> simp_all
  simp [h1, h2]

example : errOf (calculateMatrixChecked Term.finite (some ⟨false, [1], [0], none, none, true, false, none, none, [], [], false⟩)
      [400] [0, 1] [1] [[1]] 1) = some .zeroDivision ∧
    errOf (calculateMatrixChecked Term.finite (some ⟨false, [1], [1/2], none, some [], true, false, none, none, [], [], false⟩)
      [] [0, 1] [1] [[1]] 1) = some .emptyList := by decide +kernel

/-- the witness of the failing full statement: a width dispersion that makes the width of the second global index exactly
    zero (`1/2 - 1/2·(600 - 500)/100`); the parameters are accepted, the model declines to say what the parallel kernel does -/
theorem zero_width_raises_counterexample :
    (parameter ⟨true, [0], [1/2], none, none, true, false, none, some 500, [], [-1/2], false⟩ (some 1) [500, 600]).toOption.map (·.widths)
      = some [0] ∧
    errOf (calculateMatrixChecked Term.finite (some ⟨true, [0], [1/2], none, none, true, false, none, some 500, [], [-1/2], false⟩)
      [500, 600] [0, 1] [1/2, 1/20] [[1, 0], [0, 1]] 2) = some .zeroWidthParallel := by decide +kernel

/-! ### the reported IRF trace is the IRF the matrix used -/

/-- the Gaussians of one parameter tuple (`centre - shift`, width, scale: what the kernel receives), each in
    peak-normalised form `s · (w√(2π)) · N(c, w)` -/
noncomputable def usedMixturePeak (p : Params) (t : ℝ) : ℝ :=
  ((gaussians p.centers p.widths p.scales p.shift).map
    (fun g => (g.2.2 : ℝ) * (((g.2.1 : Rat) : ℝ) * √(2 * π)) * gaussPdf g.1 g.2.1 t)).sum

theorem reported_irf_is_used_irf (irf : Irf) (axis times : List Rat) (r : IrfResult ℝ)
    (h : retrieveIrf irf axis times = .ok r) :
    ∃ p, parameter irf (some 0) axis = .ok p ∧
      ((∀ g ∈ gaussians p.centers p.widths p.scales p.shift, g.2.1 ≠ 0) →
        r.irf = times.map (fun (t : Rat) => usedMixturePeak p t)) ∧
      ∀ (times' rates : List Rat) (ms : List (List (List ℝ))),
        matrixDep irf axis times' rates = .ok ms → axis ≠ [] →
          ms[0]? = some (matrixOfParams irf.normalize p times' rates) := by
  obtain ⟨p, hp, hv⟩ := irfCalculate_spec irf 0 axis times r.irf (retrieveIrf_irf irf axis times r h)
  refine ⟨p, hp, ?_, ?_⟩
  · intro hw
    rw [hv]
    apply List.map_congr_left
    intro t _
    unfold usedMixturePeak
    congr 1
    apply List.map_congr_left
    intro g hg
    have hw' : ((g.2.1 : Rat) : ℝ) ≠ 0 := by exact_mod_cast hw g hg
    have hpi : √(2 * π) ≠ 0 := by positivity
    unfold gaussPdf
    field_simp
  · intro times' rates ms hm hax
    obtain ⟨q, hq, hmq⟩ := index_i_uses_parameters_i irf axis times' rates ms hm 0 (List.length_pos_iff.mpr hax)
    rw [hp] at hq
    simp only [Except.ok.injEq] at hq
    subst hq
    exact hmq

/-- non-vacuity, and the regression witness of the defect `irf-trace-ignores-shift` (before the fix `Irf.calculate` dropped the
    shift: centre 2 with shift 1 at index 0 was reported at 2, the matrix of index 0 used 1) -/
example : (retrieveIrf (α := Term) ⟨false, [2], [1/2], none, some [1, 0], true, false, none, none, [], [], false⟩ [400, 500] [1]).toOption.isSome = true ∧
    (parameter ⟨false, [2], [1/2], none, some [1, 0], true, false, none, none, [], [], false⟩ (some 0) [400, 500]).toOption.map
      (fun p => gaussians p.centers p.widths p.scales p.shift) = some [(1, 1/2, 1)] := by decide +kernel

end Glotaran.C05
