/-
C07 — oscillation, artifact and spectral basis functions obey their definitions.
Property theorems only (helpers: GlotaranProofs/Lemmas/C07.lean).  Statements are about the
functions of GlotaranModel/C07.lean — the definitions the driver executes — instantiated at the
real numbers (`RNum ℝ`: coherent artifact, spectral shapes, IRF parameters) and at the complex
numbers (`CNum ℂ`: oscillation kernels), or for every number type where no arithmetic fact is
needed.  All parameters, times, list lengths and indices are universally quantified.

What is *not* proved (DESIGN §10): Mathlib has no (complex) error function, so `erf` is a
parameter.  That the IRF kernel *is* the convolution of the causal complex exponential with the
Gaussian is proved in its differential form (`osc_irf_kernel_ode_partial`: under the defining
derivative of `erf` the kernel `K` satisfies `K' = -(γ+iω) K ± 2 g_w`, the equation of `2 · (e^{-(γ+iω)s}θ(±s)) ∗ g_w`);
the integral identity itself is checked numerically by the oracle (mpmath quadrature).
Floating point (overflow of `erf`, cancellation of `1 + erf`) is outside every statement here.
-/
import GlotaranProofs.Lemmas.C07
namespace Glotaran.C07
open RNum CNum Filter Topology

/-! ## damped oscillation without IRF -/

/-- FULL STATEMENT (false for the code, note N1): for every frequency `ν`, rate `γ`, axis with
    minimal step `dmin` and time `t` the cos / sin columns are `Re, Im exp(-(γ + iω)t)` with
    `ω = 0.06 π ν`.  It fails when `ω ≥ 1/(0.06·dmin)`: the code takes `ω` modulo that bound
    (`osc_noirf_quadratures_counterexample`). -/
def OscNoIrfQuadratures (γ ν dmin t : ℝ) : Prop :=
  CNum.re (oscNoIrf (γ : ℂ) (oscFrequency (dmin : ℂ) (ν : ℂ)) (t : ℂ)) =
    ((Real.exp (-γ * t) * Real.cos (ν * (3 / 100) * 2 * Real.pi * t) : ℝ) : ℂ) ∧
  CNum.im (oscNoIrf (γ : ℂ) (oscFrequency (dmin : ℂ) (ν : ℂ)) (t : ℂ)) =
    ((-(Real.exp (-γ * t) * Real.sin (ν * (3 / 100) * 2 * Real.pi * t)) : ℝ) : ℂ)

/-- **The columns of an oscillation are the cosine and (minus) sine quadratures of
    `exp(-γt - iωt)`, `ω = ν · 0.03 · 2π`** — for every rate of either sign, every time, and every
    frequency below the code's wrap bound `1 / (2 · 0.03 · dmin)`. -/
theorem osc_noirf_quadratures_partial (γ ν dmin t : ℝ)
    (h : ν * (3 / 100) * 2 * Real.pi < 1 / (2 * (3 / 100) * dmin)) :
    OscNoIrfQuadratures γ ν dmin t ∧
    oscNoIrf (γ : ℂ) (oscFrequency (dmin : ℂ) (ν : ℂ)) (t : ℂ) =
      Complex.exp (-((γ : ℂ) + ((ν * (3 / 100) * 2 * Real.pi : ℝ) : ℂ) * Complex.I) * t) := by
  rw [OscNoIrfQuadratures, oscFrequency_below dmin ν h]
  have := oscNoIrf_re_im γ (ν * (3 / 100) * 2 * Real.pi) t
  refine ⟨⟨?_, ?_⟩, oscNoIrf_complex γ _ t⟩
  · simp only [c_re, this.1]
  · simp only [c_im, this.2]

/-- non-vacuity: 1500 cm⁻¹ on a 1 fs grid is far below the bound -/
example : (1500 : ℝ) * (3 / 100) * 2 * Real.pi < 1 / (2 * (3 / 100) * (1 / 1000)) := by
  have := Real.pi_lt_d2
  norm_num; nlinarith

/-- **Counter-example to the full statement (N1)**: on the axis `0, 1, 2` ps (`dmin = 1`) the cos
    column of `ν = 100 cm⁻¹` (`ω = 6π`), `γ = 0`, at `t = 1` is `cos(6π − 50/3) ≠ 1 = cos(6π)`.
    The harness replays this witness on the real code on every run. -/
theorem osc_noirf_quadratures_counterexample :
    deltaMin ([0, 1, 2] : List ℂ) = some 1 ∧ ¬ OscNoIrfQuadratures 0 100 1 1 := by
  refine ⟨deltaMin_witness, ?_⟩
  intro hfull
  have h := hfull.1
  have hw := oscFrequency_witness
  simp only [Complex.ofReal_ofNat, Complex.ofReal_one, Complex.ofReal_zero] at h
  rw [hw] at h
  have hre := (oscNoIrf_re_im 0 (6 * Real.pi - 50 / 3) 1).1
  simp only [Complex.ofReal_zero, Complex.ofReal_one] at hre
  simp only [c_re, hre] at h
  have h' := Complex.ofReal_injective h
  have hc : Real.cos (100 * (3 / 100) * 2 * Real.pi * 1) = 1 := by
    have : (100 * (3 / 100) * 2 * Real.pi * 1 : ℝ) = (3 : ℕ) * (2 * Real.pi) := by push_cast; ring
    rw [this, Real.cos_nat_mul_two_pi]
  rw [hc] at h'
  simp at h'
  exact cos_witness_ne_one (by simpa using h')

/-- **Columns follow their labels** (any number type, any number of oscillations): label `i` is
    `<label_i>_cos` and column `i` is the real part of oscillation `i`; label `n + i` is
    `<label_i>_sin` and column `n + i` its imaginary part — without and with IRF. -/
theorem osc_noirf_columns_by_label {α : Type} [CNum α] (erf : α → α) (dmin : α) (p : IrfPar α)
    (oscs : List (Osc α)) (t : α) (i : Nat) (hi : i < oscs.length) :
    (oscLabels oscs)[i]? = some (oscs[i].label ++ "_cos") ∧
    (oscLabels oscs)[oscs.length + i]? = some (oscs[i].label ++ "_sin") ∧
    (oscNoIrfColumns dmin oscs t)[i]? =
      some (re (oscNoIrf oscs[i].γ (oscFrequency dmin oscs[i].ν) t)) ∧
    (oscNoIrfColumns dmin oscs t)[oscs.length + i]? =
      some (im (oscNoIrf oscs[i].γ (oscFrequency dmin oscs[i].ν) t)) ∧
    (oscIrfColumns erf dmin p oscs t)[i]? =
      some (oscIrfCos erf p oscs[i].γ (oscFrequency dmin oscs[i].ν) t) ∧
    (oscIrfColumns erf dmin p oscs t)[oscs.length + i]? =
      some (oscIrfSin erf p oscs[i].γ (oscFrequency dmin oscs[i].ν) t) := by
  simp [oscLabels, oscNoIrfColumns, oscIrfColumns, List.getElem?_append_left, hi]

example : oscLabels ([⟨"a", .q 1, .q 2⟩, ⟨"b", .q 3, .q 4⟩] : List (Osc Term)) =
    ["a_cos", "b_cos", "a_sin", "b_sin"] := by decide

/-! ## coherent artifact -/

/-- **The artifact columns are the IRF Gaussian and its first and second time derivatives**:
    column 1 is `exp(-(t-c)²/(2w²))`, column 2 is its derivative, column 3 the derivative of
    column 2 — for every centre, every non-zero width, every time. -/
theorem artifact_is_irf_gaussian_and_derivatives (c w t : ℝ) (hw : w ≠ 0) :
    artifactGauss c w t = Real.exp (-(t - c) ^ 2 / (2 * w ^ 2)) ∧
    HasDerivAt (fun s => artifactGauss c w s) (artifactFirst c w t) t ∧
    HasDerivAt (fun s => artifactFirst c w s) (artifactSecond c w t) t ∧
    artifactColumns 3 c w t = [artifactGauss c w t, artifactFirst c w t, artifactSecond c w t] := by
  refine ⟨artifactGauss_real c w t, ?_, ?_, by simp [artifactColumns]⟩
  · refine (artifactGauss_hasDeriv c w t hw).congr_deriv ?_
    simp only [artifactFirst, r_div, r_mul, r_sub, r_pow]
    ring
  · have hc : HasDerivAt (fun s : ℝ => c - s) (-1) t := by
      simpa using (hasDerivAt_id' t).const_sub c
    have h2 := ((artifactGauss_hasDeriv c w t hw).mul hc).div_const (w ^ 2)
    have hf : (fun s => artifactFirst c w s) = fun s => artifactGauss c w s * (c - s) / w ^ 2 := by
      funext s; simp only [artifactFirst, r_div, r_mul, r_sub, r_pow]
    rw [hf]
    refine h2.congr_deriv ?_
    simp only [artifactSecond, r_div, r_mul, r_sub, r_pow, r_add, r_ofRat]
    push_cast
    field_simp
    ring

example : artifactGauss (1 : ℝ) 2 1 = 1 := by
  rw [(artifact_is_irf_gaussian_and_derivatives 1 2 1 (by norm_num)).1]; simp

/-- **The artifact sits at the decay model's IRF position**: whenever `get_irf_parameter`
    succeeds, its centre is `centre₀ - shift` of the IRF parameters of that global index —
    `decayEffectiveCentre`, the position `decay/util.py` uses — and its width is the megacomplex's
    own width if given, the first IRF width otherwise (any number type). -/
theorem artifact_centre_is_decay_centre {α : Type} [RNum α] (irf : Irf α) (own : Option α)
    (idx : Option Nat) (axis : List α) (c w : α)
    (h : artifactIrfParameter irf own idx axis = .ok (c, w)) :
    ∃ p c0 rest, irf.parameter idx axis = .ok p ∧ p.centers = c0 :: rest ∧
      c = decayEffectiveCentre c0 p.shift ∧
      (∀ wo, own = some wo → w = wo) ∧ (own = none → ∃ wrest, p.widths = w :: wrest) := by
  unfold artifactIrfParameter at h
  split at h
  · cases h
  · rename_i p hp
    split at h
    · next c0 rest wo hc =>
      injection h with h
      injection h with h1 h2
      subst h1 h2
      exact ⟨p, c0, rest, hp, hc, rfl, (by intro wo' h'; injection h' with h'), (by intro h'; cases h')⟩
    · next c0 rest w0 wrest hc hw =>
      injection h with h
      injection h with h1 h2
      subst h1 h2
      exact ⟨p, c0, rest, hp, hc, rfl, (by intro wo' h'; cases h'), (by intro _; exact ⟨wrest, hw⟩)⟩
    · cases h

example : artifactIrfParameter (⟨[(3 : ℝ)], [2], none, some [1, 5], false, none, [], [], false⟩ : Irf ℝ)
    none (some 1) [500, 600] = .ok (3 - 5, 2) := by
  simp [artifactIrfParameter, Irf.parameter, Irf.baseParameter, broadcast]

/-! ## spectral shapes -/

/-- **Amplitude at the location** (Gaussian): `f(x₀) = A`, and `1` without amplitude. -/
theorem gaussian_amplitude (A x0 Δ : ℝ) :
    gaussianShape (some A) x0 Δ x0 = A ∧ gaussianShape none x0 Δ x0 = 1 := by
  simp [gaussianShape]

/-- **Half maximum at `x₀ ± Δ/2`** (Gaussian), i.e. `Δ` is the full width at half maximum. -/
theorem gaussian_half_max (A x0 Δ : ℝ) (hΔ : Δ ≠ 0) :
    gaussianShape (some A) x0 Δ (x0 + Δ / 2) = A / 2 ∧
    gaussianShape (some A) x0 Δ (x0 - Δ / 2) = A / 2 := by
  have h1 : (2 * (x0 + Δ / 2 - x0) / Δ) ^ 2 = 1 := by field_simp; ring
  have h2 : (2 * (x0 - Δ / 2 - x0) / Δ) ^ 2 = 1 := by field_simp; ring
  constructor
  · simp only [gaussianShape, r_exp, r_mul, r_neg, r_ln2, r_pow, r_div, r_sub, r_ofRat]
    push_cast
    rw [h1, mul_one, exp_neg_log_two]; ring
  · simp only [gaussianShape, r_exp, r_mul, r_neg, r_ln2, r_pow, r_div, r_sub, r_ofRat]
    push_cast
    rw [h2, mul_one, exp_neg_log_two]; ring

example : gaussianShape (some (3 : ℝ)) 10 4 12 = 3 / 2 := by
  have := (gaussian_half_max 3 10 4 (by norm_num)).1
  norm_num at this
  exact this

/-- **Amplitude at the location** (skewed Gaussian, formula branch and with the
    `allclose(skewness, 0)` switch): `f(x₀) = A` for every skewness. -/
theorem skewed_amplitude (A x0 Δ b : ℝ) :
    skewedFormula (some A) x0 Δ b x0 = A ∧ skewedShape (some A) x0 Δ b x0 = A := by
  have h : skewedFormula (some A) x0 Δ b x0 = A := by
    simp [skewedFormula, skewedTheta]
  refine ⟨h, ?_⟩
  simp only [skewedShape, r_ifLt, h, (gaussian_amplitude A x0 Δ).1]
  split <;> rfl

/-- **Zero where the logarithm's argument is not positive**: `θ ≤ 0 → f = 0`. -/
theorem skewed_zero_outside (amp : Option ℝ) (x0 Δ b x : ℝ) (h : skewedTheta x0 Δ b x ≤ 0) :
    skewedFormula amp x0 Δ b x = 0 := by
  cases amp <;> simp [skewedFormula, not_lt.mpr h]

example : skewedTheta (10 : ℝ) 2 1 8 ≤ 0 := by
  simp only [skewedTheta, r_add, r_ofRat, r_div, r_mul, r_sub]; norm_num

/-- **Half maximum of the skewed Gaussian** where `θ = e^{±b}`, i.e. at
    `x₀ + Δ(e^{±b} − 1)/(2b)`: the documented formula's half-maximum points (their distance is
    `Δ·sinh(b)/b`, which tends to the FWHM `Δ` as `b → 0`). -/
theorem skewed_half_max (A x0 Δ b : ℝ) (hΔ : Δ ≠ 0) (hb : b ≠ 0) :
    skewedFormula (some A) x0 Δ b (x0 + Δ * (Real.exp b - 1) / (2 * b)) = A / 2 ∧
    skewedFormula (some A) x0 Δ b (x0 + Δ * (Real.exp (-b) - 1) / (2 * b)) = A / 2 := by
  have key : ∀ s : ℝ, skewedTheta x0 Δ b (x0 + Δ * (Real.exp s - 1) / (2 * b)) = Real.exp s := by
    intro s
    simp only [skewedTheta, r_add, r_ofRat, r_div, r_mul, r_sub]
    push_cast
    field_simp
    ring
  constructor
  · simp only [skewedFormula, key, r_ifLt, r_ofRat, r_exp, r_mul, r_neg, r_ln2, r_pow, r_div, r_log]
    push_cast
    rw [if_pos (Real.exp_pos b), Real.log_exp, div_self hb, one_pow, mul_one, exp_neg_log_two]; ring
  · simp only [skewedFormula, key, r_ifLt, r_ofRat, r_exp, r_mul, r_neg, r_ln2, r_pow, r_div, r_log]
    push_cast
    rw [if_pos (Real.exp_pos (-b)), Real.log_exp, neg_div, div_self hb, neg_one_sq, mul_one,
      exp_neg_log_two]; ring

example : (2 : ℝ) ≠ 0 ∧ (1 / 2 : ℝ) ≠ 0 := by norm_num

/-- **Continuity as the skewness tends to 0**: for every amplitude, location, width and axis
    point the documented skewed formula converges to the Gaussian as `b → 0`, `b ≠ 0`. -/
theorem skewed_formula_tendsto_gaussian (amp : Option ℝ) (x0 Δ x : ℝ) :
    Tendsto (fun b => skewedFormula amp x0 Δ b x) (𝓝[≠] 0) (𝓝 (gaussianShape amp x0 Δ x)) := by
  set u : ℝ := 2 * (x - x0) / Δ with hu
  have hθ : ∀ b : ℝ, skewedTheta x0 Δ b x = 1 + b * u := by
    intro b
    simp only [skewedTheta, r_add, r_ofRat, r_div, r_mul, r_sub, hu]
    push_cast
    ring
  have hcont : Tendsto (fun b : ℝ => Real.exp (-Real.log 2 * (Real.log (1 + b * u) / b) ^ 2)) (𝓝[≠] 0)
      (𝓝 (Real.exp (-Real.log 2 * u ^ 2))) := by
    have := tendsto_log_one_add_mul_div u
    exact (Real.continuous_exp.tendsto _).comp ((this.pow 2).const_mul _)
  have hpos : ∀ᶠ b in 𝓝[≠] (0 : ℝ), 0 < 1 + b * u := by
    have hc : Tendsto (fun b : ℝ => 1 + b * u) (𝓝[≠] 0) (𝓝 1) := by
      have : Continuous fun b : ℝ => 1 + b * u := by continuity
      have h := this.tendsto 0
      simp only [zero_mul, add_zero] at h
      exact h.mono_left nhdsWithin_le_nhds
    exact hc.eventually (lt_mem_nhds (by norm_num))
  have hs : Tendsto (fun b => skewedFormula none x0 Δ b x) (𝓝[≠] 0) (𝓝 (gaussianShape none x0 Δ x)) := by
    have hg : gaussianShape none x0 Δ x = Real.exp (-Real.log 2 * u ^ 2) := by
      simp only [gaussianShape, r_exp, r_mul, r_neg, r_ln2, r_pow, r_div, r_sub, r_ofRat, hu]
      push_cast; ring_nf
    rw [hg]
    refine hcont.congr' ?_
    filter_upwards [hpos] with b hb
    simp only [skewedFormula, hθ, r_ifLt, r_ofRat, r_exp, r_mul, r_neg, r_ln2, r_pow, r_div, r_log]
    push_cast
    rw [if_pos hb]
  cases amp with
  | none => exact hs
  | some A =>
    have h := hs.mul_const A
    have e1 : (fun b => skewedFormula (some A) x0 Δ b x) = fun b => skewedFormula none x0 Δ b x * A := by
      funext b; simp [skewedFormula]
    have e2 : gaussianShape (some A) x0 Δ x = gaussianShape none x0 Δ x * A := by simp [gaussianShape]
    rw [e1, e2]; exact h

/-- **The `allclose(skewness, 0)` switch**: for `|b| ≤ 1e-8` the code returns exactly the Gaussian,
    so together with the limit above the implemented shape is continuous at `b = 0` up to the jump
    of the formula at `|b| = 1e-8` (observed by the harness: < 1e-7 · amplitude). -/
theorem skewed_switch_is_gaussian (amp : Option ℝ) (x0 Δ b x : ℝ) (hb : |b| ≤ 1 / 100000000) :
    skewedShape amp x0 Δ b x = gaussianShape amp x0 Δ x := by
  simp only [skewedShape, r_ifLt, r_abs, r_ofRat]
  rw [if_neg]
  push_cast
  exact not_lt.mpr hb

example : |(0 : ℝ)| ≤ 1 / 100000000 := by norm_num

/-- **Spectral matrix columns follow the shape dictionary**: the clp labels are the compartments in
    declaration order, column `i` is shape `i` evaluated at the converted coordinate (`scale / x`
    on an inverted axis, `x · scale` on a scaled one, `x` otherwise). -/
theorem spectral_columns_by_label (inverted : Bool) (scale x : ℝ) (shapes : List (String × Shape ℝ))
    (i : Nat) (hi : i < shapes.length) :
    (spectralMatrix inverted scale shapes x).1[i]? = some shapes[i].1 ∧
    (spectralMatrix inverted scale shapes x).2 =
      .flat (shapes.map (fun s => s.2.calculate (axisConvert inverted scale x))) ∧
    axisConvert true scale x = scale / x ∧ axisConvert false 1 x = x ∧
    (scale ≠ 1 → axisConvert false scale x = x * scale) := by
  refine ⟨by simp [spectralMatrix, hi], by simp [spectralMatrix], by simp [axisConvert], by simp [axisConvert], ?_⟩
  intro h
  simp [axisConvert, h]

example : (spectralMatrix true (10000000 : ℝ) [("s1", .one), ("s2", .gaussian none 20000 1000)] 500).1
    = ["s1", "s2"] := by simp [spectralMatrix]

/-! ## oscillation and PFID with a Gaussian IRF -/

/-- **Oscillation and PFID use the decay model's effective IRF position**: with shift `s` a
    Gaussian centred at `c` acts exactly like an unshifted Gaussian centred at
    `decayEffectiveCentre c s = c - s`, the centre `decay/util.py` hands to the decay kernel and
    `retrieve_irf` reports as `irf_shift` (after fix D7; before it the code used `c + s`). -/
theorem osc_irf_same_centre_as_decay (erf : ℂ → ℂ) (γ ω shift c w sc t : ℂ) :
    shiftedTime t c shift = t - decayEffectiveCentre c shift ∧
    oscIrfGauss erf γ ω shift (c, w, sc) t =
      oscIrfGauss erf γ ω 0 (decayEffectiveCentre c shift, w, sc) t ∧
    pfidGauss erf γ ω shift (c, w, sc) t =
      pfidGauss erf γ ω 0 (decayEffectiveCentre c shift, w, sc) t := by
  simp [oscIrfGauss, pfidGauss, shiftedTime, decayEffectiveCentre]

/-- regression witness of D7: centre 1, shift 1/2 — the kernel sees `t - 1/2`, not `t - 3/2` -/
example : shiftedTime (2 : ℂ) 1 (1 / 2) = 2 - 1 / 2 := by
  simp only [shiftedTime, c_sub]; norm_num

/-- **Vanishing before the pulse** (after fix D6: the matrix starts from zeros): for a
    non-negative rate, at every time that lies at or before `-5σ` of every Gaussian of the IRF
    (position `c - shift`), the cos and sin columns are exactly 0. -/
theorem osc_irf_vanishes_before_pulse (erf : ℂ → ℂ) (p : IrfPar ℂ) (γ ω t : ℂ) (hγ : ¬ γ.re < 0)
    (h : ∀ cws ∈ zip3 p.centers p.widths p.scales,
      ¬ ((-5 : ℂ) * cws.2.1).re < (t - (cws.1 - p.shift)).re) :
    oscIrfCos erf p γ ω t = 0 ∧ oscIrfSin erf p γ ω t = 0 := by
  have hparts : oscIrfParts erf p γ ω t = (zip3 p.centers p.widths p.scales).map (fun _ => (0 : ℂ)) := by
    simp only [oscIrfParts]
    apply List.map_congr_left
    intro cws hc
    exact oscIrfGauss_before erf γ ω p.shift t cws hγ (h cws hc)
  simp [oscIrfCos, oscIrfSin, hparts, sumFrom_complex, oscFill]

/-- non-vacuity / regression witness of D6: centre 1, width 1/5, t = -3: both columns are 0 -/
example (erf : ℂ → ℂ) : oscIrfCos erf ⟨[1], [1 / 5], [1], 0⟩ (1 / 2) 3 (-3) = 0 := by
  refine (osc_irf_vanishes_before_pulse erf ⟨[1], [1 / 5], [1], 0⟩ (1 / 2) 3 (-3) (by norm_num) ?_).1
  intro cws hc
  simp only [zip3, List.mem_singleton] at hc
  subst hc
  norm_num

/-- **The anti-causal signals vanish after the pulse**: for a negative rate, at every time at or
    beyond `+5σ` of every Gaussian of the IRF, the oscillation columns and the PFID columns are
    exactly 0. -/
theorem anticausal_vanishes_after_pulse (erf : ℂ → ℂ) (p : IrfPar ℂ) (γ ω t : ℂ) (hγ : γ.re < 0)
    (h : ∀ cws ∈ zip3 p.centers p.widths p.scales,
      ¬ (t - (cws.1 - p.shift)).re < ((5 : ℂ) * cws.2.1).re) :
    oscIrfCos erf p γ ω t = 0 ∧ oscIrfSin erf p γ ω t = 0 ∧
    pfidCos erf p γ ω t = 0 ∧ pfidSin erf p γ ω t = 0 := by
  have h1 : oscIrfParts erf p γ ω t = (zip3 p.centers p.widths p.scales).map (fun _ => (0 : ℂ)) := by
    simp only [oscIrfParts]
    apply List.map_congr_left
    intro cws hc
    exact (oscIrfGauss_after erf γ ω p.shift t cws hγ (h cws hc)).1
  have h2 : pfidParts erf p γ ω t = (zip3 p.centers p.widths p.scales).map (fun _ => (0 : ℂ)) := by
    simp only [pfidParts]
    apply List.map_congr_left
    intro cws hc
    exact (oscIrfGauss_after erf γ ω p.shift t cws hγ (h cws hc)).2
  simp [oscIrfCos, oscIrfSin, pfidCos, pfidSin, h1, h2, sumFrom_complex, oscFill]

example (erf : ℂ → ℂ) : pfidCos erf ⟨[0], [1 / 10], [1], 0⟩ (-2) 3 1 = 0 := by
  refine (anticausal_vanishes_after_pulse erf ⟨[0], [1 / 10], [1], 0⟩ (-2) 3 1 (by norm_num) ?_).2.2.1
  intro cws hc
  simp only [zip3, List.mem_singleton] at hc
  subst hc
  norm_num

/-- **Sum over the Gaussians, divided by the sum of the scales**: the cos (sin) column is the sum of
    the real (imaginary) parts of the per-Gaussian contributions — initial fill 0 — divided by
    `Σ scales`, and each contribution is linear in its scale. -/
theorem osc_irf_normalised_sum (erf : ℂ → ℂ) (p : IrfPar ℂ) (γ ω t : ℂ) :
    oscIrfCos erf p γ ω t =
      ((oscIrfParts erf p γ ω t).map (fun z => ((z.re : ℝ) : ℂ))).sum / p.scales.sum ∧
    oscIrfSin erf p γ ω t =
      ((oscIrfParts erf p γ ω t).map (fun z => ((z.im : ℝ) : ℂ))).sum / p.scales.sum ∧
    (∀ shift c w sc, oscIrfGauss erf γ ω shift (c, w, sc) t =
      oscIrfGauss erf γ ω shift (c, w, 1) t * sc) := by
  refine ⟨?_, ?_, ?_⟩
  · simp only [oscIrfCos, sumFrom_complex, oscFill, c_div, c_ofRat]
    push_cast
    simp only [zero_add]
    congr 2
  · simp only [oscIrfSin, sumFrom_complex, oscFill, c_div, c_ofRat]
    push_cast
    simp only [zero_add]
    congr 2
  · intro shift c w sc
    simp only [oscIrfGauss, c_ifLt, c_mul, c_ofRat]
    push_cast
    split <;> split <;> simp

example (erf : ℂ → ℂ) : (oscIrfParts erf ⟨[1, 2], [1 / 5], [1, 3], 0⟩ (1 / 2) 3 0).length = 1 := by
  simp [oscIrfParts, zip3]

/-- PARTIAL (what is proved about "proportional to the convolution with the IRF"): if `erf` has the
    derivative of the error function, `erf' z = 2/√π · e^{-z²}`, then for real rate, frequency,
    width `w ≠ 0` the kernel `K(t) = exp((-t + k w²/2) k) (1 + erf((t - k w²)/(±√2 w)))`,
    `k = γ + iω`, satisfies for every real `t`
        `K'(t) = -k · K(t) ± 2 · e^{-t²/(2w²)} / (√π · √2 · w)`,
    the differential equation of `2 · (e^{-k s} θ(±s)) ∗ (unit-area Gaussian of width w)` — one
    fixed constant, 2.  Not proved: the boundary condition at `∓∞` (needs `erf → ±1`) and hence
    the integral identity; Mathlib has no complex error function.  Checked numerically by the
    oracle against mpmath quadrature of the convolution integral. -/
theorem osc_irf_kernel_ode_partial (erf : ℂ → ℂ) (γ ω w : ℝ) (hw : w ≠ 0) (flip : Bool)
    (herf : ∀ z, HasDerivAt erf (2 / (Real.sqrt Real.pi : ℂ) * Complex.exp (-z ^ 2)) z) (t : ℝ) :
    HasDerivAt (fun s : ℝ => irfKernel erf flip (γ : ℂ) (ω : ℂ) (w : ℂ) (s : ℂ))
      (-((γ : ℂ) + Complex.I * ω) * irfKernel erf flip (γ : ℂ) (ω : ℂ) (w : ℂ) (t : ℂ)
        + (if flip then -1 else 1) * (2 / ((Real.sqrt Real.pi : ℂ) * ((Real.sqrt 2 : ℂ) * w)))
            * Complex.exp (-(t : ℂ) ^ 2 / (2 * (w : ℂ) ^ 2))) t :=
  (irfKernel_hasDerivAt_complex erf γ ω w hw flip herf (t : ℂ)).comp_ofReal

/-- the hypothesis on `erf` is satisfiable in form: it is a statement about one function's
    derivative; the prefactor is that of the unit-area Gaussian, `√π · √2 = √(2π)` -/
example : Real.sqrt Real.pi * Real.sqrt 2 = Real.sqrt (2 * Real.pi) := by
  rw [← Real.sqrt_mul Real.pi_pos.le]; ring_nf

/-- **PFID columns are minus the anti-causal (negative-rate) oscillation columns** at the same
    parameters: same kernel, same windows, same effective IRF position, same normalisation. -/
theorem pfid_is_minus_anticausal_osc (erf : ℂ → ℂ) (p : IrfPar ℂ) (γ ω t : ℂ) (hγ : γ.re < 0) :
    (∀ cws, pfidGauss erf γ ω p.shift cws t = -oscIrfGauss erf γ ω p.shift cws t) ∧
    pfidCos erf p γ ω t = -oscIrfCos erf p γ ω t ∧ pfidSin erf p γ ω t = -oscIrfSin erf p γ ω t := by
  have hg := fun cws => pfidGauss_eq_neg erf γ ω p.shift t cws hγ
  have hparts : pfidParts erf p γ ω t = (oscIrfParts erf p γ ω t).map (fun z => -z) := by
    simp only [pfidParts, oscIrfParts, List.map_map]
    apply List.map_congr_left
    intro cws _
    exact hg cws
  refine ⟨hg, ?_, ?_⟩
  · simp only [pfidCos, oscIrfCos, hparts, sumFrom_complex, oscFill, c_div, c_ofRat, List.map_map]
    have := sum_map_neg_re (oscIrfParts erf p γ ω t)
    simp only [Function.comp_def] at this ⊢
    push_cast
    rw [this]; ring
  · simp only [pfidSin, oscIrfSin, hparts, sumFrom_complex, oscFill, c_div, c_ofRat, List.map_map]
    have := sum_map_neg_im (oscIrfParts erf p γ ω t)
    simp only [Function.comp_def] at this ⊢
    push_cast
    rw [this]; ring

example : ((-2 : ℂ)).re < 0 := by norm_num

/-- **The PFID frequency is relative to the probe wavenumber**: `ω = (x_probe − ν) · 0.03 · 2π`,
    the angular frequency of the wavenumber difference; the frequency parameter goes through the
    spectral-axis options first (`scale / ν` if inverted, `ν · scale` if `scale ≠ 1`). -/
theorem pfid_frequency_relative_to_probe (x ν scale : ℝ) :
    pfidFrequency (x : ℂ) (ν : ℂ) = (((x - ν) * (3 / 100) * 2 * Real.pi : ℝ) : ℂ) ∧
    pfidFrequency (x : ℂ) (ν : ℂ) = angular (((x - ν : ℝ)) : ℂ) ∧
    axisConvert true (scale : ℂ) (ν : ℂ) = ((scale / ν : ℝ) : ℂ) ∧
    axisConvert false (1 : ℂ) (ν : ℂ) = (ν : ℂ) ∧
    (scale ≠ 1 → axisConvert false (scale : ℂ) (ν : ℂ) = ((ν * scale : ℝ) : ℂ)) := by
  refine ⟨?_, ?_, ?_, ?_, ?_⟩
  · simp only [pfidFrequency, c_mul, c_sub, c_ofRat, c_pi]; push_cast; ring
  · simp only [pfidFrequency, angular, c_mul, c_sub, c_ofRat, c_pi]; push_cast; ring
  · simp [axisConvert]
  · simp [axisConvert]
  · intro h
    have : (scale : ℂ) ≠ 1 := by exact_mod_cast h
    simp [axisConvert, this]

/-! ## IRF parameters per global index -/

/-- **Index `i` uses the parameters of index `i`** (any number type): the IRF parameters at global
    index `i` depend on the global axis only through its `i`-th coordinate; the shift is the `i`-th
    shift parameter (0 without shifts); a spectral IRF adds the dispersion polynomials in
    `dist(axis[i], dispersion centre)` to every centre / width; a non-spectral IRF has none. -/
theorem irf_parameter_index_plumbing {α : Type} [RNum α] (irf : Irf α) (i : Nat) (axis : List α) :
    (∀ axis', axis[i]? = axis'[i]? → irf.parameter (some i) axis = irf.parameter (some i) axis') ∧
    (∀ p, irf.parameter (some i) axis = .ok p →
      (∀ sh, irf.shifts = some sh → sh[i]? = some p.shift) ∧ (irf.shifts = none → p.shift = ofRat 0)) ∧
    (irf.spectral = false → irf.parameter (some i) axis = irf.baseParameter (some i)) ∧
    (∀ q d x, irf.spectral = true → irf.dispCenter = some d → axis[i]? = some x →
      irf.baseParameter (some i) = .ok q →
      irf.parameter (some i) axis =
        .ok ⟨q.centers.map (addDispersion irf.centerDisp (dispDist irf.wavenumber x d)),
             q.widths.map (addDispersion irf.widthDisp (dispDist irf.wavenumber x d)),
             q.scales, q.shift⟩) := by
  refine ⟨?_, ?_, ?_, ?_⟩
  · intro axis' h
    simp only [Irf.parameter, Option.bind_some, h]
  · intro p h
    unfold Irf.parameter at h
    split at h
    · cases h
    · rename_i q hq
      have hb := baseParameter_shift irf i q hq
      split at h
      · cases h; exact ⟨hb.1, hb.2.1⟩
      · split at h
        · split at h
          · cases h
          · cases h; exact ⟨hb.1, hb.2.1⟩
        · split at h
          · cases h
          · cases h; exact ⟨hb.1, hb.2.1⟩
  · intro hs
    unfold Irf.parameter
    split <;> simp_all
  · intro q d x hs hd hx hq
    simp [Irf.parameter, hq, hs, hd, hx]

example : (⟨[(1 : ℝ)], [2], none, some [10, 20, 30], false, none, [], [], false⟩ : Irf ℝ).parameter
    (some 1) [500, 600, 700] = .ok ⟨[1], [2], [1], 20⟩ := by
  simp [Irf.parameter, Irf.baseParameter, broadcast]

/-- **Slice `i` of an index-dependent matrix is computed from the IRF parameters of index `i`** — for
    the damped oscillation (any number type, any number of oscillations and global indices): the
    matrix has one slice per global index and slice `i` is the column list at
    `irf.parameter(i, global_axis)`; the labels are the `_cos`/`_sin` labels. -/
theorem osc_matrix_slice_i_uses_parameters_i {α : Type} [CNum α] (erf : α → α) (oscs : List (Osc α))
    (irf : Irf α) (gax max : List α) (t : α) (labels : List String) (slices : List (List α))
    (h : oscMatrix erf oscs (some irf) gax max t = .ok (labels, .indexed slices)) :
    labels = oscLabels oscs ∧ slices.length = gax.length ∧
    ∃ dmin, deltaMin max = some dmin ∧ ∀ i (_ : i < gax.length) (h' : i < slices.length),
      ∃ p, irf.parameter (some i) gax = .ok p ∧ slices[i] = oscIrfColumns erf dmin p oscs t := by
  unfold oscMatrix at h
  split at h
  · cases h
  · rename_i dmin hd
    simp only at h
    split at h
    · split at h
      · cases h
      · rename_i sl hsl
        injection h with h
        injection h with h1 h2
        injection h2 with h2
        subst h1 h2
        obtain ⟨hl, hi⟩ := forIndices_ok _ _ _ hsl
        refine ⟨rfl, hl, dmin, hd, ?_⟩
        intro i hin h'
        exact except_map_ok _ _ _ (hi i hin h')
    · split at h
      · cases h
      · cases h

/-- … for PFID, whose frequency additionally uses the probe coordinate `global_axis[i]` -/
theorem pfid_matrix_slice_i_uses_parameters_i {α : Type} [CNum α] (erf : α → α) (allNeg inverted : Bool)
    (scale : α) (oscs : List (Osc α)) (irf : Irf α) (gax : List α) (t : α) (labels : List String)
    (m : Matrix α) (h : pfidMatrix erf allNeg inverted scale oscs (some irf) gax t = .ok (labels, m)) :
    labels = oscLabels oscs ∧ ∃ slices, m = .indexed slices ∧ slices.length = gax.length ∧
    ∀ i (_ : i < gax.length) (h' : i < slices.length),
      ∃ p x, irf.parameter (some i) gax = .ok p ∧ gax[i]? = some x ∧
        slices[i] = pfidColumns erf inverted scale p x oscs t := by
  unfold pfidMatrix at h
  simp only at h
  split at h
  · cases h
  · rename_i sl hsl
    injection h with h
    injection h with h1 h2
    subst h1 h2
    obtain ⟨hl, hi⟩ := forIndices_ok _ _ _ hsl
    refine ⟨rfl, sl, rfl, hl, ?_⟩
    intro i hin h'
    have := hi i hin h'
    split at this
    · cases this
    · cases this
    · rename_i p x hp hx
      split at this
      · cases this
      · split at this
        · cases this
        · injection this with this
          exact ⟨p, x, hp, hx, this.symm⟩

/-- … and for the coherent artifact -/
theorem artifact_matrix_slice_i_uses_parameters_i {α : Type} [RNum α] (label : String) (order : Nat)
    (own : Option α) (irf : Irf α) (gax : List α) (t : α) (labels : List String) (slices : List (List α))
    (h : artifactMatrix label order own (some irf) gax t = .ok (labels, .indexed slices)) :
    labels = artifactLabels label order ∧ slices.length = gax.length ∧
    ∀ i (_ : i < gax.length) (h' : i < slices.length),
      ∃ c w, artifactIrfParameter irf own (some i) gax = .ok (c, w) ∧
        slices[i] = artifactColumns order c w t := by
  unfold artifactMatrix at h
  split at h
  · cases h
  · simp only at h
    split at h
    · split at h
      · cases h
      · rename_i sl hsl
        injection h with h
        injection h with h1 h2
        injection h2 with h2
        subst h1 h2
        obtain ⟨hl, hi⟩ := forIndices_ok _ _ _ hsl
        refine ⟨rfl, hl, ?_⟩
        intro i hin h'
        obtain ⟨cw, h1, h2⟩ := except_map_ok _ _ _ (hi i hin h')
        exact ⟨cw.1, cw.2, h1, h2⟩
    · split at h
      · cases h
      · cases h

/-- non-vacuity: a shifted IRF, two global indices, two slices at `centre - shift_i` -/
example : artifactMatrix "m" 1 none
    (some (⟨[(1 : ℝ)], [2], none, some [10, 20], false, none, [], [], false⟩ : Irf ℝ)) [500, 600] 0
      = .ok (artifactLabels "m" 1,
             .indexed [[artifactGauss (1 - 10) 2 0], [artifactGauss (1 - 20) 2 0]]) := by
  simp [artifactMatrix, Irf.indexDependent, forIndices, List.range, List.range.loop, artifactIrfParameter,
    Irf.parameter, Irf.baseParameter, broadcast, artifactColumns, Except.map]
  rfl

/-- **The dispersion is the documented polynomial**: `value + Σ_j coeff_j · dist^(j+1)` with
    `dist = (x − x_c)/100` (wavelength) or `10³/x − 10³/x_c` (wavenumber). -/
theorem dispersion_poly_spec (coeffs : List ℝ) (dist v x d : ℝ) :
    addDispersion coeffs dist v =
      v + ((coeffs.zipIdx).map (fun ci => ci.1 * dist ^ (ci.2 + 1))).sum ∧
    dispDist false x d = (x - d) / 100 ∧ dispDist true x d = 1000 / x - 1000 / d := by
  refine ⟨?_, by simp [dispDist], by simp [dispDist]⟩
  simp only [addDispersion]
  exact foldl_add_real (fun ci : ℝ × ℕ => mul ci.1 (RNum.pow dist (ci.2 + 1))) _ v

example : addDispersion [(3 : ℝ), 5] 2 1 = 1 + 3 * 2 + 5 * 4 := by
  rw [(dispersion_poly_spec [3, 5] 2 1 0 0).1]; norm_num [List.zipIdx]

end Glotaran.C07
