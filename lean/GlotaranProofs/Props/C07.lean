/-
C07 — oscillation, artifact and spectral basis functions obey their definitions.
Property theorems only (helpers: GlotaranProofs/Lemmas/C07.lean).  Statements are about the
functions of GlotaranModel/C07.lean — the definitions the driver executes — instantiated at the
real numbers (`RNum ℝ`: coherent artifact, spectral shapes, IRF parameters) and at the complex
numbers (`CNum ℂ`: oscillation kernels), or for every number type where no arithmetic fact is
needed.  All parameters, times, list lengths and indices are universally quantified.

The error function: Mathlib has none, so the model takes `erf` as a parameter; `Lemmas/C07Erf.lean` defines the entire
error function `erfC z = 2/√π ∫_{0→z} exp(-u²) du` (integral along the sides of the rectangle; a primitive on all of ℂ by
Morera's theorem) and proves `erfC' z = 2/√π exp(-z²)`, `erfC 0 = 0`, oddness, the real-axis formula and the limits ±1.
With it the IRF kernel is proved to satisfy the convolution's differential equation without hypothesis
(`osc_irf_kernel_ode`) and to BE twice the convolution integral of the causal / anti-causal complex exponential with the
unit-area Gaussian (`osc_irf_is_convolution`, `osc_irf_gauss_is_windowed_convolution`).  `osc_irf_kernel_ode_partial`
stays as the statement for an arbitrary function with the derivative of erf (scipy's, if one assumes that of it).
Floating point (overflow of `erf`, cancellation of `1 + erf`) is outside every statement here.
-/
import GlotaranProofs.Lemmas.C07
import GlotaranProofs.Lemmas.C07Erf
import GlotaranProofs.Lemmas.C07Conv
namespace Glotaran.C07
open RNum CNum Filter Topology

/-! ## damped oscillation without IRF -/

/-- FULL STATEMENT (false for the code, note N1): for every frequency `ν`, rate `γ`, axis with
    minimal step `dmin` and time `t` the cos / sin columns are `Re, Im exp(-(γ + iω)t)` with
    `ω = 0.06 π ν`.  It fails when `ω ≥ 1/(0.06·dmin)`: the code takes `ω` modulo that bound
    (`osc_noirf_quadratures_counterexample`). -/
def OscNoIrfQuadratures (γ ν dmin t : ℝ) : Prop :=
  CNum.re (oscNoIrf (γ : ℂ) (oscFrequency (dmin : ℂ) (ν : ℂ)) (t : ℂ)) =
    ((Real.exp (-γ * t) * Real.cos (ν * (3 / 100) * 2 * Real.pi * t) : ℝ) : ℂ) ∧
  CNum.im (oscNoIrf (γ : ℂ) (oscFrequency (dmin : ℂ) (ν : ℂ)) (t : ℂ)) =
    ((-(Real.exp (-γ * t) * Real.sin (ν * (3 / 100) * 2 * Real.pi * t)) : ℝ) : ℂ)

/-- **The columns of an oscillation are the cosine and (minus) sine quadratures of
    `exp(-γt - iωt)`, `ω = ν · 0.03 · 2π`** — for every rate of either sign, every time, and every
    frequency below the code's wrap bound `1 / (2 · 0.03 · dmin)`. -/
theorem osc_noirf_quadratures_partial (γ ν dmin t : ℝ)
    (h : ν * (3 / 100) * 2 * Real.pi < 1 / (2 * (3 / 100) * dmin)) :
    OscNoIrfQuadratures γ ν dmin t ∧
    oscNoIrf (γ : ℂ) (oscFrequency (dmin : ℂ) (ν : ℂ)) (t : ℂ) =
      Complex.exp (-((γ : ℂ) + ((ν * (3 / 100) * 2 * Real.pi : ℝ) : ℂ) * Complex.I) * t) := by
  rw [OscNoIrfQuadratures, oscFrequency_below dmin ν h]
  have := oscNoIrf_re_im γ (ν * (3 / 100) * 2 * Real.pi) t
  refine ⟨⟨?_, ?_⟩, oscNoIrf_complex γ _ t⟩
  · simp only [c_re, this.1]
  · simp only [c_im, this.2]

/-- non-vacuity: 1500 cm⁻¹ on a 1 fs grid is far below the bound -/
example : (1500 : ℝ) * (3 / 100) * 2 * Real.pi < 1 / (2 * (3 / 100) * (1 / 1000)) := by
  have := Real.pi_lt_d2
  norm_num; nlinarith

/-- **Counter-example to the full statement (N1)**: on the axis `0, 1, 2` ps (`dmin = 1`) the cos
    column of `ν = 100 cm⁻¹` (`ω = 6π`), `γ = 0`, at `t = 1` is `cos(6π − 50/3) ≠ 1 = cos(6π)`.
    The harness replays this witness on the real code on every run. -/
theorem osc_noirf_quadratures_counterexample :
    deltaMin ([0, 1, 2] : List ℂ) = some 1 ∧ ¬ OscNoIrfQuadratures 0 100 1 1 := by
  refine ⟨deltaMin_witness, ?_⟩
  intro hfull
  have h := hfull.1
  have hw := oscFrequency_witness
  simp only [Complex.ofReal_ofNat, Complex.ofReal_one, Complex.ofReal_zero] at h
  rw [hw] at h
  have hre := (oscNoIrf_re_im 0 (6 * Real.pi - 50 / 3) 1).1
  simp only [Complex.ofReal_zero, Complex.ofReal_one] at hre
  simp only [c_re, hre] at h
  have h' := Complex.ofReal_injective h
  have hc : Real.cos (100 * (3 / 100) * 2 * Real.pi * 1) = 1 := by
    have : (100 * (3 / 100) * 2 * Real.pi * 1 : ℝ) = (3 : ℕ) * (2 * Real.pi) := by push_cast; ring
    rw [this, Real.cos_nat_mul_two_pi]
  rw [hc] at h'
  simp at h'
  exact cos_witness_ne_one (by simpa using h')

/-- **Columns follow their labels** (any number type, any number of oscillations): label `i` is
    `<label_i>_cos` and column `i` is the real part of oscillation `i`; label `n + i` is
    `<label_i>_sin` and column `n + i` its imaginary part — without and with IRF. -/
theorem osc_noirf_columns_by_label {α : Type} [CNum α] (erf : α → α) (dmin : α) (p : IrfPar α)
    (oscs : List (Osc α)) (t : α) (i : Nat) (hi : i < oscs.length) :
    (oscLabels oscs)[i]? = some (oscs[i].label ++ "_cos") ∧
    (oscLabels oscs)[oscs.length + i]? = some (oscs[i].label ++ "_sin") ∧
    (oscNoIrfColumns dmin oscs t)[i]? =
      some (re (oscNoIrf oscs[i].γ (oscFrequency dmin oscs[i].ν) t)) ∧
    (oscNoIrfColumns dmin oscs t)[oscs.length + i]? =
      some (im (oscNoIrf oscs[i].γ (oscFrequency dmin oscs[i].ν) t)) ∧
    (oscIrfColumns erf dmin p oscs t)[i]? =
      some (oscIrfCos erf p oscs[i].γ (oscFrequency dmin oscs[i].ν) t) ∧
    (oscIrfColumns erf dmin p oscs t)[oscs.length + i]? =
      some (oscIrfSin erf p oscs[i].γ (oscFrequency dmin oscs[i].ν) t) := by
  simp [oscLabels, oscNoIrfColumns, oscIrfColumns, List.getElem?_append_left, hi]

example : oscLabels ([⟨"a", .q 1, .q 2⟩, ⟨"b", .q 3, .q 4⟩] : List (Osc Term)) =
    ["a_cos", "b_cos", "a_sin", "b_sin"] := by decide

/-! ## coherent artifact -/

/-- **The artifact columns are the IRF Gaussian and its first and second time derivatives**:
    column 1 is `exp(-(t-c)²/(2w²))`, column 2 is its derivative, column 3 the derivative of
    column 2 — for every centre, every non-zero width, every time. -/
theorem artifact_is_irf_gaussian_and_derivatives (c w t : ℝ) (hw : w ≠ 0) :
    artifactGauss c w t = Real.exp (-(t - c) ^ 2 / (2 * w ^ 2)) ∧
    HasDerivAt (fun s => artifactGauss c w s) (artifactFirst c w t) t ∧
    HasDerivAt (fun s => artifactFirst c w s) (artifactSecond c w t) t ∧
    artifactColumns 3 c w t = [artifactGauss c w t, artifactFirst c w t, artifactSecond c w t] := by
  refine ⟨artifactGauss_real c w t, ?_, ?_, by simp [artifactColumns]⟩
  · refine (artifactGauss_hasDeriv c w t hw).congr_deriv ?_
    simp only [artifactFirst, r_div, r_mul, r_sub, r_pow]
    ring
  · have hc : HasDerivAt (fun s : ℝ => c - s) (-1) t := by
      simpa using (hasDerivAt_id' t).const_sub c
    have h2 := ((artifactGauss_hasDeriv c w t hw).mul hc).div_const (w ^ 2)
    have hf : (fun s => artifactFirst c w s) = fun s => artifactGauss c w s * (c - s) / w ^ 2 := by
      funext s; simp only [artifactFirst, r_div, r_mul, r_sub, r_pow]
    rw [hf]
    refine h2.congr_deriv ?_
    simp only [artifactSecond, r_div, r_mul, r_sub, r_pow, r_add, r_ofRat]
    push_cast
    field_simp
    ring

example : artifactGauss (1 : ℝ) 2 1 = 1 := by
  rw [(artifact_is_irf_gaussian_and_derivatives 1 2 1 (by norm_num)).1]; simp

/-- **The artifact sits at the decay model's IRF position**: whenever `get_irf_parameter`
    succeeds, its centre is `centre₀ - shift` of the IRF parameters of that global index —
    `decayEffectiveCentre`, the position `decay/util.py` uses — and its width is the megacomplex's
    own width if given, the first IRF width otherwise (any number type). -/
theorem artifact_centre_is_decay_centre {α : Type} [RNum α] (irf : Irf α) (own : Option α)
    (idx : Option Nat) (axis : List α) (c w : α)
    (h : artifactIrfParameter irf own idx axis = .ok (c, w)) :
    ∃ p c0 rest, irf.parameter idx axis = .ok p ∧ p.centers = c0 :: rest ∧
      c = decayEffectiveCentre c0 p.shift ∧
      (∀ wo, own = some wo → w = wo) ∧ (own = none → ∃ wrest, p.widths = w :: wrest) := by
  unfold artifactIrfParameter at h
  split at h
  · cases h
  · rename_i p hp
    split at h
    · next c0 rest wo hc =>
      injection h with h
      injection h with h1 h2
      subst h1 h2
      exact ⟨p, c0, rest, hp, hc, rfl, (by intro wo' h'; injection h' with h'), (by intro h'; cases h')⟩
    · next c0 rest w0 wrest hc hw =>
      injection h with h
      injection h with h1 h2
      subst h1 h2
      exact ⟨p, c0, rest, hp, hc, rfl, (by intro wo' h'; cases h'), (by intro _; exact ⟨wrest, hw⟩)⟩
    · cases h

example : artifactIrfParameter (⟨[(3 : ℝ)], [2], none, some [1, 5], false, none, [], [], false⟩ : Irf ℝ)
    none (some 1) [500, 600] = .ok (3 - 5, 2) := by
  simp [artifactIrfParameter, Irf.parameter, Irf.baseParameter, broadcast]

/-! ## spectral shapes -/

/-- **Amplitude at the location** (Gaussian): `f(x₀) = A`, and `1` without amplitude. -/
theorem gaussian_amplitude (A x0 Δ : ℝ) :
    gaussianShape (some A) x0 Δ x0 = A ∧ gaussianShape none x0 Δ x0 = 1 := by
  simp [gaussianShape]

/-- **Half maximum at `x₀ ± Δ/2`** (Gaussian), i.e. `Δ` is the full width at half maximum. -/
theorem gaussian_half_max (A x0 Δ : ℝ) (hΔ : Δ ≠ 0) :
    gaussianShape (some A) x0 Δ (x0 + Δ / 2) = A / 2 ∧
    gaussianShape (some A) x0 Δ (x0 - Δ / 2) = A / 2 := by
  have h1 : (2 * (x0 + Δ / 2 - x0) / Δ) ^ 2 = 1 := by field_simp; ring
  have h2 : (2 * (x0 - Δ / 2 - x0) / Δ) ^ 2 = 1 := by field_simp; ring
  constructor
  · simp only [gaussianShape, r_exp, r_mul, r_neg, r_ln2, r_pow, r_div, r_sub, r_ofRat]
    push_cast
    rw [h1, mul_one, exp_neg_log_two]; ring
  · simp only [gaussianShape, r_exp, r_mul, r_neg, r_ln2, r_pow, r_div, r_sub, r_ofRat]
    push_cast
    rw [h2, mul_one, exp_neg_log_two]; ring

example : gaussianShape (some (3 : ℝ)) 10 4 12 = 3 / 2 := by
  have := (gaussian_half_max 3 10 4 (by norm_num)).1
  norm_num at this
  exact this

/-- **Amplitude at the location** (skewed Gaussian, formula branch and with the
    `allclose(skewness, 0)` switch): `f(x₀) = A` for every skewness. -/
theorem skewed_amplitude (A x0 Δ b : ℝ) :
    skewedFormula (some A) x0 Δ b x0 = A ∧ skewedShape (some A) x0 Δ b x0 = A := by
  have h : skewedFormula (some A) x0 Δ b x0 = A := by
    simp [skewedFormula, skewedTheta]
  refine ⟨h, ?_⟩
  simp only [skewedShape, r_ifLt, h, (gaussian_amplitude A x0 Δ).1]
  split <;> rfl

/-- **Zero where the logarithm's argument is not positive**: `θ ≤ 0 → f = 0`. -/
theorem skewed_zero_outside (amp : Option ℝ) (x0 Δ b x : ℝ) (h : skewedTheta x0 Δ b x ≤ 0) :
    skewedFormula amp x0 Δ b x = 0 := by
  cases amp <;> simp [skewedFormula, not_lt.mpr h]

example : skewedTheta (10 : ℝ) 2 1 8 ≤ 0 := by
  simp only [skewedTheta, r_add, r_ofRat, r_div, r_mul, r_sub]; norm_num

/-- **Half maximum of the skewed Gaussian** where `θ = e^{±b}`, i.e. at
    `x₀ + Δ(e^{±b} − 1)/(2b)`: the documented formula's half-maximum points (their distance is
    `Δ·sinh(b)/b`, which tends to the FWHM `Δ` as `b → 0`). -/
theorem skewed_half_max (A x0 Δ b : ℝ) (hΔ : Δ ≠ 0) (hb : b ≠ 0) :
    skewedFormula (some A) x0 Δ b (x0 + Δ * (Real.exp b - 1) / (2 * b)) = A / 2 ∧
    skewedFormula (some A) x0 Δ b (x0 + Δ * (Real.exp (-b) - 1) / (2 * b)) = A / 2 := by
  have key : ∀ s : ℝ, skewedTheta x0 Δ b (x0 + Δ * (Real.exp s - 1) / (2 * b)) = Real.exp s := by
    intro s
    simp only [skewedTheta, r_add, r_ofRat, r_div, r_mul, r_sub]
    push_cast
    field_simp
    ring
  constructor
  · simp only [skewedFormula, key, r_ifLt, r_ofRat, r_exp, r_mul, r_neg, r_ln2, r_pow, r_div, r_log]
    push_cast
    rw [if_pos (Real.exp_pos b), Real.log_exp, div_self hb, one_pow, mul_one, exp_neg_log_two]; ring
  · simp only [skewedFormula, key, r_ifLt, r_ofRat, r_exp, r_mul, r_neg, r_ln2, r_pow, r_div, r_log]
    push_cast
    rw [if_pos (Real.exp_pos (-b)), Real.log_exp, neg_div, div_self hb, neg_one_sq, mul_one,
      exp_neg_log_two]; ring

example : (2 : ℝ) ≠ 0 ∧ (1 / 2 : ℝ) ≠ 0 := by norm_num

/-- **Continuity as the skewness tends to 0**: for every amplitude, location, width and axis
    point the documented skewed formula converges to the Gaussian as `b → 0`, `b ≠ 0`. -/
theorem skewed_formula_tendsto_gaussian (amp : Option ℝ) (x0 Δ x : ℝ) :
    Tendsto (fun b => skewedFormula amp x0 Δ b x) (𝓝[≠] 0) (𝓝 (gaussianShape amp x0 Δ x)) := by
  set u : ℝ := 2 * (x - x0) / Δ with hu
  have hθ : ∀ b : ℝ, skewedTheta x0 Δ b x = 1 + b * u := by
    intro b
    simp only [skewedTheta, r_add, r_ofRat, r_div, r_mul, r_sub, hu]
    push_cast
    ring
  have hcont : Tendsto (fun b : ℝ => Real.exp (-Real.log 2 * (Real.log (1 + b * u) / b) ^ 2)) (𝓝[≠] 0)
      (𝓝 (Real.exp (-Real.log 2 * u ^ 2))) := by
    have := tendsto_log_one_add_mul_div u
    exact (Real.continuous_exp.tendsto _).comp ((this.pow 2).const_mul _)
  have hpos : ∀ᶠ b in 𝓝[≠] (0 : ℝ), 0 < 1 + b * u := by
    have hc : Tendsto (fun b : ℝ => 1 + b * u) (𝓝[≠] 0) (𝓝 1) := by
      have : Continuous fun b : ℝ => 1 + b * u := by continuity
      have h := this.tendsto 0
      simp only [zero_mul, add_zero] at h
      exact h.mono_left nhdsWithin_le_nhds
    exact hc.eventually (lt_mem_nhds (by norm_num))
  have hs : Tendsto (fun b => skewedFormula none x0 Δ b x) (𝓝[≠] 0) (𝓝 (gaussianShape none x0 Δ x)) := by
    have hg : gaussianShape none x0 Δ x = Real.exp (-Real.log 2 * u ^ 2) := by
      simp only [gaussianShape, r_exp, r_mul, r_neg, r_ln2, r_pow, r_div, r_sub, r_ofRat, hu]
      push_cast; ring_nf
    rw [hg]
    refine hcont.congr' ?_
    filter_upwards [hpos] with b hb
    simp only [skewedFormula, hθ, r_ifLt, r_ofRat, r_exp, r_mul, r_neg, r_ln2, r_pow, r_div, r_log]
    push_cast
    rw [if_pos hb]
  cases amp with
  | none => exact hs
  | some A =>
    have h := hs.mul_const A
    have e1 : (fun b => skewedFormula (some A) x0 Δ b x) = fun b => skewedFormula none x0 Δ b x * A := by
      funext b; simp [skewedFormula]
    have e2 : gaussianShape (some A) x0 Δ x = gaussianShape none x0 Δ x * A := by simp [gaussianShape]
    rw [e1, e2]; exact h

/-- **The `allclose(skewness, 0)` switch**: for `|b| ≤ 1e-8` the code returns exactly the Gaussian,
    so together with the limit above the implemented shape is continuous at `b = 0` up to the jump
    of the formula at `|b| = 1e-8` (observed by the harness: < 1e-7 · amplitude). -/
theorem skewed_switch_is_gaussian (amp : Option ℝ) (x0 Δ b x : ℝ) (hb : |b| ≤ 1 / 100000000) :
    skewedShape amp x0 Δ b x = gaussianShape amp x0 Δ x := by
  simp only [skewedShape, r_ifLt, r_abs, r_ofRat]
  rw [if_neg]
  push_cast
  exact not_lt.mpr hb

example : |(0 : ℝ)| ≤ 1 / 100000000 := by norm_num

/-- **Spectral matrix columns follow the shape dictionary**: the clp labels are the compartments in
    declaration order, column `i` is shape `i` evaluated at the converted coordinate (`scale / x`
    on an inverted axis, `x · scale` on a scaled one, `x` otherwise). -/
theorem spectral_columns_by_label (inverted : Bool) (scale x : ℝ) (shapes : List (String × Shape ℝ))
    (i : Nat) (hi : i < shapes.length) :
    (spectralMatrix inverted scale shapes x).1[i]? = some shapes[i].1 ∧
    (spectralMatrix inverted scale shapes x).2 =
      .flat (shapes.map (fun s => s.2.calculate (axisConvert inverted scale x))) ∧
    axisConvert true scale x = scale / x ∧ axisConvert false 1 x = x ∧
    (scale ≠ 1 → axisConvert false scale x = x * scale) := by
  refine ⟨by simp [spectralMatrix, hi], by simp [spectralMatrix], by simp [axisConvert], by simp [axisConvert], ?_⟩
  intro h
  simp [axisConvert, h]

example : (spectralMatrix true (10000000 : ℝ) [("s1", .one), ("s2", .gaussian none 20000 1000)] 500).1
    = ["s1", "s2"] := by simp [spectralMatrix]

/-- **Several shapes for one compartment add up** (several spectral megacomplexes in one dataset): in the dataset matrix
    the column of a compartment is the sum, over the megacomplexes that give it a shape, of that shape on the converted
    axis (0 if none does); one megacomplex alone gives its shapes in dictionary order; the labels of two are those of the
    first followed by the new ones of the second. -/
theorem spectral_shapes_add_per_compartment (inverted : Bool) (scale x : ℝ)
    (megas : List (List (String × Shape ℝ))) (lab : String) :
    (columnOf (spectralDatasetMatrix inverted scale megas x) lab).getD 0 =
      (megas.map (fun sh =>
        ((sh.lookup lab).map (fun s => s.calculate (axisConvert inverted scale x))).getD 0)).sum ∧
    (∀ sh, spectralDatasetMatrix inverted scale [sh] x =
      (sh.map (·.1), sh.map (fun s => s.2.calculate (axisConvert inverted scale x)))) ∧
    (∀ sh1 sh2, (spectralDatasetMatrix inverted scale [sh1, sh2] x).1 =
      sh1.map (·.1) ++ (sh2.map (·.1)).filter (fun c => !(sh1.map (·.1)).contains c)) := by
  have hval : ∀ sh : List (String × Shape ℝ),
      valueOf (sh.map (·.1), sh.map (fun s => add (ofRat 0) (s.2.calculate (axisConvert inverted scale x)))) lab =
        ((sh.lookup lab).map (fun s => s.calculate (axisConvert inverted scale x))).getD 0 := by
    intro sh
    unfold valueOf
    rw [columnOf_map sh (fun s => add (ofRat 0) (s.calculate (axisConvert inverted scale x))) lab]
    cases sh.lookup lab <;> simp
  refine ⟨?_, ?_, ?_⟩
  · cases megas with
    | nil => simp [spectralDatasetMatrix, columnOf]
    | cons m rest =>
      have := valueOf_foldl
        (m.map (·.1), m.map (fun s => add (ofRat 0) (s.2.calculate (axisConvert inverted scale x))))
        (rest.map (fun sh => (sh.map (·.1), sh.map (fun s => add (ofRat 0) (s.2.calculate (axisConvert inverted scale x))))))
        lab
      simp only [valueOf] at this hval
      simp only [spectralDatasetMatrix, List.map_cons, List.sum_cons]
      rw [this, hval m, List.map_map]
      congr 2
      apply List.map_congr_left
      intro sh _
      exact hval sh
  · intro sh
    simp [spectralDatasetMatrix]
  · intro sh1 sh2
    simp [spectralDatasetMatrix, combineFlat]

example : (columnOf (spectralDatasetMatrix false (1 : ℝ) [[("a", .one)], [("b", .zero), ("a", .one)]] 5) "a").getD 0 = 2 := by
  rw [(spectral_shapes_add_per_compartment false 1 5 [[("a", .one)], [("b", .zero), ("a", .one)]] "a").1]
  simp [List.lookup, Shape.calculate]; norm_num

/-- **Spectral axis conversion** (`spectral_axis_inverted`, `spectral_axis_scale`): row `i` of the matrix is every shape
    at the converted value of axis point `i` — for any order of the axis (reversing the axis reverses the rows, so
    descending axes are served); the inverted conversion `scale / x` (nm ↔ cm⁻¹ for `scale = 10⁷`) is an involution and
    reverses the order of a positive axis, the scaled one `x · scale` preserves it; **no Jacobian factor is applied**: the
    column of a Gaussian on an inverted axis is the formula at `scale / x` itself and reaches its amplitude exactly at
    `x = scale / x₀`. -/
theorem spectral_axis_conversion_spec (scale : ℝ) (shapes : List (String × Shape ℝ)) (axis : List ℝ) :
    (∀ inverted, (spectralMatrixOnAxis inverted scale shapes axis).length = axis.length ∧
      (∀ i (hi : i < axis.length), (spectralMatrixOnAxis inverted scale shapes axis)[i]? =
        some (shapes.map (fun s => s.2.calculate (axisConvert inverted scale axis[i])))) ∧
      spectralMatrixOnAxis inverted scale shapes axis.reverse =
        (spectralMatrixOnAxis inverted scale shapes axis).reverse) ∧
    (∀ x, x ≠ 0 → scale ≠ 0 → axisConvert true scale (axisConvert true scale x) = x) ∧
    (∀ x y, 0 < scale → 0 < x → x < y → axisConvert true scale y < axisConvert true scale x) ∧
    (∀ x y, 0 < scale → x < y → scale ≠ 1 → axisConvert false scale x < axisConvert false scale y) ∧
    (∀ A x0 Δ x, gaussianShape (some A) x0 Δ (axisConvert true scale x) =
        Real.exp (-Real.log 2 * (2 * (scale / x - x0) / Δ) ^ 2) * A) ∧
    (∀ A x0 Δ, x0 ≠ 0 → scale ≠ 0 → gaussianShape (some A) x0 Δ (axisConvert true scale (scale / x0)) = A) := by
  refine ⟨?_, ?_, ?_, ?_, ?_, ?_⟩
  · intro inverted
    refine ⟨by simp [spectralMatrixOnAxis], ?_, by simp [spectralMatrixOnAxis]⟩
    intro i hi
    simp [spectralMatrixOnAxis, hi]
  · intro x hx hs
    simp only [axisConvert, if_true, r_div]
    field_simp
  · intro x y hs hx hxy
    simp only [axisConvert, if_true, r_div]
    exact div_lt_div_of_pos_left hs hx hxy
  · intro x y hs hxy h1
    simp only [axisConvert, Bool.false_eq_true, if_false, r_ifEq, r_ofRat, r_mul]
    have : ¬ scale = ((1 : Rat) : ℝ) := by simpa using h1
    rw [if_neg this, if_neg this]
    exact mul_lt_mul_of_pos_right hxy hs
  · intro A x0 Δ x
    simp only [gaussianShape, axisConvert, if_true, r_div, r_exp, r_mul, r_neg, r_ln2, r_pow, r_sub, r_ofRat]
    push_cast
    ring_nf
  · intro A x0 Δ hx hs
    have : axisConvert true scale (scale / x0) = x0 := by
      simp only [axisConvert, if_true, r_div]; field_simp
    rw [this]; exact (gaussian_amplitude A x0 Δ).1

/-- 500 nm ↔ 20000 cm⁻¹ -/
example : axisConvert true (10000000 : ℝ) 500 = 20000 ∧ axisConvert true (10000000 : ℝ) 20000 = 500 := by
  simp only [axisConvert, if_true, r_div]; norm_num

/-! ## oscillation and PFID with a Gaussian IRF -/

/-- **Oscillation and PFID use the decay model's effective IRF position**: with shift `s` a
    Gaussian centred at `c` acts exactly like an unshifted Gaussian centred at
    `decayEffectiveCentre c s = c - s`, the centre `decay/util.py` hands to the decay kernel and
    `retrieve_irf` reports as `irf_shift` (after fix D7; before it the code used `c + s`). -/
theorem osc_irf_same_centre_as_decay (erf : ℂ → ℂ) (γ ω shift c w sc t : ℂ) :
    shiftedTime t c shift = t - decayEffectiveCentre c shift ∧
    oscIrfGauss erf γ ω shift (c, w, sc) t =
      oscIrfGauss erf γ ω 0 (decayEffectiveCentre c shift, w, sc) t ∧
    pfidGauss erf γ ω shift (c, w, sc) t =
      pfidGauss erf γ ω 0 (decayEffectiveCentre c shift, w, sc) t := by
  simp [oscIrfGauss, pfidGauss, shiftedTime, decayEffectiveCentre]

/-- regression witness of D7: centre 1, shift 1/2 — the kernel sees `t - 1/2`, not `t - 3/2` -/
example : shiftedTime (2 : ℂ) 1 (1 / 2) = 2 - 1 / 2 := by
  simp only [shiftedTime, c_sub]; norm_num

/-- **Vanishing before the pulse** (after fix D6: the matrix starts from zeros): for a
    non-negative rate, at every time that lies at or before `-5σ` of every Gaussian of the IRF
    (position `c - shift`), the cos and sin columns are exactly 0. -/
theorem osc_irf_vanishes_before_pulse (erf : ℂ → ℂ) (p : IrfPar ℂ) (γ ω t : ℂ) (hγ : ¬ γ.re < 0)
    (h : ∀ cws ∈ zip3 p.centers p.widths p.scales,
      ¬ ((-5 : ℂ) * cws.2.1).re < (t - (cws.1 - p.shift)).re) :
    oscIrfCos erf p γ ω t = 0 ∧ oscIrfSin erf p γ ω t = 0 := by
  have hparts : oscIrfParts erf p γ ω t = (zip3 p.centers p.widths p.scales).map (fun _ => (0 : ℂ)) := by
    simp only [oscIrfParts]
    apply List.map_congr_left
    intro cws hc
    exact oscIrfGauss_before erf γ ω p.shift t cws hγ (h cws hc)
  simp [oscIrfCos, oscIrfSin, hparts, sumFrom_complex, oscFill]

/-- non-vacuity / regression witness of D6: centre 1, width 1/5, t = -3: both columns are 0 -/
example (erf : ℂ → ℂ) : oscIrfCos erf ⟨[1], [1 / 5], [1], 0⟩ (1 / 2) 3 (-3) = 0 := by
  refine (osc_irf_vanishes_before_pulse erf ⟨[1], [1 / 5], [1], 0⟩ (1 / 2) 3 (-3) (by norm_num) ?_).1
  intro cws hc
  simp only [zip3, List.mem_singleton] at hc
  subst hc
  norm_num

/-- **The anti-causal signals vanish after the pulse**: for a negative rate, at every time at or
    beyond `+5σ` of every Gaussian of the IRF, the oscillation columns and the PFID columns are
    exactly 0. -/
theorem anticausal_vanishes_after_pulse (erf : ℂ → ℂ) (p : IrfPar ℂ) (γ ω t : ℂ) (hγ : γ.re < 0)
    (h : ∀ cws ∈ zip3 p.centers p.widths p.scales,
      ¬ (t - (cws.1 - p.shift)).re < ((5 : ℂ) * cws.2.1).re) :
    oscIrfCos erf p γ ω t = 0 ∧ oscIrfSin erf p γ ω t = 0 ∧
    pfidCos erf p γ ω t = 0 ∧ pfidSin erf p γ ω t = 0 := by
  have h1 : oscIrfParts erf p γ ω t = (zip3 p.centers p.widths p.scales).map (fun _ => (0 : ℂ)) := by
    simp only [oscIrfParts]
    apply List.map_congr_left
    intro cws hc
    exact (oscIrfGauss_after erf γ ω p.shift t cws hγ (h cws hc)).1
  have h2 : pfidParts erf p γ ω t = (zip3 p.centers p.widths p.scales).map (fun _ => (0 : ℂ)) := by
    simp only [pfidParts]
    apply List.map_congr_left
    intro cws hc
    exact (oscIrfGauss_after erf γ ω p.shift t cws hγ (h cws hc)).2
  simp [oscIrfCos, oscIrfSin, pfidCos, pfidSin, h1, h2, sumFrom_complex, oscFill]

example (erf : ℂ → ℂ) : pfidCos erf ⟨[0], [1 / 10], [1], 0⟩ (-2) 3 1 = 0 := by
  refine (anticausal_vanishes_after_pulse erf ⟨[0], [1 / 10], [1], 0⟩ (-2) 3 1 (by norm_num) ?_).2.2.1
  intro cws hc
  simp only [zip3, List.mem_singleton] at hc
  subst hc
  norm_num

/-- **Sum over the Gaussians, divided by the sum of the scales**: the cos (sin) column is the sum of
    the real (imaginary) parts of the per-Gaussian contributions — initial fill 0 — divided by
    `Σ scales`, and each contribution is linear in its scale. -/
theorem osc_irf_normalised_sum (erf : ℂ → ℂ) (p : IrfPar ℂ) (γ ω t : ℂ) :
    oscIrfCos erf p γ ω t =
      ((oscIrfParts erf p γ ω t).map (fun z => ((z.re : ℝ) : ℂ))).sum / p.scales.sum ∧
    oscIrfSin erf p γ ω t =
      ((oscIrfParts erf p γ ω t).map (fun z => ((z.im : ℝ) : ℂ))).sum / p.scales.sum ∧
    (∀ shift c w sc, oscIrfGauss erf γ ω shift (c, w, sc) t =
      oscIrfGauss erf γ ω shift (c, w, 1) t * sc) := by
  refine ⟨?_, ?_, ?_⟩
  · simp only [oscIrfCos, sumFrom_complex, oscFill, c_div, c_ofRat]
    push_cast
    simp only [zero_add]
    congr 2
  · simp only [oscIrfSin, sumFrom_complex, oscFill, c_div, c_ofRat]
    push_cast
    simp only [zero_add]
    congr 2
  · intro shift c w sc
    simp only [oscIrfGauss, c_ifLt, c_mul, c_ofRat]
    push_cast
    split <;> split <;> simp

example (erf : ℂ → ℂ) : (oscIrfParts erf ⟨[1, 2], [1 / 5], [1, 3], 0⟩ (1 / 2) 3 0).length = 1 := by
  simp [oscIrfParts, zip3]

/-- PARTIAL (what is proved about "proportional to the convolution with the IRF"): if `erf` has the
    derivative of the error function, `erf' z = 2/√π · e^{-z²}`, then for real rate, frequency,
    width `w ≠ 0` the kernel `K(t) = exp((-t + k w²/2) k) (1 + erf((t - k w²)/(±√2 w)))`,
    `k = γ + iω`, satisfies for every real `t`
        `K'(t) = -k · K(t) ± 2 · e^{-t²/(2w²)} / (√π · √2 · w)`,
    the differential equation of `2 · (e^{-k s} θ(±s)) ∗ (unit-area Gaussian of width w)` — one
    fixed constant, 2.  Not proved: the boundary condition at `∓∞` (needs `erf → ±1`) and hence
    the integral identity; Mathlib has no complex error function.  Checked numerically by the
    oracle against mpmath quadrature of the convolution integral. -/
theorem osc_irf_kernel_ode_partial (erf : ℂ → ℂ) (γ ω w : ℝ) (hw : w ≠ 0) (flip : Bool)
    (herf : ∀ z, HasDerivAt erf (2 / (Real.sqrt Real.pi : ℂ) * Complex.exp (-z ^ 2)) z) (t : ℝ) :
    HasDerivAt (fun s : ℝ => irfKernel erf flip (γ : ℂ) (ω : ℂ) (w : ℂ) (s : ℂ))
      (-((γ : ℂ) + Complex.I * ω) * irfKernel erf flip (γ : ℂ) (ω : ℂ) (w : ℂ) (t : ℂ)
        + (if flip then -1 else 1) * (2 / ((Real.sqrt Real.pi : ℂ) * ((Real.sqrt 2 : ℂ) * w)))
            * Complex.exp (-(t : ℂ) ^ 2 / (2 * (w : ℂ) ^ 2))) t :=
  (irfKernel_hasDerivAt_complex erf γ ω w hw flip herf (t : ℂ)).comp_ofReal

/-- the hypothesis on `erf` is satisfiable in form: it is a statement about one function's
    derivative; the prefactor is that of the unit-area Gaussian, `√π · √2 = √(2π)` -/
example : Real.sqrt Real.pi * Real.sqrt 2 = Real.sqrt (2 * Real.pi) := by
  rw [← Real.sqrt_mul Real.pi_pos.le]; ring_nf

/-- **`erfC` is the error function**: entire with derivative `2/√π · e^{-z²}`, zero at 0, odd, equal to
    `2/√π ∫₀ˣ e^{-t²} dt` on the real axis, with limits `±1` along every horizontal line. -/
theorem erfC_is_error_function :
    (∀ z, HasDerivAt erfC (2 / (Real.sqrt Real.pi : ℂ) * Complex.exp (-z ^ 2)) z) ∧ erfC 0 = 0 ∧
    (∀ z, erfC (-z) = -erfC z) ∧
    (∀ x : ℝ, erfC (x : ℂ) = ((2 / Real.sqrt Real.pi * ∫ t in (0:ℝ)..x, Real.exp (-t ^ 2) : ℝ) : ℂ)) ∧
    (∀ y : ℝ, Tendsto (fun x : ℝ => erfC (x + y * Complex.I)) atTop (𝓝 1) ∧
      Tendsto (fun x : ℝ => erfC (x + y * Complex.I)) atBot (𝓝 (-1))) :=
  ⟨erfC_hasDerivAt, erfC_zero, erfC_neg, erfC_ofReal, fun y => ⟨erfC_tendsto_re_atTop y, erfC_tendsto_re_atBot y⟩⟩

example : erfC (-0) = 0 := by rw [neg_zero, erfC_zero]

/-- **The IRF kernel satisfies the differential equation of the convolution** — the hypothesis of
    `osc_irf_kernel_ode_partial` discharged with the error function `erfC`:
    `K'(t) = -(γ + iω) K(t) ± 2 · e^{-t²/(2w²)} / (√π √2 w)`. -/
theorem osc_irf_kernel_ode (γ ω w : ℝ) (hw : w ≠ 0) (flip : Bool) (t : ℝ) :
    HasDerivAt (fun s : ℝ => irfKernel erfC flip (γ : ℂ) (ω : ℂ) (w : ℂ) (s : ℂ))
      (-((γ : ℂ) + Complex.I * ω) * irfKernel erfC flip (γ : ℂ) (ω : ℂ) (w : ℂ) (t : ℂ)
        + (if flip then -1 else 1) * (2 / ((Real.sqrt Real.pi : ℂ) * ((Real.sqrt 2 : ℂ) * w)))
            * Complex.exp (-(t : ℂ) ^ 2 / (2 * (w : ℂ) ^ 2))) t :=
  osc_irf_kernel_ode_partial erfC γ ω w hw flip erfC_hasDerivAt t

example : (1 / 5 : ℝ) ≠ 0 := by norm_num

/-- **The IRF kernel IS the convolution, times the fixed constant 2**: for every real rate (either sign), frequency,
    width `w > 0` and time,
      `exp((-t + k w²/2) k) (1 + erf((t - k w²)/(√2 w)))  = 2 ∫_{s>0} e^{-k s} g_w(t - s) ds`   (causal), and with `-√2 w`
      (the code's sign flip for negative rates)           `= 2 ∫_{s<0} e^{-k s} g_w(t - s) ds`   (anti-causal),
    `k = γ + iω`, `g_w` the unit-area Gaussian of standard deviation `w`; both integrands are integrable. -/
theorem osc_irf_is_convolution (γ ω w t : ℝ) (hw : 0 < w) :
    irfKernel erfC false (γ : ℂ) (ω : ℂ) (w : ℂ) (t : ℂ) =
      2 * ∫ s in Set.Ioi (0:ℝ), Complex.exp (-((γ : ℂ) + Complex.I * ω) * s) * (gaussW w (t - s) : ℂ) ∧
    irfKernel erfC true (γ : ℂ) (ω : ℂ) (w : ℂ) (t : ℂ) =
      2 * ∫ s in Set.Iio (0:ℝ), Complex.exp (-((γ : ℂ) + Complex.I * ω) * s) * (gaussW w (t - s) : ℂ) ∧
    MeasureTheory.Integrable (fun s : ℝ => Complex.exp (-((γ : ℂ) + Complex.I * ω) * s) * (gaussW w (t - s) : ℂ)) ∧
    gaussW w (t - 0) = Real.exp (-t ^ 2 / (2 * w ^ 2)) / (w * Real.sqrt (2 * Real.pi)) :=
  ⟨irfKernel_is_convolution_causal γ ω w t hw, irfKernel_is_convolution_anticausal γ ω w t hw,
   convIntegrand_integrable γ ω w t hw.ne', by simp [gaussW]⟩

example : (0 : ℝ) < 1 / 5 := by norm_num

/-- **The matrix contribution of one Gaussian of the IRF is the windowed convolution at the decay model's IRF position**:
    inside the code's window (`t − (c − shift) > −5w` for a rate `≥ 0`, `< 5w` for a rate `< 0` and for PFID) the
    oscillation contribution is `2 · scale ·` (causal resp. anti-causal oscillation `∗` Gaussian) evaluated at
    `t − (c − shift)`, the PFID contribution is minus that; outside the window it is the zero fill. -/
theorem osc_irf_gauss_is_windowed_convolution (γ ω w c shift sc t : ℝ) (hw : 0 < w) :
    (0 ≤ γ → -5 * w < t - (c - shift) →
      oscIrfGauss erfC (γ : ℂ) (ω : ℂ) (shift : ℂ) ((c : ℂ), (w : ℂ), (sc : ℂ)) (t : ℂ) =
        2 * (∫ s in Set.Ioi (0:ℝ), Complex.exp (-((γ : ℂ) + Complex.I * ω) * s) *
          (gaussW w (t - (c - shift) - s) : ℂ)) * sc) ∧
    (γ < 0 → t - (c - shift) < 5 * w →
      oscIrfGauss erfC (γ : ℂ) (ω : ℂ) (shift : ℂ) ((c : ℂ), (w : ℂ), (sc : ℂ)) (t : ℂ) =
        2 * (∫ s in Set.Iio (0:ℝ), Complex.exp (-((γ : ℂ) + Complex.I * ω) * s) *
          (gaussW w (t - (c - shift) - s) : ℂ)) * sc ∧
      pfidGauss erfC (γ : ℂ) (ω : ℂ) (shift : ℂ) ((c : ℂ), (w : ℂ), (sc : ℂ)) (t : ℂ) =
        -(2 * ∫ s in Set.Iio (0:ℝ), Complex.exp (-((γ : ℂ) + Complex.I * ω) * s) *
          (gaussW w (t - (c - shift) - s) : ℂ)) * sc) := by
  have hcast : shiftedTime (t : ℂ) (c : ℂ) (shift : ℂ) = ((t - (c - shift) : ℝ) : ℂ) := by
    simp only [shiftedTime, c_sub]; push_cast; ring
  have h5 : ((mul (ofRat 5) (w : ℂ)) : ℂ).re = 5 * w := by simp only [c_mul, c_ofRat]; norm_num
  have h5' : ((mul (ofRat (-5)) (w : ℂ)) : ℂ).re = -5 * w := by simp only [c_mul, c_ofRat]; norm_num
  have h0 : ((ofRat 0 : ℂ)).re = 0 := by simp only [c_ofRat]; norm_num
  constructor
  · intro hγ hwin
    have hγ' : ¬ ((γ : ℂ)).re < ((ofRat 0 : ℂ)).re := by rw [h0]; simpa using hγ
    have hwin' : ((mul (ofRat (-5)) (w : ℂ)) : ℂ).re < (((t - (c - shift) : ℝ) : ℂ)).re := by
      rw [h5']; simpa using hwin
    simp only [oscIrfGauss, hcast, c_ifLt, if_neg hγ', if_pos hwin']
    simp only [c_mul]
    rw [irfKernel_is_convolution_causal γ ω w (t - (c - shift)) hw]
  · intro hγ hwin
    have hγ' : ((γ : ℂ)).re < ((ofRat 0 : ℂ)).re := by rw [h0]; simpa using hγ
    have hwin' : (((t - (c - shift) : ℝ) : ℂ)).re < ((mul (ofRat 5) (w : ℂ)) : ℂ).re := by
      rw [h5]; simpa using hwin
    constructor
    · simp only [oscIrfGauss, hcast, c_ifLt, if_pos hγ', if_pos hwin']
      simp only [c_mul]
      rw [irfKernel_is_convolution_anticausal γ ω w (t - (c - shift)) hw]
    · simp only [pfidGauss, hcast, c_ifLt, if_pos hwin']
      simp only [c_mul, c_neg]
      rw [irfKernel_is_convolution_anticausal γ ω w (t - (c - shift)) hw]

/-- non-vacuity: rate 1/2, centre 1, shift 1/2, width 1/5: `t = 0` lies inside the causal window -/
example : (0 : ℝ) ≤ 1 / 2 ∧ -5 * (1 / 5 : ℝ) < 0 - (1 - 1 / 2) := by norm_num

/-- **PFID columns are minus the anti-causal (negative-rate) oscillation columns** at the same
    parameters: same kernel, same windows, same effective IRF position, same normalisation. -/
theorem pfid_is_minus_anticausal_osc (erf : ℂ → ℂ) (p : IrfPar ℂ) (γ ω t : ℂ) (hγ : γ.re < 0) :
    (∀ cws, pfidGauss erf γ ω p.shift cws t = -oscIrfGauss erf γ ω p.shift cws t) ∧
    pfidCos erf p γ ω t = -oscIrfCos erf p γ ω t ∧ pfidSin erf p γ ω t = -oscIrfSin erf p γ ω t := by
  have hg := fun cws => pfidGauss_eq_neg erf γ ω p.shift t cws hγ
  have hparts : pfidParts erf p γ ω t = (oscIrfParts erf p γ ω t).map (fun z => -z) := by
    simp only [pfidParts, oscIrfParts, List.map_map]
    apply List.map_congr_left
    intro cws _
    exact hg cws
  refine ⟨hg, ?_, ?_⟩
  · simp only [pfidCos, oscIrfCos, hparts, sumFrom_complex, oscFill, c_div, c_ofRat, List.map_map]
    have := sum_map_neg_re (oscIrfParts erf p γ ω t)
    simp only [Function.comp_def] at this ⊢
    push_cast
    rw [this]; ring
  · simp only [pfidSin, oscIrfSin, hparts, sumFrom_complex, oscFill, c_div, c_ofRat, List.map_map]
    have := sum_map_neg_im (oscIrfParts erf p γ ω t)
    simp only [Function.comp_def] at this ⊢
    push_cast
    rw [this]; ring

example : ((-2 : ℂ)).re < 0 := by norm_num

/-- **The PFID frequency is relative to the probe wavenumber**: `ω = (x_probe − ν) · 0.03 · 2π`,
    the angular frequency of the wavenumber difference; the frequency parameter goes through the
    spectral-axis options first (`scale / ν` if inverted, `ν · scale` if `scale ≠ 1`). -/
theorem pfid_frequency_relative_to_probe (x ν scale : ℝ) :
    pfidFrequency (x : ℂ) (ν : ℂ) = (((x - ν) * (3 / 100) * 2 * Real.pi : ℝ) : ℂ) ∧
    pfidFrequency (x : ℂ) (ν : ℂ) = angular (((x - ν : ℝ)) : ℂ) ∧
    axisConvert true (scale : ℂ) (ν : ℂ) = ((scale / ν : ℝ) : ℂ) ∧
    axisConvert false (1 : ℂ) (ν : ℂ) = (ν : ℂ) ∧
    (scale ≠ 1 → axisConvert false (scale : ℂ) (ν : ℂ) = ((ν * scale : ℝ) : ℂ)) := by
  refine ⟨?_, ?_, ?_, ?_, ?_⟩
  · simp only [pfidFrequency, c_mul, c_sub, c_ofRat, c_pi]; push_cast; ring
  · simp only [pfidFrequency, angular, c_mul, c_sub, c_ofRat, c_pi]; push_cast; ring
  · simp [axisConvert]
  · simp [axisConvert]
  · intro h
    have : (scale : ℂ) ≠ 1 := by exact_mod_cast h
    simp [axisConvert, this]

/-! ## IRF parameters per global index -/

/-- **Index `i` uses the parameters of index `i`** (any number type): the IRF parameters at global
    index `i` depend on the global axis only through its `i`-th coordinate; the shift is the `i`-th
    shift parameter (0 without shifts); a spectral IRF adds the dispersion polynomials in
    `dist(axis[i], dispersion centre)` to every centre / width; a non-spectral IRF has none. -/
theorem irf_parameter_index_plumbing {α : Type} [RNum α] (irf : Irf α) (i : Nat) (axis : List α) :
    (∀ axis', axis[i]? = axis'[i]? → irf.parameter (some i) axis = irf.parameter (some i) axis') ∧
    (∀ p, irf.parameter (some i) axis = .ok p →
      (∀ sh, irf.shifts = some sh → sh[i]? = some p.shift) ∧ (irf.shifts = none → p.shift = ofRat 0)) ∧
    (irf.spectral = false → irf.parameter (some i) axis = irf.baseParameter (some i)) ∧
    (∀ q d x, irf.spectral = true → irf.dispCenter = some d → axis[i]? = some x →
      irf.baseParameter (some i) = .ok q →
      irf.parameter (some i) axis =
        .ok ⟨q.centers.map (addDispersion irf.centerDisp (dispDist irf.wavenumber x d)),
             q.widths.map (addDispersion irf.widthDisp (dispDist irf.wavenumber x d)),
             q.scales, q.shift⟩) := by
  refine ⟨?_, ?_, ?_, ?_⟩
  · intro axis' h
    simp only [Irf.parameter, Option.bind_some, h]
  · intro p h
    unfold Irf.parameter at h
    split at h
    · cases h
    · rename_i q hq
      have hb := baseParameter_shift irf i q hq
      split at h
      · cases h; exact ⟨hb.1, hb.2.1⟩
      · split at h
        · split at h
          · cases h
          · cases h; exact ⟨hb.1, hb.2.1⟩
        · split at h
          · cases h
          · cases h; exact ⟨hb.1, hb.2.1⟩
  · intro hs
    unfold Irf.parameter
    split <;> simp_all
  · intro q d x hs hd hx hq
    simp [Irf.parameter, hq, hs, hd, hx]

example : (⟨[(1 : ℝ)], [2], none, some [10, 20, 30], false, none, [], [], false⟩ : Irf ℝ).parameter
    (some 1) [500, 600, 700] = .ok ⟨[1], [2], [1], 20⟩ := by
  simp [Irf.parameter, Irf.baseParameter, broadcast]

/-- **Slice `i` of an index-dependent matrix is computed from the IRF parameters of index `i`** — for
    the damped oscillation (any number type, any number of oscillations and global indices): the
    matrix has one slice per global index and slice `i` is the column list at
    `irf.parameter(i, global_axis)`; the labels are the `_cos`/`_sin` labels. -/
theorem osc_matrix_slice_i_uses_parameters_i {α : Type} [CNum α] (erf : α → α) (oscs : List (Osc α))
    (irf : Irf α) (gax max : List α) (t : α) (labels : List String) (slices : List (List α))
    (h : oscMatrix erf oscs (some irf) gax max t = .ok (labels, .indexed slices)) :
    labels = oscLabels oscs ∧ slices.length = gax.length ∧
    ∃ dmin, deltaMin max = some dmin ∧ ∀ i (_ : i < gax.length) (h' : i < slices.length),
      ∃ p, irf.parameter (some i) gax = .ok p ∧ slices[i] = oscIrfColumns erf dmin p oscs t := by
  unfold oscMatrix at h
  split at h
  · cases h
  · rename_i dmin hd
    simp only at h
    split at h
    · split at h
      · cases h
      · rename_i sl hsl
        injection h with h
        injection h with h1 h2
        injection h2 with h2
        subst h1 h2
        obtain ⟨hl, hi⟩ := forIndices_ok _ _ _ hsl
        refine ⟨rfl, hl, dmin, hd, ?_⟩
        intro i hin h'
        exact except_map_ok _ _ _ (hi i hin h')
    · split at h
      · cases h
      · cases h

/-- … for PFID, whose frequency additionally uses the probe coordinate `global_axis[i]` -/
theorem pfid_matrix_slice_i_uses_parameters_i {α : Type} [CNum α] (erf : α → α) (allNeg inverted : Bool)
    (scale : α) (oscs : List (Osc α)) (irf : Irf α) (gax : List α) (t : α) (labels : List String)
    (m : Matrix α) (h : pfidMatrix erf allNeg inverted scale oscs (some irf) gax t = .ok (labels, m)) :
    labels = oscLabels oscs ∧ ∃ slices, m = .indexed slices ∧ slices.length = gax.length ∧
    ∀ i (_ : i < gax.length) (h' : i < slices.length),
      ∃ p x, irf.parameter (some i) gax = .ok p ∧ gax[i]? = some x ∧
        slices[i] = pfidColumns erf inverted scale p x oscs t := by
  unfold pfidMatrix at h
  simp only at h
  split at h
  · cases h
  · rename_i sl hsl
    injection h with h
    injection h with h1 h2
    subst h1 h2
    obtain ⟨hl, hi⟩ := forIndices_ok _ _ _ hsl
    refine ⟨rfl, sl, rfl, hl, ?_⟩
    intro i hin h'
    have := hi i hin h'
    split at this
    · cases this
    · cases this
    · rename_i p x hp hx
      split at this
      · cases this
      · split at this
        · cases this
        · injection this with this
          exact ⟨p, x, hp, hx, this.symm⟩

/-- … and for the coherent artifact -/
theorem artifact_matrix_slice_i_uses_parameters_i {α : Type} [RNum α] (label : String) (order : Nat)
    (own : Option α) (irf : Irf α) (gax : List α) (t : α) (labels : List String) (slices : List (List α))
    (h : artifactMatrix label order own (some irf) gax t = .ok (labels, .indexed slices)) :
    labels = artifactLabels label order ∧ slices.length = gax.length ∧
    ∀ i (_ : i < gax.length) (h' : i < slices.length),
      ∃ c w, artifactIrfParameter irf own (some i) gax = .ok (c, w) ∧
        slices[i] = artifactColumns order c w t := by
  unfold artifactMatrix at h
  split at h
  · cases h
  · simp only at h
    split at h
    · split at h
      · cases h
      · rename_i sl hsl
        injection h with h
        injection h with h1 h2
        injection h2 with h2
        subst h1 h2
        obtain ⟨hl, hi⟩ := forIndices_ok _ _ _ hsl
        refine ⟨rfl, hl, ?_⟩
        intro i hin h'
        obtain ⟨cw, h1, h2⟩ := except_map_ok _ _ _ (hi i hin h')
        exact ⟨cw.1, cw.2, h1, h2⟩
    · split at h
      · cases h
      · cases h

/-- non-vacuity: a shifted IRF, two global indices, two slices at `centre - shift_i` -/
example : artifactMatrix "m" 1 none
    (some (⟨[(1 : ℝ)], [2], none, some [10, 20], false, none, [], [], false⟩ : Irf ℝ)) [500, 600] 0
      = .ok (artifactLabels "m" 1,
             .indexed [[artifactGauss (1 - 10) 2 0], [artifactGauss (1 - 20) 2 0]]) := by
  simp [artifactMatrix, Irf.indexDependent, forIndices, List.range, List.range.loop, artifactIrfParameter,
    Irf.parameter, Irf.baseParameter, broadcast, artifactColumns, Except.map]
  rfl

/-- **The dispersion is the documented polynomial**: `value + Σ_j coeff_j · dist^(j+1)` with
    `dist = (x − x_c)/100` (wavelength) or `10³/x − 10³/x_c` (wavenumber). -/
theorem dispersion_poly_spec (coeffs : List ℝ) (dist v x d : ℝ) :
    addDispersion coeffs dist v =
      v + ((coeffs.zipIdx).map (fun ci => ci.1 * dist ^ (ci.2 + 1))).sum ∧
    dispDist false x d = (x - d) / 100 ∧ dispDist true x d = 1000 / x - 1000 / d := by
  refine ⟨?_, by simp [dispDist], by simp [dispDist]⟩
  simp only [addDispersion]
  exact foldl_add_real (fun ci : ℝ × ℕ => mul ci.1 (RNum.pow dist (ci.2 + 1))) _ v

example : addDispersion [(3 : ℝ), 5] 2 1 = 1 + 3 * 2 + 5 * 4 := by
  rw [(dispersion_poly_spec [3, 5] 2 1 0 0).1]; norm_num [List.zipIdx]

/-! ## the formulas are the ones the source text states (translator, DESIGN §5.2)

`GlotaranModel/Generated/C07Fns.lean` is regenerated on every run from the Python source of the shape classes, the
coherent-artifact kernel, the no-IRF numba kernel, both Gaussian-IRF kernels and the axis / frequency conversions.  The
theorems below say: every generated definition equals the hand-written model definition the theorems above are about —
for all arguments, in every number type whose `+` and `*` commute (`CommNum`: ℝ, ℂ, IEEE doubles), so a commutative
reordering in the source leaves them provable while a changed sign, constant, operand, branch or store index does not. -/

set_option linter.unusedSimpArgs false

/-- **`SpectralShapeGaussian.calculate` is `gaussianShape`.** -/
theorem generated_gaussian_eq_model {α : Type} [RNum α] [CommNum α] (amp : Option α) (x0 Δ x : α) :
    Generated.gaussianCalculate amp x0 Δ x = gaussianShape amp x0 Δ x := by
  cases amp <;>
    simp only [Generated.gaussianCalculate, gaussianShape, CommNum.add_comm, CommNum.mul_comm]

/-- the half-maximum theorem holds of the generated definition -/
example : Generated.gaussianCalculate (some (3 : ℝ)) 10 4 12 = 3 / 2 := by
  rw [generated_gaussian_eq_model]
  have := (gaussian_half_max 3 10 4 (by norm_num)).1
  norm_num at this
  exact this

/-- **`SpectralShapeSkewedGaussian.calculate` is `skewedShape`** — including numpy's `allclose` tolerance `1e-8`
    (read from numpy's signature), the `log`-argument mask and the zero fill. -/
theorem generated_skewed_eq_model {α : Type} [RNum α] [CommNum α] (amp : Option α) (x0 Δ b x : α) :
    Generated.skewedCalculate amp x0 Δ b x = skewedShape amp x0 Δ b x := by
  cases amp <;>
    simp only [Generated.skewedCalculate, skewedShape, skewedFormula, skewedTheta, generated_gaussian_eq_model,
      gaussianShape, CommNum.add_comm, CommNum.mul_comm]

example : Generated.skewedCalculate (some (5 : ℝ)) 2 3 (1 / 2) 2 = 5 := by
  rw [generated_skewed_eq_model]; exact (skewed_amplitude 5 2 3 (1 / 2)).2

/-- **Every builtin shape type dispatches to its formula**: the `type` strings of shape.py and the `calculate` each
    class defines, against `Shape.calculate`. -/
theorem generated_shape_dispatch_eq_model {α : Type} [RNum α] [CommNum α] (s : Shape α) (x : α) :
    match s with
    | .gaussian a x0 Δ => Generated.shapeTypes.lookup "gaussian" = some "gaussianCalculate" ∧
        Generated.gaussianCalculate a x0 Δ x = s.calculate x
    | .skewed a x0 Δ b => Generated.shapeTypes.lookup "skewed-gaussian" = some "skewedCalculate" ∧
        Generated.skewedCalculate a x0 Δ b x = s.calculate x
    | .one => Generated.shapeTypes.lookup "one" = some "oneCalculate" ∧ Generated.oneCalculate x = s.calculate x
    | .zero => Generated.shapeTypes.lookup "zero" = some "zeroCalculate" ∧ Generated.zeroCalculate x = s.calculate x := by
  cases s with
  | gaussian a x0 Δ => exact ⟨by decide, generated_gaussian_eq_model a x0 Δ x⟩
  | skewed a x0 Δ b => exact ⟨by decide, generated_skewed_eq_model a x0 Δ b x⟩
  | one => exact ⟨by decide, rfl⟩
  | zero => exact ⟨by decide, rfl⟩

example : (Shape.one : Shape ℝ).calculate 7 = Generated.oneCalculate 7 := rfl

/-- **The stores of the coherent-artifact kernel are the model's**: column 0 unconditionally, column 1 `if order > 1`,
    column 2 `if order > 2`, each with the model's formula (read-backs of `matrix[:, 0]` substituted); the executed stores
    fill the columns `0, 1, …` in order with `artifactColumns order`. -/
theorem generated_artifact_eq_model {α : Type} [RNum α] [CommNum α] (c w t : α) :
    Generated.artifactStores c w t = artifactStoreTable c w t ∧
    ∀ order, (executedStores order (Generated.artifactStores c w t)).map (·.2) = artifactColumns order c w t ∧
      (executedStores order (Generated.artifactStores c w t)).map (·.1) =
        List.range (executedStores order (Generated.artifactStores c w t)).length := by
  have h : Generated.artifactStores c w t = artifactStoreTable c w t := by
    simp only [Generated.artifactStores, artifactStoreTable, artifactGauss, artifactFirst, artifactSecond,
      CommNum.add_comm, CommNum.mul_comm]
  refine ⟨h, ?_⟩
  intro order
  rw [h]
  by_cases h1 : order > 1 <;> by_cases h2 : order > 2 <;>
    first
    | omega
    | simp [executedStores, artifactStoreTable, artifactColumns, h1, h2, List.range_succ]

example : (executedStores 2 (Generated.artifactStores (1 : ℝ) 2 1)).map (·.2) =
    [artifactGauss 1 2 1, artifactFirst 1 2 1] := by
  rw [((generated_artifact_eq_model (1 : ℝ) 2 1).2 2).1]; simp [artifactColumns]

/-- **The numba kernel without IRF stores the model's columns**: the counter starts at 0 and advances by 1, so iteration
    `i` runs with `idx = i`; it stores `Re exp(-γ_i t - iω_i t)` into column `i` and the imaginary part into column
    `i + n` (`n = rates.size`) — the columns `oscNoIrfColumns` has there. -/
theorem generated_noirf_kernel_eq_model {α : Type} [CNum α] [CommNum α] (dmin : α) (oscs : List (Osc α)) (t : α)
    (i : Nat) (hi : i < oscs.length) :
    Generated.noIrfCounter = some (0, 1) ∧
    Generated.noIrfStores oscs.length (0 + 1 * i) (oscFrequency dmin oscs[i].ν) oscs[i].γ t =
      [(i, re (oscNoIrf oscs[i].γ (oscFrequency dmin oscs[i].ν) t)),
       (i + oscs.length, im (oscNoIrf oscs[i].γ (oscFrequency dmin oscs[i].ν) t))] ∧
    ∀ s ∈ Generated.noIrfStores oscs.length (0 + 1 * i) (oscFrequency dmin oscs[i].ν) oscs[i].γ t,
      (oscNoIrfColumns dmin oscs t)[s.1]? = some s.2 := by
  have h : Generated.noIrfStores oscs.length (0 + 1 * i) (oscFrequency dmin oscs[i].ν) oscs[i].γ t =
      [(i, re (oscNoIrf oscs[i].γ (oscFrequency dmin oscs[i].ν) t)),
       (i + oscs.length, im (oscNoIrf oscs[i].γ (oscFrequency dmin oscs[i].ν) t))] := by
    simp only [Generated.noIrfStores, oscNoIrf, Nat.zero_add, Nat.one_mul, CommNum.add_comm, CommNum.mul_comm]
  refine ⟨rfl, h, ?_⟩
  rw [h]
  have hc := osc_noirf_columns_by_label (fun x => x) dmin ⟨[], [], [], ofRat 0⟩ oscs t i hi
  intro s hs
  simp only [List.mem_cons, List.mem_nil_iff, or_false] at hs
  rcases hs with rfl | rfl
  · exact hc.2.2.1
  · rw [Nat.add_comm]; exact hc.2.2.2.1

example : Generated.noIrfStores 2 1 (3 : ℂ) 4 5 = [(1, re (oscNoIrf 4 3 5)), (1 + 2, im (oscNoIrf 4 3 5))] := by
  have := (generated_noirf_kernel_eq_model (1 : ℂ) [⟨"a", 0, 0⟩, ⟨"b", 0, 4⟩] 5 1 (by simp)).2.1
  simp only [Generated.noIrfStores, oscNoIrf, CommNum.add_comm, CommNum.mul_comm]

/-- … and the stores of the `n` iterations reach every one of the `2n` columns of the matrix. -/
theorem generated_noirf_kernel_covers_all_columns {α : Type} [CNum α] (n j : Nat) (ω γ : Nat → α) (t : α)
    (hj : j < 2 * n) :
    ∃ i, i < n ∧ j ∈ (Generated.noIrfStores n (0 + 1 * i) (ω i) (γ i) t).map (·.1) := by
  by_cases h : j < n
  · exact ⟨j, h, by simp [Generated.noIrfStores]⟩
  · refine ⟨j - n, by omega, ?_⟩
    have : j - n + n = j := by omega
    simp [Generated.noIrfStores, this]

example : ∃ i, i < 2 ∧ 3 ∈ (Generated.noIrfStores 2 (0 + 1 * i) (0 : ℂ) 0 0).map (·.1) :=
  generated_noirf_kernel_covers_all_columns 2 3 (fun _ => 0) (fun _ => 0) 0 (by norm_num)

/-- **The frequency conversion, the wrap bound and the spectral-axis options are the source's**:
    `frequency_max = 1 / (2 · 0.03 · delta_min)`, `ν · 0.03 · 2 · π` with the `np.mod` wrap at and above the bound, and
    `scale / v` (inverted) resp. `v · scale` (scale ≠ 1) in the spectral and in the PFID megacomplex. -/
theorem generated_conversions_eq_model {α : Type} [RNum α] [CommNum α] (ν dmin fmax scale v : α) :
    Generated.oscFrequencyMax dmin = frequencyMax dmin ∧
    Generated.oscAngularWrapped ν fmax = wrap (angular ν) fmax ∧
    Generated.oscAngularWrapped ν (Generated.oscFrequencyMax dmin) = oscFrequency dmin ν ∧
    Generated.spectralAxisInverted scale v = axisConvert true scale v ∧
    ifEq scale (ofRat 1) v (Generated.spectralAxisScaled scale v) = axisConvert false scale v ∧
    Generated.pfidAxisInverted scale v = axisConvert true scale v ∧
    ifEq scale (ofRat 1) v (Generated.pfidAxisScaled scale v) = axisConvert false scale v := by
  simp only [Generated.oscFrequencyMax, Generated.oscAngularWrapped, frequencyMax, wrap, angular, oscFrequency,
    Generated.spectralAxisInverted, Generated.spectralAxisScaled, Generated.pfidAxisInverted,
    Generated.pfidAxisScaled, axisConvert, CommNum.add_comm, CommNum.mul_comm, and_self, if_true,
    Bool.false_eq_true, if_false]

example : Generated.oscFrequencyMax (1 : ℝ) = 50 / 3 := by
  rw [(generated_conversions_eq_model (0 : ℝ) 1 0 0 0).1]
  simp only [frequencyMax, r_div, r_mul, r_ofRat]; norm_num

/-- closes one branch of the mask structure of the IRF kernels: identical terms, contradictory masks, products with
    the zero fill, or equality up to the ring laws of ℂ -/
local macro "irf_branch" : tactic =>
  `(tactic| first
    | rfl
    | contradiction
    | (simp only [c_mul, c_neg, c_ofRat, Rat.cast_zero, mul_zero, zero_mul, neg_zero]; done)
    | (simp only [c_add, c_sub, c_mul, c_div, c_neg, c_pow, c_exp, c_ofRat, c_sqrt2, c_pi, c_I]; ring_nf; done))

/-- **`calculate_damped_oscillation_matrix_gaussian_irf` is `oscIrfGauss`**, element by element: the `np.where` windows
    (`shifted < 5σ` with `rates < 0`, `shifted > −5σ` with `rates >= 0`) on zero-filled `a` and `b`, the sign flip of
    `sqwidth`, `a · b · scale`, real block and imaginary block. -/
theorem generated_osc_irf_kernel_eq_model (erf : ℂ → ℂ) (ω γ t c w shift sc : ℂ) :
    Generated.oscIrfKernel erf ω γ t c w shift sc =
      (re (oscIrfGauss erf γ ω shift (c, w, sc) t), im (oscIrfGauss erf γ ω shift (c, w, sc) t)) := by
  simp only [Generated.oscIrfKernel]
  refine Prod.ext (congrArg CNum.re ?_) (congrArg CNum.im ?_) <;>
  · simp only [oscIrfGauss, irfKernel, shiftedTime, c_ifLt]
    split_ifs <;> irf_branch

example (erf : ℂ → ℂ) : (Generated.oscIrfKernel erf 3 (1 / 2) (-3) 1 (1 / 5) 0 1).1 = 0 := by
  rw [generated_osc_irf_kernel_eq_model]
  simp only [oscIrfGauss, shiftedTime, c_ifLt, c_sub, c_mul, c_ofRat]
  norm_num

/-- **`calculate_pfid_matrix_gaussian_irf` is `pfidGauss` at the probe-relative frequency** for a negative rate
    (leading minus, anti-causal window, `(x_probe − ν) · 0.03 · 2π`), and the zero fill for any other rate. -/
theorem generated_pfid_kernel_eq_model (erf : ℂ → ℂ) (ν γ t c w shift sc x : ℂ) :
    (γ.re < 0 → Generated.pfidKernel erf ν γ t c w shift sc x =
      (re (pfidGauss erf γ (pfidFrequency x ν) shift (c, w, sc) t),
       im (pfidGauss erf γ (pfidFrequency x ν) shift (c, w, sc) t))) ∧
    (¬ γ.re < 0 → Generated.pfidKernel erf ν γ t c w shift sc x = (0, 0)) := by
  constructor
  · intro hγ
    have hγ' : γ.re < (ofRat 0 : ℂ).re := by simpa using hγ
    simp only [Generated.pfidKernel]
    refine Prod.ext (congrArg CNum.re ?_) (congrArg CNum.im ?_) <;>
    · simp only [pfidGauss, irfKernel, shiftedTime, pfidFrequency, c_ifLt, if_pos hγ']
      split_ifs <;> irf_branch
  · intro hγ
    have hγ' : ¬ γ.re < (ofRat 0 : ℂ).re := by simpa using hγ
    simp only [Generated.pfidKernel, c_ifLt, if_neg hγ']
    simp

example : ((-2 : ℂ)).re < 0 ∧ ¬ ((1 : ℂ)).re < 0 := by norm_num

/-- **`calculate_damped_oscillation_matrix_gaussian_irf_on_index` is `oscIrfCos` / `oscIrfSin`**: starting from the
    zero fill of `calculate_matrix`, `matrix +=` the kernel at `(center, width, shift, scale)` for every Gaussian of the
    non-strict `zip(centers, widths, scales)` — the four quantities being the first four results of
    `irf.parameter(index, axis)` in this order —, then `/= np.sum(scales)`. -/
theorem generated_osc_irf_on_index_eq_model (erf : ℂ → ℂ) (p : IrfPar ℂ) (γ ω t : ℂ) :
    Generated.oscIrfOnIndexStrict = some false ∧
    (Generated.oscMatrixFill : ℂ) = oscFill ∧
    Generated.oscIrfOnIndex erf oscFill ω γ t p.shift p.centers p.widths p.scales =
      (oscIrfCos erf p γ ω t, oscIrfSin erf p γ ω t) := by
  refine ⟨rfl, rfl, ?_⟩
  simp only [Generated.oscIrfOnIndex, generated_osc_irf_kernel_eq_model, foldl_pair, oscIrfCos, oscIrfSin,
    oscIrfParts, List.map_map, sumFrom_map, Function.comp_def]

example (erf : ℂ → ℂ) : (Generated.oscIrfOnIndex erf oscFill 3 (1 / 2) (-3) 0 [1] [1 / 5] [1]).1 = 0 := by
  have h := (generated_osc_irf_on_index_eq_model erf ⟨[1], [1 / 5], [1], 0⟩ (1 / 2) 3 (-3)).2.2
  simp only at h
  rw [h]
  refine (osc_irf_vanishes_before_pulse erf ⟨[1], [1 / 5], [1], 0⟩ (1 / 2) 3 (-3) (by norm_num) ?_).1
  intro cws hc
  simp only [zip3, List.mem_singleton] at hc
  subst hc
  norm_num

/-- **`calculate_pfid_matrix_gaussian_irf_on_index` is `pfidCos` / `pfidSin`** at the probe-relative frequency (strict zip,
    zero fill, kernel argument `global_axis[global_index]`), for a negative rate. -/
theorem generated_pfid_on_index_eq_model (erf : ℂ → ℂ) (p : IrfPar ℂ) (ν γ t x : ℂ) (hγ : γ.re < 0) :
    Generated.pfidOnIndexStrict = some true ∧
    (Generated.pfidMatrixFill : ℂ) = ofRat 0 ∧
    Generated.pfidOnIndex erf (ofRat 0) ν γ t p.shift x p.centers p.widths p.scales =
      (pfidCos erf p γ (pfidFrequency x ν) t, pfidSin erf p γ (pfidFrequency x ν) t) := by
  refine ⟨rfl, rfl, ?_⟩
  simp only [Generated.pfidOnIndex, (generated_pfid_kernel_eq_model erf ν γ t _ _ _ _ x).1 hγ, foldl_pair, pfidCos,
    pfidSin, pfidParts, List.map_map, sumFrom_map, Function.comp_def]

example : ((-1 / 2 : ℂ)).re < 0 := by norm_num

/-- **The artifact's centre is the source's `center[0] - shift`** (and its matrix starts from zeros). -/
theorem generated_artifact_centre_eq_model {α : Type} [RNum α] [CommNum α] (irf : Irf α) (own : Option α)
    (idx : Option Nat) (axis : List α) (c w : α) (h : artifactIrfParameter irf own idx axis = .ok (c, w)) :
    (Generated.artifactMatrixFill : ℂ) = ofRat 0 ∧
    (∀ c0 shift : α, Generated.artifactCentre c0 shift = decayEffectiveCentre c0 shift) ∧
    ∃ p c0 rest, irf.parameter idx axis = .ok p ∧ p.centers = c0 :: rest ∧
      c = Generated.artifactCentre c0 p.shift := by
  refine ⟨rfl, fun _ _ => rfl, ?_⟩
  obtain ⟨p, c0, rest, h1, h2, h3, _⟩ := artifact_centre_is_decay_centre irf own idx axis c w h
  exact ⟨p, c0, rest, h1, h2, by simpa [Generated.artifactCentre, decayEffectiveCentre] using h3⟩

example : Generated.artifactCentre (3 : ℝ) 5 = 3 - 5 := rfl

end Glotaran.C07
